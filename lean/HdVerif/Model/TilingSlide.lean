import HdVerif.Model.Tiling
import HdVerif.Generated.T7j
import HdVerif.Generated.T7k
import HdVerif.Generated.T7l
import HdVerif.Generated.T7m
/-! C12: `utils.compute_plane_position_slide_per_frame` — the per-frame data of a TILED_FULL image wrapped into plane positions.
The element built per item is regenerated (`Gen.slidePerFrameItem`, T7j: which components of the item become the pixel matrix
position and which the image position; the comprehension itself — one element per item, in order, no condition — is pinned). -/
namespace HdVerif.Tiling
open HdVerif HdVerif.Gen

/-- (column position, row position, x, y, z) of the plane position built for every frame, in frame order -/
def slidePerFrame (channels : List (Option Int)) (planes : Int) (tr tc R C : Int) (g : Geo) (sbs : Rat) :
    Except ErrKind (List (Int × Int × Rat × Rat × Rat)) :=
  match iterTiledFull channels planes tr tc R C g sbs with
  | .error e => .error e
  | .ok l => l.mapM (fun x => slidePerFrameItem (match x.1 with | some c => c | none => 0) x.2.1 x.2.2.1 x.2.2.2.1
      x.2.2.2.2.1 x.2.2.2.2.2.1 x.2.2.2.2.2.2)

/-- geometry whose row and column directions are not parallel and whose spacings are not zero (cross product of the two direction
vectors ≠ 0): the pixel-to-reference map is then injective -/
def Geo.nondegenerate (g : Geo) : Prop :=
  g.sr ≠ 0 ∧ g.sc ≠ 0 ∧ (g.rx * g.cy - g.ry * g.cx ≠ 0 ∨ g.rx * g.cz - g.rz * g.cx ≠ 0 ∨ g.ry * g.cz - g.rz * g.cy ≠ 0)

end HdVerif.Tiling
