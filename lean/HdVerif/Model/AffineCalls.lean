import HdVerif.Model.Affine
import HdVerif.Generated.TC10g
/-! # Calling a transformer on a batch (`__call__` of the six classes of `spatial.py`), property C10

`Model/Affine.lean` applies the transformers to ONE point.  Here is what `__call__` does with a numpy array: the shape and
dtype tests, the homogeneous rows, the 4×4 product, the rows returned, the out-of-plane refusal under `drop_slice_index` /
`drop_slice_coord`, rounding under `round_output`.  All six `__call__`s are ONE interpreter (`callSpec`) of a spec that is
regenerated from the source of each class (target TC10g: `Gen.pixToRefCallSpec` …): a change of a shape test, of the stacked
rows, of the threshold or of the order drop-then-round changes the regenerated spec and with it every theorem below. -/
namespace HdVerif.Affine

/-- a numpy array as `__call__` sees it: number of dimensions, `shape[1]` (when there are at least two), whether the dtype kind
is `'u'` or `'i'`, and - for a two-dimensional array - its rows -/
structure Batch where
  ndim : Nat
  width : Nat
  isInt : Bool
  rows : List (List Rat)
  deriving Repr, Inhabited

/-- a well-formed two-dimensional array of the given width -/
def Batch.ofRows (width : Nat) (isInt : Bool) (rows : List (List Rat)) : Batch := ⟨2, width, isInt, rows⟩

/-- the regenerated description of one `__call__` -/
abbrev CallSpec := Nat × Bool × List Rat × Nat × Option (Nat × Rat × Nat) × Bool

namespace CallSpec
def width (s : CallSpec) : Nat := s.1
def intOnly (s : CallSpec) : Bool := s.2.1
def pad (s : CallSpec) : List Rat := s.2.2.1
def keep (s : CallSpec) : Nat := s.2.2.2.1
def drop (s : CallSpec) : Option (Nat × Rat × Nat) := s.2.2.2.2.1
def hasRound (s : CallSpec) : Bool := s.2.2.2.2.2
end CallSpec

/-- the 4×4 matrix of an affine applied to a homogeneous column `[x, y, z, w]` (first three entries of the product) -/
def Aff.applyHom (a : Aff) : List Rat → Except ErrKind V3
  | [x, y, z, w] => .ok ((a.m.mulVec ⟨x, y, z⟩).add (V3.smul w a.t))
  | _ => .error .value          -- np.dot: shapes not aligned

/-- one row of the batch through the affine: stack the constant rows, multiply, keep the first rows of the product -/
def callRow (s : CallSpec) (a : Aff) (row : List Rat) : Except ErrKind (List Rat) := do
  let v ← a.applyHom (row ++ s.pad)
  pure (v.toList.take s.keep)

/-- the body of `__call__` on the rows of a well-shaped array: product, out-of-plane refusal and cut under the drop flag, THEN
rounding under the rounding flag (rounded entries are returned as integer-valued rationals) -/
def callBody (s : CallSpec) (a : Aff) (dropFlag roundFlag : Bool) (rows : List (List Rat)) : Except ErrKind (List (List Rat)) := do
  let out ← rows.mapM (callRow s a)
  let out ← (match s.drop with
    | some (col, thr, keepCols) =>
      if dropFlag then
        if out.any (fun r => rabs (r.getD col 0) > thr) then .error .runtime
        else pure (out.map (·.take keepCols))
      else pure out
    | none => pure out : Except ErrKind (List (List Rat)))
  if s.hasRound && roundFlag then pure (out.map (·.map (fun x => ((roundHalfEven x : Int) : Rat))))
  else pure out

/-- `__call__` of a transformer with affine `a`, flags `dropFlag` (`drop_slice_index` / `drop_slice_coord`) and `roundFlag`
(`round_output`) -/
def callSpec (s : CallSpec) (a : Aff) (dropFlag roundFlag : Bool) (b : Batch) : Except ErrKind (List (List Rat)) :=
  if b.ndim < 2 then .error .index                      -- `shape[1]` of a 0-d / 1-d array
  else if b.width ≠ s.width then .error .value
  else if s.intOnly && !b.isInt then .error .type
  else if b.ndim ≠ 2 then .error .value                 -- np.vstack: arrays of different dimensions
  else callBody s a dropFlag roundFlag b.rows

/-- what a caller may hand to `__call__`: a numpy array, or a Python list / tuple (flat or nested, well-formed or not) -/
inductive CallArg
  | array (b : Batch)
  | sequence
  deriving Repr, Inhabited

/-- `__call__` on any argument: NO `np.asarray` is applied - the first thing every `__call__` does is `argument.shape[1]` (the
regenerated spec pins that statement), which a list or tuple does not have: AttributeError, however well-formed the nest is -/
def callAny (s : CallSpec) (a : Aff) (dropFlag roundFlag : Bool) : CallArg → Except ErrKind (List (List Rat))
  | .array b => callSpec s a dropFlag roundFlag b
  | .sequence => .error .attribute

/-! ## the six classes: constructor (from `Model/Affine.lean`) then the interpreted `__call__` -/

def pixToRefCall (pos ori : List Rat) (ps : Spacing) (b : Batch) : Except ErrKind (List (List Rat)) := do
  let a ← pixToRefAffine pos ori ps
  callSpec Gen.pixToRefCallSpec a false false b

def refToPixCall (pos ori : List Rat) (ps : Spacing) (sbs : Rat) (roundOutput dropSliceIndex : Bool) (b : Batch) :
    Except ErrKind (List (List Rat)) := do
  let a ← invAffineFromAttributes pos ori ps sbs
  callSpec Gen.refToPixCallSpec a dropSliceIndex roundOutput b

def pixToPixCall (posF oriF : List Rat) (psF : Spacing) (posT oriT : List Rat) (psT : Spacing) (roundOutput : Bool) (b : Batch) :
    Except ErrKind (List (List Rat)) := do
  let a ← pixToPixAffine posF oriF psF posT oriT psT
  callSpec Gen.pixToPixCallSpec a false roundOutput b

def imgToRefCall (pos ori : List Rat) (ps : Spacing) (b : Batch) : Except ErrKind (List (List Rat)) := do
  let a ← imgToRefAffine pos ori ps
  callSpec Gen.imgToRefCallSpec a false false b

def refToImgCall (pos ori : List Rat) (ps : Spacing) (sbs : Rat) (dropSliceCoord : Bool) (b : Batch) :
    Except ErrKind (List (List Rat)) := do
  let a ← refToImgAffine pos ori ps sbs
  callSpec Gen.refToImgCallSpec a dropSliceCoord false b

def imgToImgCall (posF oriF : List Rat) (psF : Spacing) (posT oriT : List Rat) (psT : Spacing) (b : Batch) :
    Except ErrKind (List (List Rat)) := do
  let a ← imgToImgAffine posF oriF psF posT oriT psT
  callSpec Gen.imgToImgCallSpec a false false b

/-! ## the two point helpers, as the source writes them: a transformer, a one-row array, the first row of the result -/

/-- `map_pixel_into_coordinate_system(index, …)`: `np.array([index], dtype=int)` has shape `(1, len(index))` -/
def mapPixelIntoCoordinateSystemB (index : List Int) (pos ori : List Rat) (ps : Spacing) : Except ErrKind V3 := do
  let c := Gen.mapPixelCall index pos ori ps
  let out ← pixToRefCall c.1 c.2.1 c.2.2 (Batch.ofRows index.length true [index.map (fun (i : Int) => ((i : Int) : Rat))])
  match out with
  | [[x, y, z]] => pure ⟨x, y, z⟩
  | _ => .error .index

/-- `map_coordinate_into_pixel_matrix(coordinate, …)`: the transformer is built with its default flags (rounding, slice index
kept); each entry of the first row then goes through Python's `round` once more -/
def mapCoordinateIntoPixelMatrixB (coordinate : List Rat) (pos ori : List Rat) (ps : Spacing) (sbs : Option Rat) :
    Except ErrKind (Int × Int × Int) := do
  let c := Gen.mapCoordinateCall coordinate pos ori ps (sbs.getD Gen.mapCoordinateDefaultSpacingBetweenSlices)
  let out ← refToPixCall c.1 c.2.1 c.2.2.1 (c.2.2.2.getD 1) Gen.refToPixDefaultRound Gen.refToPixDefaultDrop
    (Batch.ofRows coordinate.length false [coordinate])
  match out with
  | [[x, y, z]] => pure (roundHalfEven x, roundHalfEven y, roundHalfEven z)
  | _ => .error .index

end HdVerif.Affine
