import HdVerif.Model.Codec
import HdVerif.Generated.T19a
import HdVerif.Generated.T19b
import HdVerif.Generated.T19s
import HdVerif.Generated.T19m
import HdVerif.Generated.T19l
/-! C19: `pm.ParametricMap`, reading its frames back, `sc.SCImage`.

Translated from the current source (tie T): the pixel data type by dtype (`Gen.pmPixelDataType`), its
attribute (`Gen.pmPixelDataAttr`), the transfer syntaxes admitted (`Gen.pmSyntaxAdmitted`), the bits
written (`Gen.pmBits`), the image pixel module block of `SCImage` (`Gen.scPixelModule`); the frame of a
secondary capture goes through `encode_frame` (C07: `Gen.encodeFrameRoute`, `Codec.encodeFrame`).

Hand-written here (tie C): the constructor's loop nest `for i in planes: for j in mappings`, which
produces the frames and the per-frame functional groups; the pixel data element as the concatenation
of the frames; reading frame `f` back (byte range `f*L .. (f+1)*L`, cells of `itemsize` bytes); the
real-world value mapping found for a frame (shared functional groups first, then the frame's own) and
its application.

Values are **opaque fixed-width cells** (the little-endian bytes of the array item): bit-exactness
includes NaN payloads, infinities and negative zero.  The array is a total function
`(plane i, pixel k, channel j) ↦ cell` plus its shape -- numpy's `pixel_array[i, :, :, j]`. -/
namespace HdVerif.PMap
open HdVerif HdVerif.Gen HdVerif.Codec

abbrev Cell := List Nat
/-- a plane position as the values of the indexed attributes, one component per dimension index: patient
    coordinate system `[[x, y, z]]` (Image Position Patient), slide `[[col], [row], [x], [y], [z]]` -/
abbrev Pos := List (List Rat)

/-- one item of a Real World Value Mapping Sequence -/
structure Mapping where
  label : String
  unit : String
  isLut : Bool
  /-- first / last value mapped (integers for LUT mappings) -/
  first : Rat
  last : Rat
  slope : Rat
  intercept : Rat
  lut : List Rat
  deriving Repr, DecidableEq

structure PMInput where
  dtypeKind : String
  dtypeName : String
  dtypeStr : String
  itemsize : Nat
  /-- rank of the array as given (2, 3 or 4 are supported) -/
  ndim : Nat
  /-- planes, rows, columns, channels after the constructor's normalisation (2-D: n = m = 1, 3-D: m = 1) -/
  n : Nat
  r : Nat
  c : Nat
  m : Nat
  /-- `pixel_array[i].reshape(-1, m)[k, j]` as a cell -/
  cell : Nat → Nat → Nat → Cell
  /-- the mappings were given as a nested sequence (one list per channel) -/
  nested : Bool
  /-- number of mapping lists (a flat sequence counts as one list); 0 = empty argument -/
  nMappingLists : Nat
  maps : Nat → List Mapping
  /-- number of plane positions available (explicit argument, or those of the source images) -/
  nPositions : Nat
  pos : Nat → Pos
  ts : String

structure FrameRecord where
  position : Pos
  dimensionIndex : List Nat
  /-- Real World Value Mapping Sequence of the frame's own functional group, if written -/
  mappings : Option (List Mapping)
  deriving Repr, DecidableEq

structure PMObject where
  /-- keyword of the pixel data element written -/
  element : String
  bitsAllocated : Int
  bitsStored : Int
  highBit : Int
  pixelRepresentation : Int
  rows : Nat
  cols : Nat
  itemsize : Nat
  numberOfFrames : Nat
  /-- the frames in the order they are appended (cells of each plane in row-major order) -/
  frames : List (List Cell)
  /-- Real World Value Mapping Sequence of the shared functional groups, if written -/
  shared : Option (List Mapping)
  perFrame : List FrameRecord

/-! ### the constructor -/

/-- lexicographic order of attribute values (`numpy.unique(..., axis=0)` sorts rows this way) -/
def lexLt : List Rat → List Rat → Bool
  | [], [] => false
  | [], _ :: _ => true
  | _ :: _, [] => false
  | a :: as, b :: bs => if a < b then true else if b < a then false else lexLt as bs

/-- 1-based rank of `v` among the distinct values `vs` -/
def rankIn (vs : List (List Rat)) (v : List Rat) : Nat := 1 + (vs.eraseDups.filter (fun q => lexLt q v)).length

/-- Dimension Index Values of plane `i`: for every indexed attribute the rank of the plane's value among the
    distinct values of all planes -/
def dimensionIndex (x : PMInput) (i : Nat) : List Nat :=
  (List.range (x.pos i).length).map (fun d =>
    match (x.pos i)[d]? with
    | some v => rankIn ((List.range x.n).filterMap (fun k => (x.pos k)[d]?)) v
    | none => 0)

/-- `pixel_array[i, :, :, j]` -/
def plane (x : PMInput) (i j : Nat) : List Cell := (List.range (x.r * x.c)).map (fun k => x.cell i k j)

/-- the checks of the constructor that concern the array, the mappings and the positions -/
def admission (x : PMInput) : Except ErrKind (Int × String × Int × Int × Int × Int) := do
  let _ ← pmSyntaxAdmitted x.ts x.dtypeKind
  if x.ndim ≠ 2 ∧ x.ndim ≠ 3 ∧ x.ndim ≠ 4 then .error .value
  else if x.nMappingLists = 0 then .error .type
  else if decide (x.ndim = 4) != x.nested then .error .type
  -- Rows and Columns (VR US, not 0) must be able to describe the planes
  else if ¬ (1 ≤ x.r ∧ x.r ≤ 65535 ∧ 1 ≤ x.c ∧ x.c ≤ 65535) then .error .value
  else if x.nMappingLists ≠ x.m then .error .value
  else if x.nPositions ≠ x.n then .error .value
  else
    let t ← pmPixelDataType x.dtypeKind x.dtypeName x.dtypeStr
    match pmPixelDataAttr.lookup t with
    | none => .error .key
    | some attr =>
      let (ba, bs, hb, pr) ← pmBits t x.itemsize
      .ok (t, attr, ba, bs, hb, pr)

/-- a loop nest `for i in range(n): for j in range(m)` (reference form used by the proofs; the constructor itself is
    written with the REGENERATED loop skeleton `Gen.pmFrameLoop` etc., `Proofs/PMap.build_ok` relates the two) -/
def loopNest {α} (n m : Nat) (f : Nat → Nat → α) : List α :=
  (List.range n).flatMap (fun i => (List.range m).map (fun j => f i j))

/-- the plane one iteration of the frame loop encodes: `pixel_array[..]` with the regenerated subscript -/
def loopPlane (x : PMInput) (o i : Nat) : List Cell := plane x (pmPlaneSubscript o i).1 (pmPlaneSubscript o i).2

/-- the constructor.  Which plane becomes which frame, which position / dimension index / mappings are attached to it and
    when the mappings are shared is NOT written here: it is the loop skeleton regenerated from `pm/sop.py` (T19l:
    `pmFrameLoop`, `pmPlaneSubscript`, `pmPositionIndex`, `pmMappingIndex`, `pmHasMultipleMappings`,
    `pmSharedMappingIndex`); T19l also checks that one frame and one per-frame item are appended per iteration, that
    `NumberOfFrames = len(frames)` and that the frames are joined into the element chosen by T19a. -/
def build (x : PMInput) : Except ErrKind PMObject := do
  let (_, attr, ba, bs, hb, pr) ← admission x
  let multi := pmHasMultipleMappings x.m
  .ok {
    element := attr, bitsAllocated := ba, bitsStored := bs, highBit := hb, pixelRepresentation := pr,
    rows := x.r, cols := x.c, itemsize := x.itemsize,
    numberOfFrames := (pmFrameLoop x.n x.m (loopPlane x)).length,
    frames := pmFrameLoop x.n x.m (loopPlane x),
    shared := if multi then none else some (x.maps pmSharedMappingIndex),
    perFrame := pmFrameLoop x.n x.m (fun o i =>
      { position := x.pos (pmPositionIndex o i), dimensionIndex := dimensionIndex x (pmPositionIndex o i),
        mappings := if multi then some (x.maps (pmMappingIndex o i)) else none }) }

/-- the native pixel data element: `b''.join(frames)`, each frame `plane.flatten().tobytes()` -/
def PMObject.pixelData (o : PMObject) : List Nat := (o.frames.map List.flatten).flatten

/-! ### reading back -/

/-- `n` cells of `k` bytes -/
def toCells (k : Nat) : Nat → List Nat → List Cell
  | 0, _ => []
  | n + 1, bs => bs.take k :: toCells k n (bs.drop k)

/-- `get_stored_frame` on the native object: the byte range of frame `f` (0-based), cut into cells;
    refused outside the image.  **As the code is**: frame access reads `self.PixelData` (and
    `self.PixelRepresentation`), which a float parametric map does not have -- every frame read of a map
    stored in `FloatPixelData` / `DoubleFloatPixelData` ends in an AttributeError (open finding
    C19-float-frames-unreadable). -/
def readStoredFrame (o : PMObject) (f : Nat) : Except ErrKind (List Cell) :=
  -- the frame number is standardised first (IndexError beyond the image), then the element is read
  if ¬ f < o.numberOfFrames then .error .index
  else if o.element != "PixelData" then .error .attribute
  else
    let len := o.rows * o.cols * o.itemsize
    .ok (toCells o.itemsize (o.rows * o.cols) ((o.pixelData.drop (f * len)).take len))

/-- the Real World Value Mapping Sequence the pixel transform finds for frame `f`: the shared functional
    groups are searched before the frame's own -/
def attachedMappings (o : PMObject) (f : Nat) : Except ErrKind (List Mapping) :=
  match o.shared with
  | some ms => .ok ms
  | none =>
    match o.perFrame[f]? with
    | none => .error .index
    | some rec =>
      match rec.mappings with
      | some ms => .ok ms
      | none => .error .runtime

inductive Selector | index (k : Int) | label (s : String) | unit (u : String)
  deriving Repr, DecidableEq

/-- `_select_real_world_value_map`: Python indexing (negative from the end), first matching label / unit -/
def select (ms : List Mapping) : Selector → Except ErrKind Mapping
  | .index k =>
    let len : Int := ms.length
    if 0 ≤ k ∧ k < len then (match ms[k.toNat]? with | some m => .ok m | none => .error .index)
    else if -len ≤ k ∧ k < 0 then (match ms[(k + len).toNat]? with | some m => .ok m | none => .error .index)
    else .error .index
  | .label s => match ms.find? (fun m => m.label == s) with | some m => .ok m | none => .error .index
  | .unit u => match ms.find? (fun m => m.unit == u) with | some m => .ok m | none => .error .index

/-- apply one mapping to stored (integer) values; values outside the mapped range are refused -/
def applyMapping (mp : Mapping) (vals : List Int) : Except ErrKind (List Rat) :=
  if mp.isLut then
    vals.mapM (fun (v : Int) =>
      let idx : Rat := (v : Rat) - mp.first
      if idx < 0 ∨ idx.den ≠ 1 then .error .value
      else match mp.lut[idx.num.toNat]? with
        | some y => .ok y
        | none => .error .value)
  else if vals.any (fun (v : Int) => (v : Rat) < mp.first ∨ mp.last < (v : Rat)) then .error .value
  else .ok (vals.map (fun (v : Int) => (v : Rat) * mp.slope + mp.intercept))

/-- unsigned integer value of a cell -/
def cellValue (cl : Cell) : Int := (ofLeBytes cl : Int)

/-! ### the encapsulated arm: `_encode_frame` -> `frame.encode_frame`, `encapsulate(frames)` (T19l checks both textually) -/

/-- an encapsulated parametric map: the data set attributes and one item of encapsulated pixel data per frame -/
structure PMEncapsulated where
  obj : PMObject
  items : List (List Nat)

/-- the array `_encode_frame` hands to `encode_frame` in iteration `(o, i)`: the plane, 2-D, with the input's dtype
    (the admitted dtypes of encapsulated maps are uint8 / uint16: the cells are unsigned integers) -/
def planeFrame (x : PMInput) (dt : DType) (o i : Nat) : Frame := ⟨x.r, x.c, none, dt, (loopPlane x o i).map cellValue⟩

/-- the parameters of that call: transfer syntax and the data set's own Bits Allocated / Bits Stored / Photometric
    Interpretation (`MONOCHROME2`) / Pixel Representation -/
def pmParams (ts : String) (o : PMObject) : Params :=
  ⟨ts, o.bitsAllocated, o.bitsStored, "MONOCHROME2", o.pixelRepresentation, none⟩

/-- the constructor with an encapsulated transfer syntax: admission, frame order and metadata as `build`, every plane
    through `encode_frame` (C07's model) and the codec `c` behind it -/
def buildEncapsulated (c : CodecImpl) (x : PMInput) : Except ErrKind PMEncapsulated := do
  let o ← build x
  match DType.ofName x.dtypeStr with
  | none => .error .value
  | some dt =>
    let items ← (pmFrameLoop x.n x.m (planeFrame x dt)).mapM (encodeFrame c (pmParams x.ts o))
    .ok ⟨o, items⟩

/-- `get_stored_frame(f + 1)` on it: item `f`, decoded by `decode_frame` with the data set's attributes -/
def readStoredFrameEncapsulated (c : CodecImpl) (conv : List Int → List Int) (ts : String) (e : PMEncapsulated) (f : Nat) :
    Except ErrKind (List Int) :=
  match e.items[f]? with
  | none => .error .index
  | some b => decodeFrame c conv (pmParams ts e.obj) e.obj.rows e.obj.cols 1 b

/-- `get_frame(f + 1, apply_real_world_transform=True, real_world_value_map_selector=sel)` -/
def readReal (o : PMObject) (f : Nat) (sel : Selector) : Except ErrKind (List Rat) := do
  let stored ← readStoredFrame o f
  let ms ← attachedMappings o f
  let mp ← select ms sel
  applyMapping mp (stored.map cellValue)

/-! ### secondary capture -/

structure SCObject where
  bitsAllocated : Int
  bitsStored : Int
  highBit : Int
  pixelRepresentation : Int
  samplesPerPixel : Int
  planarConfiguration : Option Int
  photometricInterpretation : String
  rows : Nat
  cols : Nat
  /-- the encoded frame (native: the pixel data element itself) -/
  frameBytes : List Nat

/-- the parameters `SCImage.__init__` hands to `encode_frame` -/
def scParams (ts pi : String) (mod : Int × Int × Int × Int × Int × Int) : Params :=
  ⟨ts, mod.1, mod.2.1, pi, mod.2.2.2.1, if mod.2.2.2.2.2 = -1 then none else some mod.2.2.2.2.2⟩

/-- `str(pixel_array.dtype)` of a frame with native byte order -/
def scBuild (c : CodecImpl) (ts pi : String) (bitsAllocated : Int) (x : Frame) : Except ErrKind SCObject := do
  let lastDim : Int := match x.samples with | none => x.cols | some s => s
  let mod ← scPixelModule bitsAllocated pi ts x.dtype.name x.ndim lastDim x.max
  let p := scParams ts pi mod
  let bytes ← encodeFrame c p x
  .ok { bitsAllocated := mod.1, bitsStored := mod.2.1, highBit := mod.2.2.1, pixelRepresentation := mod.2.2.2.1,
        samplesPerPixel := mod.2.2.2.2.1, planarConfiguration := p.planar, photometricInterpretation := pi,
        rows := x.rows, cols := x.cols, frameBytes := bytes }

/-- what pydicom decodes from the written secondary capture (a one-frame image with these attributes) -/
def scDecode (c : CodecImpl) (conv : List Int → List Int) (ts : String) (o : SCObject) : Except ErrKind (List Int) :=
  decodeFrame c conv ⟨ts, o.bitsAllocated, o.bitsStored, o.photometricInterpretation, o.pixelRepresentation, o.planarConfiguration⟩
    o.rows o.cols o.samplesPerPixel.toNat o.frameBytes

end HdVerif.PMap
