import HdVerif.Model.Basic
import HdVerif.Generated.T14
import HdVerif.Generated.T14p
/-! # Model of `highdicom.sr.value_types.ContentSequence` (property C14)

State = the underlying list (`pydicom` `ConstrainedList._list`), the shadow index `_lut`
(concept name ↦ list of items with that name) and the two flags.  Every mutator and query is written
as the (repaired) Python reads, statement by statement, including the order of checks and the
partial effects of an operation that raises half-way (`extend`).  An operation returns the new state
together with `none` (returned normally) or `some kind` (raised).

External components re-defined here (and compared on every step by the correspondence):
`list.append/insert/__setitem__/__delitem__/__getitem__` incl. slices (`sliceAdjust` = CPython
`PySlice_AdjustIndices`), `list.index`, `collections.abc.MutableSequence.pop/remove/reverse/clear`.

An `Item` is what the sequence can see of a content item: its concept name AS A DICT KEY (the class of
`CodedConcept.__hash__` + `__eq__`; two names that are `==` but hash differently — the SRT / SCT aliases, open
finding C14-alias-names-split-index — are different keys), relationship type, whether it is a
`ContainerContentItem`, whether it has a `ContentSequence` attribute, `uid` standing for all the rest of its
content, and `obj` for the identity of the Python object.  Lean equality of items is identity (`is`);
`Item.eqv` is `Dataset.__eq__` (everything but `obj`).  The index is maintained by identity (the repaired removal),
`index` / `in` compare with `==`. -/
namespace HdVerif.SRContentSeq

structure Item where
  name : Nat
  rel : Option Nat
  isContainer : Bool
  hasContent : Bool
  uid : Nat
  obj : Nat
  deriving DecidableEq, Repr

/-- `Dataset.__eq__`: equal content, whatever the object -/
def Item.eqv (a b : Item) : Bool :=
  a.name == b.name && a.rel == b.rel && a.isContainer == b.isContainer && a.hasContent == b.hasContent && a.uid == b.uid

abbrev Lut := Nat → List Item

structure Seq where
  items : List Item
  lut : Lut
  isRoot : Bool
  isSr : Bool

/-- result of an operation: state afterwards, and the error raised (if any) -/
abbrev Res := Seq × Option ErrKind

/-! ## the shadow index -/

def emptyLut : Lut := fun _ => []

/-- `self._lut[it.name].append(it)` -/
def lutAdd (lut : Lut) (it : Item) : Lut :=
  fun n => if n = it.name then lut n ++ [it] else lut n

def lutAddAll (lut : Lut) : List Item → Lut
  | [] => lut
  | x :: xs => lutAddAll (lutAdd lut x) xs

/-- `index = self._lut[i.name].index(i); del self._lut[i.name][index]` (ValueError when absent) -/
def lutRemove (lut : Lut) (it : Item) : Except ErrKind Lut :=
  if it ∈ lut it.name then .ok (fun n => if n = it.name then (lut n).erase it else lut n)
  else .error .value

/-- the removal loop; stops at the first failure with what has been removed so far -/
def lutRemoveAll (lut : Lut) : List Item → Lut × Option ErrKind
  | [] => (lut, none)
  | x :: xs =>
    match lutRemove lut x with
    | .ok lut' => lutRemoveAll lut' xs
    | .error e => (lut, some e)

/-! ## checks -/

def checkAll (f : Item → Except ErrKind Unit) : List Item → Except ErrKind Unit
  | [] => .ok ()
  | x :: xs => match f x with
    | .ok _ => checkAll f xs
    | .error e => .error e

def unitOf (r : Except ErrKind Bool) : Except ErrKind Unit :=
  match r with
  | .ok _ => .ok ()
  | .error e => .error e

/-! The relationship-type decision trees are the ones REGENERATED from the current source
(`Generated/T14.lean`); the model only ever offers content items (`is_item = true`). -/

/-- the per-item checks of `ContentSequence.__init__` -/
def ctorCheck (isRoot isSr : Bool) (it : Item) : Except ErrKind Unit :=
  unitOf (Gen.csCtorCheck isRoot isSr true it.rel.isSome it.isContainer)

/-- the relationship checks of `append` -/
def appendCheck (s : Seq) (it : Item) : Except ErrKind Unit :=
  unitOf (Gen.csAppendCheck s.isRoot s.isSr true it.rel.isSome)

/-- the relationship checks of `insert` -/
def insertCheck (s : Seq) (it : Item) : Except ErrKind Unit :=
  unitOf (Gen.csInsertCheck s.isRoot s.isSr true it.rel.isSome)

/-- the per-item checks of `__setitem__` -/
def setitemCheck (s : Seq) (it : Item) : Except ErrKind Unit :=
  unitOf (Gen.csSetitemCheck s.isRoot s.isSr true it.rel.isSome)

/-- `ContentSequence._check_dataset` (the part about the relationship type) -/
def datasetCheck (isRoot isSr : Bool) (it : Item) : Except ErrKind Unit :=
  if it.rel.isNone && !isRoot && isSr then .error .attribute else .ok ()

/-! ## construction -/

/-- `ContentSequence(items, is_root, is_sr)` -/
def construct (items : List Item) (isRoot isSr : Bool) : Except ErrKind Seq :=
  match Gen.csCtorFlags isRoot isSr with
  | .error e => .error e
  | .ok _ =>
    match checkAll (ctorCheck isRoot isSr) items with
    | .error e => .error e
    | .ok _ => .ok { items := items, lut := lutAddAll emptyLut items, isRoot := isRoot, isSr := isSr }

/-- `ContentSequence.from_sequence(datasets, is_root, is_sr)`; parsing of the single datasets is C13 -/
def fromSequence (items : List Item) (isRoot isSr : Bool) : Except ErrKind Seq :=
  match checkAll (datasetCheck isRoot isSr) items with
  | .error e => .error e
  | .ok _ => construct items isRoot isSr

/-! ## append / extend / += / insert -/

def append (s : Seq) (it : Item) : Res :=
  match appendCheck s it with
  | .error e => (s, some e)
  | .ok _ => ({ s with lut := lutAdd s.lut it, items := s.items ++ [it] }, none)

/-- `for item in val: self.append(item)` — items before a refused one stay in -/
def extend (s : Seq) : List Item → Res
  | [] => (s, none)
  | x :: xs =>
    match append s x with
    | (s', none) => extend s' xs
    | (s', some e) => (s', some e)

/-- `list.insert` position: negative counts from the end, everything is clamped -/
def insertPos (n : Nat) (pos : Int) : Nat :=
  if pos < 0 then (if pos + n < 0 then 0 else (pos + n).toNat)
  else if pos > n then n else pos.toNat

def insert (s : Seq) (pos : Int) (it : Item) : Res :=
  match insertCheck s it with
  | .error e => (s, some e)
  | .ok _ =>
    let p := insertPos s.items.length pos
    ({ s with lut := lutAdd s.lut it, items := s.items.take p ++ it :: s.items.drop p }, none)

/-- `insert(position, it)` with a position that is not an int (`1.0`, `None`, a string): the checks come first,
then `list.insert` raises TypeError — before the index is touched (repaired order) -/
def insertBad (s : Seq) (it : Item) : Res :=
  match insertCheck s it with
  | .error e => (s, some e)
  | .ok _ => (s, some .type)

/-! ## arguments that are not content items (a plain `Dataset`, a string, …)

Every entry path tests `isinstance(x, ContentItem)` first (`is_item = false` arm of the REGENERATED decision trees):
TypeError, nothing changes — except that `extend` / `+=` keep the content items that came before the intruder. -/

/-- outcome of a regenerated check for something that is not a content item (it has no relationship type to ask for) -/
def otherRefusal (r : Except ErrKind Bool) : Option ErrKind :=
  match r with
  | .error e => some e
  | .ok _ => some .attribute            -- (unreachable while the source tests the type first: `non_items_are_refused`)

/-- `seq.append(other)` -/
def appendOther (s : Seq) : Res := (s, otherRefusal (Gen.csAppendCheck s.isRoot s.isSr false false))

/-- `seq.extend(pre ++ [other] ++ …)` / `seq += …`: `pre` is appended item by item, then the intruder is refused -/
def extendOther (s : Seq) (pre : List Item) : Res :=
  match extend s pre with
  | (s', none) => appendOther s'
  | (s', some e) => (s', some e)

/-- `seq.insert(pos, other)` -/
def insertOther (s : Seq) : Res := (s, otherRefusal (Gen.csInsertCheck s.isRoot s.isSr false false))

/-- `seq[i] = other` and `seq[a:b:c] = pre ++ [other] ++ …`: the per-item loop runs before anything is touched; the
first offending entry decides the error -/
def setOther (s : Seq) (pre : List Item) : Res :=
  match checkAll (setitemCheck s) pre with
  | .error e => (s, some e)
  | .ok _ => (s, otherRefusal (Gen.csSetitemCheck s.isRoot s.isSr false false))

/-! ## indices and slices of the underlying list -/

/-- `list[i]` index normalisation: IndexError outside `-n ≤ i < n` -/
def normIdx (n : Nat) (i : Int) : Except ErrKind Nat :=
  let j := if i < 0 then i + n else i
  if 0 ≤ j ∧ j < n then .ok j.toNat else .error .index

/-- CPython `PySlice_AdjustIndices` for one bound -/
def adjustBound (n : Int) (step : Int) (v : Int) : Int :=
  if v < 0 then (if v + n < 0 then (if step < 0 then -1 else 0) else v + n)
  else if v ≥ n then (if step < 0 then n - 1 else n)
  else v

/-- `slice(start, stop, step).indices(n)` for `step ≠ 0` -/
def sliceAdjust (n : Nat) (start stop : Option Int) (step : Int) : Int × Int :=
  let s := match start with
    | none => if step < 0 then (n : Int) - 1 else 0
    | some v => adjustBound n step v
  let e := match stop with
    | none => if step < 0 then -1 else (n : Int)
    | some v => adjustBound n step v
  (s, e)

/-- a resolved slice: `plain a b` = positions `a .. b-1` (step 1, `a ≤ b`), `ext asc rev` = an extended
slice whose positions in ascending order are `asc`; `rev` when the slice runs downwards -/
inductive Sel
  | plain (a b : Nat)
  | ext (asc : List Nat) (rev : Bool)
  deriving DecidableEq, Repr

def resolveSlice (n : Nat) (start stop step : Option Int) : Except ErrKind Sel :=
  let st := step.getD 1
  if st = 0 then .error .value
  else
    let (s, e) := sliceAdjust n start stop st
    if st = 1 then
      .ok (.plain s.toNat (if e < s then s.toNat else e.toNat))
    else if st > 0 then
      let len := if s < e then (e - s - 1) / st + 1 else 0
      .ok (.ext (List.range' s.toNat len.toNat st.toNat) false)
    else
      let k := -st
      let len := if e < s then (s - e - 1) / k + 1 else 0
      .ok (.ext (List.range' (s - (len - 1) * k).toNat len.toNat k.toNat) true)

/-- the slice's positions in slice order (what `range(*slice.indices(n))` lists) -/
def Sel.positions : Sel → List Nat
  | .plain a b => List.range' a (b - a)
  | .ext asc rev => if rev then asc.reverse else asc

/-- items at positions `idxs`, in list order -/
def keepIdxs (l : List Item) (idxs : List Nat) (off : Nat := 0) : List Item :=
  ((l.zipIdx off).filter (fun p => idxs.contains p.2)).map (·.1)

/-- the list without the positions `idxs` -/
def removeIdxs (l : List Item) (idxs : List Nat) (off : Nat := 0) : List Item :=
  ((l.zipIdx off).filter (fun p => !idxs.contains p.2)).map (·.1)

/-- `list[slice]` -/
def getSel (l : List Item) : Sel → List Item
  | .plain a b => (l.drop a).take (b - a)
  | .ext asc rev => if rev then (keepIdxs l asc).reverse else keepIdxs l asc

/-- `del list[slice]` -/
def delSel (l : List Item) : Sel → List Item
  | .plain a b => l.take a ++ l.drop b
  | .ext asc _ => removeIdxs l asc

/-- walk along the list (current position `pos`) and put the next element of `xs` wherever the position
is one of `idxs`; `none` when `xs` runs out or is not used up -/
def setWalk : List Item → List Nat → List Item → Nat → Option (List Item)
  | [], _, [], _ => some []
  | [], _, _ :: _, _ => none
  | a :: l, idxs, xs, pos =>
    if idxs.contains pos then
      match xs with
      | x :: xs' => (setWalk l idxs xs' (pos + 1)).map (x :: ·)
      | [] => none
    else (setWalk l idxs xs (pos + 1)).map (a :: ·)

/-- `list[slice] = xs` (ValueError when an extended slice and `xs` differ in length) -/
def setSel (l : List Item) (xs : List Item) : Sel → Except ErrKind (List Item)
  | .plain a b => .ok (l.take a ++ xs ++ l.drop b)
  | .ext asc rev =>
    if xs.length ≠ asc.length then .error .value
    else match setWalk l asc (if rev then xs.reverse else xs) 0 with
      | some l' => .ok l'
      | none => .error .runtime

/-! ## `__setitem__` / `__delitem__` -/

/-- tail of `__setitem__`: the list has been assigned, now the index is brought up to date -/
def commitReplace (s : Seq) (items' old new : List Item) : Res :=
  match lutRemoveAll s.lut old with
  | (lut1, some e) => ({ s with items := items', lut := lut1 }, some e)
  | (lut1, none) => ({ s with items := items', lut := lutAddAll lut1 new }, none)

/-- `seq[i] = x` -/
def setItem (s : Seq) (i : Int) (x : Item) : Res :=
  match setitemCheck s x with
  | .error e => (s, some e)
  | .ok _ =>
    match normIdx s.items.length i with
    | .error e => (s, some e)
    | .ok k => commitReplace s (s.items.set k x) ((s.items.drop k).take 1) [x]

/-- `seq[start:stop:step] = xs` -/
def setSlice (s : Seq) (start stop step : Option Int) (xs : List Item) : Res :=
  match checkAll (setitemCheck s) xs with
  | .error e => (s, some e)
  | .ok _ =>
    match resolveSlice s.items.length start stop step with
    | .error e => (s, some e)
    | .ok sel =>
      match setSel s.items xs sel with
      | .error e => (s, some e)
      | .ok items' => commitReplace s items' (getSel s.items sel) xs

/-- tail of `__delitem__`: first the index entries go, then the list positions -/
def commitDelete (s : Seq) (items' old : List Item) : Res :=
  match lutRemoveAll s.lut old with
  | (lut1, some e) => ({ s with lut := lut1 }, some e)
  | (lut1, none) => ({ s with items := items', lut := lut1 }, none)

/-- `del seq[i]` -/
def delItem (s : Seq) (i : Int) : Res :=
  match normIdx s.items.length i with
  | .error e => (s, some e)
  | .ok k => commitDelete s (s.items.take k ++ s.items.drop (k + 1)) ((s.items.drop k).take 1)

/-- `del seq[start:stop:step]` -/
def delSlice (s : Seq) (start stop step : Option Int) : Res :=
  match resolveSlice s.items.length start stop step with
  | .error e => (s, some e)
  | .ok sel => commitDelete s (delSel s.items sel) (getSel s.items sel)

/-! ## queries -/

/-- `seq.index(x)`: look-up table first (ValueError), then the position in the list -/
def index (s : Seq) (x : Item) : Except ErrKind Nat :=
  if (s.lut x.name).any (fun y => y.eqv x) then          -- `matches.index(val)`: some entry is == val
    if s.items.findIdx (fun y => y.eqv x) < s.items.length then .ok (s.items.findIdx (fun y => y.eqv x))
    else .error .value                                   -- `super().index(val)`: first position that is == val
  else .error .value

/-- `x in seq` -/
def contains (s : Seq) (x : Item) : Bool :=
  match index s x with
  | .ok _ => true
  | .error _ => false

/-- a new sequence with the same flags, filled through `extend` (what `find` / `get_nodes` do) -/
def collect (s : Seq) (xs : List Item) : Except ErrKind Seq :=
  match construct [] s.isRoot s.isSr with
  | .error e => .error e
  | .ok e =>
    match extend e xs with
    | (r, none) => .ok r
    | (_, some err) => .error err

/-- `seq.find(name)` -/
def find (s : Seq) (n : Nat) : Except ErrKind Seq := collect s (s.lut n)

/-- `seq.get_nodes()` -/
def getNodes (s : Seq) : Except ErrKind Seq := collect s (s.items.filter (·.hasContent))

/-! ## `MutableSequence` mixins (they only use the methods above) -/

/-- `pop(i)`: `v = self[i]; del self[i]` -/
def pop (s : Seq) (i : Option Int) : Res := delItem s (i.getD (-1))

/-- `remove(x)`: `del self[self.index(x)]` -/
def remove (s : Seq) (x : Item) : Res :=
  match index s x with
  | .error e => (s, some e)
  | .ok k => delItem s k

/-- one round of `reverse`: `self[i], self[n-i-1] = self[n-i-1], self[i]` -/
def swap (s : Seq) (i j : Nat) : Res :=
  match s.items[j]?, s.items[i]? with
  | some b, some a =>
    match setItem s i b with
    | (s1, none) => setItem s1 j a
    | (s1, some e) => (s1, some e)
  | _, _ => (s, some .index)

def reverseLoop (n : Nat) : Nat → Seq → Res
  | 0, s => (s, none)
  | k + 1, s =>
    -- rounds i = n/2 - (k+1) … n/2 - 1
    let i := n / 2 - (k + 1)
    match swap s i (n - i - 1) with
    | (s1, none) => reverseLoop n k s1
    | (s1, some e) => (s1, some e)

/-- `reverse()`: `n = len(self); for i in range(n//2): swap` -/
def reverse (s : Seq) : Res := reverseLoop s.items.length (s.items.length / 2) s

/-- `clear()`: `while True: self.pop()` until IndexError -/
def clearLoop : Nat → Seq → Res
  | 0, s => (s, some .runtime)
  | fuel + 1, s =>
    match pop s none with
    | (s1, none) => clearLoop fuel s1
    | (s1, some .index) => (s1, none)
    | (s1, some e) => (s1, some e)

def clear (s : Seq) : Res := clearLoop (s.items.length + 1) s

/-! ## histories -/

inductive Op
  | append (x : Item)
  | extend (xs : List Item)
  | iadd (xs : List Item)
  | extendSelf                        -- `seq.extend(seq)` / `seq += seq`: the argument is copied first
  | insert (pos : Int) (x : Item)
  | insertBad (x : Item)
  | setItem (i : Int) (x : Item)
  | setSlice (start stop step : Option Int) (xs : List Item)
  | delItem (i : Int)
  | delSlice (start stop step : Option Int)
  | pop (i : Option Int)
  | remove (x : Item)
  | reverse
  | clear
  | intoFind (n : Nat)
  | intoNodes
  | appendOther                                   -- `seq.append(<not a ContentItem>)`
  | extendOther (pre : List Item)                 -- `seq.extend(pre ++ [<not a ContentItem>, …])` / `+=`
  | insertOther                                   -- `seq.insert(pos, <not a ContentItem>)`
  | setOther (pre : List Item)                    -- `seq[i] = <not a ContentItem>` / `seq[a:b:c] = pre ++ [<not …>, …]`
  deriving Repr

def intoRes (s : Seq) : Except ErrKind Seq → Res
  | .ok r => (r, none)
  | .error e => (s, some e)

def step (s : Seq) : Op → Res
  | .append x => append s x
  | .extend xs => extend s xs
  | .iadd xs => extend s xs
  | .extendSelf => extend s s.items
  | .insert pos x => insert s pos x
  | .insertBad x => insertBad s x
  | .setItem i x => setItem s i x
  | .setSlice a b c xs => setSlice s a b c xs
  | .delItem i => delItem s i
  | .delSlice a b c => delSlice s a b c
  | .pop i => pop s i
  | .remove x => remove s x
  | .reverse => reverse s
  | .clear => clear s
  | .intoFind n => intoRes s (find s n)
  | .intoNodes => intoRes s (getNodes s)
  | .appendOther => appendOther s
  | .extendOther pre => extendOther s pre
  | .insertOther => insertOther s
  | .setOther pre => setOther s pre

/-- the state after a whole history (refused operations leave their — possibly partial — effect) -/
def run (s : Seq) : List Op → Seq
  | [] => s
  | op :: ops => run (step s op).1 ops

/-! ## copies of the objects

`copy.deepcopy(seq)` / `pickle.loads(pickle.dumps(seq))`: `ContentSequence` defines neither `__deepcopy__` nor
`__reduce__` (`Gen.csMethods`), so CPython rebuilds `_list` and `_lut` from copies of the items, one copy per object
(memo), each standing where its original stood — in the list and in its bucket. -/

/-- the same content in another object -/
def relabelItem (f : Nat → Nat) (it : Item) : Item := { it with obj := f it.obj }

/-- `deepcopy(seq)` with `f` naming the copies -/
def relabel (f : Nat → Nat) (s : Seq) : Seq :=
  { s with items := s.items.map (relabelItem f), lut := fun n => (s.lut n).map (relabelItem f) }

/-! ## several sequences alive at once

A second sequence arises from a first one by `ContentSequence(seq, …)` or by assigning `seq` to the
`ContentSequence` attribute of an item (which wraps it in a new `ContentSequence` with default flags).  The
constructor indexes the items afresh, so in this (functional) model the pool members are independent values;
`Model/SRSeqHeap.lean` re-does the index with explicit locations for the per-name lists, where sharing could be
expressed, and proves that the regenerated programs never share. -/

inductive PoolOp
  | on (i : Nat) (op : Op)     -- an operation on pool member `i mod size`
  | clone (i : Nat)            -- `ContentSequence(pool[i], is_root=…, is_sr=…)` with the member's own flags
  | attach (i : Nat)           -- `item.ContentSequence = pool[i]` → a non-root SR sequence
  deriving Repr

/-- the pool holds at most three sequences; a fourth replaces the last -/
def poolPut (pool : List Seq) (q : Seq) : List Seq :=
  if pool.length < 3 then pool ++ [q] else pool.set 2 q

def poolStep (pool : List Seq) : PoolOp → List Seq × Option ErrKind
  | .on i op =>
    match pool[i % pool.length]? with
    | none => (pool, some .index)
    | some s => match step s op with
      | (s', e) => (pool.set (i % pool.length) s', e)
  | .clone i =>
    match pool[i % pool.length]? with
    | none => (pool, some .index)
    | some s => match construct s.items s.isRoot s.isSr with
      | .ok q => (poolPut pool q, none)
      | .error e => (pool, some e)
  | .attach i =>
    match pool[i % pool.length]? with
    | none => (pool, some .index)
    | some s => match construct s.items false true with
      | .ok q => (poolPut pool q, none)
      | .error e => (pool, some e)

def poolRun (pool : List Seq) : List PoolOp → List Seq
  | [] => pool
  | op :: ops => poolRun (poolStep pool op).1 ops

/-! ## the interpreter of the regenerated method programs (`Generated/T14p.lean`, language `Model/SRSeqIR.lean`)

`Props/C14.lean` proves that the operations above ARE `run… Gen.csProg_…`: the index maintenance and the queries
of the model are what the current source says, statement by statement. -/
open HdVerif.SRSeqIR

/-- the index argument of a method -/
inductive Idx
  | none
  | pos (p : Int)                     -- `position` of `insert`
  | int (i : Int)                     -- `idx` of `__setitem__` / `__delitem__`, an int
  | slice (a b c : Option Int)        -- … a slice

/-- a resolved index -/
inductive RIdx
  | one (k : Nat)
  | sel (s : Sel)

def resolveIdx (n : Nat) : Idx → Except ErrKind RIdx
  | .int i => match normIdx n i with
    | .ok k => .ok (.one k)
    | .error e => .error e
  | .slice a b c => match resolveSlice n a b c with
    | .ok s => .ok (.sel s)
    | .error e => .error e
  | _ => .error .type

/-- `self[idx]` as a list -/
def getR (l : List Item) : RIdx → List Item
  | .one k => (l.drop k).take 1
  | .sel s => getSel l s

def setR (l xs : List Item) : RIdx → Except ErrKind (List Item)
  | .one k => match xs with
    | [x] => .ok (l.set k x)
    | _ => .error .type
  | .sel s => setSel l xs s

def delR (l : List Item) : RIdx → List Item
  | .one k => l.take k ++ l.drop (k + 1)
  | .sel s => delSel l s

/-- machine state: the sequence and the items bound by `bindOld` -/
structure MSt where
  s : Seq
  old : List Item

def checkFn (fl : Bool × Bool) (s : Seq) : CheckId → Item → Except ErrKind Unit
  | .ctor => ctorCheck fl.1 fl.2
  | .append => appendCheck s
  | .insert => insertCheck s
  | .setitem => setitemCheck s

/-- `for item in val: <f>(item)`, stopping at the first item that raises -/
def eachCall (f : List Item → Seq → Res) : List Item → Seq → Res
  | [], s => (s, none)
  | x :: xs, s =>
    match f [x] s with
    | (s', none) => eachCall f xs s'
    | (s', some e) => (s', some e)

/-- one statement; `call` = the methods it may invoke, `fl` = the constructor's flag arguments,
`idx` = the index argument, `args` = the offered items -/
def execStmt (call : MethodId → List Item → Seq → Res) (fl : Bool × Bool) (idx : Idx) (args : List Item) (σ : MSt) :
    MStmt → MSt × Option ErrKind
  | .setFlags => ({ σ with s := { σ.s with isRoot := fl.1, isSr := fl.2 } }, none)
  | .flags => match Gen.csCtorFlags fl.1 fl.2 with
    | .error e => (σ, some e)
    | .ok _ => (σ, none)
  | .lutInit => ({ σ with s := { σ.s with lut := emptyLut } }, none)
  | .normArgs => (σ, none)
  | .checkEach c => match checkAll (checkFn fl σ.s c) args with
    | .error e => (σ, some e)
    | .ok _ => (σ, none)
  | .bindOld => match resolveIdx σ.s.items.length idx with
    | .error e => (σ, some e)
    | .ok r => ({ σ with old := getR σ.s.items r }, none)
  | .lutAppendArgs => ({ σ with s := { σ.s with lut := lutAddAll σ.s.lut args } }, none)
  | .lutRemoveOld => match lutRemoveAll σ.s.lut σ.old with
    | (lut1, e) => ({ σ with s := { σ.s with lut := lut1 } }, e)
  | .listInit => ({ σ with s := { σ.s with items := args } }, none)
  | .listAppend => ({ σ with s := { σ.s with items := σ.s.items ++ args } }, none)
  | .listInsert => match idx with
    | .pos p =>
      let q := insertPos σ.s.items.length p
      ({ σ with s := { σ.s with items := σ.s.items.take q ++ (args ++ σ.s.items.drop q) } }, none)
    | _ => (σ, some .type)
  | .listAssign => match resolveIdx σ.s.items.length idx with
    | .error e => (σ, some e)
    | .ok r => match setR σ.s.items args r with
      | .error e => (σ, some e)
      | .ok l => ({ σ with s := { σ.s with items := l } }, none)
  | .listDelete => match resolveIdx σ.s.items.length idx with
    | .error e => (σ, some e)
    | .ok r => ({ σ with s := { σ.s with items := delR σ.s.items r } }, none)
  | .forEachArg m => match eachCall (call m) args σ.s with
    | (s', e) => ({ σ with s := s' }, e)
  | .call m => match call m args σ.s with
    | (s', e) => ({ σ with s := s' }, e)

def execProg (call : MethodId → List Item → Seq → Res) (fl : Bool × Bool) (idx : Idx) (args : List Item) :
    List MStmt → MSt → MSt × Option ErrKind
  | [], σ => (σ, none)
  | st :: r, σ =>
    match execStmt call fl idx args σ st with
    | (σ', none) => execProg call fl idx args r σ'
    | (σ', some e) => (σ', some e)

def runWith (call : MethodId → List Item → Seq → Res) (prog : List MStmt) (idx : Idx) (args : List Item) (s : Seq) : Res :=
  match execProg call (s.isRoot, s.isSr) idx args prog ⟨s, []⟩ with
  | (σ, e) => (σ.s, e)

def noCall : MethodId → List Item → Seq → Res := fun _ _ s => (s, some .runtime)

def runAppend (args : List Item) (s : Seq) : Res := runWith noCall Gen.csProg_append .none args s

def call1 : MethodId → List Item → Seq → Res
  | .append => runAppend
  | .extend => fun _ s => (s, some .runtime)

def runExtend (args : List Item) (s : Seq) : Res := runWith call1 Gen.csProg_extend .none args s

def call2 : MethodId → List Item → Seq → Res
  | .append => runAppend
  | .extend => runExtend

def runIadd (args : List Item) (s : Seq) : Res := runWith call2 Gen.csProg_iadd .none args s
def runInsert (pos : Int) (args : List Item) (s : Seq) : Res := runWith call2 Gen.csProg_insert (.pos pos) args s
def runSetitem (idx : Idx) (args : List Item) (s : Seq) : Res := runWith call2 Gen.csProg_setitem idx args s
def runDelitem (idx : Idx) (s : Seq) : Res := runWith call2 Gen.csProg_delitem idx [] s
/-- `insert` with a position that is not an int: no position to hand to `list.insert` -/
def runInsertBad (args : List Item) (s : Seq) : Res := runWith call2 Gen.csProg_insert .none args s

/-- the constructor: the program runs on a blank object; an error means no object -/
def runInit (items : List Item) (isRoot isSr : Bool) : Except ErrKind Seq :=
  match execProg call2 (isRoot, isSr) .none items Gen.csProg_init ⟨{ items := [], lut := emptyLut, isRoot := false, isSr := true }, []⟩ with
  | (σ, none) => .ok σ.s
  | (_, some e) => .error e

/-- `ContentSequence([…, other, …])`: the first statement of the REGENERATED constructor program that looks at the single
items decides how something that is not a content item is refused — `self._lut[i.name]` (a plain `Dataset` has no `name`:
AttributeError) or the `isinstance` arm of the checks (TypeError).  (`str` / `None` / `int` do not get that far: pydicom's
`Sequence.__init__` refuses what is not a `Dataset`.)  No object exists afterwards either way. -/
def ctorOtherRefusal : List MStmt → Option ErrKind
  | [] => none
  | .lutAppendArgs :: _ => some .attribute
  | .checkEach _ :: _ => some .type
  | _ :: r => ctorOtherRefusal r

/-- construction from items among which one is not a content item -/
def constructOther : Except ErrKind Seq :=
  match ctorOtherRefusal Gen.csProg_init with
  | some e => .error e
  | none => .error .runtime

def flagOf (own : Bool) : FlagSrc → Bool
  | .own => own
  | .constTrue => true
  | .constFalse => false

/-- `find` / `get_nodes` as the regenerated program says -/
def execCollect (p : CollectProg) (s : Seq) (n : Nat) : Except ErrKind Seq :=
  let r := flagOf s.isRoot p.root
  let sr := flagOf s.isSr p.sr
  let src := match p.src with
    | .bucketOfName => s.lut n
    | .nodesOfSelf => s.items.filter (·.hasContent)
  match p.via with
  | .constructor => construct src r sr
  | .extend =>
    match construct [] r sr with
    | .error e => .error e
    | .ok e =>
      match extend e src with
      | (q, none) => .ok q
      | (_, some err) => .error err

/-- `index` as the regenerated program says -/
def execIndex (p : IndexProg) (s : Seq) (x : Item) : Except ErrKind Nat :=
  if !p.bucketKeyIsArgName then .error .other
  else
    let bucket := s.lut x.name
    if p.membershipInBucket && !(bucket.any (fun y => y.eqv x)) then .error .value
    else match p.result with
      | .listIndex =>
        if s.items.findIdx (fun y => y.eqv x) < s.items.length then .ok (s.items.findIdx (fun y => y.eqv x)) else .error .value
      | .bucketIndex => .ok (bucket.findIdx (fun y => y.eqv x))

end HdVerif.SRContentSeq
