import HdVerif.Model.Affine
/-! # Model of slice-stack recognition and ordering (`spatial.py`, property C11)

`get_volume_positions`, `get_series_volume_positions`, `get_plane_sort_index` / `sort_datasets`,
`_get_slice_distances`, and the order in which `get_volume_from_series` / `Image.get_volume` place
planes.  Exact rational arithmetic.

Modelling decisions (DESIGN 8, C11):
* `np.unique(axis=0, return_inverse=True)` = the strictly lexicographically sorted list of distinct rows
  (`uniqueRows`) + the index of each input row in it (`indexIn`);
* `np.argsort(d)` / `np.argsort(np.argsort(d))` = *rank by counting*: `rank i = #{j | d j < d i ∨ (d j = d i ∧
  j < i)}` (`ranks`), `d[argsort]` = the sorted list (`sortRat`), `sort_index[0]` / `[-1]` = the elements
  of rank `0` / `n-1`; that numpy computes exactly this is part of tie C;
* tolerances: `np.isclose(a, b, rtol, atol)` is `|a − b| ≤ atol + rtol·|b|` (`Affine.isClose`);
* the perpendicularity test `| n·span/‖span‖ ∓ 1 | < 0.001` is evaluated in squared form
  (`a ≠ 0 ∧ (1−t)²·q < a² < (1+t)²·q`, `a = n·span`, `q = span·span`), which is equivalent over ℝ and needs no
  square root;
* `None, None` is `.ok none`; exceptions are `.error`. -/
namespace HdVerif.Stack
open HdVerif HdVerif.Affine

/-- lexicographic order of rows (the order of `np.unique(axis=0)`) -/
def lexLt (a b : V3) : Bool :=
  decide (a.x < b.x) || (decide (a.x = b.x) && (decide (a.y < b.y) || (decide (a.y = b.y) && decide (a.z < b.z))))

/-- insert a row into a strictly sorted list of distinct rows -/
def insertUniq (p : V3) : List V3 → List V3
  | [] => [p]
  | q :: qs => if lexLt p q then p :: q :: qs else if p = q then q :: qs else q :: insertUniq p qs

/-- `np.unique(rows, axis=0)` -/
def uniqueRows (ps : List V3) : List V3 := ps.foldr insertUniq []

/-- `unique_index[i]`: where input row `p` sits among the unique rows -/
def indexIn (u : List V3) (p : V3) : Nat := u.idxOf p

/-- insertion of a number into an ascending list -/
def insertRat (x : Rat) : List Rat → List Rat
  | [] => [x]
  | y :: ys => if x ≤ y then x :: y :: ys else y :: insertRat x ys

/-- `d[np.argsort(d)]`: the values in ascending order -/
def sortRat (d : List Rat) : List Rat := d.foldr insertRat []

/-- ranks of the elements of `suf` inside `all`, `pre` being the elements before them: the number of
elements that sort before it (smaller anywhere, or equal and earlier). -/
def ranksAux (all : List Rat) : List Rat → List Rat → List Nat
  | _, [] => []
  | pre, x :: xs => (all.countP (fun y => decide (y < x)) + pre.countP (fun y => decide (y = x))) :: ranksAux all (pre ++ [x]) xs

/-- `np.argsort(np.argsort(d))`, declaratively: *rank by counting*.  Ties are broken by position here; numpy
leaves the order of ties unspecified, which only matters for stacks in which distinct positions have the
same distance (they are refused, see `Props/C11.lean`). -/
def ranks (d : List Rat) : List Nat := ranksAux d [] d

/-- the element (of a list parallel to `d`) whose distance has rank `r` -/
def atRank {α} (xs : List α) (rk : List Nat) (r : Nat) : Option α :=
  ((xs.zip rk).find? fun p => p.2 == r).map (·.1)

/-- `np.argsort(d)` as a list of indices (`get_plane_sort_index`): position `r` holds the index of rank `r` -/
def argsort (d : List Rat) : List Nat :=
  let rk := ranks d
  (List.range d.length).filterMap fun r => rk.idxOf? r

/-- `np.diff` -/
def diffs : List Rat → List Rat
  | x :: y :: rest => (y - x) :: diffs (y :: rest)
  | _ => []

def minList : List Rat → Option Rat
  | [] => none
  | x :: xs => some (xs.foldl min x)

/-- `_DOT_PRODUCT_PERPENDICULAR_TOLERANCE` (translated constant) -/
def perpTol : Rat := Gen.perpendicularTolerance
/-- `_DEFAULT_SPACING_RELATIVE_TOLERANCE` (translated constant) -/
def defaultRtol : Rat := Gen.spacingRelativeTolerance

/-- `abs(dot − 1) < tol or abs(dot + 1) < tol` for `dot = n·span / ‖span‖`, in squared form -/
def isPerpendicular (n span : V3) : Bool :=
  let a := n.dot span
  let q := span.dot span
  decide (a ≠ 0) && decide ((1 - perpTol) * (1 - perpTol) * q < a * a) && decide (a * a < (1 + perpTol) * (1 + perpTol) * q)

structure Opts where
  rtol : Option Rat := none
  atol : Option Rat := none
  sort : Bool := true
  allowMissing : Bool := false
  allowDuplicate : Bool := false
  hint : Option Rat := none
  conv : List Char := Gen.volumeIndexConvention
  rightHanded : Bool := true
  enforce : Bool := false

def rowsToV3 (rows : List (List Rat)) : Except ErrKind (List V3) :=
  rows.mapM fun r => match V3.ofList r with
    | some v => .ok v
    | none => .error .value

/-- spacing, regularity and the index of every examined row, without gaps allowed: mean spacing between
the extreme distances, every consecutive difference close to it, index = rank. -/
def spacingRegular (dSorted : List Rat) (rk : List Nat) (hint : Option Rat) (rtol atol : Rat) :
    Except ErrKind (Rat × Bool × List Int) :=
  match dSorted.head?, dSorted.getLast? with
  | some lo, some hi =>
    let s := (hi - lo) / ((dSorted.length : Rat) - 1)
    let reg := (diffs dSorted).all fun x => isClose x s rtol atol
    match hint with
    | some h => if !isClose (rabs s) h rtol atol then .error .runtime else .ok (s, reg, rk.map Int.ofNat)
    | none => .ok (s, reg, rk.map Int.ofNat)
  | _, _ => .error .index

/-- refinement of the estimated spacing over growing baselines (defect C11-gaps-min-gap-estimate, repaired): for the distance
`D` of each plane above the lowest one, in increasing order, `n = round(D / s)` and, if `n > 0`, the estimate becomes `D / n`.
The smallest gap carries the rounding of two positions; taken at face value it is multiplied by the plane number. -/
def refineSpacing (s : Rat) (ds : List Rat) : Rat :=
  ds.foldl (fun s D => if 0 < roundHalfEven (D / s) then D / ((roundHalfEven (D / s) : Int) : Rat) else s) s

/-- the spacing `get_volume_positions` estimates when gaps are allowed and no hint is given: the smallest consecutive
difference (`none` when that is zero within `1e-5`), refined over the distances above the lowest plane -/
def estimateSpacing (dSorted : List Rat) : Except ErrKind (Option Rat) :=
  match minList (diffs dSorted) with
  | some m => if isClose m 0 npRtol eqTol then pure none
              else pure (some (refineSpacing m (dSorted.tail.map fun x => x - dSorted.headD 0)))
  | none => .error .value

/-- the same with gaps allowed: spacing = hint or the estimate `estimateSpacing` (smallest consecutive difference, `none` when that is
zero within `1e-5`, refined over the extent), index = rounded multiple of the spacing above the lowest distance, regular iff
every multiple is within `rtol + atol/|spacing|` of its rounding, i.e. every plane within `atol + rtol·|spacing|`
(mm) of a whole multiple of the spacing above the lowest plane (repaired behaviour, defect
C11-gaps-tolerance-grows: the tolerance used to be relative to the multiple) AND the examined (distinct) rows get pairwise distinct
indices (repaired behaviour, defect C11-gaps-planes-share-index: two rows at one multiple — related by an in-plane translation, or
closer together than the tolerance — are not a regularly spaced stack). -/
def spacingMissing (d dSorted : List Rat) (hint : Option Rat) (rtol atol : Rat) :
    Except ErrKind (Option (Rat × Bool × List Int)) := do
  let sp ← (match hint with
    | some h => pure (some h)
    | none => estimateSpacing dSorted : Except ErrKind (Option Rat))
  match sp, minList d with
  | some s, some dmin =>
    let mult := d.map fun x => (x - dmin) / s
    let rounded := mult.map roundHalfEven
    let reg := ((mult.zip rounded).all fun mr => isClose mr.1 (mr.2 : Rat) 0 (rtol + atol / rabs s)) && decide rounded.Nodup
    pure (some (s, reg, rounded))
  | _, _ => pure none

/-- everything `get_volume_positions` does with the rows `u` it examines (at least two): distances along
the normal, ranks, spacing, regularity, handedness, perpendicularity.  Result: `|spacing|` and the volume
index of every examined row, or `none`. -/
def examine (nrm : V3) (u : List V3) (sorted allowMissing : Bool) (hint : Option Rat) (rtol atol : Rat)
    (enforce : Bool) : Except ErrKind (Option (Rat × List Int)) := do
  let d := u.map nrm.dot
  let rk : List Nat := if sorted then ranks d else List.range d.length
  let dSorted := if sorted then sortRat d else d
  let r ← (if allowMissing then spacingMissing d dSorted hint rtol atol
           else (spacingRegular dSorted rk hint rtol atol).map some)
  match r with
  | none => pure none      -- smallest spacing is zero: `return None, None`
  | some (sp, regular, inv) =>
    if regular && enforce && sp < 0 then pure none
    else
      match atRank u rk 0, atRank u rk (u.length - 1) with
      | some p1, some p2 =>
        if regular && isPerpendicular nrm (p2.sub p1) then pure (some (rabs sp, inv)) else pure none
      | _, _ => .error .index

/-- option handling of `get_volume_positions` before any position is looked at -/
def normaliseOpts (o : Opts) : Except ErrKind (Option Rat × Rat × Rat) := do
  if !o.sort && o.allowDuplicate then .error .value
  else if !o.sort && o.allowMissing then .error .value
  else do
    let hint ← (match o.hint with
      | none => pure none
      | some h => let h' := if h < 0 then -h else h
                  if h' = 0 then .error .value else pure (some h') : Except ErrKind (Option Rat))
    let (rtol, atol) ← (match o.rtol, o.atol with
      | some _, some _ => .error .type
      | none, some a => pure (0, a)
      | some r, none => pure (r, 0)
      | none, none => pure (defaultRtol, 0) : Except ErrKind (Rat × Rat))
    pure (hint, rtol, atol)

/-- look every input row up among the examined rows and read its volume index -/
def readIndices (inv : List Int) (uidx : List Nat) : Except ErrKind (List Int) :=
  uidx.mapM fun k => (match inv[k]? with
    | some v => pure v
    | none => .error .index : Except ErrKind Int)

/-- `get_volume_positions` on parsed rows, given the normal vector -/
def volumePositionsOf (nrm : V3) (ps : List V3) (o : Opts) (hint : Option Rat) (rtol atol : Rat) :
    Except ErrKind (Option (Rat × List Int)) := do
  let n := ps.length
  let uniq := uniqueRows ps
  if !o.allowDuplicate && uniq.length < n then pure none
  else do
    -- the rows that are examined, and for every input row its index among them
    let u := if o.sort then uniq else ps
    let uidx : List Nat := if o.sort then ps.map (indexIn uniq) else List.range n
    if u.length = 1 then pure (some (hint.getD 1, ps.map fun _ => 0))
    else do
      let r ← examine nrm u o.sort o.allowMissing hint rtol atol o.enforce
      match r with
      | none => pure none
      | some (sp, inv) => do
        let vp ← readIndices inv uidx
        pure (some (sp, vp))

/-- `get_volume_positions`.  Result `.ok none` is `(None, None)`. -/
def getVolumePositions (rows : List (List Rat)) (ori : List Rat) (o : Opts) :
    Except ErrKind (Option (Rat × List Int)) := do
  let (hint, rtol, atol) ← normaliseOpts o
  if rows.isEmpty then .error .value     -- np.array([]) is one-dimensional
  else do
    let ps ← rowsToV3 rows
    if ps.length = 1 then pure (some (hint.getD 1, [0]))
    else do
      let oo ← (match Ori.ofList ori with | some x => pure x | none => .error .value : Except ErrKind Ori)
      let cv ← normConvention o.conv
      let nrm ← normalVector oo cv o.rightHanded
      volumePositionsOf nrm ps o hint rtol atol

/-- `get_plane_sort_index` -/
def planeSortIndex (rows : List (List Rat)) (ori : List Rat) (conv : List Char) (rightHanded : Bool) :
    Except ErrKind (List Nat) := do
  let ps ← rowsToV3 rows
  if rows.isEmpty then .error .value
  else do
    let oo ← (match Ori.ofList ori with | some x => pure x | none => .error .value : Except ErrKind Ori)
    let cv ← normConvention conv
    let nrm ← normalVector oo cv rightHanded
    pure (argsort (ps.map nrm.dot))

/-- `sort_datasets`: the datasets (any payload) in the order of `get_plane_sort_index` -/
def sortDatasets {α} (items : List (List Rat × α)) (ori : List Rat) (conv : List Char) (rightHanded : Bool) :
    Except ErrKind (List α) := do
  let idx ← planeSortIndex (items.map (·.1)) ori conv rightHanded
  pure (idx.filterMap fun i => (items[i]?).map (·.2))

/-- the spacing hint of a series (repaired behaviour, defect C11-series-hint-first-dataset): the value of
`SpacingBetweenSlices` the datasets agree on — exactly one distinct value among those that carry the attribute —
whatever their order; no hint when none carries it or when the values conflict. -/
def commonHint (sbs : List (Option Rat)) : Option Rat :=
  match sbs.filterMap id with
  | [] => none
  | v :: vs => if vs.all (fun x => x == v) then some v else none

/-- `[series[vol_positions.index(i)] for i in range(len(series))]` -/
def seriesOrder {α} (items : List α) (vp : List Int) : Except ErrKind (List α) :=
  (List.range items.length).mapM fun (i : Nat) =>
    match vp.idxOf? (Int.ofNat i) with
    | some k => (match items[k]? with | some it => .ok it | none => .error .index : Except ErrKind α)
    | none => .error .value      -- list.index raises ValueError

/-- `get_volume_from_series` (geometry and frame order): slice `i` of the volume is the dataset whose volume
index is `i`; the volume's position is that of slice 0.  `sbs` are the datasets' `SpacingBetweenSlices`
(parallel to `items`): their common value is the spacing hint; a single dataset gives its own value or 1. -/
def assembleSeries {α} (items : List (List Rat × α)) (sbs : List (Option Rat)) (ori : List Rat) (rtol atol : Option Rat) :
    Except ErrKind (Rat × List Rat × List α) := do
  if items.length = 0 then .error .index
  else if items.length = 1 then
    match items with
    | x :: _ => pure ((sbs.head?.join).getD 1, x.1, [x.2])
    | [] => .error .index
  else do
    let r ← getVolumePositions (items.map (·.1)) ori { rtol := rtol, atol := atol, hint := commonHint sbs }
    match r with
    | none => .error .value
    | some (sp, vp) => do
      let order ← seriesOrder items vp
      match order with
      | first :: _ => pure (sp, first.1, order.map (·.2))
      | [] => .error .index

/-- `max(volume_positions)` -/
def maxList : List Int → Option Int
  | [] => none
  | x :: xs => some (xs.foldl max x)

/-- `Image._get_stacked_volume_geometry` without slice selection (geometry and frame placement of
`Image.get_volume` / `get_volume_geometry`): volume positions of the frames (duplicates allowed there, the shared
`SpacingBetweenSlices` as hint), number of slices `max + 1`, origin = position of the first frame with index 0,
frame `f` goes to slice `vp[f]`.  Result: spacing, origin row, number of slices, slice of every frame. -/
def assembleFrames (rows : List (List Rat)) (ori : List Rat) (hint rtol atol : Option Rat) (allowMissing : Bool) :
    Except ErrKind (Rat × List Rat × Int × List Int) := do
  let r ← getVolumePositions rows ori
    { rtol := rtol, atol := atol, allowDuplicate := true, allowMissing := allowMissing, hint := hint }
  match r with
  | none => .error .runtime
  | some (sp, vp) =>
    match maxList vp, vp.idxOf? 0 with
    | some m, some k =>
      match rows[k]? with
      | some origin => pure (sp, origin, m + 1, vp)
      | none => .error .index
    | _, _ => .error .value

/-- `Image._get_stacked_volume_geometry` WITH slice selection (`get_volume(slice_start, slice_end, as_indices=True)`, indices
already zero-based and non-negative — their standardisation `_standardize_slice_indices` is property C03's): the volume is
assembled as `assembleFrames` does, then `geometry[slice_start:slice_end]` moves the origin `slice_start` spacings along the
normal of the volume and keeps `slice_end − slice_start` slices; a frame is kept iff its slice lies in the range and then sits
`slice_start` slices lower.  `slice_end` beyond the volume is an IndexError, an empty range a ValueError.
Result: spacing, origin row, number of slices, (zero-based frame, slice) of every kept frame. -/
def assembleFramesSel (rows : List (List Rat)) (ori : List Rat) (hint rtol atol : Option Rat) (allowMissing : Bool)
    (start stop : Nat) : Except ErrKind (Rat × List Rat × Int × List (Nat × Int)) := do
  let (sp, origin, n, vp) ← assembleFrames rows ori hint rtol atol allowMissing
  if n < (stop : Int) then .error .index
  else if stop ≤ start then .error .value
  else
    let oo ← (match Ori.ofList ori with | some x => pure x | none => .error .value : Except ErrKind Ori)
    let cv ← normConvention Gen.volumeIndexConvention
    let nrm ← normalVector oo cv true
    match V3.ofList origin with
    | none => .error .value
    | some o =>
      let o' := o.add (V3.smul ((start : Rat) * sp) nrm)
      pure (sp, o'.toList, (stop : Int) - (start : Int),
            vp.zipIdx.filterMap fun (v, f) => if (start : Int) ≤ v ∧ v < (stop : Int) then some (f, v - (start : Int)) else none)

/-- `get_series_volume_positions` on single-frame datasets given as (orientation, position) pairs with their
`SpacingBetweenSlices` values `sbs`; the hint is their common value (`commonHint`).  Differing orientations (compared
exactly, as the code compares the attribute values) are `(None, None)`. -/
def seriesVolumePositions (items : List (List Rat × List Rat)) (sbs : List (Option Rat)) (o : Opts) :
    Except ErrKind (Option (Rat × List Int)) :=
  match items with
  | [] => .error .value
  | [_] => .ok (some (1, [0]))
  | first :: rest =>
    if rest.any (fun it => it.1 != first.1) then .ok none
    else getVolumePositions (items.map (·.2)) first.1 { o with hint := commonHint sbs }

end HdVerif.Stack
