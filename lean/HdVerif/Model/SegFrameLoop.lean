import HdVerif.Model.SegGeom
import HdVerif.Generated.TC03loop
import HdVerif.Generated.TC03idxval
import HdVerif.Generated.TC03dist
/-! # The frames a segmentation stores (C03)

Executable model of the part of `Segmentation.__init__` (seg/sop.py) that decides, for a stack of planes in the
patient coordinate system, WHICH frames are stored, in WHICH order, with WHICH plane position and WHICH
DimensionIndexValues:

* `planeSortIndex`   `DimensionIndexSequence.get_index_values(plane_positions, image_orientation, VOLUME_INDEX_CONVENTION)`
                     (seg/content.py): distance of every plane along the right-handed (D, R) normal,
                     `np.unique(distances, return_index=True)` — distinct values ascending with the index of their first
                     occurrence — refused when two planes share a distance;
* `includedPlanes`   `_get_nonempty_plane_indices` behind `omit_empty_frames` (the switch is turned off when every
                     plane is empty) and the removal of omitted planes from the sort index;
* `frameLoop`        the loop `for segment_number in segments_iterable: for plane_dim_ind, plane_index in
                     enumerate(plane_sort_index, 1)`: a frame of a segment that is absent from a plane is skipped
                     (only with `omit_empty_frames`), the frame carries `pixel_array[plane_index]`,
                     `plane_positions[plane_index]` and the dimension index value `plane_dim_ind`;
* `framesStack`      what the read side then sees (positions and ReferencedSegmentNumber per frame, in frame order).

The regenerated pieces (`Gen.frameSkipped`, `Gen.framePlaneIndexValue`, `Gen.frameEnumStart`, `Gen.omitEffective`,
TC03loop) are tied to the hand-written loop by the bridge theorems of `Proofs/SegFrameLoop.lean`. -/
namespace HdVerif.SegFrameLoop
open HdVerif HdVerif.Gen HdVerif.SegGeom HdVerif.SegGeom.V3

/-- insertion of `(d, i)` into a list strictly ascending in `d`; an entry with the same `d` is REPLACED — the caller
inserts from the last plane to the first, so the entry that stays is the first occurrence -/
def insertKey (d : Rat) (i : Nat) : List (Rat × Nat) → List (Rat × Nat)
  | [] => [(d, i)]
  | (e, j) :: t =>
    if d < e then (d, i) :: (e, j) :: t
    else if d = e then (d, i) :: t
    else (e, j) :: insertKey d i t

/-- `np.unique(values, return_index=True)` on (value, index) pairs: distinct values ascending, each with the index of
its first occurrence -/
def uniqueSorted : List (Rat × Nat) → List (Rat × Nat)
  | [] => []
  | (d, i) :: t => insertKey d i (uniqueSorted t)

/-- `get_index_values` (patient branch) on the distances of the planes: the order in which the planes are stored;
"Input image/frame positions are not unique …" (ValueError) when two planes lie at the same distance -/
def planeSortIndex (ds : List Rat) : Except ErrKind (List Nat) :=
  let u := uniqueSorted ds.zipIdx
  if u.length = ds.length then .ok (u.map (fun p => p.2)) else .error .value

/-- indices of the planes with a non-zero pixel (`_get_nonempty_plane_indices`, first component) -/
def nonemptyIdx (nonempty : List Bool) : List Nat :=
  (nonempty.zipIdx.filter (fun p => p.1)).map (fun p => p.2)

/-- the `omit_empty_frames` the frame loop sees: switched off when every plane is empty -/
def omitEff (nonempty : List Bool) (om : Bool) : Bool := om && !(nonemptyIdx nonempty).isEmpty

/-- `plane_sort_index` after the omission step: `[ind for ind in plane_sort_index if ind in included_plane_indices_set]`
when planes are omitted, unchanged otherwise -/
def includedPlanes (psi : List Nat) (nonempty : List Bool) (om : Bool) : List Nat :=
  if omitEff nonempty om then psi.filter (fun k => (nonemptyIdx nonempty).contains k) else psi

/-- one stored frame -/
structure Frame where
  /-- ReferencedSegmentNumber; `none` for a label map -/
  seg : Option Nat
  /-- index of the input plane whose pixels the frame carries (`pixel_array[…]`) -/
  plane : Nat
  /-- index of the input plane whose position the frame records (`plane_positions[…]`); the loop takes both from the same
  `plane_index` — that they coincide is not built into the structure but follows from the regenerated bookkeeping block
  `Gen.frameBookkeeping` (bridge `frame_loop_uses_the_source`) -/
  posPlane : Nat
  /-- `plane_dim_ind`: the entry of DimensionIndexValues for the position dimension -/
  div : Int
deriving DecidableEq, Repr

/-- the skip of the plane loop: only frames of an individual segment, only with `omit_empty_frames`, only when the
segment has no pixel in the plane -/
def skipped (s : Option Nat) (om present : Bool) : Bool := s.isSome && om && !present

/-- the inner loop `for plane_dim_ind, plane_index in enumerate(plane_sort_index, d)` for one segment -/
def planeFrames (s : Option Nat) (om : Bool) (present : Option Nat → Nat → Bool) : Int → List Nat → List Frame
  | _, [] => []
  | d, p :: t =>
    if skipped s om (present s p) then planeFrames s om present (d + 1) t
    else ⟨s, p, p, d⟩ :: planeFrames s om present (d + 1) t

/-- `segments_iterable` -/
def segmentsIterable (labelmap : Bool) (described : List Nat) : List (Option Nat) :=
  if labelmap then [none] else described.map some

/-- the two nested loops; `plane_dim_ind` starts at the regenerated `Gen.frameEnumStart` -/
def frameLoop (segs : List (Option Nat)) (psi : List Nat) (om : Bool) (present : Option Nat → Nat → Bool) : List Frame :=
  segs.flatMap (fun s => planeFrames s om present frameEnumStart psi)

/-- the frames `Segmentation.__init__` stores for planes at `pos` (input order) with the recorded orientation
`(rowCos, colCos)`; `nonempty[k]` = plane `k` has a non-zero pixel in some segment, `present s k` = segment `s` has a
pixel in plane `k` -/
def segFrames (pos : List V3) (rowCos colCos : V3) (nonempty : List Bool) (om : Bool) (segs : List (Option Nat))
    (present : Option Nat → Nat → Bool) : Except ErrKind (List Frame) :=
  match planeSortIndex (pos.map (dot (normal rowCos colCos))) with
  | .error e => .error e
  | .ok psi => .ok (frameLoop segs (includedPlanes psi nonempty om) (omitEff nonempty om) present)

/-- DimensionIndexValues of a frame (`_get_pffg_item`: `[int(segment_number)] + dimension_index_values`) -/
def Frame.indexValues (f : Frame) : List Int :=
  match f.seg with
  | none => [f.div]
  | some s => [(s : Int), f.div]

/-- positions of the frames, in frame order -/
def framePositionsOf (pos : List V3) (frames : List Frame) : Option (List V3) := frames.mapM (fun f => pos[f.posPlane]?)

/-- what the read side sees of the stored frames: per-frame positions and segment numbers in frame order, shared
orientation and measures -/
def framesStack (rowCos colCos : V3) (psRow psCol : Rat) (hint : Option Rat) (pos : List V3) (frames : List Frame) :
    Except ErrKind Stack :=
  match framePositionsOf pos frames with
  | none => .error .index
  | some ps => .ok { rowCos := rowCos, colCos := colCos, psRow := psRow, psCol := psCol, hint := hint, pos := ps,
                     chan := frames.filterMap (fun f => f.seg) }

/-! ## tiled total pixel matrix (slide coordinate system, `tile_pixel_array=True`)

* `tileGrid`       the tiles `compute_tile_positions_per_frame` enumerates (row by row), by the 1-based offset of their
                   first pixel in the total pixel matrix;
* `tilePosition`   the slide coordinates it computes for a tile (`PixelToReferenceTransformer` on the 0-based offset);
* `rankOf`         `np.where(np.unique(values) == v)[0][0] + 1`: the dimension index value of `v` among the values of the
                   stored tiles;
* `tileFrames`     the frame loop for TILED_SPARSE: `plane_sort_index = np.arange(n)` filtered by the non-empty tiles,
                   segments outside, per-frame skip as for stacks, DimensionIndexValues = ranks of (row, column, x, y, z). -/

/-- 1-based (row, column) offsets of the tiles of an `R × C` matrix cut into `tr × tc` tiles, row by row -/
def tileGrid (R C tr tc : Nat) : List (Int × Int) :=
  (List.range ((R + tr - 1) / tr)).flatMap (fun i =>
    (List.range ((C + tc - 1) / tc)).map (fun j => (((i * tr : Nat) : Int) + 1, ((j * tc : Nat) : Int) + 1)))

/-- slide coordinates of the tile whose first pixel is at the 1-based offset `(r, c)`: the total-pixel-matrix origin moved
`c − 1` columns along the row direction and `r − 1` rows along the column direction -/
def tilePosition (origin rowCos colCos : V3) (psRow psCol : Rat) (r c : Int) : V3 :=
  add (add origin (smul (((r - 1 : Int) : Rat) * psRow) colCos)) (smul (((c - 1 : Int) : Rat) * psCol) rowCos)

/-- distinct elements (first occurrences) -/
def distinctRat : List Rat → List Rat
  | [] => []
  | a :: t => a :: (distinctRat t).filter (fun b => b != a)

/-- 1-based position of `v` among the sorted distinct `vals` (for `v ∈ vals`): one more than the number of distinct
smaller values -/
def rankOf (vals : List Rat) (v : Rat) : Int := 1 + ((distinctRat (vals.filter (fun x => decide (x < v)))).length : Int)

/-- one stored tile -/
structure TileFrame where
  seg : Option Nat
  /-- index of the tile in `tileGrid` (the pixels of the frame are the tile at `row`, `col` of the mask) -/
  tile : Nat
  row : Int
  col : Int
  pos : V3
  /-- DimensionIndexValues without the segment entry: (row, column, x, y, z) -/
  div : List Int
deriving Repr

/-- a tile of the grid: 1-based (row, column) offset and slide coordinates -/
abbrev Tile := (Int × Int) × V3

/-- the plane loop over the kept tiles `(tile, index in the grid)`; `vals` = the kept tiles (for the dimension index values) -/
def tileFramesOf (s : Option Nat) (om : Bool) (present : Option Nat → Nat → Bool) (vals : List Tile) :
    List (Tile × Nat) → List TileFrame
  | [] => []
  | (q, t) :: rest =>
    if skipped s om (present s t) then tileFramesOf s om present vals rest
    else
      ⟨s, t, q.1.1, q.1.2, q.2,
        [rankOf (vals.map (fun k => (k.1.1 : Rat))) (q.1.1 : Rat), rankOf (vals.map (fun k => (k.1.2 : Rat))) (q.1.2 : Rat),
         rankOf (vals.map (fun k => k.2.x)) q.2.x, rankOf (vals.map (fun k => k.2.y)) q.2.y, rankOf (vals.map (fun k => k.2.z)) q.2.z]⟩
        :: tileFramesOf s om present vals rest

/-- the tiles with their slide coordinates, in the order of `compute_tile_positions_per_frame` -/
def tilesOf (origin rowCos colCos : V3) (psRow psCol : Rat) (R C tr tc : Nat) : List Tile :=
  (tileGrid R C tr tc).map (fun rc => (rc, tilePosition origin rowCos colCos psRow psCol rc.1 rc.2))

/-- the kept tiles with their index in the grid: `plane_sort_index = np.arange(n)` after the omission step -/
def keptTiles (tiles : List Tile) (nonempty : List Bool) (om : Bool) : List (Tile × Nat) :=
  tiles.zipIdx.filter (fun p => (includedPlanes (List.range tiles.length) nonempty om).contains p.2)

/-- frames of a TILED_SPARSE segmentation built from one total-pixel-matrix mask: `nonempty[t]` = tile `t` of the grid has
a non-zero pixel, `present s t` = segment `s` has a pixel in tile `t` -/
def tileFrames (origin rowCos colCos : V3) (psRow psCol : Rat) (R C tr tc : Nat) (nonempty : List Bool) (om : Bool)
    (segs : List (Option Nat)) (present : Option Nat → Nat → Bool) : List TileFrame :=
  let kept := keptTiles (tilesOf origin rowCos colCos psRow psCol R C tr tc) nonempty om
  segs.flatMap (fun s => tileFramesOf s (omitEff nonempty om) present (kept.map (fun p => p.1)) kept)

end HdVerif.SegFrameLoop
