import HdVerif.Model.Basic
import HdVerif.Generated.T15d
import HdVerif.Generated.T15e
import HdVerif.Generated.T15j
/-! C15: the content TREE through the document constructor and the parser (`sr/value_types.py`, `sr/sop.py`).

A data set is `(attributes, has ContentSequence, children)`; an attribute is `(keyword, value)` with the value an opaque
canonical string (code sequences, numbers, coordinates … are compared for equality only — what the per-value-type parsers
demand of them is C13's subject).  `ContentSequence` is not among the attributes: it is the `children` field.

Modelled: `ContentItem._from_dataset_derived` (dispatch on the value type), `_assert_value_type` (required attributes),
`ContentItem._from_dataset_base` (concept name present, or the default name for the classes that may lack one; recursion
into the content sequence), `ContentSequence.from_sequence` / `_check_dataset` (relationship type below the root),
`ContentSequence.__init__(is_root=True)` (the root has no relationship type and is a CONTAINER), the copy of the root
item's attributes onto the document data set in `_SR.__init__`, and `_SR.from_dataset` (the root item rebuilt from the
attributes named in the source).  The tables (`Gen.srValueTypes`, `Gen.srRequiredAttributes`, `Gen.srContentItemClasses`,
`Gen.srOptionalNameClasses`, `Gen.srDefaultName`, `Gen.srParsedRootAttributes`) are regenerated from the current source on
every run (T15e, T15j, T15d). -/
namespace HdVerif.SRTree
open HdVerif

abbrev Attrs := List (String × String)

inductive Node where
  | mk (attrs : Attrs) (hasSeq : Bool) (children : List Node)
deriving Repr

namespace Node
def attrs : Node → Attrs | .mk a _ _ => a
def hasSeq : Node → Bool | .mk _ h _ => h
def children : Node → List Node | .mk _ _ c => c
end Node

/-- `hasattr(dataset, kw)` -/
def has (a : Attrs) (kw : String) : Bool := (a.lookup kw).isSome

/-- what the conversion of ONE data set demands before it looks at the children, in the order of the source:
`ValueType` present (AttributeError) and a member of the enumeration (ValueError); below the root a `RelationshipType`
(`_check_dataset`, AttributeError); the attributes the value type requires (`_assert_value_type`, AttributeError); a concept
name, or a class that may lack one (`_from_dataset_base`, AttributeError).  Result: must the default name be stored? -/
def checkNode (isRoot : Bool) (a : Attrs) : Except ErrKind Bool :=
  match a.lookup "ValueType" with
  | none => .error .attribute
  | some vt =>
    if !Gen.srValueTypes.contains vt then .error .value else
    if !isRoot && !has a "RelationshipType" then .error .attribute else
    match Gen.srContentItemClasses.lookup vt, Gen.srRequiredAttributes.lookup vt with
    | some cls, some req =>
      if !req.all (has a) then .error .attribute else
      if has a "ConceptNameCodeSequence" then .ok false
      else if Gen.srOptionalNameClasses.contains cls then .ok true else .error .attribute
    | _, _ => .error .key

/-- the attributes after `_from_dataset_base`: the default concept name is stored when the data set had none -/
def withName (a : Attrs) (add : Bool) : Attrs :=
  if add then a ++ [("ConceptNameCodeSequence", Gen.srDefaultName)] else a

mutual
/-- `ContentItem._from_dataset_derived(dataset)` (in place): the converted data set, or the first refusal in document order -/
def convert (isRoot : Bool) : Node → Except ErrKind Node
  | .mk a hs ch =>
    match checkNode isRoot a with
    | .error e => .error e
    | .ok add =>
      if hs then
        match convertList ch with
        | .error e => .error e
        | .ok ch' => .ok (.mk (withName a add) true ch')
      else .ok (.mk (withName a add) false ch)
/-- `ContentSequence.from_sequence(sequence, copy=False)` below the root -/
def convertList : List Node → Except ErrKind (List Node)
  | [] => .ok []
  | x :: xs =>
    match convert false x with
    | .error e => .error e
    | .ok x' =>
      match convertList xs with
      | .error e => .error e
      | .ok xs' => .ok (x' :: xs')
end

/-- `ContentSequence([content_item], is_root=True)`: the root has no relationship type (AttributeError) and is a
`ContainerContentItem` (TypeError) -/
def rootChecks (t : Node) : Except ErrKind Node :=
  if has t.attrs "RelationshipType" then .error .attribute
  else if t.attrs.lookup "ValueType" != some "CONTAINER" then .error .type else .ok t

/-- what `_SR.__init__` does with `content` (after the deep copy): convert, then wrap as the root sequence -/
def convertRoot (t : Node) : Except ErrKind Node :=
  match convert true t with
  | .error e => .error e
  | .ok t' => rootChecks t'

/-- the same tree with the default name where `_from_dataset_base` stores one (specification side) -/
def needsName (a : Attrs) : Bool :=
  !has a "ConceptNameCodeSequence" &&
    (match a.lookup "ValueType" with
     | none => false
     | some vt => match Gen.srContentItemClasses.lookup vt with
       | none => false
       | some cls => Gen.srOptionalNameClasses.contains cls)

mutual
def named : Node → Node
  | .mk a hs ch => .mk (withName a (needsName a)) hs (if hs then namedList ch else ch)
def namedList : List Node → List Node
  | [] => []
  | x :: xs => named x :: namedList xs
end

/-- one data set is acceptable to the conversion (declarative reading of `checkNode`) -/
def NodeOk (isRoot : Bool) (a : Attrs) : Prop :=
  ∃ vt cls req, a.lookup "ValueType" = some vt ∧ Gen.srValueTypes.contains vt = true ∧
    (isRoot = true ∨ has a "RelationshipType" = true) ∧
    Gen.srContentItemClasses.lookup vt = some cls ∧ Gen.srRequiredAttributes.lookup vt = some req ∧
    (∀ kw ∈ req, has a kw = true) ∧
    (has a "ConceptNameCodeSequence" = true ∨ Gen.srOptionalNameClasses.contains cls = true)

mutual
/-- every data set reachable through content sequences is acceptable -/
def WellFormed (isRoot : Bool) : Node → Prop
  | .mk a hs ch => NodeOk isRoot a ∧ (hs = true → WellFormedList ch)
def WellFormedList : List Node → Prop
  | [] => True
  | x :: xs => WellFormed false x ∧ WellFormedList xs
end

/-! ## the document data set and the parser -/

/-- `for tag, value in content_item.items(): self[tag] = value`: the attributes of the (converted) root item become
attributes of the document data set, next to the document's own (`own`: patient, study, series, SOP common, evidence, flags …) -/
def writeDoc (own : Attrs) (root : Node) : Node := .mk (own ++ root.attrs) root.hasSeq root.children

/-- the attributes `_SR.from_dataset` copies from the document onto the root item (all but `ContentSequence`, which is the
children field here): a conditional one only when present, an unconditional one that is missing is an AttributeError -/
def pickRoot (doc : Attrs) : List (String × Bool) → Except ErrKind Attrs
  | [] => .ok []
  | (kw, cond) :: rest =>
    if kw == "ContentSequence" then pickRoot doc rest else
    match doc.lookup kw with
    | some v => (pickRoot doc rest).map ((kw, v) :: ·)
    | none => if cond then pickRoot doc rest else .error .attribute

/-- `_SR.from_dataset(dataset)` (`.content[0]` of the result): no ContentSequence → ValueError ("not an SR document");
then the root item is rebuilt from the attributes named in the source (T15d) and converted as a root sequence
(`ContentSequence.from_sequence([root_item], is_root=True, copy=False)`) -/
def parseDoc (d : Node) : Except ErrKind Node :=
  if !d.hasSeq then .error .value else
  match pickRoot d.attrs Gen.srParsedRootAttributes with
  | .error e => .error e
  | .ok a => convertRoot (.mk a true d.children)

/-! ## what the parsers do to the VALUES (table-driven; round-2 audit, M3)

`convert` decides acceptance and stores the default name; what `ContentItem._from_dataset_base` and the fifteen `from_dataset`
methods do to the attributes they store back is `Gen.srParserStores` (T15j: every store of every parser, with what it does
to the value).  `class` does not touch the data set's attributes, `default-name` is `withName`, `children` is the recursion
of `convert`, `rewrap` replaces a code sequence item by the same item as a `CodedConcept` (`CodedConcept.from_dataset(…,
copy=False)`: keeps every attribute of the code — C17's subject; the correspondence compares every code attribute by
attribute) and leaves the canonical value unchanged.  Any other store is an UNKNOWN transformation `X` of the value. -/

/-- the stores of the parser of class `cls` (and of the base class) that touch the top-level attribute `kw` in a way the
model does not know -/
def unknownStores (cls kw : String) : List String :=
  (Gen.srParserStores.filter fun r =>
    (r.1 == cls || r.1 == "ContentItem" || r.1.startsWith "helper:") && r.2.2.1.head? == some kw &&
      !(["class", "default-name", "children", "rewrap"].contains r.2.2.2.2)).map (·.2.2.2.2)

/-- the attributes of one data set after its parser ran: every unknown store applies the unknown transformation `X` -/
def storedAttrs (X : String → String → String) (a : Attrs) : Attrs :=
  let cls := match a.lookup "ValueType" with
    | none => ""
    | some vt => (Gen.srContentItemClasses.lookup vt).getD ""
  a.map fun kv => (kv.1, (unknownStores cls kv.1).foldl (fun v act => X act v) kv.2)

mutual
def reStore (X : String → String → String) : Node → Node
  | .mk a hs ch => .mk (storedAttrs X a) hs (reStoreList X ch)
def reStoreList (X : String → String → String) : List Node → List Node
  | [] => []
  | x :: xs => reStore X x :: reStoreList X xs
end

/-- the conversion with its effect on the values: acceptance and default names by `convertRoot`, values by the table -/
def convertRootT (X : String → String → String) (t : Node) : Except ErrKind Node := (convertRoot t).map (reStore X)

/-- `_SR.from_dataset` with its effect on the values -/
def parseDocT (X : String → String → String) (d : Node) : Except ErrKind Node := (parseDoc d).map (reStore X)

end HdVerif.SRTree
