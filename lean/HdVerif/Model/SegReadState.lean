import HdVerif.Model.Basic
/-! C02: what a read leaves behind on a `Segmentation` object and why the next read does not see it.

State between calls: (1) the temporary tables of the object's SQLite database — `_Image._generate_temp_tables` creates
`TemporaryStackTable` / `TemporaryChannelTable0`, yields to the read, and drops them afterwards; when the read raises, the
generator is abandoned at the `yield` and the tables stay; (2) the decoded pixel array (`_pixel_array`), populated when the
caller looks at `pixel_array` — afterwards frames are taken from it instead of being decoded one by one.

One table is a flag (exists / does not exist); the operations are the ones extracted from the source (T8r). -/
namespace HdVerif.SegState
open HdVerif

inductive TempOp | dropIfExists | create | insert | drop
  deriving DecidableEq, Repr, Inhabited

/-- the operations on ONE table, from the state "exists = `e`"; `fails` = the INSERT violates a constraint (a repeated output
channel index).  Result: (all succeeded, the table exists afterwards).  `DROP TABLE` of a missing table and `CREATE TABLE` of an
existing one are errors in SQLite; an INSERT that fails is rolled back, the table itself stays. -/
def runOps (fails : Bool) : List TempOp → Bool → Bool × Bool
  | [], e => (true, e)
  | .dropIfExists :: rest, _ => runOps fails rest false
  | .drop :: rest, true => runOps fails rest false
  | .drop :: _, false => (false, false)
  | .create :: _, true => (false, true)
  | .create :: rest, false => runOps fails rest true
  | .insert :: _, false => (false, false)
  | .insert :: rest, true => if fails then (false, true) else runOps fails rest true

/-- a loop `for tdef in table_defs: <prog>` over the tables (`(fails, exists)` each); stops at the first failure -/
def runAll (prog : List TempOp) : List (Bool × Bool) → Bool × List Bool
  | [] => (true, [])
  | (f, e) :: rest =>
    let r := runOps f prog e
    if r.1 then
      let q := runAll prog rest
      (q.1, r.2 :: q.2)
    else (false, r.2 :: rest.map (·.2))

/-- `with self._generate_temp_tables(defs): body` — the result and the tables left behind.  `guarded` = the `yield` is inside
`try … finally`: then the clean-up runs when the body raises, otherwise the generator is just closed -/
def withTemp {α} (guarded : Bool) (pre post : List TempOp) (fails : List Bool) (db : List Bool)
    (body : Except ErrKind α) : Except ErrKind α × List Bool :=
  let p := runAll pre (fails.zip db)
  if !p.1 then (.error .other, p.2) else
  match body with
  | .error e => (.error e, if guarded then (runAll post (p.2.map fun e => (false, e))).2 else p.2)
  | .ok v =>
    let q := runAll post (p.2.map fun e => (false, e))
    (if q.1 then .ok v else .error .other, q.2)

/-- what the model needs of the extracted program (decidable; checked on the regenerated lists by `decide`):
before the yield the outcome does not depend on whether the table already exists, a clean run leaves the table in place, a
failing INSERT is an error; afterwards an existing table is removed without error -/
def tempProgOk (pre post : List TempOp) : Bool :=
  [true, false].all (fun f => runOps f pre true == runOps f pre false) &&
  runOps false pre false == (true, true) && !(runOps true pre false).1 && runOps false post true == (true, false)

/-- the object between calls -/
structure ObjState where
  cached : Bool          -- `_pixel_array` is populated
  db : List Bool         -- which temporary tables exist
  deriving Repr, Inhabited

/-- operations on one object: looking at `pixel_array`, or a read.  A read is given by which INSERTs fail and by what the frame
loop returns when frames are decoded one by one (`direct`) and when they are taken from the cached array (`fromCache`) -/
inductive Op (α : Type)
  | touch
  | read (fails : List Bool) (direct fromCache : Except ErrKind α)

def step {α} (guarded : Bool) (pre post : List TempOp) (σ : ObjState) : Op α → Option (Except ErrKind α) × ObjState
  | .touch => (none, { σ with cached := true })
  | .read fails direct fromCache =>
    let r := withTemp guarded pre post fails σ.db (if σ.cached then fromCache else direct)
    (some r.1, { σ with db := r.2 })

/-- the answers of a history of operations -/
def run {α} (guarded : Bool) (pre post : List TempOp) : List (Op α) → ObjState → List (Option (Except ErrKind α))
  | [], _ => []
  | op :: rest, σ =>
    let r := step guarded pre post σ op
    r.1 :: run guarded pre post rest r.2

/-- the answer a read gives on a fresh object -/
def stateless {α} : Op α → Option (Except ErrKind α)
  | .touch => none
  | .read fails direct _ => some (if fails.any id then .error .other else direct)

end HdVerif.SegState
