import HdVerif.Model.Basic
/-! C02: what a read leaves behind on a `Segmentation` object and why the next read does not see it.

State between calls: (1) the temporary tables of the object's SQLite database — `_Image._generate_temp_tables` creates
`TemporaryStackTable` / `TemporaryChannelTable0`, yields to the read, and drops them afterwards; when the read raises, the
generator is abandoned at the `yield` and the tables stay; (2) a LOCK on those tables: the frame query joins all of them, and
while its cursor is open SQLite refuses `DROP TABLE` ("database table is locked").  The cursor is open after a read iff the
read was left by an exception before the query was exhausted, the code did not close the cursor on the way out, and the
caller holds on to the exception object (its traceback keeps the frames, and the cursor, alive: `pytest.raises`, a list, a
REPL); (3) the decoded pixel array (`_pixel_array`), populated when the caller looks at `pixel_array` — afterwards frames are
taken from it instead of being decoded one by one.

One table is a flag (exists / does not exist); the operations, whether the clean-up sits in `try … finally`, and whether the
code closes its cursors on every exit are extracted from the source (T8r). -/
namespace HdVerif.SegState
open HdVerif

inductive TempOp | dropIfExists | create | insert | drop
  deriving DecidableEq, Repr, Inhabited

/-- the operations on ONE table, from the state "exists = `e`", while the tables are locked or not (`l`); `fails` = the INSERT
violates a constraint (a repeated output channel index).  Result: (all succeeded, the table exists afterwards).  `DROP TABLE` of
a missing or of a LOCKED table and `CREATE TABLE` of an existing one are errors in SQLite; an INSERT that fails is rolled back,
the table itself stays. -/
def runOps (fails l : Bool) : List TempOp → Bool → Bool × Bool
  | [], e => (true, e)
  | .dropIfExists :: rest, true => if l then (false, true) else runOps fails l rest false
  | .dropIfExists :: rest, false => runOps fails l rest false
  | .drop :: rest, true => if l then (false, true) else runOps fails l rest false
  | .drop :: _, false => (false, false)
  | .create :: _, true => (false, true)
  | .create :: rest, false => runOps fails l rest true
  | .insert :: _, false => (false, false)
  | .insert :: rest, true => if fails then (false, true) else runOps fails l rest true

/-- a loop `for tdef in table_defs: <prog>` over the tables (`(fails, exists)` each); stops at the first failure -/
def runAll (l : Bool) (prog : List TempOp) : List (Bool × Bool) → Bool × List Bool
  | [] => (true, [])
  | (f, e) :: rest =>
    let r := runOps f l prog e
    if r.1 then
      let q := runAll l prog rest
      (q.1, r.2 :: q.2)
    else (false, r.2 :: rest.map (·.2))

/-- the program of `_generate_temp_tables` and of the iterators around it, as extracted (T8r) -/
structure Prog where
  pre : List TempOp        -- per table, before the `yield`
  post : List TempOp       -- per table, after it
  guarded : Bool           -- the `yield` is inside `try … finally` (the clean-up also runs when the body raises)
  closes : Bool            -- every query cursor is closed (or exhausted) on every exit of a read
  deriving Repr, Inhabited

/-- `with self._generate_temp_tables(defs): body` — the result, the tables left behind, and the lock.
`kept` = the caller holds on to the exception of a refused read; `exhausted` = the frame query had delivered all its rows
when the body ended (a refusal inside the frame loop — overlap, a value the dtype cannot hold, non-binary fractions — leaves it
unexhausted).  While such an exception propagates the query is still open (`open_`): a clean-up in `finally` runs against
locked tables; afterwards the lock lasts as long as the caller keeps the exception. -/
def withTemp {α} (P : Prog) (fails : List Bool) (kept exhausted : Bool) (db : List Bool) (locked : Bool)
    (body : Except ErrKind α) : Except ErrKind α × List Bool × Bool :=
  let p := runAll locked P.pre (fails.zip db)
  if !p.1 then (.error .other, p.2, locked) else
  match body with
  | .ok v =>
    let q := runAll locked P.post (p.2.map fun e => (false, e))
    (if q.1 then .ok v else .error .other, q.2, locked)
  | .error e =>
    let open_ := !exhausted && !P.closes
    let after := if P.guarded then (runAll (locked || open_) P.post (p.2.map fun e => (false, e))).2 else p.2
    (.error e, after, locked || (open_ && kept))

/-- what the induction needs of the extracted table operations, with no lock in force (decidable; checked on the regenerated
lists by `decide`): before the yield the outcome does not depend on whether the table already exists, a clean run leaves the
table in place, a failing INSERT is an error; afterwards an existing table is removed without error -/
def tempProgOk (pre post : List TempOp) : Bool :=
  [true, false].all (fun f => runOps f false pre true == runOps f false pre false) &&
  runOps false false pre false == (true, true) && !(runOps true false pre false).1 && runOps false false post true == (true, false)

/-- the object between calls -/
structure ObjState where
  cached : Bool          -- `_pixel_array` is populated
  db : List Bool         -- which temporary tables exist
  locked : Bool := false -- a frame query of an earlier, refused read is still open on them
  deriving Repr, Inhabited

/-- operations on one object: looking at `pixel_array`; the caller letting go of the exceptions it kept; a read — given by which
INSERTs fail, whether the caller keeps its exception, whether its frame query was exhausted, and what the frame loop returns
when frames are decoded one by one (`direct`) and when they are taken from the cached array (`fromCache`) -/
inductive Op (α : Type)
  | touch
  | release
  | read (fails : List Bool) (kept exhausted : Bool) (direct fromCache : Except ErrKind α)

def step {α} (P : Prog) (σ : ObjState) : Op α → Option (Except ErrKind α) × ObjState
  | .touch => (none, { σ with cached := true })
  | .release => (none, { σ with locked := false })
  | .read fails kept exhausted direct fromCache =>
    let r := withTemp P fails kept exhausted σ.db σ.locked (if σ.cached then fromCache else direct)
    (some r.1, { σ with db := r.2.1, locked := r.2.2 })

/-- the answers of a history of operations -/
def run {α} (P : Prog) : List (Op α) → ObjState → List (Option (Except ErrKind α))
  | [], _ => []
  | op :: rest, σ =>
    let r := step P σ op
    r.1 :: run P rest r.2

/-- the answer a read gives on a fresh object -/
def stateless {α} : Op α → Option (Except ErrKind α)
  | .touch => none
  | .release => none
  | .read fails _ _ direct _ => some (if fails.any id then .error .other else direct)

end HdVerif.SegState
