import HdVerif.Model.Aliasing
import HdVerif.Generated.T20alias_content
import HdVerif.Generated.T20alias_seg_content
import HdVerif.Generated.T20alias_seg_sop
import HdVerif.Generated.T20alias_ann_content
import HdVerif.Generated.T20alias_ann_sop
import HdVerif.Generated.T20alias_ko_content
import HdVerif.Generated.T20alias_ko_sop
import HdVerif.Generated.T20alias_sr_coding
import HdVerif.Generated.T20alias_sr_content
import HdVerif.Generated.T20alias_sr_sop
import HdVerif.Generated.T20alias_sr_value_types
import HdVerif.Generated.T20alias_sr_templates
import HdVerif.Generated.T20alias_image
import HdVerif.Generated.T20ctor_base
import HdVerif.Generated.T20ctor_content
import HdVerif.Generated.T20ctor_seg_content
import HdVerif.Generated.T20ctor_seg_sop
import HdVerif.Generated.T20ctor_pm_content
import HdVerif.Generated.T20ctor_pm_sop
import HdVerif.Generated.T20ctor_sc_sop
import HdVerif.Generated.T20ctor_sr_coding
import HdVerif.Generated.T20ctor_sr_content
import HdVerif.Generated.T20ctor_sr_sop
import HdVerif.Generated.T20ctor_sr_value_types
import HdVerif.Generated.T20ctor_sr_templates
import HdVerif.Generated.T20ctor_ko_content
import HdVerif.Generated.T20ctor_ko_sop
import HdVerif.Generated.T20ctor_ann_content
import HdVerif.Generated.T20ctor_ann_sop
import HdVerif.Generated.T20ctor_pr_content
import HdVerif.Generated.T20ctor_pr_sop
import HdVerif.Generated.T20ctor_legacy_sop
import HdVerif.Generated.T20ctor_volume
import HdVerif.Generated.T20ctor_coding_schemes
import HdVerif.Generated.T20ctor_color
import HdVerif.Generated.T20ctor_image
import HdVerif.Generated.T20ctor_io
import HdVerif.Generated.T20ctor_spatial
import HdVerif.Generated.T20ctor_sr_utils
import HdVerif.Generated.T20ctor_uid
/-! The alias-flow tables regenerated from /repo, collected (C20). -/
namespace HdVerif.Aliasing
open HdVerif.Gen

/-- every extracted program (the tables are regenerated from /repo on every run) -/
def allEntries : List Entry :=
  alias_content ++ alias_seg_content ++ alias_seg_sop ++ alias_ann_content ++ alias_ann_sop ++ alias_ko_content ++
  alias_ko_sop ++ alias_sr_coding ++ alias_sr_content ++ alias_sr_sop ++ alias_sr_value_types ++ alias_sr_templates ++
  alias_image

/-- converters the extractor could not abstract (none on the pinned tree); they are carried by the correspondence only -/
def allSkipped : List String :=
  aliasSkipped_content ++ aliasSkipped_seg_content ++ aliasSkipped_seg_sop ++ aliasSkipped_ann_content ++
  aliasSkipped_ann_sop ++ aliasSkipped_ko_content ++ aliasSkipped_ko_sop ++ aliasSkipped_sr_coding ++
  aliasSkipped_sr_content ++ aliasSkipped_sr_sop ++ aliasSkipped_sr_value_types ++ aliasSkipped_sr_templates ++
  aliasSkipped_image

/-- every extracted constructor (`__init__`) program; `self` is a newly allocated object, the parameters are regions `0 … nIn-1` -/
def allCtors : List Entry :=
  ctor_base ++
  ctor_content ++
  ctor_seg_content ++
  ctor_seg_sop ++
  ctor_pm_content ++
  ctor_pm_sop ++
  ctor_sc_sop ++
  ctor_sr_coding ++
  ctor_sr_content ++
  ctor_sr_sop ++
  ctor_sr_value_types ++
  ctor_sr_templates ++
  ctor_ko_content ++
  ctor_ko_sop ++
  ctor_ann_content ++
  ctor_ann_sop ++
  ctor_pr_content ++
  ctor_pr_sop ++
  ctor_legacy_sop ++
  ctor_volume ++
  ctor_coding_schemes ++
  ctor_color ++
  ctor_image ++
  ctor_io ++
  ctor_spatial ++
  ctor_sr_utils ++
  ctor_uid

/-- constructors the extractor could not abstract (none on the pinned tree) -/
def allCtorSkipped : List String :=
  ctorSkipped_base ++
  ctorSkipped_content ++
  ctorSkipped_seg_content ++
  ctorSkipped_seg_sop ++
  ctorSkipped_pm_content ++
  ctorSkipped_pm_sop ++
  ctorSkipped_sc_sop ++
  ctorSkipped_sr_coding ++
  ctorSkipped_sr_content ++
  ctorSkipped_sr_sop ++
  ctorSkipped_sr_value_types ++
  ctorSkipped_sr_templates ++
  ctorSkipped_ko_content ++
  ctorSkipped_ko_sop ++
  ctorSkipped_ann_content ++
  ctorSkipped_ann_sop ++
  ctorSkipped_pr_content ++
  ctorSkipped_pr_sop ++
  ctorSkipped_legacy_sop ++
  ctorSkipped_volume ++
  ctorSkipped_coding_schemes ++
  ctorSkipped_color ++
  ctorSkipped_image ++
  ctorSkipped_io ++
  ctorSkipped_spatial ++
  ctorSkipped_sr_utils ++
  ctorSkipped_uid

/-- constructors of the package that are deliberately not in the tables: internal machinery of `image.py` that builds no DICOM
object from caller-owned objects (the pixel-transform planner, an SQL table description) and the file entry point, whose argument
is a path or file handle -/
def excludedConstructors : List String :=
  ["_CombinedPixelTransform.__init__", "_SQLTableDefinition.__init__", "_Image.from_file"]

/-- is the function `n` (as `Class.method`) in a table (possibly as the arms-merged variant) -/
def tabled (tbl : List Entry) (n : String) : Bool :=
  tbl.any fun e => e.name == n || e.name == n ++ " (arms merged)"

/-- the regions of a bit set, for the driver -/
def regionsOf (next : Nat) (m : Nat) : List Nat := (List.range next).filter fun k => m.testBit k

/-- what the model predicts a caller can observe of one entry with the `copy` bit fixed (`none`: no such parameter),
over all valuations of the other conditions: (may return the object passed in, may return a new object, may return a
part of an argument, may write argument 0, may write another argument) -/
def observable (e : Entry) (copy : Option Bool) : Bool × Bool × Bool × Bool × Bool :=
  let vs := (List.range (2 ^ e.nCond)).filter fun v => match copy with
    | some c => v.testBit 0 == c
    | none => true
  let sums := vs.map fun v => analyse e.prog e.nIn v
  let inputs := 2 ^ e.nIn - 1
  (sums.any (fun s => s.result == some ⟨1, true⟩),
   sums.any (fun s => match s.result with | some r => (regionsOf s.next r.mask).any (fun k => decide (e.nIn ≤ k)) | none => false),
   sums.any (fun s => match s.result with | some r => (r.mask &&& inputs != 0) && r != ⟨1, true⟩ | none => false),
   sums.any (fun s => s.writes.testBit 0),
   sums.any (fun s => (s.writes &&& inputs) >>> 1 != 0))

end HdVerif.Aliasing
