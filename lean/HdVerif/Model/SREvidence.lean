import HdVerif.Model.Basic
import HdVerif.Generated.T15a
import HdVerif.Generated.T15b
import HdVerif.Generated.T15d
import HdVerif.Generated.T15e
/-! C15: SR documents, evidence collection and references built from a segmentation.

Models `sr/utils.py` (`find_content_items`, `collect_evidence`, `_create_references`), the decision logic of
the document constructors and `get_evidence*` of `sr/sop.py`, `ko/sop.py` and the two
`from_segmentation` builders of `sr/content.py`.

A content item is `(id, value type, name, relationship, reference, has-ContentSequence, children)`; `id`
only serves the correspondence (it identifies an item in answers), UIDs and codes are strings compared
for equality only.  Python `dict`/`set` iteration is insertion order; the grouping functions below keep
first-occurrence order so that the model's answers are comparable element for element. -/
namespace HdVerif.SREvidence
open HdVerif

structure Ref where
  cls : String
  inst : String
deriving DecidableEq, Repr

/-- SR content item.  `hasSeq` = the data set has a `ContentSequence` attribute (possibly empty). -/
inductive Item where
  | mk (id : Nat) (vt : String) (name : String) (rel : Option String) (ref : Option Ref)
       (hasSeq : Bool) (children : List Item)
deriving Repr

namespace Item
def id : Item → Nat | .mk i _ _ _ _ _ _ => i
def vt : Item → String | .mk _ v _ _ _ _ _ => v
def name : Item → String | .mk _ _ n _ _ _ _ => n
def rel : Item → Option String | .mk _ _ _ r _ _ _ => r
def ref : Item → Option Ref | .mk _ _ _ _ r _ _ => r
def hasSeq : Item → Bool | .mk _ _ _ _ _ h _ => h
def children : Item → List Item | .mk _ _ _ _ _ _ c => c
end Item

/-- the three optional filters of `find_content_items` -/
structure Query where
  name : Option String := none
  vt : Option String := none
  rel : Option String := none

/-- `has_name and has_value_type and has_relationship_type` -/
def Query.matches (q : Query) (it : Item) : Bool :=
  (match q.name with | none => true | some n => it.name == n) &&
  (match q.vt with | none => true | some v => it.vt == v) &&
  (match q.rel with | none => true | some r => it.rel == some r)

mutual
/-- `search_tree` for one child: the item itself if it matches, then (recursively) its content -/
def searchItem (q : Query) (recursive : Bool) : Item → List Item
  | .mk i v n r rf hs ch =>
    (if q.matches (.mk i v n r rf hs ch) then [.mk i v n r rf hs ch] else []) ++
    (if hs && recursive then searchList q recursive ch else [])
/-- `search_tree` over a content sequence -/
def searchList (q : Query) (recursive : Bool) : List Item → List Item
  | [] => []
  | x :: xs => searchItem q recursive x ++ searchList q recursive xs
end

/-- `find_content_items(dataset, …)`: AttributeError when the data set has no ContentSequence -/
def findContentItems (root : Item) (q : Query) (recursive : Bool) : Except ErrKind (List Item) :=
  if root.hasSeq then .ok (searchList q recursive root.children) else .error .attribute

mutual
/-- every item below (and including) an item whose content is reachable, document order -/
def subtree : Item → List Item
  | .mk i v n r rf hs ch => .mk i v n r rf hs ch :: (if hs then subtreeList ch else [])
def subtreeList : List Item → List Item
  | [] => []
  | x :: xs => subtree x ++ subtreeList xs
end

/-- proper descendants of the root in document order -/
def descendants (root : Item) : List Item := if root.hasSeq then subtreeList root.children else []

/-! ## evidence -/

/-- one supplied instance (the four attributes `collect_evidence` reads) -/
structure Evd where
  study : String
  series : String
  inst : String
  cls : String
deriving DecidableEq, Repr

abbrev Key := String × String              -- (study, series)
abbrev KeyGroups := List (Key × List Ref)  -- the `defaultdict(list)` keyed by (study, series)
abbrev Series := String × List Ref
abbrev Study := String × List Series
abbrev Groups := List Study                -- items of an evidence sequence

/-- `group[key].append(x)` on an insertion-ordered dict -/
def addTo {κ α} [DecidableEq κ] (key : κ) (x : α) : List (κ × List α) → List (κ × List α)
  | [] => [(key, [x])]
  | (k, xs) :: rest => if k = key then (k, xs ++ [x]) :: rest else (k, xs) :: addTo key x rest

/-- `_create_references`: regroup (study, series) groups under their study -/
def createReferences : KeyGroups → Groups → Groups
  | [], acc => acc
  | ((st, se), rs) :: rest, acc => createReferences rest (addTo st (se, rs) acc)

/-- UIDs referenced by IMAGE and COMPOSITE items anywhere below the root (list, repeats kept) -/
def refUids (tree : Item) : Except ErrKind (List String) := do
  let a ← findContentItems tree { vt := some "IMAGE" } true
  let b ← findContentItems tree { vt := some "COMPOSITE" } true
  (a ++ b).mapM (fun it => match it.ref with
    | some r => .ok r.inst
    | none => .error .attribute)

structure Acc where
  seen : List String
  refG : KeyGroups
  unrefG : KeyGroups

/-- the loop over `evidence`; its body is the decision translated from the current source (`Gen.evidenceStep`:
(already seen, referenced) ↦ (0 skip | 1 referenced group | 2 unreferenced group, mark as seen)) -/
def evdLoopM (refs : List String) : List Evd → Acc → Except ErrKind Acc
  | [], a => .ok a
  | e :: es, a =>
    match Gen.evidenceStep (decide (e.inst ∈ a.seen)) (decide (e.inst ∈ refs)) with
    | .error x => .error x
    | .ok (action, mark) =>
      let seen' := if mark then a.seen ++ [e.inst] else a.seen
      if action = 1 then
        evdLoopM refs es { seen := seen', refG := addTo (e.study, e.series) ⟨e.cls, e.inst⟩ a.refG, unrefG := a.unrefG }
      else if action = 2 then
        evdLoopM refs es { seen := seen', refG := a.refG, unrefG := addTo (e.study, e.series) ⟨e.cls, e.inst⟩ a.unrefG }
      else evdLoopM refs es { a with seen := seen' }

/-- the same loop written out by hand (what the proofs reason about; `evdLoopM = .ok ∘ evdLoop` is a lemma that
holds for the step translated from the current source) -/
def evdLoop (refs : List String) : List Evd → Acc → Acc
  | [], a => a
  | e :: es, a =>
    if e.inst ∈ a.seen then evdLoop refs es a
    else if e.inst ∈ refs then
      evdLoop refs es { a with seen := a.seen ++ [e.inst], refG := addTo (e.study, e.series) ⟨e.cls, e.inst⟩ a.refG }
    else
      evdLoop refs es { a with seen := a.seen ++ [e.inst], unrefG := addTo (e.study, e.series) ⟨e.cls, e.inst⟩ a.unrefG }

/-- `collect_evidence(evidence, content)` -/
def collectEvidence (evd : List Evd) (tree : Item) : Except ErrKind (Groups × Groups) :=
  match refUids tree with
  | .error x => .error x
  | .ok refs =>
    match evdLoopM refs evd ⟨[], [], []⟩ with
    | .error x => .error x
    | .ok a =>
      match Gen.evidenceGuard (refs.all (fun u => u ∈ a.seen)) with
      | .error x => .error x
      | .ok _ => .ok (createReferences a.refG [], createReferences a.unrefG [])

/-- one listed instance with the study and series it is listed under -/
structure Row where
  study : String
  series : String
  inst : String
  cls : String
deriving DecidableEq, Repr

def Evd.row (e : Evd) : Row := ⟨e.study, e.series, e.inst, e.cls⟩

def rowsSeries (st : String) : List Series → List Row
  | [] => []
  | (se, rs) :: rest => rs.map (fun r => ⟨st, se, r.inst, r.cls⟩) ++ rowsSeries st rest

/-- an evidence sequence flattened the way `get_evidence.extract_evidence` walks it -/
def rows : Groups → List Row
  | [] => []
  | (st, ss) :: rest => rowsSeries st ss ++ rows rest

/-- order-preserving deduplication (`list(dict.fromkeys(…))`) -/
def dedup {α} [DecidableEq α] : List α → List α → List α
  | [], _ => []
  | x :: xs, seen => if x ∈ seen then dedup xs seen else x :: dedup xs (seen ++ [x])

/-- first occurrence of every instance UID in the supplied list -/
def firstByInst : List Evd → List String → List Evd
  | [], _ => []
  | e :: es, seen => if e.inst ∈ seen then firstByInst es seen else e :: firstByInst es (seen ++ [e.inst])

/-! ## documents -/

inductive DocClass | enhanced | comprehensive | comprehensive3d
deriving DecidableEq, Repr

structure DocArgs where
  cls : DocClass
  evidence : List Evd
  nRoots : Nat                     -- 1 for a data set, len(content) for a pydicom Sequence
  tree : Item
  record : Bool
  verified : Bool
  hasObserver : Bool
  hasOrganization : Bool
  previous : Option (List Evd)

structure Doc where
  content : Item
  current : Groups                 -- CurrentRequestedProcedureEvidenceSequence ([] = attribute absent)
  other : Groups                   -- PertinentOtherEvidenceSequence ([] = attribute absent)
  predecessors : Option Groups
  verifiedFlag : Bool

/-- `_collect_predecessors` -/
def predecessors (prev : List Evd) : Groups :=
  createReferences (prev.foldl (fun g p => addTo (p.study, p.series) ⟨p.cls, p.inst⟩ g) []) []

/-- number of SCOORD3D items found below the root (`find_content_items(…, SCOORD3D, recursive=True)`) -/
def countScoord3d (tree : Item) : Except ErrKind Nat :=
  (findContentItems tree { vt := some "SCOORD3D" } true).map List.length

/-- `ContentItem._from_dataset_derived(content_copy)`: the conversion of the copied tree walks every content sequence and
refuses an item whose value type is not in the enumeration (ValueError) or — below the root — that has no relationship
type (AttributeError).  (Everything else the per-type parsers check is C13's.) -/
def convertTree (tree : Item) : Except ErrKind Unit :=
  if !Gen.srValueTypes.contains tree.vt then .error .value
  else
    match (descendants tree).find? (fun it => !Gen.srValueTypes.contains it.vt || it.rel.isNone) with
    | none => .ok ()
    | some it => if !Gen.srValueTypes.contains it.vt then .error .value else .error .attribute

def scoord3dGuard (cls : DocClass) (n : Nat) : Except ErrKind Bool :=
  match cls with
  | .enhanced => Gen.srScoord3dGuardEnhanced (n : Int)
  | .comprehensive => Gen.srScoord3dGuardComprehensive (n : Int)
  | .comprehensive3d => Gen.srScoord3dGuardComprehensive3D (n : Int)

/-- `_SR.__init__` followed by the class-specific guard.  The verification guard and the SCOORD3D guards
are the definitions translated from the current source (tie T, `Generated/T15a.lean`). -/
def buildSR (a : DocArgs) : Except ErrKind Doc :=
  if a.evidence.isEmpty then .error .value else
  match Gen.srVerifiedGuard a.verified (!a.hasObserver) (!a.hasOrganization) with
  | .error e => .error e
  | .ok _ =>
    if a.nRoots ≠ 1 then .error .value else
    match convertTree a.tree with
    | .error e => .error e
    | .ok _ =>
    -- `ContentSequence([content_item], is_root=True)`: the root has no relationship and is a CONTAINER
    if a.tree.rel.isSome then .error .attribute else
    if a.tree.vt ≠ "CONTAINER" then .error .type else
    match collectEvidence a.evidence a.tree with
    | .error e => .error e
    | .ok (cur, oth) =>
      match countScoord3d a.tree with
      | .error e => .error e
      | .ok n =>
        match scoord3dGuard a.cls n with
        | .error e => .error e
        | .ok _ =>
          .ok { content := a.tree, current := cur, other := if a.record then oth else [],
                predecessors := a.previous.map predecessors, verifiedFlag := a.verified }

/-- `get_evidence(current_procedure_only)` -/
def getEvidence (d : Doc) (currentOnly : Bool) : List Row :=
  dedup (rows d.current ++ (if currentOnly then [] else rows d.other)) []

/-- `get_evidence_series(current_procedure_only)` -/
def getEvidenceSeries (d : Doc) (currentOnly : Bool) : List Key :=
  let ser (g : Groups) : List Key := g.flatMap (fun st => st.2.map (fun se => (st.1, se.1)))
  dedup (ser d.current ++ (if currentOnly then [] else ser d.other)) []

/-! ## the root item through write and parse (attribute level) -/

/-- attributes a root content item can carry (Document Content Macro and Document Relationship Macro for a CONTAINER):
(keyword, optional) -/
def rootItemAttributes : List (String × Bool) :=
  [("ValueType", false), ("ConceptNameCodeSequence", false), ("ContinuityOfContent", false), ("ContentSequence", false),
   ("ContentTemplateSequence", true), ("ObservationDateTime", true), ("ObservationUID", true)]

/-- `_SR.__init__`: `for tag, value in content.items(): self[tag] = value` — every attribute of the root item becomes an
attribute of the document data set -/
def writeRoot (present : List String) : List String := present

/-- `_SR.from_dataset`: the root item is rebuilt from the attributes listed in the source (`Gen.srParsedRootAttributes`,
regenerated every run); an unconditional one that is missing is an error -/
def parseRoot (doc : List String) : Except ErrKind (List String) :=
  Gen.srParsedRootAttributes.foldr (fun (kw, cond) acc =>
    match acc with
    | .error e => .error e
    | .ok l => if doc.contains kw then .ok (kw :: l) else if cond then .ok l else .error .attribute) (.ok [])

/-! ## key object selection documents (`ko/sop.py`) -/

structure KODoc where
  current : Groups
  lut : List (String × (String × String × String))   -- `_reference_lut`

/-- the root of a `KeyObjectSelection`: optional description TEXT, then one IMAGE/COMPOSITE item per object -/
def koTree (refs : List Ref) (hasDescription : Bool) : Item :=
  .mk 0 "CONTAINER" "title" none none true
    ((if hasDescription then [Item.mk 1 "TEXT" "113012|DCM" (some "CONTAINS") none false []] else []) ++
     refs.map (fun r => Item.mk 2 "IMAGE" "260753009|SCT" (some "CONTAINS") (some r) false []))

def buildKO (refs : List Ref) (hasDescription : Bool) (evidence : List Evd) : Except ErrKind KODoc := do
  if evidence.isEmpty then throw .value
  if refs.isEmpty then throw .value
  let (cur, _) ← collectEvidence evidence (koTree refs hasDescription)
  if cur.length > 1 then throw .value
  pure { current := cur, lut := (rows cur).map (fun r => (r.inst, (r.study, r.series, r.inst))) }

def KODoc.resolve (d : KODoc) (u : String) : Except ErrKind (String × String × String) :=
  match d.lut.lookup u with
  | some t => .ok t
  | none => .error .value

/-! ## references built from a segmentation (`sr/content.py`) -/

/-- an item of a frame's `SourceImageSequence` -/
structure SrcImg where
  cls : String
  inst : String
  frames : Option (List Int)       -- ReferencedFrameNumber (absent / 1..n values)
deriving DecidableEq, Repr

/-- one item of `PerFrameFunctionalGroupsSequence`: the segment it belongs to and its `DerivationImageSequence`
(absent, or a list of items each with its `SourceImageSequence` — absent or a list of source images) -/
structure FrameInfo where
  segment : Int
  drv : Option (List (Option (List SrcImg)))
deriving Repr

/-- the source image of a frame as `ReferencedSegmentationFrame.from_segmentation` reads it: none when the frame has no
derivation item or its single derivation item has no source sequence; several derivation items or several source images
are refused -/
def FrameInfo.single (fi : FrameInfo) : Except ErrKind (Option SrcImg) :=
  match fi.drv with
  | none => .ok none
  | some [none] => .ok none
  | some [some [src]] => .ok (some src)
  | some _ => .error .value

structure Seg where
  isSeg : Bool                     -- SOP class is (label map) segmentation storage
  cls : String
  inst : String
  tiled : Bool                     -- has TotalPixelMatrixRows
  frames : List FrameInfo
  refSeries : Option String        -- ReferencedSeriesSequence[0].SeriesInstanceUID when the sequence is present
  refInstances : Option (List Ref) -- its ReferencedInstanceSequence when present

/-- `seq[f - 1]` for a validated 1-based frame number -/
def Seg.frame? (s : Seg) (f : Int) : Option FrameInfo :=
  if f < 1 ∨ f > s.frames.length then none else s.frames[(f - 1).toNat]?

/-- 1-based numbers of the frames of a segment, ascending -/
def framesOfSegment (fs : List FrameInfo) (segment : Int) (start : Int := 1) : List Int :=
  match fs with
  | [] => []
  | f :: rest => (if f.segment = segment then [start] else []) ++ framesOfSegment rest segment (start + 1)

structure SegFrameRef where
  cls : String
  inst : String
  frames : List Int
  segment : Int
  source : SrcImg
deriving Repr

structure LoopAcc where
  segs : List Int
  srcUids : Option (String × String)
  srcFrames : List Int
  srcWhole : Bool := false      -- some named frame derives from the source image as a whole (no ReferencedFrameNumber)

def unionInto (acc : List Int) : List Int → List Int
  | [] => acc
  | x :: xs => if x ∈ acc then unionInto acc xs else unionInto (acc ++ [x]) xs

/-- the loop over the named frame numbers of `ReferencedSegmentationFrame.from_segmentation` -/
def segFrameLoop (s : Seg) : List Int → LoopAcc → Except ErrKind LoopAcc
  | [], a => .ok a
  | f :: fs, a =>
    match s.frame? f with
    | none => .error .value
    | some fi =>
      let a1 := { a with segs := a.segs ++ [fi.segment] }
      match fi.single with
      | .error e => .error e
      | .ok none => segFrameLoop s fs a1
      | .ok (some src) =>
        let fr := match src.frames with | none => a1.srcFrames | some l => unionInto a1.srcFrames l
        let wh := match src.frames with | none => true | some _ => a1.srcWhole
        (match a1.srcUids with
         | none => segFrameLoop s fs { a1 with srcUids := some (src.cls, src.inst), srcFrames := fr, srcWhole := wh }
         | some u => if u = (src.cls, src.inst) then segFrameLoop s fs { a1 with srcFrames := fr, srcWhole := wh } else .error .value)

/-- the frame numbers named by the request: given, or all frames of the segment (several only when tiled) -/
def segFrameNumbers (s : Seg) (frames : Option (List Int)) (segment : Option Int) : Except ErrKind (List Int) :=
  match frames with
  | some l => .ok l
  | none => match segment with
    | none => .error .type
    | some sn =>
      let l := framesOfSegment s.frames sn
      if l.isEmpty then .error .value
      else if l.length > 1 ∧ !s.tiled then .error .value
      else .ok l

/-- the source image: the one found in the frames, else the single instance of the referenced series -/
def segFrameSource (s : Seg) (a : LoopAcc) : Except ErrKind SrcImg :=
  match a.srcUids with
  | some (c, i) => .ok (SrcImg.mk c i (if a.srcWhole || a.srcFrames.isEmpty then none else some a.srcFrames))
  | none => match s.refSeries with
    | none => .error .attribute
    | some _ => match s.refInstances with
      | none => .error .attribute
      | some [r] => .ok (SrcImg.mk r.cls r.inst none)
      | some _ => .error .value

/-- the one segment all named frames belong to; it must be the requested one when a segment was requested -/
def segFrameSegment (a : LoopAcc) (segment : Option Int) : Except ErrKind Int :=
  match dedup a.segs [] with
  | [sn] =>
    (match segment with
     | some want => if sn = want then .ok sn else .error .value
     | none => .ok sn)
  | [] => .error .index
  | _ => .error .value

/-- `ReferencedSegmentationFrame.from_segmentation(segmentation, frame_number, segment_number)` -/
def refSegFrame (s : Seg) (frames : Option (List Int)) (segment : Option Int) : Except ErrKind SegFrameRef :=
  if !s.isSeg then .error .value else
  match segFrameNumbers s frames segment with
  | .error e => .error e
  | .ok fnums =>
    match segFrameLoop s fnums ⟨[], none, [], false⟩ with
    | .error e => .error e
    | .ok a =>
      match segFrameSource s a with
      | .error e => .error e
      | .ok source =>
        match segFrameSegment a segment with
        | .error e => .error e
        | .ok sn => .ok ⟨s.cls, s.inst, fnums, sn, source⟩

structure SegmentRef where
  cls : String
  inst : String
  frames : Option (List Int)
  segment : Int
  sources : List SrcImg
  series : Option String
deriving Repr

/-- the frames named explicitly must exist and belong to the segment -/
def namedFrames (s : Seg) (segment : Int) : List Int → Except ErrKind (List FrameInfo)
  | [] => .ok []
  | f :: fs =>
    match s.frame? f with
    | none => .error .value
    | some fi => if fi.segment ≠ segment then .error .value else (namedFrames s segment fs).map (fi :: ·)

/-- frame numbers of one source instance seen so far merged with a further mention: the union, or none (the whole
instance) as soon as one mention lists no frame numbers -/
def mergeFrames : Option (List Int) → Option (List Int) → Option (List Int)
  | some a, some b => some (unionInto a b)
  | _, _ => none

/-- `source_info[ins_uid] = …` : a further source image merged into the per-instance table (insertion order, class of
the first mention) -/
def mergeSrc : List SrcImg → SrcImg → List SrcImg
  | [], x => [x]
  | y :: ys, x => if y.inst = x.inst then { y with frames := mergeFrames y.frames x.frames } :: ys else y :: mergeSrc ys x

/-- source images of the given frames: every instance once, with all the frames any mention lists -/
def gatherSources (l : List SrcImg) : List SrcImg := l.foldl mergeSrc []

/-- every source image of a frame (all derivation items, all their source images) -/
def frameSources (fi : FrameInfo) : List SrcImg :=
  match fi.drv with
  | none => []
  | some ds => ds.flatMap (fun d => match d with | none => [] | some l => l)

/-- `ReferencedSegment.from_segmentation(segmentation, segment_number, frame_numbers)` -/
def refSegment (s : Seg) (segment : Int) (frames : Option (List Int)) : Except ErrKind SegmentRef := do
  if !s.isSeg then throw .value
  let infos ← match frames with
    | some l => namedFrames s segment l
    | none =>
      let l := s.frames.filter (fun fi => fi.segment = segment)
      if l.isEmpty then throw .value else pure l
  let sources := gatherSources (infos.flatMap frameSources)
  if !sources.isEmpty then
    pure ⟨s.cls, s.inst, frames, segment, sources, none⟩
  else match s.refSeries with
    | none => throw .attribute
    | some ser => match s.refInstances with
      | some l => if l.isEmpty then throw .value else pure ⟨s.cls, s.inst, frames, segment, l.map (fun r => ⟨r.cls, r.inst, none⟩), none⟩
      | none => pure ⟨s.cls, s.inst, frames, segment, [], some ser⟩

end HdVerif.SREvidence
