import HdVerif.Model.Codec
/-! C07, the glue: how the image classes call `frame.decode_frame` / `frame.encode_frame`.

`image._Image.get_stored_frame`, `get_stored_frames`, the pixel transform (`_CombinedPixelTransform.__call__`, behind
`get_frame` / `get_frames` / `get_volume`) and `io.ImageFileReader.read_frame` all decode the raw bytes of one frame by a
call of `decode_frame` whose arguments are attributes of the image data set.  Which attribute feeds which parameter is
REGENERATED from the call sites (`Gen.frameCodecCallSites`, T13g); `Proofs/CodecGlue.call_sites_tie` shows that it is the
reading below. -/
namespace HdVerif.Codec
open HdVerif HdVerif.Bits HdVerif.Gen

/-- the attributes of an image data set that reach `decode_frame` -/
structure PixelModule where
  /-- `file_meta.TransferSyntaxUID` -/
  ts : String
  /-- Rows, Columns, Samples per Pixel -/
  rows : Nat
  cols : Nat
  samples : Nat
  bitsAllocated : Int
  /-- Bits Stored; the readers of `image.py` fall back to Bits Allocated when it is absent (`X.get('BitsStored', X.BitsAllocated)`) -/
  bitsStored : Option Int
  pi : String
  pixelRepresentation : Int
  /-- Planar Configuration, `none` when the attribute is absent (`X.get('PlanarConfiguration')`) -/
  planar : Option Int
  deriving Repr, DecidableEq

/-- `X.get('BitsStored', X.BitsAllocated)` -/
def PixelModule.storedOrAllocated (m : PixelModule) : Int :=
  match m.bitsStored with
  | some b => b
  | none => m.bitsAllocated

/-- the image parameters a reader hands to `decode_frame` -/
def PixelModule.params (m : PixelModule) : Params :=
  ⟨m.ts, m.bitsAllocated, m.storedOrAllocated, m.pi, m.pixelRepresentation, m.planar⟩

/-- one stored frame as every reader obtains it from the frame's raw bytes and its 0-based index:
    `decode_frame(value=raw, transfer_syntax_uid=.., rows=Rows, columns=Columns, samples_per_pixel=SamplesPerPixel,
    bits_allocated=BitsAllocated, bits_stored=BitsStored (or BitsAllocated), photometric_interpretation=..,
    pixel_representation=.., planar_configuration=PlanarConfiguration (or None), index=frame_index)` -/
def readFrame (c : CodecImpl) (conv : List Int → List Int) (m : PixelModule) (raw : List Nat) (index : Int) :
    Except ErrKind (List Int) :=
  decodeFrame c conv m.params m.rows m.cols m.samples raw index

/-- the pixel module of an image whose frames were encoded by `encode_frame` with parameters `p` from frames shaped like
    `x`, the writer handing `encode_frame` the data set's own attributes (the writers' call sites are part of T13g; a
    monochrome image carries no Planar Configuration, `p.planar = none`) -/
def PixelModule.written (p : Params) (x : Frame) : PixelModule :=
  ⟨p.ts, x.rows, x.cols, x.spp, p.bitsAllocated, some p.bitsStored, p.pi, p.pixelRepresentation, p.planar⟩

/-- the same image with the (type 1, but tolerated) Bits Stored attribute missing -/
def PixelModule.withoutStored (m : PixelModule) : PixelModule := { m with bitsStored := none }

/-! ### what the model's reader takes for each parameter, in the vocabulary of T13g -/

/-- the readers (sites that call `decode_frame`) -/
def decodeSites : List String :=
  ["image.py:_CombinedPixelTransform.__call__", "image.py:_Image.get_stored_frame", "image.py:_Image.get_stored_frames",
   "io.py:ImageFileReader.read_frame"]

/-- the writers (sites that call `encode_frame`) -/
def encodeSites : List String :=
  ["sc/sop.py:SCImage.__init__", "pm/sop.py:ParametricMap._encode_frame", "legacy/sop.py:_convert_legacy_to_enhanced",
   -- the Segmentation writer: the direct call and the submission to a worker pool, both with ONE keyword dictionary built nearby
   "seg/sop.py:Segmentation.__init__#call0", "seg/sop.py:Segmentation.__init__#submit1"]

/-- parameter of `decode_frame` ↦ the normal forms (T13g) under which `readFrame` / `PixelModule.params` is the call -/
def readerSource : List (String × List String) :=
  [("value", ["local:frame", "local:raw_frame", "local:frame_data"]),
   ("transfer_syntax_uid", ["file_meta.TransferSyntaxUID"]),
   ("rows", ["Rows"]), ("columns", ["Columns"]), ("samples_per_pixel", ["SamplesPerPixel"]),
   ("bits_allocated", ["BitsAllocated"]),
   -- `ImageFileReader` insists on the attribute; the image classes fall back to Bits Allocated
   ("bits_stored", ["BitsStored|BitsAllocated", "BitsStored"]),
   ("photometric_interpretation", ["PhotometricInterpretation"]),
   ("pixel_representation", ["PixelRepresentation"]),
   ("planar_configuration", ["PlanarConfiguration|None"]),
   ("index", ["local:frame_index", "local:index"])]

/-- parameter of `encode_frame` ↦ the normal forms under which the written data set is `PixelModule.written p x`:
    the object's own attributes (a planar configuration that is not passed is `None`, which is what a reader finds
    on a data set without that attribute) -/
def writerSource : List (String × List String) :=
  [("array", ["local:pixel_array", "local:ds.pixel_array * 1", "local:segment_array"]),
   ("transfer_syntax_uid", ["file_meta.TransferSyntaxUID"]),
   ("bits_allocated", ["BitsAllocated"]), ("bits_stored", ["BitsStored"]),
   ("photometric_interpretation", ["PhotometricInterpretation"]),
   ("pixel_representation", ["PixelRepresentation"]),
   ("planar_configuration", ["PlanarConfiguration|None", "<default>"])]

/-- does the table `t` pass, at site `s` to callee `f`, every parameter of `src` in one of its normal forms -- and nothing else? -/
def siteAgrees (t : List (String × String × String × String × String)) (s f : String) (src : List (String × List String)) : Bool :=
  let rows := t.filter (fun r => r.1 == s)
  rows.length == src.length &&
  src.all (fun ps => rows.any (fun r => r.2.1 == f && r.2.2.1 == ps.1 && ps.2.contains r.2.2.2.1))

end HdVerif.Codec
