import HdVerif.Model.Offsets
import HdVerif.Generated.T11d
import HdVerif.Generated.T11f
import HdVerif.Generated.T11
import HdVerif.Model.FrameAccess
/-! C05: encapsulated pixel data as BYTES — what `io.ImageFileReader` does on the file itself.

`Model/Offsets.lean` speaks about a list of fragments; here the stream is the byte string that follows the header of
the Pixel Data element (Basic Offset Table item, fragment items, sequence delimiter, whatever else the file holds),
and the reader's steps are modelled as reads on that byte string: `fp.read_tag()` (4 bytes, EOFError when fewer are
left), `fp.read_UL()` (4 bytes little endian, struct.error when fewer are left), `fp.read(n)` (may return fewer),
`fp.seek`.  Little-endian transfer syntaxes (every encapsulated syntax is).  The arithmetic of every step is the
regenerated one of `Generated/T11d.lean`; which table is used (`ExtendedOffsetTable` first, else the Basic Offset
Table, rebuilt unless it has one entry per frame) and where the first frame starts are regenerated as
`Generated/T11f.lean`.  `Proofs/EncapBytes.lean` proves that on an encoded fragment list these byte-level functions are
the fragment-level ones (refinement), so the theorems about fragments are theorems about the bytes. -/
namespace HdVerif.EncapBytes
open HdVerif HdVerif.Offsets HdVerif.Gen

abbrev Bytes := List Nat

/-- `fp.seek(pos); fp.read(n)`: up to `n` bytes from position `pos` (fewer at the end of the file) -/
def readAt (b : Bytes) (pos n : Nat) : Bytes := (b.drop pos).take n

/-- little-endian value of a byte string -/
def leVal : Bytes → Nat
  | [] => 0
  | x :: xs => x + 256 * leVal xs

/-- `n` as `k` little-endian bytes -/
def leBytes : Nat → Nat → Bytes
  | 0, _ => []
  | k + 1, n => n % 256 :: leBytes k (n / 256)

def itemTag : Bytes := [0xFE, 0xFF, 0x00, 0xE0]     -- (FFFE,E000) little endian
def delimTag : Bytes := [0xFE, 0xFF, 0xDD, 0xE0]    -- (FFFE,E0DD)

inductive Tag | item | delim | other
  deriving DecidableEq, Repr

/-- `TupleTag(fp.read_tag())` compared with ItemTag / SequenceDelimiterTag; EOFError with fewer than 4 bytes left -/
def readTag (b : Bytes) (pos : Nat) : Except ErrKind Tag :=
  let t := readAt b pos 4
  if t.length ≠ 4 then .error .other
  else if t = itemTag then .ok .item
  else if t = delimTag then .ok .delim
  else .ok .other

/-- `fp.read_UL()`; struct.error with fewer than 4 bytes left -/
def readUL (b : Bytes) (pos : Nat) : Except ErrKind Nat :=
  let t := readAt b pos 4
  if t.length ≠ 4 then .error .other else .ok (leVal t)

/-! ### encoding (PS3.5 A.4) -/

def encItem (f : Frag) : Bytes := itemTag ++ leBytes 4 f.length ++ f

def encItems : List Frag → Bytes
  | [] => []
  | f :: fs => encItem f ++ encItems fs

def delimiter : Bytes := delimTag ++ [0, 0, 0, 0]

/-- Basic Offset Table item with the given entries (empty list = empty table) -/
def encBot (entries : List Nat) : Bytes :=
  itemTag ++ leBytes 4 (4 * entries.length) ++ (entries.map (leBytes 4)).flatten

/-- value of the ExtendedOffsetTable attribute: unsigned 64-bit little-endian entries -/
def encEot (entries : List Nat) : Bytes := (entries.map (leBytes 8)).flatten

/-! ### `_build_bot` on bytes -/

/-- one iteration of the loop after tag and length are read: the regenerated refusal of lengths, recorded offset,
    next position and marker test (`Generated/T11d.lean`), on the item length and the two bytes read after it -/
def botStepB (len : Nat) (first2 : Bytes) (pos : Nat) (acc : List Nat × List Nat) :
    Except ErrKind (Nat × (List Nat × List Nat)) := do
  let _ ← botLengthCheck len
  let off ← botOffset pos 0
  let nxt ← botNextPosition pos len
  .ok (nxt.toNat, (acc.1 ++ [off.toNat], if startMarkers.contains first2 then acc.2 ++ [off.toNat] else acc.2))

/-- the `while True` loop of `_build_bot`; positions are relative to `initial_position` (the first byte after the Basic
    Offset Table item).  `fuel` bounds the number of items (an item advances the position by at least 10 bytes). -/
def botLoopB (b : Bytes) : Nat → Nat → List Nat × List Nat → Except ErrKind (List Nat × List Nat)
  | 0, _, _ => .error .other
  | fuel + 1, pos, acc =>
    match readTag b pos with
    | .error e => .error e
    | .ok .delim => .ok acc
    | .ok .other => .error .other
    | .ok .item =>
      match readUL b (pos + 4) with
      | .error e => .error e
      | .ok len =>
        match botStepB len (readAt b (pos + 8) 2) pos acc with
        | .error e => .error e
        | .ok (p, a) => botLoopB b fuel p a

/-- `_build_bot(fp, number_of_frames)` with `fp` at the first fragment item -/
def buildBotB (b : Bytes) (numberOfFrames : Nat) : Except ErrKind (List Nat) := do
  let (frag, frm) ← botLoopB b (b.length + 1) 0 ([], [])
  if frm.length = numberOfFrames then .ok frm
  else if frag.length = numberOfFrames then .ok frag
  else .error .value

/-! ### the tables: `_read_bot` (pydicom's `parse_basic_offsets`), `_get_bot`, `_read_eot` -/

/-- split a byte string into `k`-byte little-endian numbers (`struct.unpack` / `np.frombuffer`); `none` unless the
    length is a multiple of `k` -/
def leWords (k : Nat) : Nat → Bytes → Option (List Nat)
  | 0, b => if b = [] then some [] else none
  | fuel + 1, b =>
    if b = [] then some []
    else if (b.take k).length ≠ k ∨ k = 0 then none
    else (leWords k fuel (b.drop k)).map (leVal (b.take k) :: ·)

/-- `parse_basic_offsets`: (entries, position of the first byte after the item) -/
def parseBot (pd : Bytes) : Except ErrKind (List Nat × Nat) := do
  let tag ← readTag pd 0
  if tag ≠ .item then .error .value
  else do
    let len ← readUL pd 4
    if len % 4 ≠ 0 then .error .value
    else
      let body := readAt pd 8 len
      if body.length ≠ len then .error .other
      else match leWords 4 body.length body with
        | some ws => .ok (ws, 8 + len)
        | none => .error .other

/-- `_get_bot`: the stored table when it has one entry per frame, otherwise rebuilt from the fragments; the item after
    the table must be a fragment item.  Result: (table, offset of the first frame inside the element value). -/
def getBotB (pd : Bytes) (numberOfFrames : Nat) : Except ErrKind (List Nat × Nat) := do
  let (stored, first) ← parseBot pd
  let tag ← readTag pd first
  if tag ≠ .item then .error .value
  else match getBotChoice stored.length numberOfFrames with
    | .ok 0 => .ok (stored, first)
    | .ok _ => do
      let t ← buildBotB (pd.drop first) numberOfFrames
      .ok (t, first)
    | .error e => .error e

/-- `_read_eot` -/
def readEot (eot : Bytes) (numberOfFrames : Nat) : Except ErrKind (List Nat) :=
  match leWords eotWordBytes eot.length eot with
  | none => .error .value
  | some ws => match eotLengthCheck ws.length numberOfFrames with
    | .ok _ => .ok ws
    | .error e => .error e

/-- the encapsulated branch of `_read_metadata`: which table, and where the first frame starts (relative to the first
    byte of the element VALUE; the source counts from the element's first byte and adds the 12 header bytes of an
    explicit-VR element with undefined length: `eotFirstFrameOffset` = 20 = 12 + 8) -/
def openEncapsulated (pd : Bytes) (eot : Option Bytes) (numberOfFrames : Nat) : Except ErrKind (List Nat × Nat) := do
  let (table, first) ← match eot with
    | some e => do
      let t ← readEot e numberOfFrames
      let off ← eotFirstFrameOffset 0
      pure (t, (off - 12).toNat)
    | none => getBotB pd numberOfFrames
  match tableLengthCheck table.length numberOfFrames with
  | .ok _ => .ok (table, first)
  | .error e => .error e

/-! ### the fragment walk of `read_frame_raw` on bytes -/

/-- the `while True` loop: tag first, then the stop test, then length and data -/
def readLoopB (b : Bytes) : Nat → Nat → Int → Int → List Bytes → Except ErrKind (List Bytes)
  | 0, _, _, _, _ => .error .other
  | fuel + 1, pos, n, stopAt, acc =>
    match readTag b pos with
    | .error e => .error e
    | .ok tag =>
      if n = stopAt ∨ tag = .delim then .ok acc
      else if tag ≠ .item then .error .value
      else match readUL b (pos + 4) with
        | .error e => .error e
        | .ok len =>
          match readAdvance n len with
          | .ok n' => readLoopB b fuel (pos + 8 + len) n' stopAt (acc ++ [readAt b (pos + 8) len])
          | .error e => .error e

/-- `read_frame_raw(index)` on encapsulated data; `b` = the bytes from the first frame on, i.e. the file from
    `_first_frame_offset` (the regenerated seek `first_frame_offset + frame_offset` with the first frame at 0).  A table entry that is not an item boundary makes the reader parse data bytes as a tag,
    here as there. -/
def readFrameRawB (b : Bytes) (table : List Nat) (i : Nat) : Except ErrKind Bytes :=
  match table[i]? with
  | none => .error .index
  | some off =>
    match readNextEntry i, readStart, readSeekPosition off 0 with
    | .ok j, .ok n0, .ok pos =>
      let stopAt : Except ErrKind Int := match table[j.toNat]? with
        | some nxt => readStopAt nxt off
        | none => readStopAtLast
      match stopAt with
      | .error e => .error e
      | .ok s =>
        match readLoopB b (b.length + 1) pos.toNat n0 s [] with
        | .error e => .error e
        | .ok frags =>
          let data := frags.flatten
          if data.length = 0 then .error .other else .ok data
    | _, _, _ => .error .other

/-- lazily reading raw frame `index` of an encapsulated image: tables, index guard (regenerated, T11), walk.
    `pd` = the VALUE of the Pixel Data element and everything behind it in the file; `eot` = value of
    ExtendedOffsetTable if the attribute is present. -/
def lazyRawEnc (pd : Bytes) (eot : Option Bytes) (numberOfFrames : Nat) (index : Int) : Except ErrKind Bytes := do
  let (table, first) ← openEncapsulated pd eot numberOfFrames
  let i ← lazyIndexGuard index numberOfFrames
  readFrameRawB (pd.drop first) table i.toNat

/-! ### native pixel data in the file: header of the element, then the value -/

/-- header of a native Pixel Data element (7FE0,0010) with value length `len`: tag + 4-byte length under implicit VR;
    tag + VR (`vr` = the two VR characters, OB or OW) + 2 reserved bytes + 4-byte length under explicit VR -/
def nativeHeader (implicit : Bool) (vr : Bytes) (len : Nat) : Bytes :=
  [0xE0, 0x7F, 0x10, 0x00] ++ (if implicit then [] else vr.take 2 ++ [0, 0]) ++ leBytes 4 len

/-- `ImageFileReader.read_frame_raw` on a NATIVE image, on the bytes of the file: the reader remembers where the element starts
    (`_pixel_data_offset`), adds the regenerated header length (`nativeFirstFrameOffset`, T11f) and the offset-table entry, and
    reads the regenerated number of bytes (T11, T11b, T11c - the same arithmetic as `FrameAccess.lazyRaw`) -/
def lazyRawNativeFile (file : Bytes) (pixelDataOffset : Nat) (implicit : Bool) (rows cols samples bits n : Int) (pi : String)
    (idx : Int) : Except ErrKind Bytes := do
  let i ← lazyIndexGuard idx n
  let ppf := rows * cols * samples
  let bpf ← lazyBytesPerFrame ppf bits pi rows cols
  let off ← if bits = 1 then lazyOffsetBit i ppf else lazyOffsetByte i bpf
  let len ← lazyReadLength i off bits ppf bpf
  let first ← nativeFirstFrameOffset implicit pixelDataOffset
  let pos ← readSeekPosition off first
  if pos < 0 ∨ len < 0 then .error .other
  else
    let raw := readAt file pos.toNat len.toNat
    if raw.length = 0 then .error .other else .ok raw

end HdVerif.EncapBytes
