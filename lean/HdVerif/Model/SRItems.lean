import HdVerif.Model.Basic
import HdVerif.Generated.T13s
import HdVerif.Generated.T13se
import HdVerif.Generated.T14
/-! # Model of the SR content items of `highdicom.sr.value_types` (property C13)

An item is what the library makes of it: a class (one of the 15 `*ContentItem`s), the attributes the
constructor wrote into the data set (keyword ↦ value; one-item code / reference / measured-value /
template sequences are kept as structured values) and the nested content.  A plain data set (`DS`)
is the same without classes.  `serialise` forgets the classes; `parse` is
`ContentItem._from_dataset_derived` / `ContentSequence.from_sequence`: class dispatch on the value
type, `_assert_value_type`, `_from_dataset_base`, recursion into the content.  The literal tables and
the guards these functions use are the ones REGENERATED from the current source (`HdVerif.Gen.sr*`,
`scoordCheck`, `scoord3dCheck`).

The constructors (`mkText`, `mkNum`, `mkScoord3d`, …) write the attributes as `__init__` does and
refuse what it refuses; the accessors (`numValue`, `scoordValue`, `tcoordValue`, …) read them back as
the properties do, including pydicom's storage of a one-item list as the item (`MV`).
External: pydicom's `DS(v, auto_format=True)` is the parameter `ds`; coplanarity is exact over ℚ
(`coplanar`), the library's SVD test is compared with it at a safe margin by the correspondence. -/
namespace HdVerif.SRItems
open HdVerif

structure Coded where
  value : String
  scheme : String
  meaning : String
  version : Option String
  deriving DecidableEq, Repr

/-- attribute values; sequences of exactly one item are structured values -/
inductive AVal
  | str (s : String)
  | strs (l : List String)
  | ints (l : List Int)
  | rats (l : List Rat)
  | code (c : Coded)
  | sop (cls inst : String) (frames segments channels : Option (List Int))
  | measured (num : Rat) (fp : Option Rat) (unit : Coded)
  | template (res id : String)
  deriving DecidableEq, Repr

abbrev Attrs := List (String × AVal)

inductive Cls
  | code | composite | container | date | datetime | image | num | pname | scoord | scoord3d | tcoord
  | text | time | uidref | waveform
  deriving DecidableEq, Repr

def Cls.all : List Cls :=
  [.code, .composite, .container, .date, .datetime, .image, .num, .pname, .scoord, .scoord3d, .tcoord,
   .text, .time, .uidref, .waveform]

/-- Python class name -/
def Cls.pyName : Cls → String
  | .code => "CodeContentItem" | .composite => "CompositeContentItem" | .container => "ContainerContentItem"
  | .date => "DateContentItem" | .datetime => "DateTimeContentItem" | .image => "ImageContentItem"
  | .num => "NumContentItem" | .pname => "PnameContentItem" | .scoord => "ScoordContentItem"
  | .scoord3d => "Scoord3DContentItem" | .tcoord => "TcoordContentItem" | .text => "TextContentItem"
  | .time => "TimeContentItem" | .uidref => "UIDRefContentItem" | .waveform => "WaveformContentItem"

def Cls.ofPyName (s : String) : Option Cls := Cls.all.find? (fun c => c.pyName == s)

inductive Item where
  | mk (cls : Cls) (attrs : Attrs) (content : Option (List Item))
  deriving Repr

inductive DS where
  | mk (attrs : Attrs) (content : Option (List DS))
  deriving Repr

def Item.cls : Item → Cls | .mk c _ _ => c
def Item.attrs : Item → Attrs | .mk _ a _ => a
def Item.content : Item → Option (List Item) | .mk _ _ c => c
def DS.attrs : DS → Attrs | .mk a _ => a

def has (k : String) (a : Attrs) : Bool := (a.lookup k).isSome

/-- value of an enumeration by member name, `Enum(value)` = membership among the values -/
def enumHas (tbl : List (String × String)) (v : String) : Bool := tbl.any (fun p => p.2 == v)
/-- the value a member name stands for -/
def enumValue (tbl : List (String × String)) (name : String) : Option String := tbl.lookup name
/-- the member name of a value -/
def enumName (tbl : List (String × String)) (v : String) : Option String :=
  (tbl.find? (fun p => p.2 == v)).map (·.1)

/-! ## serialise / parse -/

mutual
def serialise : Item → DS
  | .mk _ attrs content =>
    .mk attrs (match content with
      | none => none
      | some l => some (serialiseList l))
def serialiseList : List Item → List DS
  | [] => []
  | i :: r => serialise i :: serialiseList r
end

/-- `_assert_value_type(dataset, vt)` with `vt` given by member name -/
def assertValueType (attrs : Attrs) (vtName : String) : Except ErrKind Unit :=
  let vt := attrs.lookup "ValueType"
  let matchesVt := match vt, enumValue Gen.c13ValueTypes vtName with
    | some (.str s), some v => s == v
    | _, _ => false
  match Gen.srAssertHead vt.isSome matchesVt with
  | .error e => .error e
  | .ok _ =>
    match Gen.srRequiredAttrs.lookup vtName with
    | none => .error .key
    | some req =>
      req.foldl (fun acc k => match acc with
        | .error e => .error e
        | .ok _ => match Gen.srAssertAttr (has k attrs) with
          | .error e => .error e
          | .ok _ => .ok ()) (.ok ())

/-- default name of `_from_dataset_base` for the classes whose name is optional -/
def defaultName : Coded := { value := "260753009", scheme := "SCT", meaning := "Source", version := none }

/-- `_from_dataset_base` without the recursion: the guards and the (possibly completed) attributes -/
def baseAttrs (cls : Cls) (attrs : Attrs) : Except ErrKind Attrs :=
  match Gen.srBaseGuards (has "ValueType" attrs) (has "ConceptNameCodeSequence" attrs)
      (Gen.c13OptionalNameClasses.contains cls.pyName) with
  | .error e => .error e
  | .ok r =>
    let attrs' := if r == 1 then attrs ++ [("ConceptNameCodeSequence", .code defaultName)] else attrs
    -- CodedConcept.from_dataset on the name (C17): a one-item code sequence is required
    match attrs'.lookup "ConceptNameCodeSequence" with
    | some (.code _) => .ok attrs'
    | _ => .error .attribute

/-- `<cls>.from_dataset(dataset)` up to the recursion into the content -/
def classifyAs (cls : Cls) (attrs : Attrs) : Except ErrKind Attrs :=
  match Gen.srFromDatasetAsserts.lookup cls.pyName with
  | none => .error .other
  | some vtName =>
    match assertValueType attrs vtName with
    | .error e => .error e
    | .ok _ => baseAttrs cls attrs

/-- `ContentItem._from_dataset_derived` up to the recursion: value type → class, then `classifyAs` -/
def classify (attrs : Attrs) : Except ErrKind (Cls × Attrs) :=
  match attrs.lookup "ValueType" with
  | none => .error .attribute
  | some (.str vt) =>
    match enumName Gen.c13ValueTypes vt with
    | none => .error .value
    | some vtName =>
      match Gen.srDispatch.lookup vtName with
      | none => .error .key
      | some clsName =>
        match Cls.ofPyName clsName with
        | none => .error .other
        | some cls =>
          match classifyAs cls attrs with
          | .error e => .error e
          | .ok attrs' => .ok (cls, attrs')
  | some _ => .error .value

/-- `ContentSequence._check_dataset` for a nested (non-root SR) sequence -/
def checkDataset (attrs : Attrs) (isRoot isSr : Bool) : Except ErrKind Unit :=
  match attrs.lookup "ValueType" with
  | none => .error .attribute
  | some (.str vt) =>
    if !(enumHas Gen.c13ValueTypes vt) then .error .value
    else match Gen.srCheckDatasetRel (has "RelationshipType" attrs) isRoot isSr with
      | .error e => .error e
      | .ok _ => .ok ()
  | some _ => .error .value

/-- `RelationshipTypeValues(i.RelationshipType)` succeeds (or there is no relationship type) -/
def relValid (a : Attrs) : Bool :=
  match a.lookup "RelationshipType" with
  | none => true
  | some (.str r) => enumHas Gen.c13RelationshipTypes r
  | some _ => false

/-- the guards `ContentSequence.__init__` applies to one item (decision tree regenerated for C14, `Gen.csCtorCheck`);
every branch evaluates `i.relationship_type`, i.e. `RelationshipTypeValues(i.RelationshipType)` — ValueError for a
value outside the enumeration -/
def ctorItem (isRoot isSr : Bool) (it : Item) : Except ErrKind Unit :=
  if !relValid it.attrs then .error .value
  else match Gen.csCtorCheck isRoot isSr true (has "RelationshipType" it.attrs) (it.cls == .container) with
    | .error e => .error e
    | .ok _ => .ok ()

/-- `ContentSequence(items, is_root, is_sr)`: the guards, item by item -/
def ctorAll (isRoot isSr : Bool) : List Item → Except ErrKind Unit
  | [] => .ok ()
  | i :: r => match ctorItem isRoot isSr i with
    | .error e => .error e
    | .ok _ => ctorAll isRoot isSr r

mutual
/-- `ContentItem._from_dataset_derived(dataset)` -/
def parse : DS → Except ErrKind Item
  | .mk attrs content =>
    match classify attrs with
    | .error e => .error e
    | .ok (cls, attrs') =>
      match content with
      | none => .ok (.mk cls attrs' none)
      | some l =>
        match parseList l with
        | .error e => .error e
        | .ok ch =>
          -- `from_sequence` ends in `ContentSequence(content_items, is_root=False, is_sr=True)`
          match ctorAll false true ch with
          | .error e => .error e
          | .ok _ => .ok (.mk cls attrs' (some ch))
/-- the loop of `ContentSequence.from_sequence` (defaults `is_root=False, is_sr=True`): check, then parse, data set
by data set; the constructor guards over all parsed items follow in the caller -/
def parseList : List DS → Except ErrKind (List Item)
  | [] => .ok []
  | d :: r =>
    match checkDataset d.attrs false true with
    | .error e => .error e
    | .ok _ =>
      match parse d with
      | .error e => .error e
      | .ok i =>
        match parseList r with
        | .error e => .error e
        | .ok is => .ok (i :: is)
end

/-- `<cls>.from_dataset(dataset)`: the public per-class entry point -/
def parseAs (cls : Cls) : DS → Except ErrKind Item
  | .mk attrs content =>
    match classifyAs cls attrs with
    | .error e => .error e
    | .ok attrs' =>
      match content with
      | none => .ok (.mk cls attrs' none)
      | some l =>
        match parseList l with
        | .error e => .error e
        | .ok ch =>
          match ctorAll false true ch with
          | .error e => .error e
          | .ok _ => .ok (.mk cls attrs' (some ch))

/-- `ContentSequence.from_sequence([dataset], is_root, is_sr)[0]`: `_check_dataset`, parse, then the guards of
`ContentSequence(content_items, is_root, is_sr)` -/
def parseTop (d : DS) (isRoot isSr : Bool) : Except ErrKind Item :=
  match checkDataset d.attrs isRoot isSr with
  | .error e => .error e
  | .ok _ =>
    match parse d with
    | .error e => .error e
    | .ok it =>
      match ctorItem isRoot isSr it with
      | .error e => .error e
      | .ok _ => .ok it

/-! ## well-formed items (what the constructors produce) -/

mutual
def wf : Item → Bool
  | .mk cls attrs content =>
    (classify attrs == .ok (cls, attrs)) &&
    (match content with
      | none => true
      | some l => wfList l)
def wfList : List Item → Bool
  | [] => true
  | i :: r => (checkDataset i.attrs false true == .ok ()) && (ctorItem false true i == .ok ()) && wf i && wfList r
end

/-! ## constructors -/

/-- `ContentItem.__init__`: value type, name, optional relationship type (validated against the enumeration) -/
def base (cls : Cls) (name : Coded) (rel : Option String) : Except ErrKind Attrs :=
  match Gen.srCtorValueType.lookup cls.pyName with
  | none => .error .other
  | some vtName =>
    match enumValue Gen.c13ValueTypes vtName with
    | none => .error .other
    | some vt =>
      let a : Attrs := [("ValueType", .str vt), ("ConceptNameCodeSequence", .code name)]
      match rel with
      | none => .ok a
      | some r => if enumHas Gen.c13RelationshipTypes r then .ok (a ++ [("RelationshipType", .str r)]) else .error .value

def withAttrs (cls : Cls) (name : Coded) (rel : Option String) (extra : Attrs) : Except ErrKind Item :=
  match base cls name rel with
  | .error e => .error e
  | .ok a => .ok (.mk cls (a ++ extra) none)

def mkCode (name : Coded) (value : Coded) (rel : Option String) := withAttrs .code name rel [("ConceptCodeSequence", .code value)]
def mkText (name : Coded) (value : String) (rel : Option String) := withAttrs .text name rel [("TextValue", .str value)]
def mkPname (name : Coded) (value : String) (rel : Option String) := withAttrs .pname name rel [("PersonName", .str value)]
def mkDate (name : Coded) (value : String) (rel : Option String) := withAttrs .date name rel [("Date", .str value)]
def mkTime (name : Coded) (value : String) (rel : Option String) := withAttrs .time name rel [("Time", .str value)]
def mkDateTime (name : Coded) (value : String) (rel : Option String) := withAttrs .datetime name rel [("DateTime", .str value)]
def mkUidRef (name : Coded) (value : String) (rel : Option String) := withAttrs .uidref name rel [("UID", .str value)]

/-- `NumContentItem`: `NumericValue = DS(value, auto_format=True)` (the parameter `ds`), `FloatingPointValue`
only for floats -/
def mkNum (ds : Rat → Rat) (name : Coded) (value : Rat) (isFloat : Bool) (unit : Coded) (qualifier : Option Coded)
    (rel : Option String) : Except ErrKind Item :=
  withAttrs .num name rel
    ([("MeasuredValueSequence", .measured (ds value) (if isFloat then some value else none) unit)] ++
     (match qualifier with
      | none => []
      | some q => [("NumericValueQualifierCodeSequence", .code q)]))

def mkContainer (name : Coded) (continuous : Bool) (template : Option String) (rel : Option String) :=
  withAttrs .container name rel
    ([("ContinuityOfContent", .str (if continuous then "CONTINUOUS" else "SEPARATE"))] ++
     (match template with
      | none => []
      | some t => [("ContentTemplateSequence", .template "DCMR" t)]))

def mkComposite (name : Coded) (cls inst : String) (rel : Option String) :=
  withAttrs .composite name rel [("ReferencedSOPSequence", .sop cls inst none none none)]

def mkImage (name : Coded) (cls inst : String) (frames segments : Option (List Int)) (rel : Option String) :=
  withAttrs .image name rel [("ReferencedSOPSequence", .sop cls inst frames segments none)]

def flattenPairs : List (Int × Int) → List Int
  | [] => []
  | (a, b) :: r => a :: b :: flattenPairs r

def mkWaveform (name : Coded) (cls inst : String) (channels : Option (List (Int × Int))) (rel : Option String) :=
  withAttrs .waveform name rel [("ReferencedSOPSequence", .sop cls inst none none (channels.map flattenPairs))]

/-- a numpy array of shape (n, d): `rows` with `d` entries each (`d` kept for `n = 0`) -/
structure Points where
  d : Nat
  rows : List (List Rat)
  ndim : Nat := 2          -- number of array dimensions; `d` and `rows` describe the array when it is 2
  deriving DecidableEq, Repr

def Points.rect (p : Points) : Bool := p.rows.all (fun r => r.length == p.d)

def optAttr (k : String) (v : Option String) : Attrs :=
  match v with
  | none => []
  | some s => [(k, .str s)]

/-- `ScoordContentItem.__init__`; `fl` = the cast to the 32-bit floats of value representation FL
(`graphic_data.astype(np.float32)`) -/
def mkScoord (fl : Rat → Rat) (name : Coded) (gt : String) (p : Points) (origin fiducial : Option String) (rel : Option String) :
    Except ErrKind Item :=
  match base .scoord name rel with
  | .error e => .error e
  | .ok a =>
    match enumName Gen.c13GraphicTypes gt with
    | none => .error .value
    | some gtName =>
      match Gen.scoordAxesCheck p.ndim with
      | .error e => .error e
      | .ok _ =>
      match Gen.scoordCheck gtName p.rows.length p.d with
      | .error e => .error e
      | .ok _ =>
        match origin with
        | some o => if enumHas Gen.c13PixelOrigins o then
            .ok (.mk .scoord (a ++ [("GraphicType", .str gt), ("GraphicData", .rats (p.rows.flatten.map fl)),
                                     ("PixelOriginInterpretation", .str o)] ++ optAttr "FiducialUID" fiducial) none)
          else .error .value
        | none =>
          .ok (.mk .scoord (a ++ [("GraphicType", .str gt), ("GraphicData", .rats (p.rows.flatten.map fl))]
                              ++ optAttr "FiducialUID" fiducial) none)

def sub3 (a b : List Rat) : List Rat := List.zipWith (· - ·) a b

def det3 (a b c : List Rat) : Rat :=
  match a, b, c with
  | [a0, a1, a2], [b0, b1, b2], [c0, c1, c2] =>
    a0 * (b1 * c2 - b2 * c1) - a1 * (b0 * c2 - b2 * c0) + a2 * (b0 * c1 - b1 * c0)
  | _, _, _ => 0

/-- exact coplanarity: every 3×3 determinant of differences to the first point vanishes
(rank of the difference vectors ≤ 2); fewer than four points are always coplanar -/
def coplanar (rows : List (List Rat)) : Bool :=
  match rows with
  | [] => true
  | p0 :: _ =>
    decide (rows.length < 4) ||
    rows.all fun a => rows.all fun b => rows.all fun c => det3 (sub3 a p0) (sub3 b p0) (sub3 c p0) == 0

def firstEqLast (rows : List (List Rat)) : Bool :=
  match rows.head?, rows.getLast? with
  | some a, some b => a == b
  | _, _ => false

/-- `Scoord3DContentItem.__init__` (the checks see the array as given, the stored values are cast by `fl`) -/
def mkScoord3d (fl : Rat → Rat) (name : Coded) (gt : String) (p : Points) (frameOfRef : String) (fiducial : Option String)
    (rel : Option String) : Except ErrKind Item :=
  match base .scoord3d name rel with
  | .error e => .error e
  | .ok a =>
    match enumName Gen.c13GraphicTypes3D gt with
    | none => .error .value
    | some gtName =>
      match Gen.scoord3dAxesCheck p.ndim with
      | .error e => .error e
      | .ok _ =>
      match Gen.scoord3dCheck gtName p.rows.length p.d (firstEqLast p.rows) (coplanar p.rows) with
      | .error e => .error e
      | .ok _ =>
        .ok (.mk .scoord3d (a ++ [("GraphicType", .str gt), ("GraphicData", .rats (p.rows.flatten.map fl)),
                                  ("ReferencedFrameOfReferenceUID", .str frameOfRef)] ++ optAttr "FiducialUID" fiducial) none)

/-- the three alternative arguments of `TcoordContentItem` -/
inductive TArg
  | positions (l : List Int)
  | offsets (l : List Rat)
  | datetimes (l : List String)
  deriving DecidableEq, Repr

/-- `TcoordContentItem.__init__`; `none` for the time points = none of the three arguments given -/
def mkTcoord (ds : Rat → Rat) (name : Coded) (rangeType : String) (arg : Option TArg) (rel : Option String) :
    Except ErrKind Item :=
  match base .tcoord name rel with
  | .error e => .error e
  | .ok a =>
    if !(enumHas Gen.c13TemporalRangeTypes rangeType) then .error .value
    else match arg with
      | none => .error .value
      | some (.positions l) => .ok (.mk .tcoord (a ++ [("TemporalRangeType", .str rangeType), ("ReferencedSamplePositions", .ints l)]) none)
      | some (.offsets l) => .ok (.mk .tcoord (a ++ [("TemporalRangeType", .str rangeType), ("ReferencedTimeOffsets", .rats (l.map ds))]) none)
      | some (.datetimes l) => .ok (.mk .tcoord (a ++ [("TemporalRangeType", .str rangeType), ("ReferencedDateTime", .strs l)]) none)

/-- `item.ContentSequence = children` (→ `ContentSequence(children)`: non-root SR, every child needs a
relationship type) -/
def setContent (it : Item) (children : List Item) : Except ErrKind Item :=
  match ctorAll false true children with
  | .error e => .error e
  | .ok _ => .ok (.mk it.cls it.attrs (some children))

/-! ## accessors -/

/-- how pydicom hands back a multi-valued element: the bare item when there is exactly one -/
inductive MV (α : Type) where
  | single (x : α)
  | multi (l : List α)

def stored {α} : List α → MV α
  | [x] => .single x
  | l => .multi l

/-- `[int(v) for v in val] if isinstance(val, (MultiValue, list)) else [int(val)]` and the repaired `TcoordContentItem.value` -/
def asList {α} : MV α → List α
  | .single x => [x]
  | .multi l => l

def nameOf (it : Item) : Option Coded :=
  match it.attrs.lookup "ConceptNameCodeSequence" with
  | some (.code c) => some c
  | _ => none

def relOf (it : Item) : Option String :=
  match it.attrs.lookup "RelationshipType" with
  | some (.str r) => some r
  | _ => none

def strValue (k : String) (it : Item) : Option String :=
  match it.attrs.lookup k with
  | some (.str s) => some s
  | _ => none

def codeValue (it : Item) : Option Coded :=
  match it.attrs.lookup "ConceptCodeSequence" with
  | some (.code c) => some c
  | _ => none

/-- `NumContentItem.value`: `FloatingPointValue` if present, else `NumericValue` -/
def numValue (it : Item) : Option Rat :=
  match it.attrs.lookup "MeasuredValueSequence" with
  | some (.measured num fp _) => some (fp.getD num)
  | _ => none

def numUnit (it : Item) : Option Coded :=
  match it.attrs.lookup "MeasuredValueSequence" with
  | some (.measured _ _ u) => some u
  | _ => none

def numQualifier (it : Item) : Option Coded :=
  match it.attrs.lookup "NumericValueQualifierCodeSequence" with
  | some (.code c) => some c
  | _ => none

def containerTemplate (it : Item) : Option String :=
  match it.attrs.lookup "ContentTemplateSequence" with
  | some (.template _ t) => some t
  | _ => none

def refValue (it : Item) : Option (String × String) :=
  match it.attrs.lookup "ReferencedSOPSequence" with
  | some (.sop c i _ _ _) => some (c, i)
  | _ => none

def imageFrames (it : Item) : Option (List Int) :=
  match it.attrs.lookup "ReferencedSOPSequence" with
  | some (.sop _ _ (some f) _ _) => some (asList (stored f))
  | _ => none

def imageSegments (it : Item) : Option (List Int) :=
  match it.attrs.lookup "ReferencedSOPSequence" with
  | some (.sop _ _ _ (some s) _) => some (asList (stored s))
  | _ => none

/-- `[(val[i], val[i + 1]) for i in range(0, len(val) - 1, 2)]` -/
def pairUp : List Int → List (Int × Int)
  | a :: b :: r => (a, b) :: pairUp r
  | _ => []

def waveformChannels (it : Item) : Option (List (Int × Int)) :=
  match it.attrs.lookup "ReferencedSOPSequence" with
  | some (.sop _ _ _ _ (some c)) => some (pairUp c)
  | _ => none

/-- `np.array(flat).reshape(-1, d)` for a list whose length is a multiple of `d` (fuel = length) -/
def chunk (d : Nat) : Nat → List Rat → List (List Rat)
  | 0, _ => []
  | fuel + 1, l => if l.isEmpty then [] else l.take d :: chunk d fuel (l.drop d)

def graphicData (it : Item) : Option (List Rat) :=
  match it.attrs.lookup "GraphicData" with
  | some (.rats l) => some l
  | _ => none

def scoordValue (it : Item) : Option (List (List Rat)) := (graphicData it).map (fun l => chunk 2 l.length l)
def scoord3dValue (it : Item) : Option (List (List Rat)) := (graphicData it).map (fun l => chunk 3 l.length l)

/-- `TcoordContentItem.value` (repaired): sample positions, else time offsets, else date times; always a list -/
def tcoordValue (it : Item) : Option TArg :=
  match it.attrs.lookup "ReferencedSamplePositions" with
  | some (.ints l) => some (.positions (asList (stored l)))
  | _ =>
    match it.attrs.lookup "ReferencedTimeOffsets" with
    | some (.rats l) => some (.offsets (asList (stored l)))
    | _ =>
      match it.attrs.lookup "ReferencedDateTime" with
      | some (.strs l) => some (.datetimes (asList (stored l)))
      | _ => none

end HdVerif.SRItems
