import HdVerif.Model.Basic
import HdVerif.Generated.T3
import HdVerif.Generated.T5
import HdVerif.Generated.T6
import HdVerif.Generated.T7a
import HdVerif.Generated.T7b
import HdVerif.Generated.T7c
import HdVerif.Generated.T7d
import HdVerif.Generated.T7e
import HdVerif.Generated.T7f
/-! C04 / C12: tiled images.

Everything integer is taken from the definitions the translator regenerates from /repo
(`Gen.stdRowColIndices` T3, `Gen.tiledRegion` T5, `Gen.tileArrayBounds` T6, `Gen.tilesPerAxisCeil` T7a,
`Gen.tilesPerAxisFloor` T7b, `Gen.planePositionOffsets` T7c, `Gen.tfInit/tfMaxStep/tfRanges/tfMatchStep` T7d,
`Gen.tiledFullZOffset` T7e, `Gen.tiledFullFrameSlice` T7f);
the loops around them (SQL selection as a list filter, the copy loop of `_get_pixels_by_frame`, the
enumerations, the tiling loop of the Segmentation constructor) are written by hand here and tied to the
code by the correspondence.

A 2-D array is a total function of 0-based `(row, column)`; only indices inside the accompanying shape
mean anything.  Pixel values are an arbitrary type `α` with a designated zero `z`. -/
namespace HdVerif.Tiling
open HdVerif HdVerif.Gen

abbrev Img (α : Type) := Int → Int → α

/-- `range(n)` as integers (empty for `n ≤ 0`) -/
def iota (n : Int) : List Int := (List.range n.toNat).map (fun (k : Nat) => (k : Int))

/-! ## Python slices -/

/-- one bound of a Python slice (step 1) on an axis of length `n`: negative bounds count from the end,
everything is clamped to `[0, n]` (`slice.indices`) -/
def pyNorm (x n : Int) : Int := if x < 0 then max (x + n) 0 else min x n

/-! ## The frame look-up table and region reads (`image.py`) -/

/-- one row of the `FrameLUT`: 1-based position of the tile in the total pixel matrix, 0-based frame
index (`L.FrameNumber - 1`), channel (segment number / optical path; 0 when the image has none) -/
structure LutRow where
  rp : Int
  cp : Int
  fi : Nat
  ch : Int
  deriving Repr, DecidableEq

/-- one copy instruction yielded by `_iterate_indices_for_tiled_region`:
`out[o0:o1, p0:p1] = frame fi [a0:a1, b0:b1]` -/
structure Instr where
  fi : Nat
  a0 : Int
  a1 : Int
  b0 : Int
  b1 : Int
  o0 : Int
  o1 : Int
  p0 : Int
  p1 : Int
  deriving Repr, DecidableEq

/-- the WHERE clause of the region query, with the translated offset starts -/
def selected (rs re cs ce th tw : Int) (r : LutRow) : Bool :=
  match tiledRegion rs re cs ce r.rp r.cp th tw with
  | .ok (ros, cos, _, _, _, _) => decide (ros ≤ r.rp) && decide (r.rp < re) && decide (cos ≤ r.cp) && decide (r.cp < ce)
  | .error _ => false

/-- the element of the generator yielded for one selected row of the table (translated slice bounds) -/
def instrOf (rs re cs ce th tw : Int) (r : LutRow) : Except ErrKind Instr :=
  match tiledRegion rs re cs ce r.rp r.cp th tw with
  | .ok (_, _, _, _, ((a0, a1), (b0, b1)), ((o0, o1), (p0, p1))) => .ok ⟨r.fi, a0, a1, b0, b1, o0, o1, p0, p1⟩
  | .error e => .error e

/-- `v_frames * h_frames`: the number of frames the missing-frame test expects -/
def expectedCount (rs re cs ce th tw : Int) : Except ErrKind Int :=
  match tiledRegion rs re cs ce 0 0 th tw with
  | .ok (_, _, vf, hf, _, _) => .ok (vf * hf)
  | .error e => .error e

/-- numpy `out[o0:o1, p0:p1] = frame[a0:a1, b0:b1]` for an output of shape `(oh, ow)` and a frame of shape
`(th, tw)`.  Unequal shapes are refused (numpy would broadcast a length-1 source axis; the theorems show the
shapes are always equal, so that behaviour is never reached). -/
def assignSlice {α} (out : Img α) (oh ow : Int) (frame : Img α) (th tw : Int) (ins : Instr) :
    Except ErrKind (Img α) :=
  let o0 := pyNorm ins.o0 oh
  let o1 := pyNorm ins.o1 oh
  let p0 := pyNorm ins.p0 ow
  let p1 := pyNorm ins.p1 ow
  let a0 := pyNorm ins.a0 th
  let a1 := pyNorm ins.a1 th
  let b0 := pyNorm ins.b0 tw
  let b1 := pyNorm ins.b1 tw
  if max (o1 - o0) 0 ≠ max (a1 - a0) 0 ∨ max (p1 - p0) 0 ≠ max (b1 - b0) 0 then .error .value
  else .ok (fun i j => if o0 ≤ i ∧ i < o1 ∧ p0 ≤ j ∧ j < p1 then frame (a0 + (i - o0)) (b0 + (j - p0)) else out i j)

/-- `ORDER BY RowPosition, ColumnPosition` -/
def lutLe (a b : LutRow) : Bool := decide (a.rp < b.rp) || (decide (a.rp = b.rp) && decide (a.cp ≤ b.cp))

/-- `_do_columns_identify_unique_frames` on (row position, column position[, channel]) -/
def uniquePos : List LutRow → Bool
  | [] => true
  | r :: rest => rest.all (fun s => !(decide (s.rp = r.rp) && decide (s.cp = r.cp) && decide (s.ch = r.ch))) && uniquePos rest

/-- the list of copy instructions `_iterate_indices_for_tiled_region` yields for a standardised region
`[r0, r1) × [c0, c1)` (1-based) over the table rows `rows` -/
def regionInstrs (rows : List LutRow) (r0 r1 c0 c1 th tw : Int) : Except ErrKind (List Instr) :=
  ((rows.filter (selected r0 r1 c0 c1 th tw)).mergeSort lutLe).mapM (instrOf r0 r1 c0 c1 th tw)

/-- instruction `ins` writes output pixel `(i, j)` -/
def writes (ins : Instr) (i j : Int) : Prop := ins.o0 ≤ i ∧ i < ins.o1 ∧ ins.p0 ≤ j ∧ j < ins.p1

instance (ins : Instr) (i j : Int) : Decidable (writes ins i j) := by unfold writes; infer_instance

/-- the copy loop of `_get_pixels_by_frame` / `_get_pixels_by_seg_frame` over the selected rows -/
def copyLoop {α} (frames : List (Img α)) (rs re cs ce th tw : Int) (oh ow : Int) :
    List LutRow → Img α → Except ErrKind (Img α)
  | [], out => .ok out
  | r :: rest, out =>
    match instrOf rs re cs ce th tw r with
    | .error e => .error e
    | .ok ins =>
      match frames[r.fi]? with
      | none => .error .index
      | some fr =>
        match assignSlice out oh ow fr th tw ins with
        | .error e => .error e
        | .ok out' => copyLoop frames rs re cs ce th tw oh ow rest out'

/-- the rows of the table a query for channel `chan` can match (`none`: no channel query) -/
def chanRows (chan : Option Int) (lut : List LutRow) : List LutRow :=
  match chan with
  | none => lut
  | some c => lut.filter (fun r => r.ch = c)

/-- the uniqueness test on the columns used by the query: (row, column) or (row, column, channel) -/
def uniqueKey (chan : Option Int) (lut : List LutRow) : Bool :=
  match chan with
  | none => uniquePos (lut.map (fun r => { r with ch := 0 }))
  | some _ => uniquePos lut

/-- A region of the total pixel matrix for one channel.

`lut`, `frames`: the image; `rows`/`cols`: TotalPixelMatrixRows/Columns; `th`/`tw`: Rows/Columns of a frame;
`chan = none`: no channel query (`Image.get_total_pixel_matrix`), `some c`: the rows of channel `c`
(one entry of `channel_indices`); `full`: DimensionOrganizationType is TILED_FULL; `allowMissing`:
`allow_missing_combinations`.  Result: output shape and array. -/
def readRegion {α} (z : α) (lut : List LutRow) (frames : List (Img α)) (rows cols th tw : Int)
    (chan : Option Int) (rs re cs ce : Option Int) (asIdx full allowMissing : Bool) :
    Except ErrKind (Int × Int × Img α) :=
  if !(uniqueKey chan lut) then .error .runtime else
  match stdRowColIndices rs re cs ce rows cols asIdx false with
  | .error e => .error e
  | .ok (r0, r1, c0, c1) =>
    match expectedCount r0 r1 c0 c1 th tw with
    | .error e => .error e
    | .ok cnt =>
      let sel := ((chanRows chan lut).filter (selected r0 r1 c0 c1 th tw)).mergeSort lutLe
      if !allowMissing && !full && (sel.length : Int) ≠ cnt then .error .runtime else
      let oh := r1 - r0
      let ow := c1 - c0
      if oh < 0 ∨ ow < 0 then .error .value else
      match copyLoop frames r0 r1 c0 c1 th tw oh ow sel (fun _ _ => z) with
      | .error e => .error e
      | .ok out => .ok (oh, ow, out)

/-! ## Tiling helpers (`spatial.py`, `utils.py`) -/

/-- `spatial.tile_pixel_matrix`: 1-based (column, row) tile indices, row-major -/
def tileIndexEnum (R C tr tc : Int) : Except ErrKind (List (Int × Int)) :=
  if tr = 0 ∨ tc = 0 then .error .other else       -- ZeroDivisionError
  match tilesPerAxisCeil R C tr tc with
  | .error e => .error e
  | .ok (tilesPerCol, tilesPerRow) =>
    .ok ((iota tilesPerCol).flatMap (fun i => (iota tilesPerRow).map (fun j => (j + 1, i + 1))))

/-- `spatial.compute_tile_positions_per_frame`, pixel part: 1-based (column offset, row offset) of every
tile, row-major (`meshgrid(..., indexing='xy')`, `reshape(2, -1).T`, `* [columns, rows]`, `+= 1`) -/
def tileOffsets (tr tc R C : Int) : Except ErrKind (List (Int × Int)) :=
  if tr = 0 ∨ tc = 0 then .error .other else       -- ZeroDivisionError
  match tilesPerAxisFloor tr tc R C with
  | .error e => .error e
  | .ok (nCol, nRow) =>
    if nCol ≤ 0 ∨ nRow ≤ 0 then .error .value else  -- reshape(2, -1) of an empty array
    .ok ((iota nRow).flatMap (fun i => (iota nCol).map (fun j => (j * tc + 1, i * tr + 1))))

/-- geometry of the total pixel matrix: position of the centre of the top left pixel, direction cosines of
the row direction (increasing column index) and of the column direction (increasing row index), spacing
between rows (`pixel_spacing[0]`) and between columns (`pixel_spacing[1]`) -/
structure Geo where
  ox : Rat
  oy : Rat
  oz : Rat
  rx : Rat
  ry : Rat
  rz : Rat
  cx : Rat
  cy : Rat
  cz : Rat
  sr : Rat
  sc : Rat

/-- `PixelToReferenceTransformer` / `map_pixel_into_coordinate_system` on a 0-based (column, row) pixel index -/
def pixToRef (g : Geo) (cIdx rIdx : Int) : Rat × Rat × Rat :=
  (g.ox + g.rx * g.sc * cIdx + g.cx * g.sr * rIdx,
   g.oy + g.ry * g.sc * cIdx + g.cy * g.sr * rIdx,
   g.oz + g.rz * g.sc * cIdx + g.cz * g.sr * rIdx)

/-- `spatial.compute_tile_positions_per_frame`: ((column offset, row offset), (x, y, z)) per tile; the
positions are computed from the 0-based pixel indices, the reported offsets are 1-based -/
def tilePositions (tr tc R C : Int) (g : Geo) : Except ErrKind (List ((Int × Int) × (Rat × Rat × Rat))) :=
  if tr = 0 ∨ tc = 0 then .error .other else
  match tilesPerAxisFloor tr tc R C with
  | .error e => .error e
  | .ok (nCol, nRow) =>
    if nCol ≤ 0 ∨ nRow ≤ 0 then .error .value else
    .ok ((iota nRow).flatMap (fun i => (iota nCol).map (fun j =>
      ((j * tc + 1, i * tr + 1), pixToRef g (j * tc) (i * tr)))))

/-- the channel numbers `iter_tiled_full_frame_data` iterates over for an image with `n` optical paths / a non-LABELMAP
segmentation with `n` segments: `1 .. n` -/
def channelNumbers (n : Int) : List (Option Int) := (iota n).map (fun k => some (k + 1))

/-- `spatial.iter_tiled_full_frame_data`: (channel, focal plane, column position, row position, x, y, z)
for every frame of a TILED_FULL image, channels outermost, then focal planes, then tiles row-major.
`sbs` = SpacingBetweenSlices (1 when absent); `g.oz` = z offset of the total pixel matrix origin (0 when absent). -/
def iterTiledFull (channels : List (Option Int)) (planes : Int) (tr tc R C : Int) (g : Geo) (sbs : Rat) :
    Except ErrKind (List (Option Int × Int × Int × Int × Rat × Rat × Rat)) :=
  (channels.flatMap (fun ch => (iota planes).map (fun p => (ch, p + 1)))).foldr
    (fun (chp : Option Int × Int) acc =>
      match acc with
      | .error e => .error e
      | .ok rest =>
        match tiledFullZOffset chp.2 sbs g.oz with
        | .error e => .error e
        | .ok zoff =>
          match tilePositions tr tc R C { g with oz := zoff } with
          | .error e => .error e
          | .ok ps => .ok (ps.map (fun p => (chp.1, chp.2, p.1.1, p.1.2, p.2.1, p.2.2.1, p.2.2.2)) ++ rest))
    (.ok [])

/-- `spatial._get_spatial_information(dataset, frame_number)` for a TILED_FULL image — the position behind every
`*Transformer.for_image(image, frame_number=k)`: `next(itertools.islice(iter_tiled_full_frame_data(dataset), a, b))` with
the translated bounds.  A negative bound is a ValueError of `islice`, an empty slice a StopIteration. -/
def framePosition (channels : List (Option Int)) (planes : Int) (tr tc R C : Int) (g : Geo) (sbs : Rat) (frameNumber : Int) :
    Except ErrKind (Rat × Rat × Rat) :=
  match tiledFullFrameSlice frameNumber with
  | .error e => .error e
  | .ok (a, b) =>
    if a < 0 ∨ b < 0 then .error .value else
    match iterTiledFull channels planes tr tc R C g sbs with
    | .error e => .error e
    | .ok l =>
      if b ≤ a then .error .other else
      match l[a.toNat]? with
      | none => .error .other
      | some x => .ok (x.2.2.2.2.1, x.2.2.2.2.2.1, x.2.2.2.2.2.2)

/-- `utils.compute_plane_position_tiled_full`: (column position, row position, x, y, z) of the tile with 1-based
tile indices; `z3d = some (slice_index, spacing_between_slices)` or `none` -/
def planePositionTiledFull (rowIndex colIndex : Int) (tr tc : Int) (g : Geo) (z3d : Option (Int × Rat)) :
    Except ErrKind (Int × Int × Rat × Rat × Rat) :=
  match planePositionOffsets rowIndex colIndex tr tc with
  | .error e => .error e
  | .ok (cIdx, rIdx, cPos, rPos) =>
    let zoff : Rat := match z3d with
      | some (si, sbs) => ((si - 1 : Int) : Rat) * sbs
      | none => 0
    let p := pixToRef { g with oz := zoff } cIdx rIdx
    .ok (cPos, rPos, p.1, p.2.1, p.2.2)

/-- Python `range(start, stop, step)` for `step ≥ 1` -/
def pyRange (start stop step : Int) : Except ErrKind (List Int) :=
  if step = 0 then .error .value
  else if step < 0 then .error .other       -- not modelled (tile sizes are positive)
  else .ok ((iota ((stop - start + step - 1) / step)).map (fun k => start + step * k))

/-- first loop of `are_plane_positions_tiled_full` -/
def tfMax : List (Int × Int) → Int × Int → Except ErrKind (Int × Int)
  | [], acc => .ok acc
  | (r, c) :: rest, (mr, mc) =>
    match tfMaxStep mr mc r c with
    | .error e => .error e
    | .ok acc' => tfMax rest acc'

/-- second loop of `are_plane_positions_tiled_full` over `zip(expected, positions)` -/
def tfMatch : List (Int × Int) → List (Int × Int) → Except ErrKind Bool
  | (re, ce) :: es, (r, c) :: ps =>
    match tfMatchStep re ce r c with
    | .error e => .error e
    | .ok false => .ok false
    | .ok true => tfMatch es ps
  | _, _ => .ok true

/-- `utils.are_plane_positions_tiled_full` on the (row position, column position) pairs of the plane positions -/
def arePlanePositionsTiledFull (ps : List (Int × Int)) (rows cols : Int) : Except ErrKind Bool :=
  match tfInit with
  | .error e => .error e
  | .ok init =>
    match tfMax ps init with
    | .error e => .error e
    | .ok (mr, mc) =>
      match tfRanges mr mc rows cols with
      | .error e => .error e
      | .ok (r0, r1, rstep, c0, c1, cstep) =>
        match pyRange r0 r1 rstep, pyRange c0 c1 cstep with
        | .error e, _ => .error e
        | _, .error e => .error e
        | .ok rr, .ok cc =>
          let expected := rr.flatMap (fun r => cc.map (fun c => (r, c)))
          if expected.length ≠ ps.length then .ok false else tfMatch expected ps

/-! ## Cutting a matrix into tiles (`get_tile_array`, Segmentation constructor) -/

/-- `spatial.get_tile_array(pad=True)`: the tile at 1-based offsets as an array of shape `(tr, tc)` -/
def getTileArray {α} (z : α) (M : Img α) (R C : Int) (rowOff colOff tr tc : Int) : Except ErrKind (Img α) :=
  match tileArrayBounds rowOff colOff tr tc R C with
  | .error e => .error e
  | .ok (r0, r1, c0, c1, padR, padC) =>
    -- `pixel_array[r0:r1, c0:c1]` then `np.pad(…, ((0, padR), (0, padC)))`
    let a0 := pyNorm r0 R
    let a1 := pyNorm r1 R
    let b0 := pyNorm c0 C
    let b1 := pyNorm c1 C
    if padR < 0 ∨ padC < 0 then .error .value else   -- np.pad refuses negative widths
    .ok (fun i j => if 0 ≤ i ∧ i < a1 - a0 ∧ 0 ≤ j ∧ j < b1 - b0 then M (a0 + i) (b0 + j) else z)

/-- shape of the array `get_tile_array(pad=True)` returns -/
def getTileShape (R C : Int) (rowOff colOff tr tc : Int) : Except ErrKind (Int × Int) :=
  match tileArrayBounds rowOff colOff tr tc R C with
  | .error e => .error e
  | .ok (r0, r1, c0, c1, padR, padC) =>
    if padR < 0 ∨ padC < 0 then .error .value else
    .ok (max (pyNorm r1 R - pyNorm r0 R) 0 + padR, max (pyNorm c1 C - pyNorm c0 C) 0 + padC)

/-- `np.any(tile)` is False -/
def imgAllZero {α} [BEq α] (z : α) (t : Img α) (h w : Int) : Bool :=
  (iota h).all (fun i => (iota w).all (fun j => t i j == z))

/-- One segment's (or the label map's) matrix cut into frames by the Segmentation constructor
(`tile_pixel_array=True`).  `offs`: the tile offsets (column, row) in plane order; `keep i`: tile `i` is
encoded.  Returns table rows (frame indices starting at `base`) and frames. -/
def cutTilesAux {α} (z : α) (M : Img α) (R C tr tc : Int) (ch : Int) :
    List (Int × Int) → List Bool → Nat → Except ErrKind (List LutRow × List (Img α))
  | [], _, _ => .ok ([], [])
  | _ :: _, [], _ => .error .other
  | (co, ro) :: offs, k :: keep, base =>
    if k then
      match getTileArray z M R C ro co tr tc with
      | .error e => .error e
      | .ok t =>
        -- a frame must have the shape (Rows, Columns) of the image: the padded tile has to be `tr × tc`
        if getTileShape R C ro co tr tc ≠ .ok (tr, tc) then .error .value else
        match cutTilesAux z M R C tr tc ch offs keep (base + 1) with
        | .error e => .error e
        | .ok (rows, frs) => .ok (⟨ro, co, base, ch⟩ :: rows, t :: frs)
    else cutTilesAux z M R C tr tc ch offs keep base

/-- `np.any(get_tile_array(...))` for the tile of segment matrix `m` at offsets `o = (column, row)` -/
def tileNonEmpty {α} [BEq α] (z : α) (R C tr tc : Int) (m : Int × Img α) (o : Int × Int) : Except ErrKind Bool :=
  match getTileArray z m.2 R C o.2 o.1 tr tc with
  | .error e => .error e
  | .ok t => .ok (!(imgAllZero z t tr tc))

/-- which tiles of which segment are encoded: with `omitEmpty`, a (segment, tile) frame is dropped when that
segment's tile is all zero — unless every tile of every segment is zero, in which case nothing is dropped
(`_get_nonempty_tile_indices` reverts to all frames) -/
def keepMask {α} [BEq α] (z : α) (Ms : List (Int × Img α)) (R C tr tc : Int) (offs : List (Int × Int))
    (omitEmpty : Bool) : Except ErrKind (List (List Bool)) :=
  match Ms.mapM (fun m => offs.mapM (tileNonEmpty z R C tr tc m)) with
  | .error e => .error e
  | .ok ne =>
    if !omitEmpty then .ok (ne.map (fun l => l.map (fun _ => true)))
    else if ne.all (fun l => l.all (fun b => !b)) then .ok (ne.map (fun l => l.map (fun _ => true)))
    else .ok ne

/-- every tile of every segment is empty (then `omit_empty_frames` is switched off by the constructor) -/
def allTilesEmpty {α} [BEq α] (z : α) (Ms : List (Int × Img α)) (R C tr tc : Int) (offs : List (Int × Int)) : Except ErrKind Bool :=
  match Ms.mapM (fun m => offs.mapM (tileNonEmpty z R C tr tc m)) with
  | .error e => .error e
  | .ok ne => .ok (ne.all (fun l => l.all (fun b => !b)))

/-- frames and table of a tiled segmentation: segments outermost (in the order given), tiles row-major -/
def cutSegments {α} (z : α) (R C tr tc : Int) (offs : List (Int × Int)) :
    List (Int × Img α) → List (List Bool) → Nat → Except ErrKind (List LutRow × List (Img α))
  | [], _, _ => .ok ([], [])
  | _ :: _, [], _ => .error .other
  | (ch, M) :: Ms, k :: ks, base =>
    match cutTilesAux z M R C tr tc ch offs k base with
    | .error e => .error e
    | .ok (rows, frs) =>
      match cutSegments z R C tr tc offs Ms ks (base + frs.length) with
      | .error e => .error e
      | .ok (rows', frs') => .ok (rows ++ rows', frs ++ frs')

/-- the table a reader reconstructs for a TILED_FULL image from `iter_tiled_full_frame_data`
(frame index = position in the iteration; channel 0 for label maps).  With more than one focal plane every tile position
occurs once per plane, which the uniqueness test of a region read then refuses. -/
def tiledFullLut (channels : List (Option Int)) (planes : Int) (tr tc R C : Int) : Except ErrKind (List LutRow) :=
  match iterTiledFull channels planes tr tc R C ⟨0, 0, 0, 1, 0, 0, 0, 1, 0, 1, 1⟩ 1 with
  | .error e => .error e
  | .ok l => .ok ((l.zipIdx).map (fun (x : (Option Int × Int × Int × Int × Rat × Rat × Rat) × Nat) =>
      ⟨x.1.2.2.2.1, x.1.2.2.1, x.2, match x.1.1 with | some c => c | none => 0⟩))

/-- `Segmentation(tile_pixel_array=True)` followed by `get_total_pixel_matrix` for channel `chan`:
the whole path from the matrices handed in to the region read back.  `Ms`: (segment number, matrix) in
segment order (one entry with channel 0 for LABELMAP); `full`: TILED_FULL requested. -/
def tileThenRead {α} [BEq α] (z : α) (Ms : List (Int × Img α)) (R C tr tc : Int) (full omitEmpty : Bool)
    (chan : Int) (rs re cs ce : Option Int) (asIdx : Bool) : Except ErrKind (Int × Int × Img α) :=
  match tileOffsets tr tc R C with
  | .error e => .error e
  | .ok offs =>
    match keepMask z Ms R C tr tc offs omitEmpty with
    | .error e => .error e
    | .ok keep =>
      -- `_check_tiled_dimension_organization`: TILED_FULL with `omit_empty_frames` is refused — unless the whole mask is
      -- empty: then `omit_empty_frames` has already been switched off when the test is made
      match (if full && omitEmpty then allTilesEmpty z Ms R C tr tc offs else .ok true) with
      | .error e => .error e
      | .ok allEmpty =>
      if full && omitEmpty && !allEmpty then .error .value else
      match cutSegments z R C tr tc offs Ms keep 0 with
      | .error e => .error e
      | .ok (lutSparse, frames) =>
        let lut : Except ErrKind (List LutRow) :=
          if full then tiledFullLut (Ms.map (fun m => some m.1)) 1 tr tc R C else .ok lutSparse
        match lut with
        | .error e => .error e
        | .ok lut => readRegion z lut frames R C tr tc (some chan) rs re cs ce asIdx full true

/-- paste the tile cut at offsets `o = (column, row)` back at the same place -/
def pasteStep {α} (z : α) (M : Img α) (R C tr tc : Int) (acc : Except ErrKind (Img α)) (o : Int × Int) : Except ErrKind (Img α) :=
  match acc with
  | .error e => .error e
  | .ok out =>
    match getTileArray z M R C o.2 o.1 tr tc with
    | .error e => .error e
    | .ok t =>
      -- the padded tile has to be `tr × tc` to be pasted into a `tr × tc` cell (this is where the pad amounts enter)
      if getTileShape R C o.2 o.1 tr tc ≠ .ok (tr, tc) then .error .value else
      .ok (fun i j => if o.2 - 1 ≤ i ∧ i < o.2 - 1 + tr ∧ o.1 - 1 ≤ j ∧ j < o.1 - 1 + tc
                      then t (i - (o.2 - 1)) (j - (o.1 - 1)) else out i j)

/-- cut a matrix into all its tiles and paste them back at their offsets into an array of the padded size -/
def cutPaste {α} (z : α) (M : Img α) (R C tr tc : Int) : Except ErrKind (Int × Int × Img α) :=
  match tileOffsets tr tc R C with
  | .error e => .error e
  | .ok offs =>
    match tilesPerAxisFloor tr tc R C with
    | .error e => .error e
    | .ok (nCol, nRow) =>
      match offs.foldl (pasteStep z M R C tr tc) (.ok (fun _ _ => z)) with
      | .error e => .error e
      | .ok out => .ok (nRow * tr, nCol * tc, out)

end HdVerif.Tiling
