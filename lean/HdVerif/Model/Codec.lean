import HdVerif.Model.Bits
import HdVerif.Generated.T12
import HdVerif.Generated.T13a
import HdVerif.Generated.T13c
/-! C07: `frame.encode_frame` / `frame.decode_frame`.

The accept/refuse/dispatch logic of both functions is *translated from the current source*
(`Gen.encodeFrameRoute`, `Gen.decodeFrameRoute`, `Gen.bitSlice`; tie T).  This file adds what lies
behind the routes:

* route 1 (native, 1 bit): `pack_bits` / `unpack_bits` = `Bits.pack` / `Bits.unpack` (PS3.5 8.1.1,
  first pixel in the least significant bit), the bit slice and the `reshape`;
* route 2 (native, >= 8 bits): little-endian cells of `itemsize` bytes, two's complement
  (PS3.5 8.2 / Annex A.1-A.2), and what pydicom does when it decodes a one-frame data set with such
  pixel data: length check, cells -> numbers, unused high bits masked / sign extended
  (`correct_unused_bits`), YBR -> RGB conversion (`as_rgb`, an abstract parameter `conv`);
* routes 3-5 (encapsulated): an abstract codec `CodecImpl`; theorems take its `lossless` law as a
  hypothesis, the correspondence exercises the law on the real RLE / JPEG-LS codecs.

A frame is its shape, its numpy dtype and its values in C order (bool as 0/1). -/
namespace HdVerif.Codec
open HdVerif HdVerif.Bits HdVerif.Gen

/-- numpy dtypes: the property's domain (bool, uint8, uint16, int16) plus neighbours the encoder must
    keep apart (other widths up to 64 bits, floats). -/
inductive DType | bool | u8 | u16 | u32 | u64 | i8 | i16 | i32 | i64 | f32 | f64
  deriving DecidableEq, Repr, Inhabited

namespace DType
/-- `dtype.kind` -/
def kind : DType → String
  | .bool => "b" | .u8 | .u16 | .u32 | .u64 => "u" | .i8 | .i16 | .i32 | .i64 => "i" | .f32 | .f64 => "f"
/-- `dtype.itemsize` -/
def itemsize : DType → Nat
  | .bool | .u8 | .i8 => 1 | .u16 | .i16 => 2 | .u32 | .i32 | .f32 => 4 | .u64 | .i64 | .f64 => 8
/-- `str(dtype)` -/
def name : DType → String
  | .bool => "bool" | .u8 => "uint8" | .u16 => "uint16" | .u32 => "uint32" | .u64 => "uint64" | .i8 => "int8"
  | .i16 => "int16" | .i32 => "int32" | .i64 => "int64" | .f32 => "float32" | .f64 => "float64"
def ofName : String → Option DType
  | "bool" => some .bool | "uint8" => some .u8 | "uint16" => some .u16 | "uint32" => some .u32
  | "uint64" => some .u64 | "int64" => some .i64
  | "int8" => some .i8 | "int16" => some .i16 | "int32" => some .i32 | "float32" => some .f32
  | "float64" => some .f64 | _ => none
def signed : DType → Bool
  | .i8 | .i16 | .i32 | .i64 => true | _ => false
def isInt : DType → Bool
  | .f32 | .f64 => false | _ => true
/-- smallest / largest value of an integer dtype (floats: not used, 0) -/
def lo : DType → Int
  | .i8 => -128 | .i16 => -32768 | .i32 => -2147483648 | .i64 => -9223372036854775808 | _ => 0
def hi : DType → Int
  | .bool => 1 | .u8 => 255 | .u16 => 65535 | .u32 => 4294967295 | .u64 => 18446744073709551615 | .i8 => 127 | .i16 => 32767
  | .i32 => 2147483647 | .i64 => 9223372036854775807 | .f32 | .f64 => 0
end DType

structure Frame where
  rows : Nat
  cols : Nat
  /-- `none`: 2-D array `(rows, cols)`; `some s`: 3-D array `(rows, cols, s)` -/
  samples : Option Nat
  dtype : DType
  /-- values in C order (`array.flatten()`), bool as 0/1 -/
  data : List Int
  deriving Repr, DecidableEq

namespace Frame
def ndim (x : Frame) : Nat := match x.samples with | none => 2 | some _ => 3
/-- `array.shape[2]` (only read when `ndim > 2`) -/
def shape2 (x : Frame) : Nat := match x.samples with | none => 0 | some s => s
/-- samples per pixel as `encode_frame` computes it -/
def spp (x : Frame) : Nat := match x.samples with | none => 1 | some s => s
/-- `array.max()` (the array is never empty: rows, cols >= 1) -/
def max (x : Frame) : Int := match x.data with | [] => 0 | v :: vs => vs.foldl Max.max v
/-- `array.min()` -/
def min (x : Frame) : Int := match x.data with | [] => 0 | v :: vs => vs.foldl Min.min v
/-- well-formed: the right number of values, each a value of the dtype -/
def WF (x : Frame) : Prop :=
  x.data.length = x.rows * x.cols * x.spp ∧ ∀ v ∈ x.data, x.dtype.lo ≤ v ∧ v ≤ x.dtype.hi
end Frame

structure Params where
  ts : String
  bitsAllocated : Int
  bitsStored : Int
  pi : String
  pixelRepresentation : Int
  planar : Option Int
  deriving Repr, DecidableEq

/-! ### cells -/

/-- `k` little-endian bytes of `v` -/
def leBytes : Nat → Nat → List Nat
  | 0, _ => []
  | k + 1, v => v % 256 :: leBytes k (v / 256)

def ofLeBytes : List Nat → Nat
  | [] => 0
  | b :: bs => b + 256 * ofLeBytes bs

/-- two's complement of `v` in `bits` bits -/
def toUnsigned (bits : Nat) (v : Int) : Nat := (v % ((2 : Int) ^ bits)).toNat

/-- value of the `bits`-bit two's complement pattern `u` -/
def toSigned (bits : Nat) (u : Nat) : Int :=
  if 2 * u < 2 ^ bits then (u : Int) else (u : Int) - (2 : Int) ^ bits

/-- `array.flatten().astype('<..').tobytes()` for an integer / bool dtype of `nbytes` bytes -/
def encodeCells (nbytes : Nat) (xs : List Int) : List Nat :=
  xs.flatMap (fun v => leBytes nbytes (toUnsigned (8 * nbytes) v))

/-- pydicom's `correct_unused_bits`: only the low `stored` bits of a cell count -/
def maskStored (signed : Bool) (stored : Nat) (u : Nat) : Int :=
  let m := u % 2 ^ stored
  if signed then toSigned stored m else (m : Int)

/-- `n` cells of `nbytes` bytes -> numbers (`numpy.frombuffer` with a little-endian dtype, then the
    unused-bit correction) -/
def decodeCells (nbytes : Nat) (signed : Bool) (stored : Nat) : Nat → List Nat → List Int
  | 0, _ => []
  | n + 1, bs => maskStored signed stored (ofLeBytes (bs.take nbytes)) :: decodeCells nbytes signed stored n (bs.drop nbytes)

/-! ### the codec behind the encapsulated routes -/

structure CodecImpl where
  /-- the encoder is handed the image parameters and, separately, rows, columns and samples per pixel -/
  enc : Params → Int → Int → Int → Frame → Except ErrKind (List Nat)
  /-- decoding needs the image parameters and the frame shape; the result is the values in C order -/
  dec : Params → (rows cols samples : Nat) → List Nat → Except ErrKind (List Int)

/-- the law of a codec that is lossless **on a region `D` of parameter sets**: whatever it accepts there (when told the
    frame's true shape) it gives back.  A law over all parameter sets cannot be met by the real codecs behind routes 3-5
    (lossy syntaxes share the codec; pydicom's RLE codec breaks it for narrow stored bits), so the region is explicit. -/
def CodecImpl.LosslessOn (c : CodecImpl) (D : Params → Prop) : Prop :=
  ∀ p x bytes, D p → c.enc p x.rows x.cols x.spp x = .ok bytes → c.dec p x.rows x.cols x.spp bytes = .ok x.data

/-! ### encode_frame -/

/-- pydicom's `pack_bits(..., pad=True)` appends a null byte when the packed length is odd -/
def padEven (bs : List Nat) : List Nat := if bs.length % 2 = 1 then bs ++ [0] else bs

/-- `pack_bits(array.flatten())`: pydicom refuses anything but zeros and ones; even length -/
def packBits (xs : List Int) : Except ErrKind (List Nat) :=
  if xs.all (fun v => v == 0 || v == 1) then .ok (padEven (pack (xs.map (fun v => v == 1)))) else .error .value

/-- the translated decision tree applied to a frame: (route, and what is handed to the codec: rows, columns,
    samples per pixel, bits allocated, bits stored, pixel representation) -/
def encodeRouteFull (p : Params) (x : Frame) : Except ErrKind (Int × Int × Int × Int × Int × Int × Int) :=
  encodeFrameRoute p.ts p.bitsAllocated p.bitsStored p.pi p.pixelRepresentation p.planar
    x.rows x.cols x.shape2 x.ndim x.dtype.kind x.dtype.itemsize x.dtype.name x.max x.min

/-- the route alone -/
def encodeRoute (p : Params) (x : Frame) : Except ErrKind Int :=
  match encodeRouteFull p x with
  | .ok v => .ok v.1
  | .error e => .error e

def encodeFrame (c : CodecImpl) (p : Params) (x : Frame) : Except ErrKind (List Nat) := do
  let v ← encodeRouteFull p x
  if v.1 = 1 then packBits x.data
  else if v.1 = 2 then .ok (encodeCells x.dtype.itemsize x.data)
  else c.enc ⟨p.ts, v.2.2.2.2.1, v.2.2.2.2.2.1, p.pi, v.2.2.2.2.2.2, p.planar⟩ v.2.1 v.2.2.1 v.2.2.2.1 x

/-! ### decode_frame -/

/-- pydicom's `UID.is_encapsulated` on the transfer syntaxes in scope -/
def isEncapsulated (ts : String) : Bool :=
  !(ts == "1.2.840.10008.1.2" || ts == "1.2.840.10008.1.2.1" || ts == "1.2.840.10008.1.2.1.99"
    || ts == "1.2.840.10008.1.2.2")

/-- dtype pydicom returns for (bits allocated, pixel representation) -/
def decodedDType (bitsAllocated pixelRepresentation : Int) : Except ErrKind DType :=
  if bitsAllocated = 1 then .ok .u8
  else if bitsAllocated = 8 then .ok (if pixelRepresentation = 1 then .i8 else .u8)
  else if bitsAllocated = 16 then .ok (if pixelRepresentation = 1 then .i16 else .u16)
  else if bitsAllocated = 32 then .ok (if pixelRepresentation = 1 then .i32 else .u32)
  else if bitsAllocated = 64 then .ok (if pixelRepresentation = 1 then .i64 else .u64)
  else .error .value

/-- Python slice with non-negative bounds (negative bounds never arise here and are refused) -/
def slice {α} (l : List α) (a b : Int) : Except ErrKind (List α) :=
  if a < 0 ∨ b < 0 then .error .other else .ok (pySlice l a.toNat b.toNat)

/-- does pydicom convert the decoded samples to RGB (`as_rgb`)? -/
def convertsColour (pi : String) (samples : Nat) : Bool :=
  samples == 3 && (pi == "YBR_FULL" || pi == "YBR_FULL_422")

/-- pydicom refuses a data set whose Rows or Columns is 0 or above 65535 (VR US; `'Rows' value of '70000' is invalid`) -/
def shapeInRange (rows cols : Nat) : Bool := decide (1 ≤ rows ∧ rows ≤ 65535 ∧ 1 ≤ cols ∧ cols ≤ 65535)

/-- colour-by-plane to colour-by-pixel (pydicom's `reshape_pixel_array` for Planar Configuration 1): sample `c` of pixel `k`
    is item `c * npix + k` of the stored values (`R1 R2 .. G1 G2 .. B1 B2 ..` -> `R1 G1 B1 R2 G2 B2 ..`).  Applied only to
    exactly `samples * npix` values (the length check of `pydicomNative` precedes it), so the default is never taken. -/
def interleavePlanes (npix samples : Nat) (vals : List Int) : List Int :=
  (List.range npix).flatMap (fun k => (List.range samples).map (fun c => vals.getD (c * npix + k) 0))

/-- route 2: pydicom on a one-frame data set with native pixel data.  Fewer bytes than
    `rows*cols*samples*bits/8` are refused; one padding byte is tolerated; longer data is outside the
    model (pydicom then guesses a number of frames) and reported as `.other`. -/
def pydicomNative (conv : List Int → List Int) (p : Params) (rows cols samples : Nat) (bytes : List Nat) :
    Except ErrKind (List Int) := do
  let dt ← decodedDType p.bitsAllocated p.pixelRepresentation
  let n := rows * cols * samples
  let want := n * dt.itemsize
  -- pydicom: "'Samples per Pixel' value of '2' is invalid, it must be 1 or 3"
  if samples ≠ 1 ∧ samples ≠ 3 then .error .value
  else if shapeInRange rows cols = false then .error .value
  else if bytes.length < want then .error .value
  else if bytes.length > want + 1 then .error .other
  else
    let cells := decodeCells dt.itemsize (p.pixelRepresentation == 1) p.bitsStored.toNat n bytes
    -- Planar Configuration 1 (colour-by-plane): pydicom re-orders the planes into pixels
    let vals := if samples > 1 ∧ p.planar = some 1 then interleavePlanes (rows * cols) samples cells else cells
    .ok (if convertsColour p.pi samples then conv vals else vals)

/-- `decode_frame`: the values of the decoded frame in C order (shape `(rows, cols[, samples])`, dtype
    `decodedDType`) -/
def decodeFrame (c : CodecImpl) (conv : List Int → List Int) (p : Params) (rows cols samples : Nat)
    (bytes : List Nat) (index : Int := 0) : Except ErrKind (List Int) := do
  let route ← decodeFrameRoute (isEncapsulated p.ts) p.bitsAllocated samples p.pi p.pixelRepresentation p.planar
  if route = 1 then do
    let (lo, hi) ← bitSlice index rows cols samples
    let bits ← slice (unpack bytes) lo hi
    -- `reshape(rows, columns[, samples])` fails unless exactly that many values are left
    if bits.length = rows * cols * samples then .ok (bits.map (fun b => if b then 1 else 0))
    else .error .value
  else if route = 2 then pydicomNative conv p rows cols samples bytes
  else if samples ≠ 1 ∧ samples ≠ 3 then .error .value      -- pydicom refuses any other Samples per Pixel (also encapsulated)
  else if shapeInRange rows cols = false then .error .value
  else do
    let vals ← c.dec p rows cols samples bytes
    .ok (if convertsColour p.pi samples then conv vals else vals)

/-- what pydicom itself makes of the bytes as a one-frame image with 1-bit native pixel data -/
def pydicomOneBit (rows cols samples : Nat) (bytes : List Nat) : Except ErrKind (List Int) :=
  let n := rows * cols * samples
  if shapeInRange rows cols = false then .error .value
  else if 8 * bytes.length < n then .error .value
  else .ok (((unpack bytes).take n).map (fun b => if b then 1 else 0))

/-! ### specification side: the acceptance relation of `encode_frame` flattened per syntax family (`AcceptSpec`, follows
    the code where the code has rules of its own) and what PS3.5 lets a pixel data element represent (`Representable`) -/

def monochromePIs : List String := ["MONOCHROME1", "MONOCHROME2", "PALETTE COLOR"]
def nativeSyntaxes : List String := ["1.2.840.10008.1.2", "1.2.840.10008.1.2.1"]
def rle : String := "1.2.840.10008.1.2.5"
def jpegLs : String := "1.2.840.10008.1.2.4.80"
def jpegLsNear : String := "1.2.840.10008.1.2.4.81"
def j2k : String := "1.2.840.10008.1.2.4.91"
def j2kLossless : String := "1.2.840.10008.1.2.4.90"
def jpegBaseline : String := "1.2.840.10008.1.2.4.50"
def losslessSyntaxes : List String := nativeSyntaxes ++ [rle, jpegLs, j2kLossless]

/-! #### what `encode_frame` is documented to accept (docstring + PS3.5 8.2 / A.4), as a relation
between a request and the encoder it is handed to.  `Proofs/Codec.lean` shows that the translated
decision tree accepts exactly this relation. -/

/-- everything `encode_frame` looks at before it calls a codec -/
structure Req where
  ts : String
  ba : Int
  bs : Int
  pi : String
  pr : Int
  planar : Option Int
  rows : Int
  cols : Int
  shape2 : Int
  ndim : Int
  kind : String
  itemsize : Int
  dtypeName : String
  arrayMax : Int
  arrayMin : Int

def Req.spp (q : Req) : Int := if q.ndim > 2 then q.shape2 else 1
def Req.routeFull (q : Req) : Except ErrKind (Int × Int × Int × Int × Int × Int × Int) :=
  encodeFrameRoute q.ts q.ba q.bs q.pi q.pr q.planar q.rows q.cols q.shape2 q.ndim q.kind q.itemsize q.dtypeName q.arrayMax
    q.arrayMin
def Req.route (q : Req) : Except ErrKind Int :=
  match q.routeFull with
  | .ok v => .ok v.1
  | .error e => .error e

/-- what must be handed to the codec: the request's own rows, columns, samples, bits and pixel representation -/
def HandOff (q : Req) (v : Int × Int × Int × Int × Int × Int × Int) : Prop :=
  v.2 = (q.rows, q.cols, q.spp, q.ba, q.bs, q.pr)

def Req.of (p : Params) (x : Frame) : Req :=
  ⟨p.ts, p.bitsAllocated, p.bitsStored, p.pi, p.pixelRepresentation, p.planar, x.rows, x.cols, x.shape2, x.ndim,
   x.dtype.kind, x.dtype.itemsize, x.dtype.name, x.max, x.min⟩

def monoPI (pi : String) : Prop := pi = "MONOCHROME1" ∨ pi = "MONOCHROME2" ∨ pi = "PALETTE COLOR"
def knownPI (pi : String) : Prop :=
  monoPI pi ∨ pi = "RGB" ∨ pi = "YBR_FULL" ∨ pi = "YBR_FULL_422" ∨ pi = "YBR_PARTIAL_420" ∨ pi = "YBR_ICT" ∨ pi = "YBR_RCT"

/-- the array is `(rows, columns)` or `(rows, columns, samples)` and Rows / Columns (VR US, not 0) can describe it -/
def ShapeOK (q : Req) : Prop :=
  (q.ndim = 2 ∨ q.ndim = 3) ∧ 1 ≤ q.rows ∧ q.rows ≤ 65535 ∧ 1 ≤ q.cols ∧ q.cols ≤ 65535

/-- checks common to all transfer syntaxes -/
def Common (q : Req) : Prop :=
  ShapeOK q ∧
  (q.ndim > 2 → q.planar = some 0 ∨ q.planar = some 1) ∧ (q.pr = 0 ∨ q.pr = 1) ∧ knownPI q.pi ∧ 1 ≤ q.bs ∧ q.bs ≤ q.ba

/-- smallest and largest sample lie in the range of `bs` stored bits (two's complement when `pr = 1`) -/
def StoredRange (pr bs mn mx : Int) : Prop :=
  if pr = 1 then -(2 : Int) ^ (bs - 1).toNat ≤ mn ∧ mx ≤ (2 : Int) ^ (bs - 1).toNat - 1
  else 0 ≤ mn ∧ mx ≤ (2 : Int) ^ bs.toNat - 1

/-- native (implicit / explicit VR little endian): route 1 = bit packing, 2 = little-endian cells of
    `ceil(bits allocated / 8)` bytes (**as the code is**: a bits-allocated value that is not a multiple of 8, e.g. 12 in
    16-bit cells as `SCImage` passes it, is accepted -- open finding C07-bits-allocated-not-byte-multiple); when fewer
    bits are stored than allocated the samples must fit the stored bits -/
def NativeOK (q : Req) (r : Int) : Prop :=
  (q.ts = "1.2.840.10008.1.2" ∨ q.ts = "1.2.840.10008.1.2.1") ∧
  ((q.spp = 1 ∧ monoPI q.pi) ∨ (q.spp = 3 ∧ (q.pi = "RGB" ∨ q.pi = "YBR_FULL") ∧ q.planar = some 0)) ∧
  ((q.ba = 1 ∧ (q.rows * q.cols * q.spp) % 8 = 0 ∧ r = 1) ∨
   (q.ba ≠ 1 ∧ (q.kind = "b" ∨ q.kind = "u" ∨ q.kind = "i") ∧ q.itemsize = (q.ba + 7) / 8 ∧ (q.kind = "i" ↔ q.pr = 1) ∧
    (q.bs < q.ba → StoredRange q.pr q.bs q.arrayMin q.arrayMax) ∧ r = 2))

/-- JPEG baseline (lossy; route 3) -/
def BaselineOK (q : Req) (r : Int) : Prop :=
  q.ts = jpegBaseline ∧ q.ba = 8 ∧ q.bs = 8 ∧ q.pr = 0 ∧
  ((q.spp = 1 ∧ q.planar = none ∧ monoPI q.pi) ∨ (q.spp = 3 ∧ q.pi = "YBR_FULL_422" ∧ q.planar = some 0)) ∧ r = 3

/-- RLE: only the number of samples is checked here, the rest is left to pydicom's encoder (route 5) -/
def RleOK (q : Req) (r : Int) : Prop := q.ts = rle ∧ (q.spp = 1 ∨ q.spp = 3) ∧ r = 5

def requiredPI (ts : String) : String :=
  if ts = j2k then "YBR_ICT" else if ts = j2kLossless then "YBR_RCT" else "RGB"

/-- JPEG-LS and JPEG 2000 (route 5; 1-bit lossless JPEG 2000 goes to openjpeg directly, route 4) -/
def JpegFamilyOK (q : Req) (r : Int) : Prop :=
  (q.ts = jpegLs ∨ q.ts = jpegLsNear ∨ q.ts = j2k ∨ q.ts = j2kLossless) ∧ q.pr = 0 ∧
  ((q.spp = 1 ∧ q.planar = none ∧ monoPI q.pi ∧ (q.ba = 8 ∨ q.ba = 16 ∨ (q.ts = j2kLossless ∧ q.ba = 1))) ∨
   (q.spp = 3 ∧ q.planar = some 0 ∧ (q.ba = 8 ∨ q.ba = 16) ∧ q.pi = requiredPI q.ts)) ∧
  ((q.ts = j2k ∨ q.ts = j2kLossless) → 32 ≤ q.rows ∧ 32 ≤ q.cols) ∧
  ((q.ts = j2kLossless ∧ q.ba = 1 ∧
      (q.dtypeName ≠ "bool" → (q.kind = "u" ∨ q.kind = "i") ∧ 0 ≤ q.arrayMin ∧ q.arrayMax ≤ 1) ∧ r = 4) ∨
   (¬ (q.ts = j2kLossless ∧ q.ba = 1) ∧ r = 5))

def AcceptSpec (q : Req) (r : Int) : Prop :=
  Common q ∧ (NativeOK q r ∨ BaselineOK q r ∨ RleOK q r ∨ JpegFamilyOK q r)

/-- A frame + parameters that a DICOM pixel data element *can* represent (PS3.5 section 8, PS3.3
    C.7.6.3): 1 or 3 samples with a matching photometric interpretation, a planar configuration iff
    colour, bits stored within bits allocated, a known pixel representation, bits allocated 1 or a
    multiple of 8; and for a *native* stand-alone frame: cells as wide as the array's items with the
    array's signedness, or single bits filling whole bytes. -/
structure Representable (p : Params) (x : Frame) : Prop where
  samples : x.spp = 1 ∨ x.spp = 3
  pi_mono : x.spp = 1 → p.pi ∈ monochromePIs
  pi_colour : x.spp = 3 → p.pi ∉ monochromePIs
  planar : x.ndim = 3 → p.planar = some 0 ∨ p.planar = some 1
  stored : 1 ≤ p.bitsStored ∧ p.bitsStored ≤ p.bitsAllocated
  /-- PS3.5 8.1.1: Bits Allocated is 1 or a multiple of 8 -/
  allocated : p.bitsAllocated = 1 ∨ p.bitsAllocated % 8 = 0
  pixrep : p.pixelRepresentation = 0 ∨ p.pixelRepresentation = 1
  native_cells : p.ts ∈ nativeSyntaxes → p.bitsAllocated ≠ 1 →
    x.dtype.isInt = true ∧ (x.dtype.itemsize : Int) * 8 = p.bitsAllocated ∧ (x.dtype.signed = true ↔ p.pixelRepresentation = 1)
  native_bits : p.ts ∈ nativeSyntaxes → p.bitsAllocated = 1 → (x.rows * x.cols * x.spp) % 8 = 0
  native_fits : p.ts ∈ nativeSyntaxes → p.bitsAllocated ≠ 1 → p.bitsStored < p.bitsAllocated →
    StoredRange p.pixelRepresentation p.bitsStored x.min x.max

/-- the values fit the declared stored range (a decoder may discard the bits above) -/
def FitsStored (p : Params) (x : Frame) : Prop :=
  ∀ v ∈ x.data,
    if p.pixelRepresentation = 1 then -(2 : Int) ^ (p.bitsStored.toNat - 1) ≤ v ∧ v < (2 : Int) ^ (p.bitsStored.toNat - 1)
    else 0 ≤ v ∧ v < (2 : Int) ^ p.bitsStored.toNat

/-- the law of an encoder that validates its input against the parameters it is GIVEN (pydicom's encoders do), on a
    region `D` of parameter sets: there it accepts only frames whose samples fit the stored bits -/
def CodecImpl.ValidatingOn (c : CodecImpl) (D : Params → Prop) : Prop :=
  ∀ p x bytes, D p → c.enc p x.rows x.cols x.spp x = .ok bytes → FitsStored p x

/-- the lossless encapsulated syntaxes for which an encoder is installed and exercised by the correspondence -/
def encoderRegion (p : Params) : Prop := p.ts = rle ∨ p.ts = jpegLs

/-- **where the real codecs are lossless**, as observed by the correspondence on exactly this region: JPEG-LS Lossless,
    and RLE Lossless unless a whole byte of the allocated cell carries no stored bit (`bits stored <= bits allocated - 8`:
    there pydicom 3.0.2 produces undecodable RLE data, open finding C07-rle-narrow-stored).  JPEG 2000 Lossless is not
    in the region: no encoder is installed, nothing is observed. -/
def codecRegion (p : Params) : Prop :=
  (p.ts = rle ∧ p.bitsAllocated - 8 < p.bitsStored) ∨ p.ts = jpegLs

end HdVerif.Codec
