import HdVerif.Model.Basic
import HdVerif.Generated.T17p
/-! C02: segment metadata search of `highdicom.seg.Segmentation` (`get_segment_numbers`, `get_tracking_ids`,
`segment_numbers`, `number_of_segments`) over the items of the SegmentSequence as records.

Coded concepts are pydicom `Code`s (value, scheme designator, meaning, scheme version) and are compared with
`Gen.pydCodeEq` — pydicom's `Code.__eq__` as regenerated from pydicom's source for property C17 (T17p): retired SRT
values are first mapped to their SCT value, then value, scheme designator *and scheme version* must be equal (a code
with a version does not equal the same code without one).  `CodedConcept.__eq__` builds `Code(self.value, …)` and calls
it with the filter as `other`.  `mapping s v` is `snomed_mapping[s].get(v)`, a parameter (any function in the theorems;
the driver gets the entries from pydicom's table). -/
namespace HdVerif.SegMeta
open HdVerif HdVerif.Gen

abbrev Mapping := String → String → Option String

instance : Inhabited PCode := ⟨⟨none, none, none, none⟩⟩

structure Desc where
  number : Nat
  label : String
  category : PCode
  ptype : PCode
  algo : String
  trackingId : Option String
  trackingUid : Option String
  deriving DecidableEq, Repr, Inhabited

structure Filter where
  label : Option String := none
  category : Option PCode := none
  ptype : Option PCode := none
  algo : Option String := none
  trackingUid : Option String := none
  trackingId : Option String := none
  deriving DecidableEq, Repr, Inhabited

/-- the values of `SegmentAlgorithmTypeValues` -/
def algoValues : List String := ["AUTOMATIC", "SEMIAUTOMATIC", "MANUAL"]

/-- `segment_numbers`: the background item of a label map (number = PixelPaddingValue) is left out -/
def segmentNumbersAll (descs : List Desc) (ppv : Option Nat) : List Nat :=
  match ppv with
  | some p => (descs.filter fun d => d.number != p).map (·.number)
  | none => descs.map (·.number)

/-- `number_of_segments` -/
def numberOfSegments (descs : List Desc) (ppv : Option Nat) : Nat := (segmentNumbersAll descs ppv).length

/-- the list `filter_funcs` built by `get_segment_numbers`, in the order of the source -/
def numberFilterFuncs (m : Mapping) (f : Filter) (ppv : Option Nat) : List (Desc → Bool) :=
  (match f.label with | some l => [fun d => d.label == l] | none => []) ++
  (match f.category with | some c => [fun d => pydCodeEq m d.category c] | none => []) ++
  (match f.ptype with | some c => [fun d => pydCodeEq m d.ptype c] | none => []) ++
  (match f.algo with | some a => [fun d => d.algo == a] | none => []) ++
  (match f.trackingUid with | some u => [fun d => d.trackingUid == some u] | none => []) ++
  (match f.trackingId with | some u => [fun d => d.trackingId == some u] | none => []) ++
  (match ppv with | some p => [fun d => d.number != p] | none => [])

/-- `SegmentAlgorithmTypeValues(algorithm_type)` raises for a string outside the enumeration -/
def badAlgo (f : Filter) : Bool :=
  match f.algo with
  | some a => !algoValues.contains a
  | none => false

/-- `get_segment_numbers` -/
def getSegmentNumbers (m : Mapping) (descs : List Desc) (ppv : Option Nat) (f : Filter) : Except ErrKind (List Nat) :=
  if badAlgo f then .error .value
  else .ok ((descs.filter fun d => (numberFilterFuncs m f ppv).all fun g => g d).map (·.number))

def trackingFilterFuncs (m : Mapping) (f : Filter) : List (Desc → Bool) :=
  (match f.category with | some c => [fun d => pydCodeEq m d.category c] | none => []) ++
  (match f.ptype with | some c => [fun d => pydCodeEq m d.ptype c] | none => []) ++
  (match f.algo with | some a => [fun d => d.algo == a] | none => [])

/-- `get_tracking_ids`: a set comprehension; modelled as the duplicate-free list in first-occurrence order
(the order of the real result is unspecified and is compared after sorting) -/
def getTrackingIds (m : Mapping) (descs : List Desc) (f : Filter) : Except ErrKind (List (String × String)) :=
  if badAlgo f then .error .value
  else .ok ((descs.filterMap fun d =>
    match d.trackingId, d.trackingUid with
    | some i, some u => if (trackingFilterFuncs m f).all (fun g => g d) then some (i, u) else none
    | _, _ => none).eraseDups)

/-- the loop of `segmented_property_categories` / `segmented_property_types`: `if c not in acc: acc.append(c)` — Python's
`c in acc` is `any(c is e or c == e for e in acc)`, `==` being `CodedConcept.__eq__`, i.e. pydicom's code equality with the
new code on the left -/
def dedupCodes (m : Mapping) (codes : List PCode) : List PCode :=
  codes.foldl (fun acc c => if acc.any (fun e => pydCodeEq m c e) then acc else acc ++ [c]) []

/-- `segmented_property_categories`: the background item of a label map is skipped -/
def propertyCategories (m : Mapping) (descs : List Desc) (ppv : Option Nat) : List PCode :=
  dedupCodes m ((descs.filter fun d => match ppv with | some p => d.number != p | none => true).map (·.category))

/-- `segmented_property_types` -/
def propertyTypes (m : Mapping) (descs : List Desc) (ppv : Option Nat) : List PCode :=
  dedupCodes m ((descs.filter fun d => match ppv with | some p => d.number != p | none => true).map (·.ptype))

/-- `get_segment_description`: the first item with that number (the background item of a label map included), IndexError
when there is none -/
def getSegmentDescription (descs : List Desc) (n : Nat) : Except ErrKind Desc :=
  match descs.find? (fun d => d.number == n) with
  | some d => .ok d
  | none => .error .index

/-! ### specification-level views -/

/-- a description meets every criterion that is given -/
def matchesFilter (m : Mapping) (f : Filter) (d : Desc) : Bool :=
  (match f.label with | some l => d.label == l | none => true) &&
  (match f.category with | some c => pydCodeEq m d.category c | none => true) &&
  (match f.ptype with | some c => pydCodeEq m d.ptype c | none => true) &&
  (match f.algo with | some a => d.algo == a | none => true) &&
  (match f.trackingUid with | some u => d.trackingUid == some u | none => true) &&
  (match f.trackingId with | some u => d.trackingId == some u | none => true)

/-- the background item of a label map -/
def isBackground (ppv : Option Nat) (d : Desc) : Bool :=
  match ppv with
  | some p => d.number == p
  | none => false

end HdVerif.SegMeta
