import HdVerif.Model.Basic
/-! C02: segment metadata search of `highdicom.seg.Segmentation` (`get_segment_numbers`, `get_tracking_ids`,
`segment_numbers`, `number_of_segments`) over the items of the SegmentSequence as records.

Coded concepts are compared as (value, scheme designator) pairs (`CodedConcept.__eq__` without versions; that
equality is property C17). -/
namespace HdVerif.SegMeta
open HdVerif

structure Desc where
  number : Nat
  label : String
  category : String × String
  ptype : String × String
  algo : String
  trackingId : Option String
  trackingUid : Option String
  deriving DecidableEq, Repr, Inhabited

structure Filter where
  label : Option String := none
  category : Option (String × String) := none
  ptype : Option (String × String) := none
  algo : Option String := none
  trackingUid : Option String := none
  trackingId : Option String := none
  deriving DecidableEq, Repr, Inhabited

/-- the values of `SegmentAlgorithmTypeValues` -/
def algoValues : List String := ["AUTOMATIC", "SEMIAUTOMATIC", "MANUAL"]

/-- `segment_numbers`: the background item of a label map (number = PixelPaddingValue) is left out -/
def segmentNumbersAll (descs : List Desc) (ppv : Option Nat) : List Nat :=
  match ppv with
  | some p => (descs.filter fun d => d.number != p).map (·.number)
  | none => descs.map (·.number)

/-- `number_of_segments` -/
def numberOfSegments (descs : List Desc) (ppv : Option Nat) : Nat := (segmentNumbersAll descs ppv).length

/-- the list `filter_funcs` built by `get_segment_numbers`, in the order of the source -/
def numberFilterFuncs (f : Filter) (ppv : Option Nat) : List (Desc → Bool) :=
  (match f.label with | some l => [fun d => d.label == l] | none => []) ++
  (match f.category with | some c => [fun d => d.category == c] | none => []) ++
  (match f.ptype with | some c => [fun d => d.ptype == c] | none => []) ++
  (match f.algo with | some a => [fun d => d.algo == a] | none => []) ++
  (match f.trackingUid with | some u => [fun d => d.trackingUid == some u] | none => []) ++
  (match f.trackingId with | some u => [fun d => d.trackingId == some u] | none => []) ++
  (match ppv with | some p => [fun d => d.number != p] | none => [])

/-- `SegmentAlgorithmTypeValues(algorithm_type)` raises for a string outside the enumeration -/
def badAlgo (f : Filter) : Bool :=
  match f.algo with
  | some a => !algoValues.contains a
  | none => false

/-- `get_segment_numbers` -/
def getSegmentNumbers (descs : List Desc) (ppv : Option Nat) (f : Filter) : Except ErrKind (List Nat) :=
  if badAlgo f then .error .value
  else .ok ((descs.filter fun d => (numberFilterFuncs f ppv).all fun g => g d).map (·.number))

def trackingFilterFuncs (f : Filter) : List (Desc → Bool) :=
  (match f.category with | some c => [fun d => d.category == c] | none => []) ++
  (match f.ptype with | some c => [fun d => d.ptype == c] | none => []) ++
  (match f.algo with | some a => [fun d => d.algo == a] | none => [])

/-- `get_tracking_ids`: a set comprehension; modelled as the duplicate-free list in first-occurrence order
(the order of the real result is unspecified and is compared after sorting) -/
def getTrackingIds (descs : List Desc) (f : Filter) : Except ErrKind (List (String × String)) :=
  if badAlgo f then .error .value
  else .ok ((descs.filterMap fun d =>
    match d.trackingId, d.trackingUid with
    | some i, some u => if (trackingFilterFuncs f).all (fun g => g d) then some (i, u) else none
    | _, _ => none).eraseDups)

/-! ### specification-level views -/

/-- a description meets every criterion that is given -/
def matchesFilter (f : Filter) (d : Desc) : Bool :=
  (match f.label with | some l => d.label == l | none => true) &&
  (match f.category with | some c => d.category == c | none => true) &&
  (match f.ptype with | some c => d.ptype == c | none => true) &&
  (match f.algo with | some a => d.algo == a | none => true) &&
  (match f.trackingUid with | some u => d.trackingUid == some u | none => true) &&
  (match f.trackingId with | some u => d.trackingId == some u | none => true)

/-- the background item of a label map -/
def isBackground (ppv : Option Nat) (d : Desc) : Bool :=
  match ppv with
  | some p => d.number == p
  | none => false

end HdVerif.SegMeta
