import HdVerif.Model.Basic
/-! # A tiny statement language for the methods of `ContentSequence` (property C14, tie T)

`translate/targets_C14.py` maps the body of every index-maintaining method and every query of the CURRENT
source, statement by statement, into a value of these types (`Generated/T14p.lean`); anything it does not
recognise is a broken translation.  The meaning of the language is the interpreter in
`Model/SRContentSeq.lean`; `Props/C14.lean` proves that the hand-written model operations ARE the
interpretation of the regenerated programs. -/
namespace HdVerif.SRSeqIR

/-- which regenerated decision tree (`Generated/T14.lean`) checks the offered items -/
inductive CheckId | ctor | append | insert | setitem
  deriving DecidableEq, Repr

/-- methods that other methods call -/
inductive MethodId | append | extend
  deriving DecidableEq, Repr

/-- statements of the mutators; "args" are the offered items, "old" the items bound by `bindOld` -/
inductive MStmt
  | setFlags        -- `self._is_root = is_root; self._is_sr = is_sr`
  | flags           -- `if is_root and not is_sr: raise ValueError`
  | lutInit         -- `self._lut = defaultdict(list)`
  | normArgs        -- the argument is made a list: `items = list(items)` / `if isinstance(idx, slice): val = list(val); items = val  else: items = [val]`
  | checkEach (c : CheckId)   -- the checks of every offered item (first failure raises)
  | bindOld         -- `<old> = self[idx]` for a slice, `[self[idx]]` for an index (IndexError / ValueError)
  | lutAppendArgs   -- for every offered item x, in order: `self._lut[x.name].append(x)`
  | lutRemoveOld    -- for every old item x, in order: `index = [m is x for m in self._lut[x.name]].index(True); del self._lut[x.name][index]` (the entry of the object itself)
  | listInit        -- `super().__init__(items)` / `super().__init__()`
  | listAppend      -- `super().append(val)`
  | listInsert      -- `super().insert(position, val)`
  | listAssign      -- `super().__setitem__(idx, val)`
  | listDelete      -- `super().__delitem__(idx)`
  | forEachArg (m : MethodId)   -- `for item in list(val): self.<m>(item)` (over a COPY of the argument)
  | call (m : MethodId)         -- `self.<m>(val)`
  deriving DecidableEq, Repr

/-- where a flag of a freshly built result sequence comes from -/
inductive FlagSrc | own | constTrue | constFalse
  deriving DecidableEq, Repr

/-- the items a query collects -/
inductive Src
  | bucketOfName   -- `self._lut[name]`
  | nodesOfSelf    -- `[item for item in self if hasattr(item, 'ContentSequence')]`
  deriving DecidableEq, Repr

/-- how the result sequence is filled -/
inductive Via
  | extend        -- empty sequence, then `.extend(src)`
  | constructor   -- `ContentSequence(src, ...)`
  deriving DecidableEq, Repr

/-- `find` / `get_nodes` -/
structure CollectProg where
  root : FlagSrc
  sr : FlagSrc
  src : Src
  via : Via
  deriving DecidableEq, Repr

inductive IdxResult
  | listIndex     -- `super().index(val)`
  | bucketIndex   -- the position inside the bucket
  deriving DecidableEq, Repr

/-- `index`: bucket looked up under the argument's name, membership test in the bucket (ValueError), result -/
structure IndexProg where
  bucketKeyIsArgName : Bool
  membershipInBucket : Bool
  result : IdxResult
  deriving DecidableEq, Repr

end HdVerif.SRSeqIR
