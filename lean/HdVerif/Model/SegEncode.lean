import HdVerif.Model.Bits
import HdVerif.Model.FrameAccess
import HdVerif.Generated.T20
import HdVerif.Generated.T8
/-! # C01 model: `Segmentation.__init__` (encode side) and reading back by source image

Mirrors, statement by statement, `seg/sop.py`:
`_check_segment_numbers`, `_check_and_cast_pixel_array` (+ `_combine_segments`),
`_get_nonempty_plane_indices`, `_get_segment_pixel_array`, the frame loop (segments x sorted planes,
per-segment empty-frame skipping, native packing with carried remainder -- guard and arithmetic
*translated* (`Gen.seg*`, T20) --, trailing pad byte), `_get_pffg_item` (which segment / which source a frame
belongs to), and on the read side the frame LUT join of `get_pixels_by_source_instance/_frame`
(`image.py::_iterate_indices_for_stack`) on top of the translated frame access of `FrameAccess` (T1/T4/T12).

Pixels of one plane are a flat list of `rows*cols` entries in *logical row-major order*: the source flattens every
frame with `segment_array.flatten()` (C order whatever the strides of the user's array; the statement is pinned
textually by translation target T20, and the harness feeds masks in Fortran order, as transposed / strided /
negative-stride views and read-only).  The plane order
(`plane_sort_index`, geometry: C03/C11) is a parameter.  Codecs are parameters (`Codec`). -/
namespace HdVerif.SegEncode
open HdVerif HdVerif.Bits HdVerif.Gen HdVerif.FrameAccess

inductive SegType | binary | fractional | labelmap
  deriving DecidableEq, Repr, Inhabited

/-- `SegmentationTypeValues.X.value` -/
def SegType.str : SegType → String
  | .binary => "BINARY" | .fractional => "FRACTIONAL" | .labelmap => "LABELMAP"

inductive Overlap | yes | no | undefined
  deriving DecidableEq, Repr, Inhabited

/-- The user's `pixel_array` after the 2-D → 3-D lift.  `int*`: bool / uint8 / uint16 input,
`flt*`: float32 / float64 input; `*Label`: 3-D (one value per pixel), `*Stack`: 4-D (per pixel one value
per channel). -/
inductive Mask
  | intLabel (planes : List (List Nat))
  | intStack (planes : List (List (List Nat)))
  | fltLabel (planes : List (List Rat))
  | fltStack (planes : List (List (List Rat)))
  deriving Repr, Inhabited, DecidableEq

def Mask.numPlanes : Mask → Nat
  | .intLabel p => p.length | .intStack p => p.length | .fltLabel p => p.length | .fltStack p => p.length

/-- number of pixels of every plane (for the `shape[1:3] == (Rows, Columns)` test) -/
def Mask.planeSizes : Mask → List Nat
  | .intLabel p => p.map (·.length) | .intStack p => p.map (·.length)
  | .fltLabel p => p.map (·.length) | .fltStack p => p.map (·.length)

/-- numpy `np.around` / Python `round`: to nearest, ties to even -/
def roundHalfEven (q : Rat) : Int :=
  let f := q.floor
  let r := q - (f : Rat)
  if r < 1 / 2 then f else if 1 / 2 < r then f + 1 else if f % 2 = 0 then f else f + 1

/-- `mapM` in `Except`, structurally recursive (first error wins, like a Python loop that raises) -/
def mapE {α β ε} (f : α → Except ε β) : List α → Except ε (List β)
  | [] => .ok []
  | a :: as => match f a with
    | .error e => .error e
    | .ok b => match mapE f as with
      | .error e => .error e
      | .ok bs => .ok (b :: bs)

def foldE {σ α ε} (f : σ → α → Except ε σ) : σ → List α → Except ε σ
  | s, [] => .ok s
  | s, a :: as => match f s a with
    | .ok s' => foldE f s' as
    | .error e => .error e

def mapO {α β} (f : α → Option β) : List α → Option (List β)
  | [] => some []
  | a :: as => match f a, mapO f as with
    | some b, some bs => some (b :: bs)
    | _, _ => none

/-- position of the first entry equal to `k` (the frame LUT join; uniqueness is checked separately) -/
def findKey {κ} [DecidableEq κ] : List κ → κ → Option Nat
  | [], _ => none
  | a :: t, k => if a = k then some 0 else (findKey t k).map (· + 1)

/-! ## `_check_segment_numbers` -/

def ascending : List Nat → Bool
  | a :: b :: t => a ≤ b && ascending (b :: t)
  | _ => true

/-- consecutive from a given start (`np.diff == 1` and first element) -/
def consecutiveFrom : Nat → List Nat → Bool
  | _, [] => true
  | k, a :: t => a == k && consecutiveFrom (k + 1) t

def checkSegs (t : SegType) (segs : List Nat) : Except ErrKind Unit :=
  if segs = [] then .error .value else
  match t with
  | .labelmap =>
    if segs.any (· > 65535) then .error .value
    else if segs.any (· == 0) then .error .value
    else if ¬ segs.Nodup then .error .value
    else if ¬ ascending segs then .error .value
    else .ok ()
  | _ => if consecutiveFrom 1 segs then .ok () else .error .value

/-! ## `_check_and_cast_pixel_array` -/

def listMax (l : List Nat) : Nat := l.foldl max 0
def sumNat (l : List Nat) : Nat := l.foldl (· + ·) 0

/-- `np.argmax` of a non-empty list: index of the first maximum -/
def argmax (l : List Nat) : Nat := l.idxOf (listMax l)

/-- `_combine_segments` for one pixel (channel values 0/1): `argmax + 1` where any channel is set, else 0;
    a single channel is taken as it is -/
def stackLabel (ch : List Nat) : Nat :=
  match ch with
  | [v] => v
  | _ => (argmax ch + 1) * listMax ch

/-- ... followed by the look-up that replaces the channel position by the described segment number -/
def combinePixel (segs : List Nat) (ch : List Nat) : Except ErrKind Nat :=
  match (0 :: segs)[stackLabel ch]? with
  | some v => .ok v
  | none => .error .index

/-- float → integer cast of a value known to be 0.0 or 1.0 (`astype(dtype)`) -/
def ratToNat (q : Rat) : Nat := q.floor.toNat

def overlapOfStack (n : Nat) (planes : List (List (List Nat))) : Overlap :=
  let mx := listMax (planes.map fun pl => listMax (pl.map listMax))
  if mx = 0 then .no
  else if n = 1 then .no
  else if planes.any (fun pl => pl.any (fun ch => sumNat ch > 1)) then .yes else .no

/-- 4-D input: the last dimension must match the number of described segments -/
def chanOk (n : Nat) : Mask → Bool
  | .intStack ps => ps.all (fun pl => pl.all (fun ch => ch.length == n))
  | .fltStack ps => ps.all (fun pl => pl.all (fun ch => ch.length == n))
  | _ => true

/-- label-map style input: does a pixel value lack a description?  (fast path on the maximum when the described
    numbers are exactly 1..n, set difference otherwise) -/
def undescribed (segs : List Nat) (ps : List (List Nat)) : Bool :=
  let n := segs.length
  let consecutive := (List.range' 1 n).all (· ∈ segs) && segs.all (fun s => 1 ≤ s && s ≤ n)
  if consecutive then decide (listMax (ps.map listMax) > n)
  else ps.any (fun pl => pl.any (fun v => ¬ (v ∈ (0 :: segs))))

/-- the dtype-specific part: value checks, float → integer cast for BINARY / LABELMAP, overlap -/
def castValues (segs : List Nat) (t : SegType) : Mask → Except ErrKind (Mask × Overlap)
  | .intLabel ps =>
    if undescribed segs ps then .error .value else .ok (Mask.intLabel ps, Overlap.no)
  | .intStack ps =>
    if listMax (ps.map fun pl => listMax (pl.map listMax)) > 1 then .error .value
    else .ok (Mask.intStack ps, overlapOfStack segs.length ps)
  | .fltLabel ps =>
    if ps.any (fun pl => pl.any (fun x => x < 0 ∨ 1 < x)) then .error .value
    else if t = .fractional then
      -- a 2-D/3-D array of fractions is ONE segment: several descriptions are refused (a 4-D array is required)
      if segs.length > 1 then .error .value else .ok (Mask.fltLabel ps, Overlap.no)
    else if ps.any (fun pl => pl.any (fun x => 0 < x ∧ x < 1)) then .error .value
    -- after the cast the mask is a label map holding label 1, which must be described (as for bool / integer input)
    else if ps.any (fun pl => pl.any (fun x => x = 1)) ∧ 1 ∉ segs then .error .value
    else .ok (Mask.intLabel (ps.map (·.map ratToNat)), Overlap.no)
  | .fltStack ps =>
    if ps.any (fun pl => pl.any (fun ch => ch.any (fun x => x < 0 ∨ 1 < x))) then .error .value
    else if t = .fractional then
      .ok (Mask.fltStack ps, if segs.length = 1 then Overlap.no else Overlap.undefined)
    else if ps.any (fun pl => pl.any (fun ch => ch.any (fun x => 0 < x ∧ x < 1))) then .error .value
    else
      let ips := ps.map (·.map (·.map ratToNat))
      .ok (Mask.intStack ips, overlapOfStack segs.length ips)

/-- the LABELMAP part: overlapping segments are refused, stacked segments are combined into one label map
    holding the *described* segment numbers -/
def castLabelmap (segs : List Nat) (t : SegType) (r : Mask × Overlap) : Except ErrKind (Mask × Overlap) :=
  if t = .labelmap then
    if r.2 = .yes then .error .value
    else match r.1 with
      | .intStack ps =>
        match mapE (fun pl => mapE (combinePixel segs) pl) ps with
        | .ok lab => .ok (Mask.intLabel lab, r.2)
        | .error e => .error e
      | other => .ok (other, r.2)
  else .ok r

/-- Result: the array the rest of the constructor works with, and `SegmentsOverlap`. -/
def castMask (segs : List Nat) (t : SegType) (m : Mask) : Except ErrKind (Mask × Overlap) :=
  if ¬ chanOk segs.length m then .error .value
  else if m.numPlanes = 0 ∨ m.planeSizes.any (· == 0) then .error .value     -- `.max()` of an empty array
  else match castValues segs t m with
    | .error e => .error e
    | .ok r => castLabelmap segs t r

/-! ## planes of the cast array -/

/-- one plane of the array (`pixel_array[plane_index]`) -/
inductive Plane
  | intLabel (px : List Nat)
  | intStack (px : List (List Nat))
  | fltLabel (px : List Rat)
  | fltStack (px : List (List Rat))
  deriving Repr, Inhabited, DecidableEq

def Mask.plane? : Mask → Nat → Option Plane
  | .intLabel ps, i => ps[i]?.map .intLabel
  | .intStack ps, i => ps[i]?.map .intStack
  | .fltLabel ps, i => ps[i]?.map .fltLabel
  | .fltStack ps, i => ps[i]?.map .fltStack

/-- `np.around(x * float(max_fractional_value)).astype(uint8)` -/
def quantise (mfv : Nat) (x : Rat) : Nat := (roundHalfEven (x * (mfv : Rat))).toNat

/-- `np.any(frm)` on the occupancy array: integer planes as they are, float planes after quantisation
    (a fraction that rounds to zero does not make a plane non-empty) -/
def Plane.any (mfv : Nat) : Plane → Bool
  | .intLabel px => px.any (· != 0)
  | .intStack px => px.any (fun ch => ch.any (· != 0))
  | .fltLabel px => px.any (fun x => quantise mfv x != 0)
  | .fltStack px => px.any (fun ch => ch.any (fun x => quantise mfv x != 0))

/-- `pixel_array[:, :, k]` of one plane of a stacked array -/
def channel {α} (k : Nat) (px : List (List α)) : Except ErrKind (List α) :=
  mapE (fun ch => match ch[k]? with
    | some v => .ok v
    | none => .error .index) px

/-- BitsAllocated: 1 / 8 / the width of the *translated* `_get_unsigned_dtype(max segment number)` (T8);
    "Too many segments to represent with a 16 bit integer" when that is uint32 -/
def bitsFor (t : SegType) (segs : List Nat) : Except ErrKind Nat :=
  match t with
  | .binary => .ok 1
  | .fractional => .ok 8
  | .labelmap =>
    match unsignedDtype (listMax segs) with
    | .error e => .error e
    | .ok b => if b = 32 then .error .value else if b < 0 then .error .other else .ok b.toNat

/-- `astype(uintN)` of a non-negative integer: NumPy wraps around silently -/
def wrap (bits v : Nat) : Nat := v % 2 ^ bits

/-- width of `dtype`, the pixel type the constructor casts to: uint8 for BINARY and FRACTIONAL, the LABELMAP
    bit depth otherwise -/
def outBits (t : SegType) (segs : List Nat) : Except ErrKind Nat :=
  match t with
  | .labelmap => bitsFor .labelmap segs
  | _ => .ok 8

/-- stretch binary values to the fractional range: `segment_array * int(max_fractional_value)` in the array's own
    (output) pixel type, skipped when the factor is 1 -/
def stretch (t : SegType) (mfv w : Nat) (b : List Nat) : List Nat :=
  if t = .fractional ∧ mfv ≠ 1 then b.map (fun v => wrap w (v * mfv)) else b

/-- `_get_segment_pixel_array`: the stored pixels of segment `s` in one plane.  Every `astype(dtype)` of the source
    is a `wrap` here, at the place where the source has it: **after** the comparison with the segment number for
    label-map style input (`(pixel_array == segment_number).astype(dtype)`), after channel selection for stacks,
    after `np.around` for fractions (the list of cast sites is pinned by translation target T21). -/
def segPlane (segs : List Nat) (t : SegType) (mfv : Nat) (s : Nat) (pl : Plane) : Except ErrKind (List Nat) := do
  let w ← outBits t segs
  match pl with
  | .fltStack px => do
      let a ← channel (s - 1) px
      pure (a.map fun x => wrap w (quantise mfv x))
  | .fltLabel px => pure (px.map fun x => wrap w (quantise mfv x))
  | .intLabel px =>
      let b := if segs = [1] then px.map (wrap w) else px.map (fun v => wrap w (if v = s then 1 else 0))
      pure (stretch t mfv w b)
  | .intStack px => do
      let b ← channel (s - 1) px
      pure (stretch t mfv w (b.map (wrap w)))

/-- stored pixels of a whole LABELMAP plane (no per-segment extraction): `pixel_array.astype(dtype)`; the cast of
    the whole array commutes with taking a plane, so it is modelled here -/
def labelPlane (segs : List Nat) : Plane → Except ErrKind (List Nat)
  | .intLabel px => do
      let w ← outBits .labelmap segs
      pure (px.map (wrap w))
  | _ => .error .other      -- unreachable after `castMask … .labelmap`; refused rather than defaulted

/-! ## the frame loop -/

structure Frame where
  seg : Option Nat          -- ReferencedSegmentNumber (none: LABELMAP)
  plane : Nat               -- index of the source image / source frame this frame is derived from
  px : List Nat
  deriving Repr, DecidableEq, Inhabited

/-- `np.any(occupied_array[i])` -/
def planeNonEmpty (arr : Mask) (mfv : Nat) (i : Nat) : Bool :=
  match arr.plane? i with
  | some pl => pl.any mfv
  | none => false

/-- `_get_nonempty_plane_indices` + the re-filtering of `plane_sort_index`:
    returns (omit_empty_frames after the "all empty" fallback, planes to visit in order) -/
def planOrder (arr : Mask) (mfv : Nat) (omt : Bool) (order : List Nat) : Bool × List Nat :=
  if omt then
    let nonempty := (List.range arr.numPlanes).filter (planeNonEmpty arr mfv)
    if nonempty = [] then (false, order) else (true, order.filter (· ∈ nonempty))
  else (false, order)

/-- body of the double loop for one (segment, plane): `none` = skipped -/
def loopBody (arr : Mask) (segs : List Nat) (t : SegType) (mfv : Nat) (omt : Bool)
    (seg : Option Nat) (p : Nat) : Except ErrKind (Option Frame) := do
  match arr.plane? p with
  | none => .error .index
  | some pl =>
    match seg with
    | none => do
      let px ← labelPlane segs pl
      pure (some ⟨none, p, px⟩)
    | some s => do
      let px ← segPlane segs t mfv s pl
      if omt ∧ ¬ px.any (· != 0) then pure none else pure (some ⟨some s, p, px⟩)

def segmentsIterable (t : SegType) (segs : List Nat) : List (Option Nat) :=
  if t = .labelmap then [none] else segs.map some

/-- frames in loop order -/
def storedFrames (arr : Mask) (segs : List Nat) (t : SegType) (mfv : Nat) (omt : Bool) (order : List Nat) :
    Except ErrKind (List Frame) := do
  let (omt', ord) := planOrder arr mfv omt order
  let cells := (segmentsIterable t segs).flatMap fun sg => ord.map fun p => (sg, p)
  let fr ← mapE (fun c => loopBody arr segs t mfv omt' c.1 c.2) cells
  pure (fr.filterMap id)

/-! ## PixelData -/

def sliceTo {α} (l : List α) (k : Int) : Except ErrKind (List α) :=
  if k < 0 then .error .other else .ok (l.take k.toNat)
def sliceFrom {α} (l : List α) (k : Int) : Except ErrKind (List α) :=
  if k < 0 then .error .other else .ok (l.drop k.toNat)

/-- one iteration of the native 1-bit branch, literally: `carry` is the translated guard -/
def nativeStep (carry : Bool) (st : List Nat × List Bool) (f : List Bool) : Except ErrKind (List Nat × List Bool) :=
  if carry then do
    let full := st.2 ++ f
    let k ← segCarryTake full.length
    let toEncode ← sliceTo full k
    let rem ← sliceFrom full k
    pure (st.1 ++ pack toEncode, rem)
  else pure (st.1 ++ pack f, st.2)

/-- the BINARY native branch of the loop + flush (`b''.join(frames)` with the packed remainder last) -/
def nativeBits (rows cols : Nat) (frames : List (List Bool)) : Except ErrKind (List Nat) := do
  let carry ← segPackGuard "BINARY" rows cols
  let st ← foldE (nativeStep carry) ([], []) frames
  let flush ← segFlushGuard st.2.length
  pure (if flush then st.1 ++ pack st.2 else st.1)

/-- little-endian bytes of a pixel value (`tobytes()` of uint8 / uint16) -/
def leBytes (bits : Nat) (v : Nat) : List Nat :=
  if bits = 16 then [v % 256, v / 256 % 256] else [v % 256]

def unLe (bits : Nat) : List Nat → List Nat
  | a :: b :: t => if bits = 16 then (a + 256 * b) :: unLe bits t else a :: unLe bits (b :: t)
  | [a] => if bits = 16 then [] else [a]
  | [] => []

/-- trailing pad, as written -/
def padEven (pd : List Nat) : Except ErrKind (List Nat) := do
  let g ← segPadGuard pd.length
  pure (if g then pd ++ [segPadByte] else pd)

/-- external lossless codec: a parameter (law stated where it is used); `j2k` marks JPEG 2000 Lossless, the one
    encapsulated syntax the constructor lets through for BINARY -/
structure Codec where
  enc : List Nat → List Nat
  dec : List Nat → List Nat
  j2k : Bool := false

inductive PixelData
  | native (bytes : List Nat)
  | encaps (fragments : List (List Nat))
  deriving Repr, Inhabited

/-- a Segmentation object as far as reading pixels back is concerned -/
structure SegObj where
  rows : Nat
  cols : Nat
  bits : Nat
  t : SegType
  mfv : Nat
  segs : List Nat
  keys : List (Option Nat × Nat)     -- per-frame functional groups: (segment, source plane), frame order
  pd : PixelData
  deriving Repr, Inhabited

def encodePixelData (codec : Option Codec) (rows cols bits : Nat) (frames : List (List Nat)) :
    Except ErrKind PixelData :=
  match codec with
  | some c => .ok (.encaps (frames.map c.enc))
  | none => do
    let raw ← if bits = 1 then nativeBits rows cols (frames.map (·.map (· != 0)))
              else pure (frames.flatMap fun f => f.flatMap (leBytes bits))
    let pd ← padEven raw
    pure (.native pd)

/-- encapsulated and not JPEG 2000 Lossless -/
def refusedForBinary : Option Codec → Bool
  | some c => !c.j2k
  | none => false

/-- argument checks that do not look at the pixels; result: BitsAllocated -/
def checkArgs (codec : Option Codec) (t : SegType) (segs : List Nat) (mfv : Nat) : Except ErrKind Nat :=
  match checkSegs t segs with
  | .error e => .error e
  | .ok _ =>
    match (if t = .fractional then segMfvGuard mfv else .ok 0) with
    | .error e => .error e
    | .ok _ =>
      -- `TransferSyntaxUID != JPEG2000Lossless and TransferSyntaxUID.is_encapsulated` is refused for BINARY
      if refusedForBinary codec = true ∧ t = .binary then .error .value
      else bitsFor t segs

/-- `Segmentation.__init__` as far as pixels and per-frame references go.  `order` = `plane_sort_index`
    (one entry per source plane). -/
def build (codec : Option Codec) (rows cols : Nat) (t : SegType) (segs : List Nat) (mfv : Nat) (omt : Bool)
    (order : List Nat) (m : Mask) : Except ErrKind SegObj :=
  match checkArgs codec t segs mfv with
  | .error e => .error e
  | .ok bits =>
    match castMask segs t m with
    | .error e => .error e
    | .ok r =>
      if m.numPlanes ≠ order.length then .error .value
      else if m.planeSizes.any (· != rows * cols) then .error .value
      else
        match storedFrames r.1 segs t mfv omt order with
        | .error e => .error e
        | .ok frames =>
          match encodePixelData codec rows cols bits (frames.map (·.px)) with
          | .error e => .error e
          | .ok pd => .ok { rows, cols, bits, t, mfv, segs, keys := frames.map (fun f => (f.seg, f.plane)), pd }

/-! ## reading back -/

/-- `get_stored_frame(i + 1)` as pixel values -/
def readFrame (codec : Option Codec) (o : SegObj) (i : Nat) : Except ErrKind (List Nat) :=
  let N : Int := o.keys.length
  match o.pd with
  | .native bytes =>
    if o.bits = 1 then do
      let b ← memFrameBits bytes o.rows o.cols 1 N ((i : Int) + 1) false
      pure (b.map fun x => if x then 1 else 0)
    else do
      let raw ← memFrameBytes bytes o.rows o.cols 1 o.bits N "MONOCHROME2" ((i : Int) + 1) false
      pure (unLe o.bits raw)
  | .encaps frags =>
    match codec, frags[i]? with
    | some c, some f => .ok (c.dec f)
    | _, _ => .error .index

/-- pixels delivered for the LUT key `k` = (segment, source plane): the matching frame, or zeros where the
    join finds no frame (`assert_missing_frames_are_empty` / an omitted empty frame) -/
def readKey (codec : Option Codec) (o : SegObj) (k : Option Nat × Nat) : Except ErrKind (List Nat) :=
  match findKey o.keys k with
  | some i => readFrame codec o i
  | none => .ok (List.replicate (o.rows * o.cols) 0)

/-- one requested source plane: per described segment the pixel list (LABELMAP: one-hot expansion of the label frame) -/
def readRow (codec : Option Codec) (o : SegObj) (p : Nat) : Except ErrKind (List (List Nat)) :=
  if o.t = .labelmap then
    match readKey codec o (none, p) with
    | .error e => .error e
    | .ok lab => .ok (o.segs.map fun s => lab.map fun v => if v = s then 1 else 0)
  else mapE (fun s => readKey codec o (some s, p)) o.segs

/-- how a read treats requested sources that have no frame -/
inductive ReadMode
  | assertEmpty                 -- `assert_missing_frames_are_empty=True` (either entry point): no check at all
  | byInstance (nsrc : Nat)     -- `get_pixels_by_source_instance`, default: the UID must be one of the `nsrc` source
                                --   images the object lists (InstanceUIDs table = ReferencedSeriesSequence), whether or
                                --   not a frame references it
  | byFrame                     -- `get_pixels_by_source_frame`, default: the frame number must not exceed the highest
                                --   frame number any stored frame references
  deriving Repr, DecidableEq, Inhabited

/-- the "missing source" refusal of the two read entry points, as the code has it: an *omitted* (empty) plane of a
    listed source image is NOT missing; a source frame is missing only beyond `MAX(ReferencedFrameNumber)` -/
def missingRefusal (o : SegObj) (request : List Nat) : ReadMode → Option ErrKind
  | .assertEmpty => none
  | .byInstance nsrc => if request.any (fun p => decide (nsrc ≤ p)) then some .key else none
  | .byFrame =>
    if request.any (fun p => decide (listMax (o.keys.map (·.2 + 1)) < p + 1)) then some .value else none

/-- `get_pixels_by_source_instance` / `get_pixels_by_source_frame` with `rescale_fractional=False`:
    result indexed [requested source][segment][pixel]. -/
def readBySource (codec : Option Codec) (o : SegObj) (request : List Nat) (mode : ReadMode) :
    Except ErrKind (List (List (List Nat))) :=
  if ¬ o.keys.Nodup then .error .runtime                 -- columns do not identify unique frames
  else match missingRefusal o request mode with
    | some e => .error e
    | none => mapE (readRow codec o) request

/-- construct, then read the planes `request` back -/
def roundtrip (codec : Option Codec) (rows cols : Nat) (t : SegType) (segs : List Nat) (mfv : Nat) (omt : Bool)
    (order : List Nat) (m : Mask) (request : List Nat) (mode : ReadMode) :
    Except ErrKind (List (List (List Nat))) := do
  let o ← build codec rows cols t segs mfv omt order m
  readBySource codec o request mode

/-! ## encoding workers -/

/-- `frames = [fut.result() for fut in frame_futures]`: future number `i` (submission order) is looked up in
    the log of completed work `done`, whatever order the workers finished in -/
def collect {β} (n : Nat) (done : List (Nat × β)) : Option (List β) :=
  mapO (fun i => (done.find? (fun d => d.1 == i)).map (·.2)) (List.range' 0 n)

/-! ## the property's own statement (independent of the functions above) -/

/-- channel `j` of every pixel of a stacked plane; `none` if a pixel has no channel `j` -/
def chanO {α} (j : Nat) (px : List (List α)) : Option (List α) := mapO (·[j]?) px

/-- What segment `s`, described at position `j`, must read back as, pixel by pixel -- the property's own
statement: the indicator of the segment (times `max_fractional_value` for FRACTIONAL) for integer/bool input,
the quantised fraction for float input of a FRACTIONAL segmentation.  (`none`: a pixel of a stacked mask has no
channel `j`, excluded by the shape check.) -/
def expectedPlane (t : SegType) (mfv : Nat) (j s : Nat) : Plane → Option (List Nat)
  | .intLabel px => some (px.map fun v => if v = s then (if t = .fractional then mfv else 1) else 0)
  | .intStack px => (chanO j px).map fun a => a.map fun v => v * (if t = .fractional then mfv else 1)
  | .fltLabel px =>                                   -- a 2-D/3-D float mask is the single segment number 1
      if t = .fractional then some (px.map fun x => if s = 1 then quantise mfv x else 0)
      else some (px.map fun x => if x = 1 ∧ s = 1 then 1 else 0)
  | .fltStack px =>
      if t = .fractional then (chanO j px).map fun a => a.map (quantise mfv)
      else (chanO j px).map fun a => a.map fun x => if x = 1 then 1 else 0

end HdVerif.SegEncode
