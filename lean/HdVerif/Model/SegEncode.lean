import HdVerif.Model.Bits
import HdVerif.Model.FrameAccess
import HdVerif.Generated.T20
/-! # C01 model: `Segmentation.__init__` (encode side) and reading back by source image

Mirrors, statement by statement, `seg/sop.py`:
`_check_segment_numbers`, `_check_and_cast_pixel_array` (+ `_combine_segments`),
`_get_nonempty_plane_indices`, `_get_segment_pixel_array`, the frame loop (segments x sorted planes,
per-segment empty-frame skipping, native packing with carried remainder -- guard and arithmetic
*translated* (`Gen.seg*`, T20) --, trailing pad byte), `_get_pffg_item` (which segment / which source a frame
belongs to), and on the read side the frame LUT join of `get_pixels_by_source_instance/_frame`
(`image.py::_iterate_indices_for_stack`) on top of the translated frame access of `FrameAccess` (T1/T4/T12).

Pixels of one plane are a flat row-major list of `rows*cols` entries.  The plane order
(`plane_sort_index`, geometry: C03/C11) is a parameter.  Codecs are parameters (`Codec`). -/
namespace HdVerif.SegEncode
open HdVerif HdVerif.Bits HdVerif.Gen HdVerif.FrameAccess

inductive SegType | binary | fractional | labelmap
  deriving DecidableEq, Repr, Inhabited

/-- `SegmentationTypeValues.X.value` -/
def SegType.str : SegType → String
  | .binary => "BINARY" | .fractional => "FRACTIONAL" | .labelmap => "LABELMAP"

inductive Overlap | yes | no | undefined
  deriving DecidableEq, Repr, Inhabited

/-- The user's `pixel_array` after the 2-D → 3-D lift.  `int*`: bool / uint8 / uint16 input,
`flt*`: float32 / float64 input; `*Label`: 3-D (one value per pixel), `*Stack`: 4-D (per pixel one value
per channel). -/
inductive Mask
  | intLabel (planes : List (List Nat))
  | intStack (planes : List (List (List Nat)))
  | fltLabel (planes : List (List Rat))
  | fltStack (planes : List (List (List Rat)))
  deriving Repr, Inhabited

def Mask.numPlanes : Mask → Nat
  | .intLabel p => p.length | .intStack p => p.length | .fltLabel p => p.length | .fltStack p => p.length

/-- number of pixels of every plane (for the `shape[1:3] == (Rows, Columns)` test) -/
def Mask.planeSizes : Mask → List Nat
  | .intLabel p => p.map (·.length) | .intStack p => p.map (·.length)
  | .fltLabel p => p.map (·.length) | .fltStack p => p.map (·.length)

/-- numpy `np.around` / Python `round`: to nearest, ties to even -/
def roundHalfEven (q : Rat) : Int :=
  let f := q.floor
  let r := q - (f : Rat)
  if r < 1 / 2 then f else if 1 / 2 < r then f + 1 else if f % 2 = 0 then f else f + 1

/-- `mapM` in `Except`, structurally recursive (first error wins, like a Python loop that raises) -/
def mapE {α β ε} (f : α → Except ε β) : List α → Except ε (List β)
  | [] => .ok []
  | a :: as => match f a with
    | .error e => .error e
    | .ok b => match mapE f as with
      | .error e => .error e
      | .ok bs => .ok (b :: bs)

def foldE {σ α ε} (f : σ → α → Except ε σ) : σ → List α → Except ε σ
  | s, [] => .ok s
  | s, a :: as => match f s a with
    | .ok s' => foldE f s' as
    | .error e => .error e

def mapO {α β} (f : α → Option β) : List α → Option (List β)
  | [] => some []
  | a :: as => match f a, mapO f as with
    | some b, some bs => some (b :: bs)
    | _, _ => none

/-- position of the first entry equal to `k` (the frame LUT join; uniqueness is checked separately) -/
def findKey {κ} [DecidableEq κ] : List κ → κ → Option Nat
  | [], _ => none
  | a :: t, k => if a = k then some 0 else (findKey t k).map (· + 1)

/-! ## `_check_segment_numbers` -/

def ascending : List Nat → Bool
  | a :: b :: t => a ≤ b && ascending (b :: t)
  | _ => true

/-- consecutive from a given start (`np.diff == 1` and first element) -/
def consecutiveFrom : Nat → List Nat → Bool
  | _, [] => true
  | k, a :: t => a == k && consecutiveFrom (k + 1) t

def checkSegs (t : SegType) (segs : List Nat) : Except ErrKind Unit :=
  if segs = [] then .error .value else
  match t with
  | .labelmap =>
    if segs.any (· > 65535) then .error .value
    else if segs.any (· == 0) then .error .value
    else if ¬ segs.Nodup then .error .value
    else if ¬ ascending segs then .error .value
    else .ok ()
  | _ => if consecutiveFrom 1 segs then .ok () else .error .value

/-! ## `_check_and_cast_pixel_array` -/

def listMax (l : List Nat) : Nat := l.foldl max 0
def sumNat (l : List Nat) : Nat := l.foldl (· + ·) 0

/-- `np.argmax` of a non-empty list: index of the first maximum -/
def argmax (l : List Nat) : Nat := l.idxOf (listMax l)

/-- `_combine_segments` for one pixel (channel values 0/1), followed by the look-up that replaces the
channel position by the described segment number -/
def combinePixel (segs : List Nat) (ch : List Nat) : Except ErrKind Nat :=
  let lab := match ch with
    | [v] => v
    | _ => (argmax ch + 1) * listMax ch
  match (0 :: segs)[lab]? with
  | some v => .ok v
  | none => .error .index

/-- float → integer cast of a value known to be 0.0 or 1.0 (`astype(dtype)`) -/
def ratToNat (q : Rat) : Nat := q.floor.toNat

def overlapOfStack (n : Nat) (planes : List (List (List Nat))) : Overlap :=
  let mx := listMax (planes.map fun pl => listMax (pl.map listMax))
  if mx = 0 then .no
  else if n = 1 then .no
  else if planes.any (fun pl => pl.any (fun ch => sumNat ch > 1)) then .yes else .no

/-- Result: the array the rest of the constructor works with, and `SegmentsOverlap`. -/
def castMask (segs : List Nat) (t : SegType) (m : Mask) : Except ErrKind (Mask × Overlap) := do
  let n := segs.length
  -- 4-D: the last dimension must match the number of described segments
  let chanOk : Bool := match m with
    | .intStack ps => ps.all (fun pl => pl.all (fun ch => ch.length == n))
    | .fltStack ps => ps.all (fun pl => pl.all (fun ch => ch.length == n))
    | _ => true
  if ¬ chanOk then .error .value
  if m.numPlanes = 0 ∨ m.planeSizes.any (· == 0) then .error .value     -- `.max()` of an empty array
  let (arr, ov) ← (match m with
    | .intLabel ps =>
      let consecutive := (List.range' 1 n).all (· ∈ segs) && segs.all (fun s => 1 ≤ s && s ≤ n)
      let undescribed :=
        if consecutive then listMax (ps.map listMax) > n
        else ps.any (fun pl => pl.any (fun v => ¬ (v ∈ (0 :: segs))))
      if undescribed then .error .value else .ok (Mask.intLabel ps, Overlap.no)
    | .intStack ps =>
      if listMax (ps.map fun pl => listMax (pl.map listMax)) > 1 then .error .value
      else .ok (Mask.intStack ps, overlapOfStack n ps)
    | .fltLabel ps =>
      if ps.any (fun pl => pl.any (fun x => x < 0 ∨ 1 < x)) then .error .value
      else if t = .fractional then .ok (Mask.fltLabel ps, Overlap.no)
      else if ps.any (fun pl => pl.any (fun x => 0 < x ∧ x < 1)) then .error .value
      else .ok (Mask.intLabel (ps.map (·.map ratToNat)), Overlap.no)
    | .fltStack ps =>
      if ps.any (fun pl => pl.any (fun ch => ch.any (fun x => x < 0 ∨ 1 < x))) then .error .value
      else if t = .fractional then .ok (Mask.fltStack ps, if n = 1 then Overlap.no else Overlap.undefined)
      else if ps.any (fun pl => pl.any (fun ch => ch.any (fun x => 0 < x ∧ x < 1))) then .error .value
      else
        let ips := ps.map (·.map (·.map ratToNat))
        .ok (Mask.intStack ips, overlapOfStack n ips) : Except ErrKind (Mask × Overlap))
  if t = .labelmap then
    if ov = .yes then .error .value
    match arr with
    | .intStack ps =>
      let lab ← mapE (fun pl => mapE (combinePixel segs) pl) ps
      pure (Mask.intLabel lab, ov)
    | other => pure (other, ov)
  else pure (arr, ov)

/-! ## planes of the cast array -/

/-- one plane of the array (`pixel_array[plane_index]`) -/
inductive Plane
  | intLabel (px : List Nat)
  | intStack (px : List (List Nat))
  | fltLabel (px : List Rat)
  | fltStack (px : List (List Rat))
  deriving Repr, Inhabited

def Mask.plane? : Mask → Nat → Option Plane
  | .intLabel ps, i => ps[i]?.map .intLabel
  | .intStack ps, i => ps[i]?.map .intStack
  | .fltLabel ps, i => ps[i]?.map .fltLabel
  | .fltStack ps, i => ps[i]?.map .fltStack

/-- `np.any(frm)` -/
def Plane.any : Plane → Bool
  | .intLabel px => px.any (· != 0)
  | .intStack px => px.any (fun ch => ch.any (· != 0))
  | .fltLabel px => px.any (· != 0)
  | .fltStack px => px.any (fun ch => ch.any (· != 0))

/-- `_get_segment_pixel_array`: the stored pixels of segment `s` in one plane -/
def segPlane (segs : List Nat) (t : SegType) (mfv : Nat) (s : Nat) : Plane → Except ErrKind (List Nat)
  | .fltStack px => mapE (fun ch => match ch[s - 1]? with
      | some x => .ok (roundHalfEven (x * (mfv : Rat))).toNat
      | none => .error .index) px
  | .fltLabel px => .ok (px.map fun x => (roundHalfEven (x * (mfv : Rat))).toNat)
  | .intLabel px =>
      let b := if segs = [1] then px else px.map (fun v => if v = s then 1 else 0)
      .ok (if t = .fractional ∧ mfv ≠ 1 then b.map (· * mfv) else b)
  | .intStack px => do
      let b ← mapE (fun ch => match ch[s - 1]? with
        | some v => .ok v
        | none => .error .index) px
      pure (if t = .fractional ∧ mfv ≠ 1 then b.map (· * mfv) else b)

/-- stored pixels of a whole LABELMAP plane (no per-segment extraction) -/
def labelPlane : Plane → Except ErrKind (List Nat)
  | .intLabel px => .ok px
  | _ => .error .other      -- unreachable after `castMask … .labelmap`; refused rather than defaulted

/-! ## the frame loop -/

structure Frame where
  seg : Option Nat          -- ReferencedSegmentNumber (none: LABELMAP)
  plane : Nat               -- index of the source image / source frame this frame is derived from
  px : List Nat
  deriving Repr, DecidableEq, Inhabited

/-- `_get_nonempty_plane_indices` + the re-filtering of `plane_sort_index`:
    returns (omit_empty_frames after the "all empty" fallback, planes to visit in order) -/
def planOrder (arr : Mask) (omt : Bool) (order : List Nat) : Bool × List Nat :=
  if omt then
    let nonempty := (List.range arr.numPlanes).filter fun i => match arr.plane? i with
      | some pl => pl.any | none => false
    if nonempty = [] then (false, order) else (true, order.filter (· ∈ nonempty))
  else (false, order)

/-- body of the double loop for one (segment, plane): `none` = skipped -/
def loopBody (arr : Mask) (segs : List Nat) (t : SegType) (mfv : Nat) (omt : Bool)
    (seg : Option Nat) (p : Nat) : Except ErrKind (Option Frame) := do
  match arr.plane? p with
  | none => .error .index
  | some pl =>
    match seg with
    | none => do
      let px ← labelPlane pl
      pure (some ⟨none, p, px⟩)
    | some s => do
      let px ← segPlane segs t mfv s pl
      if omt ∧ ¬ px.any (· != 0) then pure none else pure (some ⟨some s, p, px⟩)

def segmentsIterable (t : SegType) (segs : List Nat) : List (Option Nat) :=
  if t = .labelmap then [none] else segs.map some

/-- frames in loop order -/
def storedFrames (arr : Mask) (segs : List Nat) (t : SegType) (mfv : Nat) (omt : Bool) (order : List Nat) :
    Except ErrKind (List Frame) := do
  let (omt', ord) := planOrder arr omt order
  let cells := (segmentsIterable t segs).flatMap fun sg => ord.map fun p => (sg, p)
  let fr ← mapE (fun c => loopBody arr segs t mfv omt' c.1 c.2) cells
  pure (fr.filterMap id)

/-! ## PixelData -/

def sliceTo {α} (l : List α) (k : Int) : Except ErrKind (List α) :=
  if k < 0 then .error .other else .ok (l.take k.toNat)
def sliceFrom {α} (l : List α) (k : Int) : Except ErrKind (List α) :=
  if k < 0 then .error .other else .ok (l.drop k.toNat)

/-- one iteration of the native 1-bit branch, literally: `carry` is the translated guard -/
def nativeStep (carry : Bool) (st : List Nat × List Bool) (f : List Bool) : Except ErrKind (List Nat × List Bool) :=
  if carry then do
    let full := st.2 ++ f
    let k ← segCarryTake full.length
    let toEncode ← sliceTo full k
    let rem ← sliceFrom full k
    pure (st.1 ++ pack toEncode, rem)
  else pure (st.1 ++ pack f, st.2)

/-- the BINARY native branch of the loop + flush (`b''.join(frames)` with the packed remainder last) -/
def nativeBits (rows cols : Nat) (frames : List (List Bool)) : Except ErrKind (List Nat) := do
  let carry ← segPackGuard "BINARY" rows cols
  let st ← foldE (nativeStep carry) ([], []) frames
  let flush ← segFlushGuard st.2.length
  pure (if flush then st.1 ++ pack st.2 else st.1)

/-- little-endian bytes of a pixel value (`tobytes()` of uint8 / uint16) -/
def leBytes (bits : Nat) (v : Nat) : List Nat :=
  if bits = 16 then [v % 256, v / 256 % 256] else [v % 256]

def unLe (bits : Nat) : List Nat → List Nat
  | a :: b :: t => if bits = 16 then (a + 256 * b) :: unLe bits t else a :: unLe bits (b :: t)
  | [a] => if bits = 16 then [] else [a]
  | [] => []

/-- trailing pad, as written -/
def padEven (pd : List Nat) : Except ErrKind (List Nat) := do
  let g ← segPadGuard pd.length
  pure (if g then pd ++ [segPadByte] else pd)

/-- external lossless codec: a parameter (law stated where it is used) -/
structure Codec where
  enc : List Nat → List Nat
  dec : List Nat → List Nat

inductive PixelData
  | native (bytes : List Nat)
  | encaps (fragments : List (List Nat))
  deriving Repr, Inhabited

/-- a Segmentation object as far as reading pixels back is concerned -/
structure SegObj where
  rows : Nat
  cols : Nat
  bits : Nat
  t : SegType
  mfv : Nat
  segs : List Nat
  keys : List (Option Nat × Nat)     -- per-frame functional groups: (segment, source plane), frame order
  pd : PixelData
  deriving Repr, Inhabited

/-- BitsAllocated: 1 / 8 / `_get_unsigned_dtype(max segment number)` -/
def bitsFor (t : SegType) (segs : List Nat) : Except ErrKind Nat :=
  match t with
  | .binary => .ok 1
  | .fractional => .ok 8
  | .labelmap => if listMax segs < 256 then .ok 8 else if listMax segs < 65536 then .ok 16 else .error .value

def encodePixelData (codec : Option Codec) (rows cols bits : Nat) (frames : List (List Nat)) :
    Except ErrKind PixelData :=
  match codec with
  | some c => .ok (.encaps (frames.map c.enc))
  | none => do
    let raw ← if bits = 1 then nativeBits rows cols (frames.map (·.map (· != 0)))
              else pure (frames.flatMap fun f => f.flatMap (leBytes bits))
    let pd ← padEven raw
    pure (.native pd)

/-- `Segmentation.__init__` as far as pixels and per-frame references go.  `nsrc` = number of source
planes, `order` = `plane_sort_index`. -/
def build (codec : Option Codec) (rows cols : Nat) (t : SegType) (segs : List Nat) (mfv : Nat) (omt : Bool)
    (order : List Nat) (m : Mask) : Except ErrKind SegObj := do
  checkSegs t segs
  if t = .fractional then
    let _ ← segMfvGuard mfv
  if codec.isSome ∧ t = .binary then .error .value       -- encapsulated syntaxes are refused for BINARY
  let bits ← bitsFor t segs
  let (arr, _) ← castMask segs t m
  if m.numPlanes ≠ order.length then .error .value
  if m.planeSizes.any (· != rows * cols) then .error .value
  let frames ← storedFrames arr segs t mfv omt order
  let pd ← encodePixelData codec rows cols bits (frames.map (·.px))
  pure { rows, cols, bits, t, mfv, segs, keys := frames.map (fun f => (f.seg, f.plane)), pd }

/-! ## reading back -/

/-- `get_stored_frame(i + 1)` as pixel values -/
def readFrame (codec : Option Codec) (o : SegObj) (i : Nat) : Except ErrKind (List Nat) :=
  let N : Int := o.keys.length
  match o.pd with
  | .native bytes =>
    if o.bits = 1 then do
      let b ← memFrameBits bytes o.rows o.cols 1 N ((i : Int) + 1) false
      pure (b.map fun x => if x then 1 else 0)
    else do
      let raw ← memFrameBytes bytes o.rows o.cols 1 o.bits N "MONOCHROME2" ((i : Int) + 1) false
      pure (unLe o.bits raw)
  | .encaps frags =>
    match codec, frags[i]? with
    | some c, some f => .ok (c.dec f)
    | _, _ => .error .index

/-- `get_pixels_by_source_instance` / `get_pixels_by_source_frame` with `rescale_fractional=False`:
    result indexed [requested source][segment][pixel]. -/
def readBySource (codec : Option Codec) (o : SegObj) (request : List Nat) (allowMissing : Bool) :
    Except ErrKind (List (List (List Nat))) := do
  if ¬ o.keys.Nodup then .error .runtime                 -- columns do not identify unique frames
  if ¬ allowMissing ∧ request.any (fun p => ¬ (p ∈ o.keys.map (·.2))) then .error .key
  let n := o.rows * o.cols
  mapE (fun p =>
    if o.t = .labelmap then do
      let lab ← match findKey o.keys (none, p) with
        | some i => readFrame codec o i
        | none => pure (List.replicate n 0)
      pure (o.segs.map fun s => lab.map fun v => if v = s then 1 else 0)
    else
      mapE (fun s => match findKey o.keys (some s, p) with
        | some i => readFrame codec o i
        | none => pure (List.replicate n 0)) o.segs) request

/-- construct, then read the planes `request` back -/
def roundtrip (codec : Option Codec) (rows cols : Nat) (t : SegType) (segs : List Nat) (mfv : Nat) (omt : Bool)
    (order : List Nat) (m : Mask) (request : List Nat) (allowMissing : Bool) :
    Except ErrKind (List (List (List Nat))) := do
  let o ← build codec rows cols t segs mfv omt order m
  readBySource codec o request allowMissing

/-! ## the property's own statement (independent of the functions above) -/

/-- what segment `s` (at position `j` of the described segments) must read back as, pixel by pixel;
`none` when a pixel of a stacked mask has no channel `j` (excluded by the shape check) -/
def expectedPlane (t : SegType) (mfv : Nat) (j s : Nat) : Plane → Option (List Nat)
  | .intLabel px => some (px.map fun v => if v = s then (if t = .fractional then mfv else 1) else 0)
  | .intStack px => mapO (fun ch => ch[j]?.map fun v => v * (if t = .fractional then mfv else 1)) px
  | .fltLabel px =>
      if t = .fractional then some (px.map fun x => (roundHalfEven (x * (mfv : Rat))).toNat)
      else some (px.map fun x => if x = 1 ∧ s = 1 then 1 else 0)
  | .fltStack px =>
      if t = .fractional then mapO (fun ch => ch[j]?.map fun x => (roundHalfEven (x * (mfv : Rat))).toNat) px
      else mapO (fun ch => ch[j]?.map fun x => if x = 1 then 1 else 0) px

end HdVerif.SegEncode
