import HdVerif.Model.Basic
import HdVerif.Generated.T17
import HdVerif.Generated.T17p
/-! C17: coded concepts (`highdicom.sr.coding.CodedConcept`) next to pydicom's `Code`.

What comes from /repo's current source (tie T, `Generated/T17.lean`): which attribute receives the
value (`ctorValueAttr`, `codeValueKeywords`, `urnPrefix`, `urlMarker`), what else the constructor
stores, the lookup order of the `value` property, the attribute behind every other property, which
properties `__eq__` hands to `Code(...)` and in which order, which properties `__hash__`
concatenates, and the decision tree of `from_dataset`.

What comes from pydicom's own source (translated, not trusted; `Generated/T17p.lean`): `PCode`,
`pydCodeEq` (`Code.__eq__` with its retired-scheme normalisation), which attributes of `other` it reads
(`pydEqOtherReads`), `pydHashArgs`, `pydNeNegatesEq`, `pydCodeFields`; the retired-scheme table itself
is `Generated/T17m.lean` (used by the driver).

What is hand-written: Python's dispatch of `==`, datasets as association lists, the object store used
for copy-vs-alias.

External components are parameters: `mapping s v` is `snomed_mapping[s].get(v)` (any function in the
theorems, the regenerated table in the driver), `h : String → Int` is Python's string hash. -/
namespace HdVerif.Coding
open HdVerif HdVerif.Gen

/-- the part of a pydicom dataset the coding code can see: keyword ↦ value -/
abbrev DS := List (String × String)

def DS.get (d : DS) (k : String) : Option String := List.lookup k d
def DS.has (d : DS) (k : String) : Bool := (DS.get d k).isSome
/-- attribute assignment replaces an existing element -/
def DS.set (d : DS) (k v : String) : DS := (k, v) :: d.filter (fun e => e.1 != k)

/-- pydicom `Code` named tuple: the structure regenerated from pydicom's source -/
abbrev Code := PCode

inductive Obj
  | code (c : Code)
  | concept (d : DS)
  deriving DecidableEq, Repr

/-- `Except`-map over a list, structurally (so that it unfolds on the literal tables) -/
def mapE {α β} (f : α → Except ErrKind β) : List α → Except ErrKind (List β)
  | [] => .ok []
  | a :: as => match f a with
    | .error e => .error e
    | .ok b => match mapE f as with
      | .error e => .error e
      | .ok bs => .ok (b :: bs)

/-- first keyword of `ks` present in `d` (nested `getattr(self, k1, getattr(self, k2, … None))`) -/
def firstPresent (d : DS) : List String → Option String
  | [] => none
  | k :: ks => match DS.get d k with
    | some v => some v
    | none => firstPresent d ks

/-- a property of `CodedConcept` read on dataset `d`; AttributeError when a mandatory attribute is absent -/
def prop (d : DS) (name : String) : Except ErrKind (Option String) :=
  if name = "value" then .ok (firstPresent d valueLookup)
  else match List.lookup name propertyAttr with
    | none => .error .attribute
    | some (kw, mandatory) =>
      match DS.get d kw with
      | some v => .ok (some v)
      | none => if mandatory then .error .attribute else .ok none

/-- attribute access `o.<name>` for the three names pydicom's `Code.__eq__` reads -/
def Obj.attr (o : Obj) (name : String) : Except ErrKind (Option String) :=
  match o with
  | .concept d => prop d name
  | .code c =>
    if name = "value" then .ok c.value
    else if name = "scheme_designator" then .ok c.scheme
    else if name = "meaning" then .ok c.meaning
    else if name = "scheme_version" then .ok c.version
    else .error .attribute

/-- `Code(*args)`: three or four positional arguments -/
def codeOfArgs : List (Option String) → Except ErrKind Code
  | [a, b, c] => .ok ⟨a, b, c, none⟩
  | [a, b, c, e] => .ok ⟨a, b, c, e⟩
  | _ => .error .type

/-- `this = Code(self.<p1>, self.<p2>, …)` of `CodedConcept.__eq__` -/
def thisOf (d : DS) : Except ErrKind Code :=
  match mapE (prop d) eqThisArgs with
  | .error e => .error e
  | .ok args => codeOfArgs args

/-- read the named attributes of `o` in order (AttributeError as soon as one is missing) -/
def readAttrs (o : Obj) : List String → Except ErrKind (List (String × Option String))
  | [] => .ok []
  | n :: ns => match o.attr n with
    | .error e => .error e
    | .ok v => match readAttrs o ns with
      | .error e => .error e
      | .ok rest => .ok ((n, v) :: rest)

/-- a value that was read, or `None` for an attribute `Code.__eq__` never looks at -/
def readField (reads : List (String × Option String)) (name : String) : Option String :=
  match List.lookup name reads with
  | some v => v
  | none => none

/-- pydicom `Code.__eq__(self, other)`: the attributes of `other` it reads (`pydEqOtherReads`), then the
translated comparison `pydCodeEq` -/
def codeEq (mapping : String → String → Option String) (self : Code) (other : Obj) : Except ErrKind Bool :=
  match readAttrs other pydEqOtherReads with
  | .error e => .error e
  | .ok reads =>
    .ok (pydCodeEq mapping self
      ⟨readField reads "value", readField reads "scheme_designator", readField reads "meaning", readField reads "scheme_version"⟩)

/-- Python `a == b` for two code-like objects: `type(a).__eq__(a, b)` -/
def objEq (retired : String → String → Option String) (a b : Obj) : Except ErrKind Bool :=
  match a with
  | .code c => codeEq retired c b
  | .concept d =>
    match thisOf d with
    | .error e => .error e
    | .ok this => codeEq retired this b

/-- Python `a != b`: `Code.__ne__` / `CodedConcept.__ne__` of the left operand (both negate `==`) -/
def objNe (retired : String → String → Option String) (a b : Obj) : Except ErrKind Bool :=
  match objEq retired a b with
  | .error e => .error e
  | .ok r =>
    let negates := match a with
      | .code _ => pydNeNegatesEq
      | .concept _ => neNegatesEq
    .ok (if negates then !r else r)

/-- string concatenation of values that must all be present (`None + str` is a TypeError) -/
def concatAll : List (Option String) → Except ErrKind String
  | [] => .ok ""
  | none :: _ => .error .type
  | some s :: rest => match concatAll rest with
    | .error e => .error e
    | .ok t => .ok (s ++ t)

/-- the string handed to `hash(...)` -/
def hashInput (o : Obj) : Except ErrKind String :=
  match o with
  | .code c => match mapE (Obj.attr (.code c)) pydHashArgs with
    | .error e => .error e
    | .ok parts => concatAll parts
  | .concept d => match mapE (prop d) hashArgs with
    | .error e => .error e
    | .ok parts => concatAll parts

/-- `hash(o)`; `h` is Python's string hash -/
def hashOf (h : String → Int) (o : Obj) : Except ErrKind Int :=
  match hashInput o with
  | .error e => .error e
  | .ok s => .ok (h s)

/-- `len({a, b})`: the second element is dropped iff it hashes like the first and compares equal -/
def setLen2 (h : String → Int) (retired : String → String → Option String) (a b : Obj) : Except ErrKind Nat :=
  match hashOf h a, hashOf h b with
  | .ok ha, .ok hb =>
    if ha = hb then
      match objEq retired a b with
      | .error e => .error e
      | .ok true => .ok 1
      | .ok false => .ok 2
    else .ok 2
  | .error e, _ => .error e
  | _, .error e => .error e

/-- `needle in hay` for strings, on character lists -/
def hasInfix (needle : List Char) : List Char → Bool
  | [] => needle.isEmpty
  | c :: cs => needle.isPrefixOf (c :: cs) || hasInfix needle cs

/-- `'\\' in s`: the DICOM value delimiter occurs in the string -/
def hasBackslash (s : String) : Bool := s.toList.contains '\\'

/-- `scheme_version is not None and '\\' in scheme_version` needs the version only when it is given -/
def optHasBackslash (version : Option String) : Bool :=
  match version with
  | some ver => hasBackslash ver
  | none => false

/-- `value.lower().startswith(prefix)` / `value.startswith(prefix)`, whichever the code does (ASCII lower-casing:
no non-ASCII character lower-cases to a letter of the prefix) -/
def prefixTest (v : String) : Bool :=
  urnPrefix.toList.isPrefixOf (if urnPrefixCaseInsensitive then v.toList.map Char.toLower else v.toList)

/-- what the code treats as a URN or URL -/
def looksLikeUrn (v : String) : Bool :=
  prefixTest v || hasInfix urlMarker.toList v.toList

/-- the constructor argument named `p` -/
def ctorArg (vals : List (Option String)) (p : String) : Option String :=
  match List.lookup p (ctorParams.zip vals) with
  | some v => v
  | none => none

def applyFixed (arg : String → Option String) : List (String × String) → DS → Except ErrKind DS
  | [], d => .ok d
  | (kw, p) :: rest, d => match arg p with
    | none => .error .type
    | some v => applyFixed arg rest (DS.set d kw v)

def applyOptional (arg : String → Option String) : List (String × String) → DS → DS
  | [], d => d
  | (kw, p) :: rest, d => match arg p with
    | none => applyOptional arg rest d
    | some v => applyOptional arg rest (DS.set d kw v)

/-- `CodedConcept(value, scheme_designator, meaning, scheme_version)` -/
def mkConcept (value scheme meaning : String) (version : Option String) : Except ErrKind DS :=
  match ctorValueAttr (hasBackslash value) (hasBackslash scheme) (hasBackslash meaning) version.isSome
      (optHasBackslash version)
      value.length (prefixTest value) (hasInfix urlMarker.toList value.toList) meaning.length with
  | .error e => .error e
  | .ok k =>
    if k < 0 then .error .other else
    match codeValueKeywords[k.toNat]? with
    | none => .error .other
    | some kw =>
      let arg := ctorArg [some value, some scheme, some meaning, version]
      match applyFixed arg ctorFixedAssigns [(kw, value)] with
      | .error e => .error e
      | .ok d => .ok (applyOptional arg ctorOptionalAssigns d)

/-- `cls(*code)`: the `i`-th field of the named tuple goes to the `i`-th constructor parameter;
TypeError when the constructor has a parameter the tuple does not fill -/
def unpackedArg (c : Code) (param : String) : Except ErrKind (Option String) :=
  match List.lookup param (ctorParams.zip pydCodeFields) with
  | some field => Obj.attr (.code c) field
  | none => .error .type

/-- `CodedConcept.from_code`: an existing concept is returned as is -/
def fromCode (o : Obj) : Except ErrKind Obj :=
  match o with
  | .concept d => if fromCodeReturnsSame then .ok (.concept d) else .error .other
  | .code c =>
    match unpackedArg c "value", unpackedArg c "scheme_designator", unpackedArg c "meaning", unpackedArg c "scheme_version" with
    | .ok (some v), .ok (some s), .ok (some m), .ok ver => match mkConcept v s m ver with
      | .error e => .error e
      | .ok d => .ok (.concept d)
    | _, _, _, _ => .error .type

/-- `del dataset.<keyword>` -/
def DS.del (d : DS) (k : String) : DS := d.filter (fun e => e.1 != k)

/-- an assignment or deletion on a coded-concept dataset -/
inductive Op
  | set (k v : String)
  | del (k : String)

def applyOp (d : DS) : Op → DS
  | .set k v => DS.set d k v
  | .del k => DS.del d k

def applyOps (d : DS) (ops : List Op) : DS := ops.foldl applyOp d

/-! ### object store: `from_dataset(dataset, copy)` -/

inductive Cls | dataset | codedConcept | notDataset
  deriving DecidableEq, Repr

structure Cell where
  cls : Cls
  ds : DS
  deriving DecidableEq, Repr

/-- objects by reference (index); `deepcopy` allocates at the end -/
abbrev Heap := List Cell

def countPresent (d : DS) (ks : List String) : Nat := (ks.filter (DS.has d)).length

/-- `CodedConcept.from_dataset(h[ref], copy)` → new store and the reference returned -/
def fromDataset (h : Heap) (ref : Nat) (copy : Bool) : Except ErrKind (Heap × Nat) :=
  match h[ref]? with
  | none => .error .other
  | some cell =>
    match fromDatasetDecision (ref : Int) copy (countPresent cell.ds codeValueKeywords : Nat)
        (cell.cls != .notDataset) (h.length : Int)
        (DS.has cell.ds "CodeValue") (DS.has cell.ds "LongCodeValue") (DS.has cell.ds "URNCodeValue")
        (DS.has cell.ds "CodeMeaning") (DS.has cell.ds "CodingSchemeDesignator") with
    | .error e => .error e
    | .ok r =>
      if r = (ref : Int) then .ok (h.set ref { cell with cls := .codedConcept }, ref)
      else if r = (h.length : Int) then .ok (h ++ [{ cls := .codedConcept, ds := cell.ds }], h.length)
      else .error .other

/-- attribute assignment through a reference -/
def setAttr (h : Heap) (ref : Nat) (k v : String) : Heap :=
  match h[ref]? with
  | none => h
  | some cell => h.set ref { cell with ds := DS.set cell.ds k v }

end HdVerif.Coding
