import HdVerif.Model.Basic
import HdVerif.Generated.T17
/-! C17: coded concepts (`highdicom.sr.coding.CodedConcept`) next to pydicom's `Code`.

What comes from /repo's current source (tie T, `Generated/T17.lean`): which attribute receives the
value (`ctorValueAttr`, `codeValueKeywords`, `urnPrefix`, `urlMarker`), what else the constructor
stores, the lookup order of the `value` property, the attribute behind every other property, which
properties `__eq__` hands to `Code(...)` and in which order, which properties `__hash__`
concatenates, and the decision tree of `from_dataset`.

What is hand-written: pydicom's `Code.__eq__` / `__hash__` (not part of /repo; tie C), Python's
dispatch of `==`, datasets as association lists, the object store used for copy-vs-alias.

External components are parameters: `retired : String → Option String` is pydicom's
`snomed_mapping["SRT"]`, `h : String → Int` is Python's string hash. -/
namespace HdVerif.Coding
open HdVerif HdVerif.Gen

/-- the part of a pydicom dataset the coding code can see: keyword ↦ value -/
abbrev DS := List (String × String)

def DS.get (d : DS) (k : String) : Option String := List.lookup k d
def DS.has (d : DS) (k : String) : Bool := (DS.get d k).isSome
/-- attribute assignment replaces an existing element -/
def DS.set (d : DS) (k v : String) : DS := (k, v) :: d.filter (fun e => e.1 != k)

/-- pydicom `Code` named tuple (any field may hold `None`; user-made codes have the first three) -/
structure Code where
  value : Option String
  scheme : Option String
  meaning : Option String
  version : Option String
  deriving DecidableEq, Repr

inductive Obj
  | code (c : Code)
  | concept (d : DS)
  deriving DecidableEq, Repr

/-- `Except`-map over a list, structurally (so that it unfolds on the literal tables) -/
def mapE {α β} (f : α → Except ErrKind β) : List α → Except ErrKind (List β)
  | [] => .ok []
  | a :: as => match f a with
    | .error e => .error e
    | .ok b => match mapE f as with
      | .error e => .error e
      | .ok bs => .ok (b :: bs)

/-- first keyword of `ks` present in `d` (nested `getattr(self, k1, getattr(self, k2, … None))`) -/
def firstPresent (d : DS) : List String → Option String
  | [] => none
  | k :: ks => match DS.get d k with
    | some v => some v
    | none => firstPresent d ks

/-- a property of `CodedConcept` read on dataset `d`; AttributeError when a mandatory attribute is absent -/
def prop (d : DS) (name : String) : Except ErrKind (Option String) :=
  if name = "value" then .ok (firstPresent d valueLookup)
  else match List.lookup name propertyAttr with
    | none => .error .attribute
    | some (kw, mandatory) =>
      match DS.get d kw with
      | some v => .ok (some v)
      | none => if mandatory then .error .attribute else .ok none

/-- attribute access `o.<name>` for the three names pydicom's `Code.__eq__` reads -/
def Obj.attr (o : Obj) (name : String) : Except ErrKind (Option String) :=
  match o with
  | .concept d => prop d name
  | .code c =>
    if name = "value" then .ok c.value
    else if name = "scheme_designator" then .ok c.scheme
    else if name = "meaning" then .ok c.meaning
    else if name = "scheme_version" then .ok c.version
    else .error .attribute

/-- `Code(*args)`: three or four positional arguments -/
def codeOfArgs : List (Option String) → Except ErrKind Code
  | [a, b, c] => .ok ⟨a, b, c, none⟩
  | [a, b, c, e] => .ok ⟨a, b, c, e⟩
  | _ => .error .type

/-- `this = Code(self.<p1>, self.<p2>, …)` of `CodedConcept.__eq__` -/
def thisOf (d : DS) : Except ErrKind Code :=
  match mapE (prop d) eqThisArgs with
  | .error e => .error e
  | .ok args => codeOfArgs args

/-- pydicom: a retired SRT code is replaced by its SCT successor, the meaning is dropped -/
def mapKey (retired : String → Option String) (value scheme version : Option String) :
    Option String × Option String × Option String :=
  match scheme, value with
  | some s, some v =>
    if s = "SRT" then
      match retired v with
      | some w => (some w, some "SCT", version)
      | none => (value, scheme, version)
    else (value, scheme, version)
  | _, _ => (value, scheme, version)

/-- pydicom `Code.__eq__(self, other)` -/
def codeEq (retired : String → Option String) (self : Code) (other : Obj) : Except ErrKind Bool :=
  match other.attr "scheme_designator", other.attr "value", other.attr "scheme_version" with
  | .ok os, .ok ov, .ok over =>
    .ok (decide (mapKey retired self.value self.scheme self.version = mapKey retired ov os over))
  | .error e, _, _ => .error e
  | _, .error e, _ => .error e
  | _, _, .error e => .error e

/-- Python `a == b` for two code-like objects: `type(a).__eq__(a, b)` -/
def objEq (retired : String → Option String) (a b : Obj) : Except ErrKind Bool :=
  match a with
  | .code c => codeEq retired c b
  | .concept d =>
    match thisOf d with
    | .error e => .error e
    | .ok this => codeEq retired this b

/-- Python `a != b` (`Code.__ne__` and `CodedConcept.__ne__` both negate `==`) -/
def objNe (retired : String → Option String) (a b : Obj) : Except ErrKind Bool :=
  match objEq retired a b with
  | .error e => .error e
  | .ok r => .ok (if neNegatesEq then !r else r)

/-- string concatenation of values that must all be present (`None + str` is a TypeError) -/
def concatAll : List (Option String) → Except ErrKind String
  | [] => .ok ""
  | none :: _ => .error .type
  | some s :: rest => match concatAll rest with
    | .error e => .error e
    | .ok t => .ok (s ++ t)

/-- the string handed to `hash(...)` -/
def hashInput (o : Obj) : Except ErrKind String :=
  match o with
  | .code c => concatAll [c.scheme, c.value]
  | .concept d => match mapE (prop d) hashArgs with
    | .error e => .error e
    | .ok parts => concatAll parts

/-- `hash(o)`; `h` is Python's string hash -/
def hashOf (h : String → Int) (o : Obj) : Except ErrKind Int :=
  match hashInput o with
  | .error e => .error e
  | .ok s => .ok (h s)

/-- `len({a, b})`: the second element is dropped iff it hashes like the first and compares equal -/
def setLen2 (h : String → Int) (retired : String → Option String) (a b : Obj) : Except ErrKind Nat :=
  match hashOf h a, hashOf h b with
  | .ok ha, .ok hb =>
    if ha = hb then
      match objEq retired a b with
      | .error e => .error e
      | .ok true => .ok 1
      | .ok false => .ok 2
    else .ok 2
  | .error e, _ => .error e
  | _, .error e => .error e

/-- `needle in hay` for strings, on character lists -/
def hasInfix (needle : List Char) : List Char → Bool
  | [] => needle.isEmpty
  | c :: cs => needle.isPrefixOf (c :: cs) || hasInfix needle cs

/-- what the code treats as a URN or URL -/
def looksLikeUrn (v : String) : Bool :=
  urnPrefix.toList.isPrefixOf v.toList || hasInfix urlMarker.toList v.toList

/-- the constructor argument named `p` -/
def ctorArg (vals : List (Option String)) (p : String) : Option String :=
  match List.lookup p (ctorParams.zip vals) with
  | some v => v
  | none => none

def applyFixed (arg : String → Option String) : List (String × String) → DS → Except ErrKind DS
  | [], d => .ok d
  | (kw, p) :: rest, d => match arg p with
    | none => .error .type
    | some v => applyFixed arg rest (DS.set d kw v)

def applyOptional (arg : String → Option String) : List (String × String) → DS → DS
  | [], d => d
  | (kw, p) :: rest, d => match arg p with
    | none => applyOptional arg rest d
    | some v => applyOptional arg rest (DS.set d kw v)

/-- `CodedConcept(value, scheme_designator, meaning, scheme_version)` -/
def mkConcept (value scheme meaning : String) (version : Option String) : Except ErrKind DS :=
  match ctorValueAttr value.length (urnPrefix.toList.isPrefixOf value.toList)
      (hasInfix urlMarker.toList value.toList) meaning.length with
  | .error e => .error e
  | .ok k =>
    if k < 0 then .error .other else
    match codeValueKeywords[k.toNat]? with
    | none => .error .other
    | some kw =>
      let arg := ctorArg [some value, some scheme, some meaning, version]
      match applyFixed arg ctorFixedAssigns [(kw, value)] with
      | .error e => .error e
      | .ok d => .ok (applyOptional arg ctorOptionalAssigns d)

/-- `CodedConcept.from_code`: an existing concept is returned as is -/
def fromCode (o : Obj) : Except ErrKind Obj :=
  match o with
  | .concept d => if fromCodeReturnsSame then .ok (.concept d) else .error .other
  | .code c =>
    match c.value, c.scheme, c.meaning with
    | some v, some s, some m => match mkConcept v s m c.version with
      | .error e => .error e
      | .ok d => .ok (.concept d)
    | _, _, _ => .error .type

/-! ### object store: `from_dataset(dataset, copy)` -/

inductive Cls | dataset | codedConcept | notDataset
  deriving DecidableEq, Repr

structure Cell where
  cls : Cls
  ds : DS
  deriving DecidableEq, Repr

/-- objects by reference (index); `deepcopy` allocates at the end -/
abbrev Heap := List Cell

def countPresent (d : DS) (ks : List String) : Nat := (ks.filter (DS.has d)).length

/-- `CodedConcept.from_dataset(h[ref], copy)` → new store and the reference returned -/
def fromDataset (h : Heap) (ref : Nat) (copy : Bool) : Except ErrKind (Heap × Nat) :=
  match h[ref]? with
  | none => .error .other
  | some cell =>
    match fromDatasetDecision (ref : Int) copy (countPresent cell.ds codeValueKeywords : Nat)
        (cell.cls != .notDataset) (h.length : Int)
        (DS.has cell.ds "CodeValue") (DS.has cell.ds "LongCodeValue") (DS.has cell.ds "URNCodeValue")
        (DS.has cell.ds "CodeMeaning") (DS.has cell.ds "CodingSchemeDesignator") with
    | .error e => .error e
    | .ok r =>
      if r = (ref : Int) then .ok (h.set ref { cell with cls := .codedConcept }, ref)
      else if r = (h.length : Int) then .ok (h ++ [{ cls := .codedConcept, ds := cell.ds }], h.length)
      else .error .other

/-- attribute assignment through a reference -/
def setAttr (h : Heap) (ref : Nat) (k v : String) : Heap :=
  match h[ref]? with
  | none => h
  | some cell => h.set ref { cell with ds := DS.set cell.ds k v }

end HdVerif.Coding
