import HdVerif.Model.Aliasing
/-!
# Copy-or-alias data flow (C20): the store semantics of the extracted language

What a program of `Model/Aliasing.lean` **means**: a run on a store of cells.  A cell is one object (a data set, a sequence, a
list, an array buffer …) with a content (an abstract number) and labelled references to other cells.  The caller's world at
the moment of the call is arbitrary: any number of cells, any references among them, any cells as arguments — the same object
may be passed twice, two arguments may share a nested item, an argument may be an item of another one.  Everything is exact here:
a reference denotes one cell, a branch is decided by the valuation, which of several stored items `x[...]` yields and which
side of a `join` is taken is decided by an arbitrary oracle, a write changes the content of exactly the cell written (by an
arbitrary effect `w`), a deep write that of every cell reachable from it through stored references (`Reach`), storing a
reference in an object changes that object.

Nothing here is used by the analysis; `Proofs/AliasSound.lean` relates the two.
-/
namespace HdVerif.Aliasing

/-- a concrete reference: the cell, and whether the reference is the object itself as it was passed in / allocated / stored
(not a derived view such as `reshape`, `x[...]` of an array) -/
structure CVal where
  cell : Nat
  direct : Bool
  deriving DecidableEq, Repr

/-- the caller's world when the function is called: cells `0 … base-1` exist and belong to the caller, `fields` are the
references among them (holder, label, target), `args` the cells passed as arguments, `store` the contents -/
structure World where
  base : Nat
  fields : List (Nat × Nat × Nat)
  args : List Nat
  store : Nat → Nat

/-- the world is closed: arguments and references stay among the caller's cells -/
def World.ok (W : World) (nIn : Nat) : Prop :=
  W.args.length = nIn ∧ (∀ a ∈ W.args, a < W.base) ∧ ∀ l ∈ W.fields, l.1 < W.base ∧ l.2.2 < W.base

structure CState where
  env : List (Nat × CVal)
  next : Nat
  /-- number of oracle consultations so far -/
  tick : Nat
  store : Nat → Nat
  fields : List (Nat × Nat × Nat)
  result : Option CVal
  halted : Bool

def lookupC : List (Nat × CVal) → Nat → Option CVal
  | [], _ => none
  | (y, r) :: rest, x => bif Nat.beq y x then some r else lookupC rest x

/-- the cells stored under label `f` in cell `c` -/
def targetsC (fields : List (Nat × Nat × Nat)) (c f : Nat) : List Nat :=
  (fields.filter fun l => l.1 == c && l.2.1 == f).map (·.2.2)

/-- the oracle's pick among a list of candidates (the cell itself when there is none) -/
def pick (ch : Nat → Nat) (tick : Nat) (dflt : Nat) (ts : List Nat) : Nat :=
  ts.getD (ch tick % ts.length) dflt

/-- candidates for one level of `c.f`: what was stored under `f`, else the cell itself (a part of the same object) -/
def viewC (fields : List (Nat × Nat × Nat)) (c f : Nat) : List Nat :=
  match targetsC fields c f with
  | [] => [c]
  | ts => ts

/-- evaluate an expression: the value, the next free cell, the oracle counter -/
def evalC (ch : Nat → Nat) (env : List (Nat × CVal)) (fields : List (Nat × Nat × Nat)) (next tick : Nat) :
    Expr → CVal × Nat × Nat
  | .var x => match lookupC env x with
    | some r => (r, next, tick)
    | none => (⟨next, true⟩, next + 1, tick)
  | .view f e =>
    match evalC ch env fields next tick e with
    | (c, n, t) =>
      if f = 0 then (⟨c.cell, false⟩, n, t) else
      -- label 4, an item of an item: stored as such, or an item of an explicitly stored item
      let ts := if f = 4 then targetsC fields c.cell 4 ++ (targetsC fields c.cell 1).flatMap (fun m => viewC fields m 1)
                else targetsC fields c.cell f
      match ts with
      | [] => (⟨c.cell, false⟩, n, t)
      | _ => (⟨pick ch t c.cell ts, true⟩, n, t + 1)
  | .fresh => (⟨next, true⟩, next + 1, tick)
  | .join a b =>
    match evalC ch env fields next tick a with
    | (ca, n1, t1) => match evalC ch env fields n1 t1 b with
      | (cb, n2, t2) => (if ch t2 % 2 = 0 then ca else cb, n2, t2 + 1)

/-- `k` is reachable from `c` through stored references (any labels) -/
inductive Reach (fields : List (Nat × Nat × Nat)) (c : Nat) : Nat → Prop
  | refl : Reach fields c c
  | step {b f t : Nat} : Reach fields c b → (b, f, t) ∈ fields → Reach fields c t

open Classical in
mutual
/-- one statement; `v` valuation of the opaque conditions, `ch` the oracle, `w` the (arbitrary) effect of a write on the
content of a cell -/
noncomputable def execC (v : Nat) (ch : Nat → Nat) (w : Nat → Nat → Nat) : Stmt → CState → CState
  | .assign x e, s =>
    if s.halted then s else
    match evalC ch s.env s.fields s.next s.tick e with
    | (c, n, t) => { s with env := (x, c) :: s.env, next := n, tick := t }
  | .write e, s =>
    if s.halted then s else
    match evalC ch s.env s.fields s.next s.tick e with
    | (c, n, t) => { s with next := n, tick := t, store := fun k => if k = c.cell then w k (s.store k) else s.store k }
  | .writeDeep e, s =>
    if s.halted then s else
    match evalC ch s.env s.fields s.next s.tick e with
    | (c, n, t) =>
      { s with next := n, tick := t, store := fun k => if Reach s.fields c.cell k then w k (s.store k) else s.store k }
  | .link a f b, s =>
    if s.halted then s else
    match evalC ch s.env s.fields s.next s.tick a with
    | (ca, n1, t1) => match evalC ch s.env s.fields n1 t1 b with
      | (cb, n2, t2) =>
        { s with next := n2, tick := t2, fields := (ca.cell, f, cb.cell) :: s.fields,
                 store := fun k => if k = ca.cell then w k (s.store k) else s.store k }
  | .ite c t e, s =>
    if s.halted then s else
    if v.testBit c then execListC v ch w t s else execListC v ch w e s
  | .ret e, s =>
    if s.halted then s else
    match evalC ch s.env s.fields s.next s.tick e with
    | (c, n, t) => { s with next := n, tick := t, result := some c, halted := true }
  | .raise, s => if s.halted then s else { s with halted := true }
  | .widen _, s => s

noncomputable def execListC (v : Nat) (ch : Nat → Nat) (w : Nat → Nat → Nat) : List Stmt → CState → CState
  | [], s => s
  | st :: rest, s => execListC v ch w rest (execC v ch w st s)
end

/-- the state at the call: parameter `i` refers to the `i`-th argument cell itself; new cells are numbered from `base` -/
def initC (W : World) (nIn : Nat) : CState :=
  { env := (List.range nIn).map (fun i => (i, ⟨W.args.getD i 0, true⟩)), next := W.base, tick := 0, store := W.store,
    fields := W.fields, result := none, halted := false }

/-- a whole call -/
noncomputable def runC (p : Prog) (nIn : Nat) (W : World) (v : Nat) (ch : Nat → Nat) (w : Nat → Nat → Nat) : CState :=
  execListC v ch w p (initC W nIn)

end HdVerif.Aliasing
