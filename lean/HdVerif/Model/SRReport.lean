import HdVerif.Model.Basic
import HdVerif.Generated.T16a
import HdVerif.Generated.T16b
import HdVerif.Generated.T16c
import HdVerif.Generated.T15e
/-! C16: measurement-report queries (`sr/templates.py`).

A measurement group is the list of the top-level content items of its CONTAINER (plus the IMAGE children of
SCOORD items) and its optional template identifier.  The kind classification by content counting, the
argument checks and the literal tables are the definitions translated from the current source
(`Generated/T16a..c`, the enumerations of graphic types `Generated/T15e`); the loops, the filter predicates and the search
for the ROI reference items are modelled by hand (tie C).  Codes are "value|scheme" strings, UIDs strings.

Error arms.  Besides the argument checks and the RuntimeErrors of the ROI search the loop body fails on three kinds of
stored item a report read from a file or tampered with in memory can contain: a stored GraphicType outside the
enumeration the filter's branch reads it into (ValueError), a reference item / source image item without a
ReferencedSOPSequence where its UIDs are compared (AttributeError), a SCOORD region without a ContentSequence where its
source images are searched (AttributeError); and the conversion `…from_sequence([group_item])` of a group about to be
returned refuses an IMAGE / COMPOSITE item without ReferencedSOPSequence at any depth the model represents
(AttributeError), and a SCOORD / SCOORD3D item without GraphicType (AttributeError).  The `…P` definitions are the same loop bodies without these arms; `Group.sound` is the condition
under which both agree (`Proofs.keep_sound`).  NOT modelled: the remaining per-value-type attribute requirements of the
conversion (they are the subject of C13 / C14), CODE / UIDREF / TEXT items without their value attribute, value types
or relationship types outside their enumerations. -/
namespace HdVerif.SRReport
open HdVerif

structure Ref where
  cls : String
  inst : String
deriving DecidableEq, Repr

/-- child of a content item (only IMAGE children of SCOORD regions matter) -/
structure Kid where
  name : String
  vt : String
  rel : String
  ref : Option Ref
deriving DecidableEq, Repr

/-- top-level content item of a group container -/
structure GItem where
  name : String
  vt : String
  rel : String
  value : String := ""          -- code "value|scheme" / UID / text / number
  graphic : String := ""        -- GraphicType of SCOORD / SCOORD3D
  ref : Option Ref := none      -- ReferencedSOPSequence[0] of IMAGE / COMPOSITE
  kids : List Kid := []
  hasSeq : Bool := false        -- the item has a ContentSequence attribute (only read on SCOORD regions)
deriving DecidableEq, Repr

structure Group where
  templateId : Option String
  items : List GItem
deriving DecidableEq, Repr

/-! names used by the library -/
def cMeasurementGroup := "125007|DCM"
def cTrackingId := "112039|DCM"
def cTrackingUid := "112040|DCM"
def cFindingCategory := "276214006|SCT"
def cFinding := "121071|DCM"
def cMethod := "370129005|SCT"
def cFindingSite := "363698007|SCT"
def cGeometricPurpose := "130400|DCM"
def cImageRegion := "111030|DCM"
def cVolumeSurface := "121231|DCM"
def cReferencedSegment := "121191|DCM"
def cReferencedSegmentationFrame := "121214|DCM"
def cRegionInSpace := "130488|DCM"
def cSourceImageForSegmentation := "121233|DCM"
def cSourceSeriesForSegmentation := "121232|DCM"
def cSource := "260753009|SCT"
def cRwvm := "126100|DCM"

/-! ## kind classification -/

/-- the loop of `_count_roi_items` over the translated step -/
def countLoop : List GItem → (Int × Int × Int × Int × Int) → Except ErrKind (Int × Int × Int × Int × Int)
  | [], c => .ok c
  | it :: rest, (a, b, c, d, e) =>
    match Gen.roiCountStep it.name it.vt a b c d e with
    | .error x => .error x
    | .ok c' => countLoop rest c'

/-- `_count_roi_items(group_item)` for a CONTAINER named "Measurement Group" (what `_find_measurement_groups` yields) -/
def countRoi (g : Group) : Except ErrKind (Int × Int × Int × Int × Int) :=
  match Gen.roiCountGuard "CONTAINER" cMeasurementGroup with
  | .error x => .error x
  | .ok _ => countLoop g.items (0, 0, 0, 0, 0)

def containsPlanar (g : Group) : Except ErrKind Bool :=
  match countRoi g with
  | .error x => .error x
  | .ok (a, b, c, d, e) => Gen.containsPlanarRois a b c d e

def containsVolumetric (g : Group) : Except ErrKind Bool :=
  match countRoi g with
  | .error x => .error x
  | .ok (a, b, c, d, e) => Gen.containsVolumetricRois a b c d e

inductive Kind | planar | volumetric | image
deriving DecidableEq, Repr

def Kind.templateId : Kind → String
  | .planar => "1410" | .volumetric => "1411" | .image => "1501"

/-- the head of each query loop: template identifier when present, content counting otherwise -/
def isKind (k : Kind) (g : Group) : Except ErrKind Bool :=
  match g.templateId with
  | some t => .ok (t == k.templateId)
  | none =>
    match k with
    | .planar => containsPlanar g
    | .volumetric => containsVolumetric g
    | .image =>
      match containsPlanar g with
      | .error x => .error x
      | .ok p =>
        match containsVolumetric g with
        | .error x => .error x
        | .ok v => .ok (!(p || v))

/-! ## filter predicates -/

/-- `_contains_code_items(parent, name, value, relationship_type)` -/
def containsCode (g : Group) (name value rel : String) : Bool :=
  g.items.any (fun it => it.name == name && it.vt == "CODE" && it.rel == rel && it.value == value)

/-- `_contains_uidref_items` -/
def containsUidref (g : Group) (name value rel : String) : Bool :=
  g.items.any (fun it => it.name == name && it.vt == "UIDREF" && it.rel == rel && it.value == value)

def refMatches (r : Option Ref) (cls inst : Option String) : Bool :=
  match r with
  | none => false
  | some r =>
    (match cls with | none => true | some c => r.cls == c) &&
    (match inst with | none => true | some i => r.inst == i)

/-- `_contains_image_items(group_item, name, class, instance, relationship_type)` over the top-level items -/
def containsImage (g : Group) (name rel : String) (cls inst : Option String) : Bool :=
  g.items.any (fun it => it.name == name && it.vt == "IMAGE" && it.rel == rel && refMatches it.ref cls inst)

/-- `_contains_image_items(ref_item, None, class, instance, SELECTED_FROM)` over the children of a region -/
def kidsContainImage (it : GItem) (cls inst : Option String) : Bool :=
  it.kids.any (fun k => k.vt == "IMAGE" && k.rel == "SELECTED FROM" && refMatches k.ref cls inst)

/-- the loop of `_contains_image_items` over the references of the matched items: an item whose UIDs are compared must
carry a ReferencedSOPSequence (AttributeError otherwise); the first matching item ends the loop -/
def imageLoop (cls inst : Option String) : List (Option Ref) → Except ErrKind Bool
  | [] => .ok false
  | none :: _ => if cls.isNone && inst.isNone then .ok true else .error .attribute
  | some r :: rest => if refMatches (some r) cls inst then .ok true else imageLoop cls inst rest

/-- `_contains_image_items(group_item, …)` with its error arm -/
def containsImageE (g : Group) (name rel : String) (cls inst : Option String) : Except ErrKind Bool :=
  imageLoop cls inst ((g.items.filter (fun it => it.name == name && it.vt == "IMAGE" && it.rel == rel)).map (·.ref))

/-- `_contains_image_items(ref_item, None, …, SELECTED_FROM)` with its error arms: `find_content_items` refuses an item
without ContentSequence -/
def kidsContainImageE (it : GItem) (cls inst : Option String) : Except ErrKind Bool :=
  if !it.hasSeq then .error .attribute
  else imageLoop cls inst ((it.kids.filter (fun k => k.vt == "IMAGE" && k.rel == "SELECTED FROM")).map (·.ref))

/-! ## stored values a report may carry wrongly -/

/-- `GraphicTypeValues(item.GraphicType)` / `GraphicTypeValues3D(item.GraphicType)` ("" = attribute absent) -/
def graphicRead (is2d : Bool) (g : String) : Except ErrKind String :=
  if (if is2d then Gen.srGraphicTypes2D else Gen.srGraphicTypes3D).contains g then .ok g
  else if g == "" then .error .attribute else .error .value

def Kid.sound (k : Kid) : Bool := !(k.vt == "IMAGE" || k.vt == "COMPOSITE") || k.ref.isSome

/-- what the conversion of a returned group checks of an item, as far as the model represents it -/
def GItem.convertible (it : GItem) : Bool :=
  (!(it.vt == "IMAGE" || it.vt == "COMPOSITE") || it.ref.isSome) &&
  (!(it.vt == "SCOORD" || it.vt == "SCOORD3D") || it.graphic != "") && it.kids.all Kid.sound

/-- the item carries what the query code reads of it -/
def GItem.sound (it : GItem) : Bool :=
  (!(it.vt == "SCOORD") || (Gen.srGraphicTypes2D.contains it.graphic && it.hasSeq)) &&
  (!(it.vt == "SCOORD3D") || Gen.srGraphicTypes3D.contains it.graphic) &&
  it.convertible

def Group.sound (g : Group) : Bool := g.items.all GItem.sound

/-- `ContentSequence.from_sequence([group_item])` as far as modelled -/
def Group.convertible (g : Group) : Bool := g.items.all GItem.convertible

/-! ## ROI reference items -/

/-- the loop of `_get_roi_reference_items` (reference type found so far, items collected so far) -/
def roiRefLoop (allowed : List String) : List GItem → Option String → List GItem → Except ErrKind (Option String × List GItem)
  | [], rt, acc => .ok (rt, acc)
  | it :: rest, rt, acc =>
    if it.rel != "CONTAINS" then roiRefLoop allowed rest rt acc
    else if allowed.contains it.name then
      match Gen.refTypeValueTypes.lookup it.name with
      | none => .error .key
      | some vts =>
        if vts.contains it.vt then
          match rt with
          | none => roiRefLoop allowed rest (some it.name) (acc ++ [it])
          | some t =>
            if it.name != t then .error .runtime
            else if t != cImageRegion && t != cVolumeSurface then .error .runtime
            else roiRefLoop allowed rest rt (acc ++ [it])
        else roiRefLoop allowed rest rt acc
    else roiRefLoop allowed rest rt acc

/-- `_get_roi_reference_items(group_item, allowed_reference_types)` -/
def roiRefItems (g : Group) (allowed : List String) : Except ErrKind (String × List GItem) :=
  match roiRefLoop allowed g.items none [] with
  | .error x => .error x
  | .ok (some t, first :: more) => .ok (t, first :: more)
  | .ok _ => .error .runtime

/-- `_get_planar_roi_reference_item` -/
def planarRefItem (g : Group) : Except ErrKind (String × GItem) :=
  match roiRefItems g Gen.planarAllowedRefTypes with
  | .error x => .error x
  | .ok (t, [it]) => .ok (t, it)
  | .ok _ => .error .runtime

/-! ## the queries -/

structure Filters where
  trackingUid : Option String := none
  findingType : Option String := none
  findingSite : Option String := none
  referenceType : Option String := none
  graphic : Option (Bool × String) := none     -- (member of the 2-D enumeration, name)
  inst : Option String := none
  cls : Option String := none

def Filters.needsRef (f : Filters) : Bool :=
  f.referenceType.isSome || f.graphic.isSome || f.cls.isSome || f.inst.isSome

def Filters.hasUid (f : Filters) : Bool := f.inst.isSome || f.cls.isSome

/-- the three filters common to all queries (`matches` entries; absent filter = no entry = true) -/
def commonMatches (g : Group) (f : Filters) : Bool :=
  (match f.findingType with | none => true | some v => containsCode g cFinding v "CONTAINS") &&
  (match f.findingSite with | none => true | some v => containsCode g cFindingSite v "HAS CONCEPT MOD") &&
  (match f.trackingUid with | none => true | some v => containsUidref g cTrackingUid v "HAS OBS CONTEXT")

/-- graphic-type entry of `matches` of the planar query (one reference item), without the error arm -/
def graphicMatches (it : GItem) (gt : Bool × String) : Bool :=
  if gt.1 then (if it.vt == "SCOORD" then it.graphic == gt.2 else false)
  else (if it.vt == "SCOORD3D" then it.graphic == gt.2 else false)

/-- graphic-type entry of the planar query: the stored string is read into the enumeration of the filter's branch -/
def graphicEntry (it : GItem) (gt : Bool × String) : Except ErrKind Bool :=
  if it.vt == (if gt.1 then "SCOORD" else "SCOORD3D") then
    match graphicRead gt.1 it.graphic with
    | .error x => .error x
    | .ok s => .ok (s == gt.2)
  else .ok false

/-- graphic-type entry of the volumetric query, without the error arm: SOME reference item of the branch's value type
has the graphic type -/
def volGraphicMatches (items : List GItem) (gt : Bool × String) : Bool :=
  items.any (fun it => it.vt == (if gt.1 then "SCOORD" else "SCOORD3D") && it.graphic == gt.2)

/-- `[GraphicTypeValues…(item.GraphicType) for item in ref_items if item.value_type == …]` -/
def graphicReadAll (is2d : Bool) : List GItem → Except ErrKind (List String)
  | [] => .ok []
  | it :: rest =>
    if it.vt == (if is2d then "SCOORD" else "SCOORD3D") then
      match graphicRead is2d it.graphic with
      | .error x => .error x
      | .ok s =>
        match graphicReadAll is2d rest with
        | .error x => .error x
        | .ok l => .ok (s :: l)
    else graphicReadAll is2d rest

/-- graphic-type entry of the volumetric query: `graphic_type in found_gts` -/
def volGraphicEntry (items : List GItem) (gt : Bool × String) : Except ErrKind Bool :=
  match graphicReadAll gt.1 items with
  | .error x => .error x
  | .ok l => .ok (l.contains gt.2)

/-- `sop_seq = ref_item.ReferencedSOPSequence[0]` and the comparison of its UIDs, for reference types `names` -/
def refItemUid (names : List String) (t : String) (it : GItem) (f : Filters) : Except ErrKind Bool :=
  if names.contains t then
    match it.ref with
    | none => .error .attribute
    | some r => .ok (refMatches (some r) f.cls f.inst)
  else .ok false

/-- the referenced-UID entry of the planar query -/
def planarUid (g : Group) (t : String) (it : GItem) (f : Filters) : Except ErrKind Bool :=
  match refItemUid [cReferencedSegmentationFrame, cRegionInSpace] t it f with
  | .error x => .error x
  | .ok a =>
    match (if t == cImageRegion && it.vt == "SCOORD" then kidsContainImageE it f.cls f.inst else .ok false) with
    | .error x => .error x
    | .ok b =>
      match (if t == cReferencedSegmentationFrame then containsImageE g cSourceImageForSegmentation "CONTAINS" f.cls f.inst
             else .ok false) with
      | .error x => .error x
      | .ok c => .ok (a || b || c)

/-- the same entry without the error arms -/
def planarUidP (g : Group) (t : String) (it : GItem) (f : Filters) : Bool :=
  ([cReferencedSegmentationFrame, cRegionInSpace].contains t && refMatches it.ref f.cls f.inst) ||
  (t == cImageRegion && it.vt == "SCOORD" && kidsContainImage it f.cls f.inst) ||
  (t == cReferencedSegmentationFrame && containsImage g cSourceImageForSegmentation "CONTAINS" f.cls f.inst)

/-- body of the planar loop after the kind test -/
def planarKeep (g : Group) (f : Filters) : Except ErrKind Bool :=
  if !f.needsRef then .ok (commonMatches g f)
  else
    match planarRefItem g with
    | .error x => .error x
    | .ok (t, it) =>
      let mRef := match f.referenceType with | none => true | some r => t == r
      match ((match f.graphic with | none => .ok true | some gt => graphicEntry it gt) : Except ErrKind Bool) with
      | .error x => .error x
      | .ok mGt =>
        match (if f.hasUid then planarUid g t it f else .ok true) with
        | .error x => .error x
        | .ok mUid => .ok (commonMatches g f && mRef && mGt && mUid)

/-- the planar loop body without the error arms of malformed stored items -/
def planarKeepP (g : Group) (f : Filters) : Except ErrKind Bool :=
  if !f.needsRef then .ok (commonMatches g f)
  else
    match planarRefItem g with
    | .error x => .error x
    | .ok (t, it) =>
      let mRef := match f.referenceType with | none => true | some r => t == r
      let mGt := match f.graphic with | none => true | some gt => graphicMatches it gt
      let mUid := if f.hasUid then planarUidP g t it f else true
      .ok (commonMatches g f && mRef && mGt && mUid)

/-- the loop over the 2-D regions of a volumetric ROI: every SCOORD region is searched (no early exit) -/
def regionsLoop (cls inst : Option String) : List GItem → Except ErrKind Bool
  | [] => .ok false
  | it :: rest =>
    if it.vt == "SCOORD" then
      match kidsContainImageE it cls inst with
      | .error x => .error x
      | .ok b =>
        match regionsLoop cls inst rest with
        | .error x => .error x
        | .ok b' => .ok (b || b')
    else regionsLoop cls inst rest

/-- the referenced-UID entry of the volumetric query -/
def volumetricUid (g : Group) (t : String) (first : GItem) (items : List GItem) (f : Filters) : Except ErrKind Bool :=
  match refItemUid [cReferencedSegment, cRegionInSpace] t first f with
  | .error x => .error x
  | .ok a =>
    match (if t == cImageRegion then regionsLoop f.cls f.inst items else .ok false) with
    | .error x => .error x
    | .ok b =>
      match (if t == cReferencedSegment then containsImageE g cSourceImageForSegmentation "CONTAINS" f.cls f.inst
             else .ok false) with
      | .error x => .error x
      | .ok c => .ok (a || b || c)

def volumetricUidP (g : Group) (t : String) (first : GItem) (items : List GItem) (f : Filters) : Bool :=
  ([cReferencedSegment, cRegionInSpace].contains t && refMatches first.ref f.cls f.inst) ||
  (t == cImageRegion && items.any (fun it => it.vt == "SCOORD" && kidsContainImage it f.cls f.inst)) ||
  (t == cReferencedSegment && containsImage g cSourceImageForSegmentation "CONTAINS" f.cls f.inst)

/-- body of the volumetric loop after the kind test -/
def volumetricKeep (g : Group) (f : Filters) : Except ErrKind Bool :=
  if !f.needsRef then .ok (commonMatches g f)
  else
    match roiRefItems g Gen.volumetricAllowedRefTypes with
    | .error x => .error x
    | .ok (_, []) => .error .index
    | .ok (t, first :: more) =>
      let mRef := match f.referenceType with | none => true | some r => t == r
      match ((match f.graphic with | none => .ok true | some gt => volGraphicEntry (first :: more) gt) : Except ErrKind Bool) with
      | .error x => .error x
      | .ok mGt =>
        match (if f.hasUid then volumetricUid g t first (first :: more) f else .ok true) with
        | .error x => .error x
        | .ok mUid => .ok (commonMatches g f && mRef && mGt && mUid)

def volumetricKeepP (g : Group) (f : Filters) : Except ErrKind Bool :=
  if !f.needsRef then .ok (commonMatches g f)
  else
    match roiRefItems g Gen.volumetricAllowedRefTypes with
    | .error x => .error x
    | .ok (_, []) => .error .index
    | .ok (t, first :: more) =>
      let mRef := match f.referenceType with | none => true | some r => t == r
      let mGt := match f.graphic with | none => true | some gt => volGraphicMatches (first :: more) gt
      let mUid := if f.hasUid then volumetricUidP g t first (first :: more) f else true
      .ok (commonMatches g f && mRef && mGt && mUid)

/-- body of the image loop after the kind test (the filters; the conversion follows in `keep`) -/
def imageKeep (g : Group) (f : Filters) : Except ErrKind Bool :=
  match (if f.hasUid then containsImageE g cSource "CONTAINS" f.cls f.inst else .ok true) with
  | .error x => .error x
  | .ok mUid => .ok (commonMatches g f && mUid)

def imageKeepP (g : Group) (f : Filters) : Except ErrKind Bool :=
  .ok (commonMatches g f && (if f.hasUid then containsImage g cSource "CONTAINS" f.cls f.inst else true))

/-- `seq = ….from_sequence([group_item])` of a group about to be returned -/
def convertKept (g : Group) : Except ErrKind Bool → Except ErrKind Bool
  | .error x => .error x
  | .ok false => .ok false
  | .ok true => if g.convertible then .ok true else .error .attribute

/-- one pass of the loop body: kind test, filters, conversion.  The planar and the volumetric query convert a group
only when every filter matched; the image query converts every group of its kind, after the filters. -/
def keep (k : Kind) (g : Group) (f : Filters) : Except ErrKind Bool :=
  match isKind k g with
  | .error x => .error x
  | .ok false => .ok false
  | .ok true =>
    match k with
    | .planar => convertKept g (planarKeep g f)
    | .volumetric => convertKept g (volumetricKeep g f)
    | .image =>
      match imageKeep g f with
      | .error x => .error x
      | .ok b => if g.convertible then .ok b else .error .attribute

/-- the loop body without the error arms of malformed stored items -/
def keepP (k : Kind) (g : Group) (f : Filters) : Except ErrKind Bool :=
  match isKind k g with
  | .error x => .error x
  | .ok false => .ok false
  | .ok true =>
    match k with
    | .planar => planarKeepP g f
    | .volumetric => volumetricKeepP g f
    | .image => imageKeepP g f

/-- the loop over the measurement groups: positions (in document order) of the groups kept -/
def queryLoop (k : Kind) (f : Filters) : List Group → Nat → Except ErrKind (List Nat)
  | [], _ => .ok []
  | g :: rest, i =>
    match keep k g f with
    | .error x => .error x
    | .ok b =>
      match queryLoop k f rest (i + 1) with
      | .error x => .error x
      | .ok l => .ok (if b then i :: l else l)

/-- the argument checks (translated): `graphic_type` = (given, 2-D enumeration, name) -/
def argCheck (k : Kind) (f : Filters) : Except ErrKind Bool :=
  let gtGiven := f.graphic.isSome
  let is2d := match f.graphic with | some gt => gt.1 | none => false
  let nm := match f.graphic with | some gt => gt.2 | none => ""
  let rtGiven := f.referenceType.isSome
  let rt := match f.referenceType with | some r => r | none => ""
  match k with
  | .planar => Gen.planarArgCheck gtGiven is2d nm rtGiven rt f.inst.isSome f.cls.isSome
  | .volumetric => Gen.volumetricArgCheck gtGiven is2d nm rtGiven rt f.inst.isSome f.cls.isSome
  | .image => .ok true

/-- `get_planar_roi_measurement_groups` / `get_volumetric_roi_measurement_groups` / `get_image_measurement_groups`:
positions of the returned groups -/
def query (k : Kind) (groups : List Group) (f : Filters) : Except ErrKind (List Nat) :=
  match argCheck k f with
  | .error x => .error x
  | .ok _ => queryLoop k f groups 0

/-! ## construction (the layout the group constructors produce) and the accessors -/

inductive RoiRef
  | region2d (graphic : String) (source : Ref)
  | region3d (graphic : String)
  | segframe (seg : Ref) (source : Ref)
  | regions2d (regions : List (String × Ref))
  | segment (seg : Ref) (sources : List Ref) (series : Option String)
  | surface (graphic : String) (n : Nat) (sources : List Ref) (series : Option String)
  | regionInSpace (ref : Ref)
  | images (sources : List Ref)
deriving Repr

structure Params where
  kind : Kind
  trackingUid : String
  trackingId : String
  findingCategory : Option String
  findingType : Option String
  method : Option String
  sites : List String
  measurements : List (String × String)      -- (name, value)
  evaluations : List (String × String)       -- (name, value)
  purpose : Option String
  ref : RoiRef
  template : Bool
  ctxA : List GItem := []     -- observation context right after the tracking UID (session)
  ctxB : List GItem := []     -- after the finding sites: algorithm identification, time point context, real world value map
deriving Repr

def srcKid (s : Ref) : Kid := ⟨cSource, "IMAGE", "SELECTED FROM", some s⟩
def srcItems (l : List Ref) : List GItem := l.map (fun s => { name := cSourceImageForSegmentation, vt := "IMAGE", rel := "CONTAINS", ref := some s })
def seriesItems : Option String → List GItem
  | none => []
  | some u => [{ name := cSourceSeriesForSegmentation, vt := "UIDREF", rel := "CONTAINS", value := u }]

/-- the ROI reference items the constructors append -/
def refItems : RoiRef → List GItem
  | .region2d gr s => [{ name := cImageRegion, vt := "SCOORD", rel := "CONTAINS", graphic := gr, kids := [srcKid s], hasSeq := true }]
  | .region3d gr => [{ name := cImageRegion, vt := "SCOORD3D", rel := "CONTAINS", graphic := gr }]
  | .segframe seg s =>
    [{ name := cReferencedSegmentationFrame, vt := "IMAGE", rel := "CONTAINS", ref := some seg },
     { name := cSourceImageForSegmentation, vt := "IMAGE", rel := "CONTAINS", ref := some s }]
  | .regions2d rs => rs.map (fun x => { name := cImageRegion, vt := "SCOORD", rel := "CONTAINS", graphic := x.1, kids := [srcKid x.2], hasSeq := true })
  | .segment seg srcs ser =>
    [{ name := cReferencedSegment, vt := "IMAGE", rel := "CONTAINS", ref := some seg }] ++ srcItems srcs ++ seriesItems ser
  | .surface gr n srcs ser =>
    List.replicate n { name := cVolumeSurface, vt := "SCOORD3D", rel := "CONTAINS", graphic := gr } ++ srcItems srcs ++ seriesItems ser
  | .regionInSpace r => [{ name := cRegionInSpace, vt := "COMPOSITE", rel := "CONTAINS", ref := some r }]
  | .images srcs => srcs.map (fun s => { name := cSource, vt := "IMAGE", rel := "CONTAINS", ref := some s })

def optItem (name vt rel : String) : Option String → List GItem
  | none => []
  | some v => [{ name := name, vt := vt, rel := rel, value := v }]

/-- `_MeasurementsAndQualitativeEvaluations.__init__` + subclass constructors: the items of the container in order -/
def mkItems (p : Params) : List GItem :=
  [{ name := cTrackingId, vt := "TEXT", rel := "HAS OBS CONTEXT", value := p.trackingId },
   { name := cTrackingUid, vt := "UIDREF", rel := "HAS OBS CONTEXT", value := p.trackingUid }] ++
  p.ctxA ++
  optItem cFindingCategory "CODE" "CONTAINS" p.findingCategory ++
  optItem cFinding "CODE" "CONTAINS" p.findingType ++
  optItem cMethod "CODE" "CONTAINS" p.method ++
  p.sites.map (fun s => { name := cFindingSite, vt := "CODE", rel := "HAS CONCEPT MOD", value := s }) ++
  p.ctxB ++
  p.measurements.map (fun x => { name := x.1, vt := "NUM", rel := "CONTAINS", value := x.2 }) ++
  p.evaluations.map (fun x => { name := x.1, vt := "CODE", rel := "CONTAINS", value := x.2 }) ++
  optItem cGeometricPurpose "CODE" "CONTAINS" p.purpose ++
  refItems p.ref

def mkGroup (p : Params) : Group :=
  { templateId := if p.template then some p.kind.templateId else none, items := mkItems p }

/-- names the library gives to the fixed items of a group container and to ROI references -/
def fixedNames : List String :=
  [cTrackingId, cTrackingUid, cFindingCategory, cFinding, cMethod, cFindingSite, cGeometricPurpose, cImageRegion, cVolumeSurface,
   cReferencedSegment, cReferencedSegmentationFrame, cRegionInSpace]

/-- executable form of the hypothesis on the optional context items (`ContextItemOK` in the proofs) -/
def contextItemOK (it : GItem) : Bool :=
  (it.vt == "TEXT" || ((it.vt == "CODE" || it.vt == "NUM") && it.rel == "HAS OBS CONTEXT") ||
   (it.vt == "COMPOSITE" && it.name == cRwvm)) && !fixedNames.contains it.name && it.sound

/-- `find_content_items(root_item, name=…, value_type=…)` without recursion: the values of the matching items -/
def valuesOf (g : Group) (name vt : String) : List String :=
  (g.items.filter (fun it => it.name == name && it.vt == vt)).map (·.value)

def trackingUidOf (g : Group) : Option String := (valuesOf g cTrackingUid "UIDREF").head?
def trackingIdOf (g : Group) : Option String := (valuesOf g cTrackingId "TEXT").head?
def findingTypeOf (g : Group) : Option String := (valuesOf g cFinding "CODE").head?
def findingCategoryOf (g : Group) : Option String := (valuesOf g cFindingCategory "CODE").head?
def methodOf (g : Group) : Option String := (valuesOf g cMethod "CODE").head?
def findingSitesOf (g : Group) : List String := valuesOf g cFindingSite "CODE"

/-- `get_measurements()`: NUM items with relationship CONTAINS -/
def measurementsOf (g : Group) : List (String × String) :=
  (g.items.filter (fun it => it.vt == "NUM" && it.rel == "CONTAINS")).map (fun it => (it.name, it.value))

/-- names of CODE items of the container that are not qualitative evaluations (`get_qualitative_evaluations`) -/
def reservedCodeNames : List String := [cFinding, cFindingSite, cMethod, cFindingCategory, cGeometricPurpose]

/-- `get_qualitative_evaluations()` -/
def evaluationsOf (g : Group) : List (String × String) :=
  (g.items.filter (fun it => it.vt == "CODE" && it.rel == "CONTAINS" && !reservedCodeNames.contains it.name)).map
    (fun it => (it.name, it.value))

/-- `reference_type` of the two ROI group classes: the first item whose name is an allowed reference type
(set iteration order does not matter: at most one allowed name can equal the item's name) -/
def referenceTypeOf (g : Group) (allowed : List String) : Option String :=
  (g.items.find? (fun it => allowed.contains it.name)).map (·.name)

/-! ## declarative specification over the construction parameters -/

/-- the reference type a group was constructed with -/
def RoiRef.refType : RoiRef → Option String
  | .region2d _ _ | .region3d _ | .regions2d _ => some cImageRegion
  | .segframe _ _ => some cReferencedSegmentationFrame
  | .segment _ _ _ => some cReferencedSegment
  | .surface _ _ _ _ => some cVolumeSurface
  | .regionInSpace _ => some cRegionInSpace
  | .images _ => none

/-- the instances a referenced-UID filter can match: segmentation / structure-set instance and source images;
3-D coordinates (3-D regions, volume surfaces) carry none -/
def RoiRef.instances : RoiRef → List Ref
  | .region2d _ s => [s]
  | .region3d _ => []
  | .segframe seg s => [seg, s]
  | .regions2d rs => rs.map (·.2)
  | .segment seg srcs _ => seg :: srcs
  | .surface _ _ _ _ => []
  | .regionInSpace r => [r]
  | .images srcs => srcs

/-- (2-D?, graphic type) of every region / surface of the ROI -/
def RoiRef.graphics : RoiRef → List (Bool × String)
  | .region2d g _ => [(true, g)]
  | .region3d g => [(false, g)]
  | .regions2d rs => rs.map (fun x => (true, x.1))
  | .surface g n _ _ => List.replicate n (false, g)
  | _ => []

/-- kind of a container WITHOUT template identification, by what it was constructed with -/
def contentKind : Kind → RoiRef → Bool
  | .planar, .region2d _ _ | .planar, .region3d _ | .planar, .segframe _ _ | .planar, .regionInSpace _ => true
  | .planar, .regions2d rs => rs.length == 1
  | .planar, _ => false
  | .volumetric, .regions2d rs => decide (rs.length > 1)
  | .volumetric, .segment _ _ _ | .volumetric, .regionInSpace _ => true
  | .volumetric, .surface _ n _ _ => decide (n > 0)
  | .volumetric, _ => false
  | .image, .images _ => true
  | .image, .regions2d rs => rs.isEmpty
  | .image, .surface _ n _ _ => n == 0
  | .image, _ => false

def specKind (k : Kind) (p : Params) : Bool :=
  if p.template then p.kind == k else contentKind k p.ref

def optEq (f : Option String) (v : Option String) : Bool :=
  match f with | none => true | some x => v == some x

/-- the three filters common to all kinds, over the construction parameters -/
def specCommon (p : Params) (f : Filters) : Bool :=
  optEq f.findingType p.findingType &&
  (match f.findingSite with | none => true | some s => p.sites.contains s) &&
  (match f.trackingUid with | none => true | some u => p.trackingUid == u)

/-- a referenced-UID filter: some referenced instance has the class and the instance UID asked for -/
def specUid (p : Params) (f : Filters) : Bool :=
  if f.hasUid then p.ref.instances.any (fun r => refMatches (some r) f.cls f.inst) else true

/-- every filter, stated over the construction parameters -/
def specFilters (k : Kind) (p : Params) (f : Filters) : Bool :=
  match k with
  | .image => specCommon p f && specUid p f
  | _ =>
    specCommon p f && optEq f.referenceType p.ref.refType &&
    (match f.graphic with | none => true | some gt => p.ref.graphics.contains gt) && specUid p f

/-- what the constructors accept: the reference fits the kind, region lists / surfaces are not empty -/
def Params.consistent (p : Params) : Bool :=
  match p.kind, p.ref with
  | .planar, .region2d _ _ | .planar, .region3d _ | .planar, .segframe _ _ | .planar, .regionInSpace _ => true
  | .volumetric, .regions2d rs => !rs.isEmpty
  | .volumetric, .segment _ _ _ | .volumetric, .regionInSpace _ => true
  | .volumetric, .surface _ n _ _ => decide (n > 0)
  | .image, .images _ => true
  | _, _ => false

/-- the graphic types are members of the enumeration the region class takes them from -/
def Params.graphicsValid (p : Params) : Bool :=
  match p.ref with
  | .region2d g _ => Gen.srGraphicTypes2D.contains g
  | .region3d g => Gen.srGraphicTypes3D.contains g
  | .regions2d rs => rs.all (fun x => Gen.srGraphicTypes2D.contains x.1)
  | .surface g _ _ _ => Gen.srGraphicTypes3D.contains g
  | _ => true

end HdVerif.SRReport
