import HdVerif.Model.SRContentSeq
/-! # The name index with explicit locations for the per-name lists (property C14, several sequences)

`Model/SRContentSeq.lean` keeps the index of a sequence as a function name ↦ list, so two sequences can never
share a list.  In Python the index is a dict name ↦ *list object*; a constructor that took the dict entries of
another sequence over (`self._lut.update(other._lut)`) would make two sequences append to and delete from the
SAME lists.  Here the lists live in a store (`heap : Loc → List Item`), a sequence holds `lut : name → Option Loc`,
and the statements of the method programs (`Model/SRSeqIR.lean`) are re-interpreted over that store:
`lutAppendArgs` appends in place at the sequence's location for the name (allocating a fresh list for a new
name, like `defaultdict(list)`), `lutRemoveOld` deletes in place, `lutInit` starts a new dict.  `hShareFrom` is
the sharing take-over, which NO statement of the language performs; it is there to show that sharing is
expressible (and what it breaks).  `Props/C14.lean`: the store interpretation of every program refines the
functional one, writes only to the sequence's own or to fresh locations, hence operations on one sequence of a
pool never change what another one answers. -/
namespace HdVerif.SRSeqHeap
open HdVerif HdVerif.SRContentSeq HdVerif.SRSeqIR

abbrev Loc := Nat

structure Store where
  heap : Loc → List Item
  next : Loc          -- every location ≥ `next` is unallocated

structure HSeq where
  items : List Item
  lut : Nat → Option Loc
  isRoot : Bool
  isSr : Bool

/-- the list a sequence sees under a name (`defaultdict`: nothing stored = empty) -/
def bucket (σ : Store) (q : HSeq) (n : Nat) : List Item :=
  match q.lut n with
  | none => []
  | some ℓ => σ.heap ℓ

/-- the functional view of a sequence in a store -/
def abs (σ : Store) (q : HSeq) : Seq :=
  { items := q.items, lut := bucket σ q, isRoot := q.isRoot, isSr := q.isSr }

def setHeap (σ : Store) (ℓ : Loc) (l : List Item) : Store :=
  { σ with heap := fun k => if k = ℓ then l else σ.heap k }

/-- `self._lut[x.name].append(x)` -/
def hLutAdd (σ : Store) (q : HSeq) (x : Item) : Store × HSeq :=
  match q.lut x.name with
  | some ℓ => (setHeap σ ℓ (σ.heap ℓ ++ [x]), q)
  | none =>
    ({ heap := fun k => if k = σ.next then [x] else σ.heap k, next := σ.next + 1 },
     { q with lut := fun n => if n = x.name then some σ.next else q.lut n })

def hLutAddAll (σ : Store) (q : HSeq) : List Item → Store × HSeq
  | [] => (σ, q)
  | x :: xs => match hLutAdd σ q x with
    | (σ', q') => hLutAddAll σ' q' xs

/-- `index = self._lut[x.name].index(x); del self._lut[x.name][index]` -/
def hLutRemove (σ : Store) (q : HSeq) (x : Item) : Except ErrKind Store :=
  match q.lut x.name with
  | none => .error .value
  | some ℓ => if x ∈ σ.heap ℓ then .ok (setHeap σ ℓ ((σ.heap ℓ).erase x)) else .error .value

def hLutRemoveAll (σ : Store) (q : HSeq) : List Item → Store × Option ErrKind
  | [] => (σ, none)
  | x :: xs => match hLutRemove σ q x with
    | .ok σ' => hLutRemoveAll σ' q xs
    | .error e => (σ, some e)

/-- the sharing take-over `self._lut.update(other._lut)`: NOT a statement of the method language -/
def hShareFrom (q other : HSeq) : HSeq :=
  { q with lut := fun n => match other.lut n with
    | some ℓ => some ℓ
    | none => q.lut n }

/-- machine state over the store -/
structure HSt where
  σ : Store
  q : HSeq
  old : List Item

/-- a sequence without its index, for the statements that never look at the index -/
def plain (q : HSeq) : Seq := { items := q.items, lut := emptyLut, isRoot := q.isRoot, isSr := q.isSr }

def isIndexStmt : MStmt → Bool
  | .lutInit | .lutAppendArgs | .lutRemoveOld | .forEachArg _ | .call _ => true
  | _ => false

abbrev HCall := MethodId → List Item → Store → HSeq → (Store × HSeq) × Option ErrKind

def hEachCall (f : List Item → Store → HSeq → (Store × HSeq) × Option ErrKind) :
    List Item → Store → HSeq → (Store × HSeq) × Option ErrKind
  | [], σ, q => ((σ, q), none)
  | x :: xs, σ, q =>
    match f [x] σ q with
    | ((σ', q'), none) => hEachCall f xs σ' q'
    | (r, some e) => (r, some e)

/-- one statement over the store: the index statements act on the sequence's locations, every other statement
is the functional one on the index-less sequence -/
def hExecStmt (call : HCall) (fl : Bool × Bool) (idx : Idx) (args : List Item) (h : HSt) : MStmt → HSt × Option ErrKind
  | .lutInit => ({ h with q := { h.q with lut := fun _ => none } }, none)
  | .lutAppendArgs => match hLutAddAll h.σ h.q args with
    | (σ', q') => ({ h with σ := σ', q := q' }, none)
  | .lutRemoveOld => match hLutRemoveAll h.σ h.q h.old with
    | (σ', e) => ({ h with σ := σ' }, e)
  | .forEachArg m => match hEachCall (call m) args h.σ h.q with
    | ((σ', q'), e) => ({ h with σ := σ', q := q' }, e)
  | .call m => match call m args h.σ h.q with
    | ((σ', q'), e) => ({ h with σ := σ', q := q' }, e)
  | st => match execStmt noCall fl idx args ⟨plain h.q, h.old⟩ st with
    | (m, e) => ({ h with q := { h.q with items := m.s.items, isRoot := m.s.isRoot, isSr := m.s.isSr }, old := m.old }, e)

def hExecProg (call : HCall) (fl : Bool × Bool) (idx : Idx) (args : List Item) : List MStmt → HSt → HSt × Option ErrKind
  | [], h => (h, none)
  | st :: r, h =>
    match hExecStmt call fl idx args h st with
    | (h', none) => hExecProg call fl idx args r h'
    | (h', some e) => (h', some e)

def hRunWith (call : HCall) (prog : List MStmt) (idx : Idx) (args : List Item) (σ : Store) (q : HSeq) :
    (Store × HSeq) × Option ErrKind :=
  match hExecProg call (q.isRoot, q.isSr) idx args prog ⟨σ, q, []⟩ with
  | (h, e) => ((h.σ, h.q), e)

def hNoCall : HCall := fun _ _ σ q => ((σ, q), some .runtime)
def hRunAppend (args : List Item) (σ : Store) (q : HSeq) := hRunWith hNoCall Gen.csProg_append .none args σ q
def hCall1 : HCall
  | .append => hRunAppend
  | .extend => fun _ σ q => ((σ, q), some .runtime)
def hRunExtend (args : List Item) (σ : Store) (q : HSeq) := hRunWith hCall1 Gen.csProg_extend .none args σ q
def hCall2 : HCall
  | .append => hRunAppend
  | .extend => hRunExtend

def hRunIadd (args : List Item) (σ : Store) (q : HSeq) := hRunWith hCall2 Gen.csProg_iadd .none args σ q
def hRunInsert (pos : Int) (args : List Item) (σ : Store) (q : HSeq) := hRunWith hCall2 Gen.csProg_insert (.pos pos) args σ q
def hRunSetitem (idx : Idx) (args : List Item) (σ : Store) (q : HSeq) := hRunWith hCall2 Gen.csProg_setitem idx args σ q
def hRunDelitem (idx : Idx) (σ : Store) (q : HSeq) := hRunWith hCall2 Gen.csProg_delitem idx [] σ q

/-- the constructor over the store: a blank object (empty dict), then the regenerated program -/
def hRunInit (items : List Item) (isRoot isSr : Bool) (σ : Store) : Except ErrKind (Store × HSeq) :=
  match hExecProg hCall2 (isRoot, isSr) .none items Gen.csProg_init
      ⟨σ, { items := [], lut := fun _ => none, isRoot := false, isSr := true }, []⟩ with
  | (h, none) => .ok (h.σ, h.q)
  | (_, some e) => .error e

/-- a constructor that takes the other sequence's dict entries over instead of indexing afresh (what no regenerated
program does) -/
def hCloneShared (other : HSeq) : HSeq :=
  hShareFrom { items := other.items, lut := fun _ => none, isRoot := other.isRoot, isSr := other.isSr } other

end HdVerif.SRSeqHeap
