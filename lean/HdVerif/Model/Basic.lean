/-! Shared basics for all models: the error enum and Python integer semantics. -/
namespace HdVerif

/-- Error classes of the implementation, mapped to a small enum on both sides. -/
inductive ErrKind | value | index | type | runtime | key | attribute | other
  deriving DecidableEq, Repr, Inhabited

def ErrKind.toString : ErrKind → String
  | .value => "value" | .index => "index" | .type => "type" | .runtime => "runtime"
  | .key => "key" | .attribute => "attribute" | .other => "other"

instance : ToString ErrKind := ⟨ErrKind.toString⟩

instance {ε α} [DecidableEq ε] [DecidableEq α] : DecidableEq (Except ε α) := fun a b =>
  match a, b with
  | .ok x, .ok y => if h : x = y then isTrue (by rw [h]) else isFalse (by intro e; cases e; exact h rfl)
  | .error x, .error y => if h : x = y then isTrue (by rw [h]) else isFalse (by intro e; cases e; exact h rfl)
  | .ok _, .error _ => isFalse (by intro e; cases e)
  | .error _, .ok _ => isFalse (by intro e; cases e)

/-- Python `//` on ints (floor division). -/
@[inline] def pyDiv (a b : Int) : Int := Int.fdiv a b
/-- Python `%` on ints (sign of the divisor). -/
@[inline] def pyMod (a b : Int) : Int := Int.fmod a b

end HdVerif
