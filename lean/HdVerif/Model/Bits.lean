/-! Bit packing model (numpy.packbits bitorder='little', as pydicom.pack_bits) -/
namespace HdVerif.Bits

/-- value of up to 8 bits, LSB first -/
def byteOf : List Bool → Nat
  | [] => 0
  | b :: bs => (if b then 1 else 0) + 2 * byteOf bs

/-- pack bits into bytes, 8 per byte, last byte zero padded -/
def pack (bs : List Bool) : List Nat :=
  if h : bs = [] then [] else
    byteOf (bs.take 8) :: pack (bs.drop 8)
termination_by bs.length
decreasing_by
  simp only [List.length_drop]
  have : 0 < bs.length := List.length_pos_iff.mpr h
  omega

/-- 8 bits of a byte, LSB first -/
def bitsOf (n : Nat) : Nat → List Bool
  | 0 => []
  | k+1 => (n % 2 == 1) :: bitsOf (n / 2) k

def unpack (bytes : List Nat) : List Bool := bytes.flatMap (fun b => bitsOf b 8)



/-- one iteration of the native 1-bit branch of the frame loop in `Segmentation.__init__`;
    `carry` is the value of the source's guard on Rows*Columns. -/
def loopStep (carry : Bool) (st : List Nat × List Bool) (f : List Bool) : List Nat × List Bool :=
  if carry then
    let full := st.2 ++ f
    let k := 8 * (full.length / 8)
    (st.1 ++ pack (full.take k), full.drop k)
  else (st.1 ++ pack f, st.2)

/-- whole loop + final flush; `guard n` is the source's condition on the frame size -/
def packLoop (guard : Nat → Bool) (n : Nat) (frames : List (List Bool)) : List Nat :=
  let r := frames.foldl (loopStep (guard n)) ([], [])
  if r.2.length > 0 then r.1 ++ pack r.2 else r.1

/-- Python slice `l[a:b]` for 0 ≤ a (no negative indices) -/
def pySlice {α} (l : List α) (a b : Nat) : List α := (l.drop a).take (b - a)

end HdVerif.Bits
