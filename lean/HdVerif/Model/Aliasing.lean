import HdVerif.Model.Basic
/-!
# Copy-or-alias data flow (C20): the language and the analysis

`translate/targets_C20.py` extracts from the current source of every converter / constructor a program of the small language
below (`Generated/T20alias_*.lean`, `Generated/T20ctor_*.lean`).  This file holds

* the language (`Expr`, `Stmt`, `Entry`);
* the **analysis**: an abstract interpreter over *regions*.  Parameter `i` of the function is region `i`; every allocation
  (`deepcopy`, `astype`, arithmetic, a constructor call, an unknown call's result) is a new region.  A reference is a **set** of
  regions it may point into (a bit set: bit `k` = region `k`), stores of references are recorded as labelled **links**
  (holders, label, targets), and for a holder that is known exactly (a one-element set) the link is recorded as certain
  (`must`).  The analysis logs every region a write may hit; conditions other than the `copy` flag are opaque: a valuation
  (bit mask) decides every branch, and the checks run the analysis under all `2^nCond` valuations.

What the analysis means is fixed by the store semantics in `Model/AliasConcrete.lean`; `Proofs/AliasSound.lean` proves, for **all**
programs of the language, that whatever a concrete run writes or returns is covered by what the analysis logs.

All set operations are bit operations on `Nat` and all branches are `bif` on `Nat.beq`: the kernel evaluates them with its
built-in big-number arithmetic, which keeps `decide +kernel` over the regenerated programs cheap.
-/
namespace HdVerif.Aliasing

inductive Expr
  /-- local variable or parameter (numbered by the extractor) -/
  | var (x : Nat)
  /-- `view f e`: what is reached from `e` through field `f` — label 0: the same object seen differently (`reshape`,
  `np.asarray`, `cast`); label 1: an item (`x[...]`, iteration); label 3: a shared `DataElement`; label 4: an item of an item (of a
  dict of lists, a list of lists); labels ≥ 5: attribute names (numbered per program).  The object(s) stored under `f` in the
  object `e` denotes if there are any (explicitly assigned / appended), otherwise the object itself (a part of the same
  allocation). -/
  | view (f : Nat) (e : Expr)
  /-- a newly allocated object (deepcopy, astype, arithmetic, constructor, unknown call result) -/
  | fresh
  /-- either of two (used by the extractor to merge the arms of a branch of a long constructor: a weak update) -/
  | join (a : Expr) (b : Expr)
  deriving Repr

inductive Stmt
  | assign (x : Nat) (e : Expr)
  /-- in-place modification of the object `e` refers to itself (attribute / item assignment, `__class__ = …`, `*=`,
  `append`) -/
  | write (e : Expr)
  /-- recursive in-place conversion (a converter called with `copy=False`): the object and every object reachable from it
  through stored references -/
  | writeDeep (e : Expr)
  /-- the object `a` refers to is modified to hold, under field `f`, a reference to what `b` refers to (attribute / item
  assignment, `append`, a list literal or constructor call keeping its arguments) -/
  | link (a : Expr) (f : Nat) (b : Expr)
  /-- branch on opaque condition `c` (condition 0 is the `copy` flag where a converter has one) -/
  | ite (c : Nat) (t : List Stmt) (e : List Stmt)
  | ret (e : Expr)
  | raise
  /-- no action of the function: a hint of the extractor for the analysis at the head of the pass that stands for "all later
  iterations" of a loop — every listed variable `x` may from here on also denote what `e` denotes (`x := x ∪ e`), applied again
  and again until nothing grows (a fixpoint of the weak updates: re-binding chains of any depth, walks along links of any length) -/
  | widen (ws : List (Nat × Expr))
  deriving Repr

abbrev Prog := List Stmt

/-- one extracted function: its name, the number of input parameters (regions `0 … nIn-1`), the number of opaque
conditions, whether condition 0 is a `copy` flag, and the program -/
structure Entry where
  name : String
  nIn : Nat
  nCond : Nat
  hasCopy : Bool
  prog : Prog

/- conditions mentioned by a program are all below `k` -/
mutual
def condsBelow (k : Nat) : Stmt → Bool
  | .ite c t e => decide (c < k) && condsBelowList k t && condsBelowList k e
  | _ => true
def condsBelowList (k : Nat) : List Stmt → Bool
  | [] => true
  | st :: rest => condsBelow k st && condsBelowList k rest
end

/-! ## the analysis -/

/-- an abstract reference: the set of regions the object it denotes may live in (bit `k` = region `k`), and whether it is
known to be the root object of exactly that one region (a parameter as passed, a newly allocated object) -/
structure Ref where
  mask : Nat
  root : Bool
  deriving DecidableEq, Repr

/-- state of the analysis.  `links`: (label, holders, targets) — some region of `holders` may hold under `label` references into
`targets`; `must`: (label, holder) — the single region of `holder` certainly holds something under `label`; `writes`: every region
a write may have hit; `overflow`: the transitive closure for a deep write did not close (never happens with the fuel used; it
makes every check fail) -/
structure AState where
  env : List (Nat × Ref)
  next : Nat
  links : List (Nat × Nat × Nat)
  must : List (Nat × Nat)
  writes : Nat
  overflow : Bool
  result : Option Ref
  halted : Bool

def lookup : List (Nat × Ref) → Nat → Option Ref
  | [], _ => none
  | (y, r) :: rest, x => bif Nat.beq y x then some r else lookup rest x

/-- regions stored under label `f` in an object living in one of the regions `rs` -/
def targets : List (Nat × Nat × Nat) → Nat → Nat → Nat
  | [], _, _ => 0
  | (g, h, t) :: rest, f, rs =>
    bif Nat.beq g f && !(Nat.beq (h &&& rs) 0) then t ||| targets rest f rs else targets rest f rs

/-- regions that certainly hold something under label `f` -/
def mustOf : List (Nat × Nat) → Nat → Nat
  | [], _ => 0
  | (g, m) :: rest, f => bif Nat.beq g f then m ||| mustOf rest f else mustOf rest f

/-- one level of `x.f` on a set of regions: what is stored under `f`, and the regions themselves unless they certainly hold
something under `f` -/
def viewSet (links : List (Nat × Nat × Nat)) (must : List (Nat × Nat)) (f : Nat) (rs : Nat) : Nat :=
  targets links f rs ||| (rs ^^^ (rs &&& mustOf must f))

/-- evaluate an expression: the reference it yields and the next free region id (a variable that was never bound
refers to something unrelated to the inputs: a new region) -/
def eval (env : List (Nat × Ref)) (links : List (Nat × Nat × Nat)) (must : List (Nat × Nat)) (next : Nat) :
    Expr → Ref × Nat
  | .var x => match lookup env x with
    | some r => (r, next)
    | none => (⟨2 ^ next, true⟩, next + 1)
  | .view f e =>
    match eval env links must next e with
    | (r, n) =>
      bif Nat.beq f 0 then (⟨r.mask, false⟩, n) else
      bif Nat.beq f 4 then
        -- an item of an item: stored as such, or an item of an explicitly stored item
        (⟨viewSet links must 4 r.mask ||| viewSet links must 1 (targets links 1 r.mask), false⟩, n)
      else (⟨viewSet links must f r.mask, false⟩, n)
  | .fresh => (⟨2 ^ next, true⟩, next + 1)
  | .join a b =>
    match eval env links must next a with
    | (ra, n1) => match eval env links must n1 b with
      | (rb, n2) => (⟨ra.mask ||| rb.mask, false⟩, n2)

/-- one round of following links (whatever their label) from the regions seen so far -/
def step : List (Nat × Nat × Nat) → Nat → Nat
  | [], seen => seen
  | (_, h, t) :: rest, seen => step rest (bif Nat.beq (h &&& seen) 0 then seen else seen ||| t)

def closure (links : List (Nat × Nat × Nat)) : Nat → Nat → Nat
  | 0, seen => seen
  | fuel + 1, seen => closure links fuel (step links seen)

/-- is the set closed under every link? -/
def closedUnder : List (Nat × Nat × Nat) → Nat → Bool
  | [], _ => true
  | (_, h, t) :: rest, c => (Nat.beq (h &&& c) 0 || Nat.beq (t ||| c) c) && closedUnder rest c

/-- one round of weak updates `x := x ∪ e` (only for variables that are bound; nothing is allocated) -/
def widenRound (links : List (Nat × Nat × Nat)) (must : List (Nat × Nat)) (next : Nat) :
    List (Nat × Expr) → List (Nat × Ref) → List (Nat × Ref)
  | [], env => env
  | (x, e) :: rest, env =>
    match lookup env x with
    | some o => widenRound links must next rest ((x, ⟨o.mask ||| (eval env links must next e).1.mask, false⟩) :: env)
    | none => widenRound links must next rest env

/-- the region sets of the widened variables (to see whether a round changed anything) -/
def widenMasks (env : List (Nat × Ref)) : List (Nat × Expr) → List Nat
  | [] => []
  | (x, _) :: rest => (match lookup env x with | some o => o.mask | none => 0) :: widenMasks env rest

def natListBeq : List Nat → List Nat → Bool
  | [], [] => true
  | a :: as, b :: bs => Nat.beq a b && natListBeq as bs
  | _, _ => false

/-- rounds of weak updates until the region sets are stable; `false` if the fuel ran out first -/
def widenFix (links : List (Nat × Nat × Nat)) (must : List (Nat × Nat)) (next : Nat) (ws : List (Nat × Expr)) :
    Nat → List (Nat × Ref) → List (Nat × Ref) × Bool
  | 0, env => (env, false)
  | fuel + 1, env =>
    match widenRound links must next ws env with
    | env' => bif natListBeq (widenMasks env' ws) (widenMasks env ws) then (env', true) else widenFix links must next ws fuel env'

mutual
/-- one statement under the valuation `v` of the opaque conditions (bit `c` = condition `c`) -/
def exec (v : Nat) : Stmt → AState → AState
  | .assign x e, s =>
    bif s.halted then s else
    match eval s.env s.links s.must s.next e with
    | (r, n) => { s with env := (x, r) :: s.env, next := n }
  | .write e, s =>
    bif s.halted then s else
    match eval s.env s.links s.must s.next e with
    | (r, n) => { s with next := n, writes := r.mask ||| s.writes }
  | .writeDeep e, s =>
    bif s.halted then s else
    match eval s.env s.links s.must s.next e with
    | (r, n) =>
      let hit := closure s.links (s.links.length + 1) r.mask
      { s with next := n, writes := hit ||| s.writes, overflow := s.overflow || !closedUnder s.links hit }
  | .link a f b, s =>
    bif s.halted then s else
    match eval s.env s.links s.must s.next a with
    | (ra, n1) => match eval s.env s.links s.must n1 b with
      | (rb, n2) =>
        { s with next := n2, writes := ra.mask ||| s.writes, links := (f, ra.mask, rb.mask) :: s.links,
                 must := bif Nat.beq ra.mask (2 ^ Nat.log2 ra.mask) then (f, ra.mask) :: s.must else s.must }
  | .ite c t e, s =>
    bif s.halted then s else
    bif v.testBit c then execList v t s else execList v e s
  | .ret e, s =>
    bif s.halted then s else
    match eval s.env s.links s.must s.next e with
    | (r, n) => { s with next := n, result := some r, halted := true }
  | .raise, s => bif s.halted then s else { s with halted := true }
  | .widen ws, s =>
    bif s.halted then s else
    match widenFix s.links s.must s.next ws (ws.length * (s.next + 1) + 1) s.env with
    | (env', ok) => { s with env := env', overflow := s.overflow || !ok }

def execList (v : Nat) : List Stmt → AState → AState
  | [], s => s
  | st :: rest, s => execList v rest (exec v st s)
end

/-- initial state: parameter `i` (variables `0 … nIn-1`) is the root of region `i` -/
def init (nIn : Nat) : AState :=
  { env := (List.range nIn).map (fun i => (i, ⟨2 ^ i, true⟩)), next := nIn, links := [], must := [], writes := 0,
    overflow := false, result := none, halted := false }

/-- the analysis of a whole program under one valuation -/
def analyse (p : Prog) (nIn : Nat) (v : Nat) : AState := execList v p (init nIn)

/-- no region of a parameter is in the write log, and the closure never overflowed -/
def cleanInputs (nIn : Nat) (s : AState) : Bool :=
  !s.overflow && Nat.beq (s.writes &&& (2 ^ nIn - 1)) 0

/-- no input region is ever written, whatever the opaque conditions (checked over all `2^nCond` valuations) -/
def neverWritesInputs (e : Entry) : Bool :=
  (List.range (2 ^ e.nCond)).all fun v => cleanInputs e.nIn (analyse e.prog e.nIn v)

/-- no input is written and what is returned lives in newly allocated regions only -/
def freshResult (nIn : Nat) (s : AState) : Bool :=
  cleanInputs nIn s &&
    match s.result with
    | some r => Nat.beq (r.mask &&& (2 ^ nIn - 1)) 0
    | none => true

/-- whatever is returned is the very object that was passed in (region 0, root) -/
def sameResult (s : AState) : Bool :=
  match s.result with
  | some r => r == ⟨1, true⟩
  | none => true

/-- with `copy = True` (bit 0 set) no input is written and what is returned lives in newly allocated regions only -/
def copyLeavesOriginal (e : Entry) : Bool :=
  (List.range (2 ^ e.nCond)).all fun v => !v.testBit 0 || freshResult e.nIn (analyse e.prog e.nIn v)

/-- with `copy = False` (bit 0 clear) whatever is returned is the very object that was passed in (region 0, root) -/
def nocopyReturnsSame (e : Entry) : Bool :=
  (List.range (2 ^ e.nCond)).all fun v => v.testBit 0 || sameResult (analyse e.prog e.nIn v)

/-- the converters that have to build a new container around the caller's items (a `ContentSequence` keeps a name
index and cannot be obtained by re-classing a list; `MeasurementReport.from_sequence` is a re-classed
`ContentSequence.from_sequence`); see `nocopy_returns_same`.  Hand-written; tied to the programs by `converterOk`: exactly these
fail `nocopyReturnsSame`. -/
def rebuildsContainer (e : Entry) : Bool :=
  e.name == "ContentSequence.from_sequence" || e.name == "MeasurementReport.from_sequence"

/-- the condition numbers of an entry are in range, and there is at least one (bit 0 is reserved for `copy`) -/
def wellFormed (e : Entry) : Bool := condsBelowList e.nCond e.prog && decide (0 < e.nCond)

/-- what a converter entry has to pass: without `copy` parameter it never writes an input; with the parameter it leaves the
original alone for `copy=True` and returns the very object for `copy=False` — **unless and only unless** it is one of the
container-rebuilding converters -/
def converterOk (e : Entry) : Bool :=
  wellFormed e &&
    (bif e.hasCopy then decide (0 < e.nIn) && copyLeavesOriginal e && (rebuildsContainer e == !nocopyReturnsSame e)
     else neverWritesInputs e)

/-- what a constructor entry has to pass -/
def constructorOk (e : Entry) : Bool := wellFormed e && neverWritesInputs e

end HdVerif.Aliasing
