import HdVerif.Model.Basic
/-!
# Copy-or-alias data flow (C20)

A store of *regions* (one region = one allocation together with everything reachable from it: a dataset with its
nested sequences and items, an array buffer with all its views).  `deepcopy`, `astype`, arithmetic, constructors
allocate a **fresh** region; attribute / item access, `x[...]`, `reshape`, `np.newaxis` yield a **view**: the same region, or
(for attributes and items) an object that was stored there earlier — stores of references are recorded as labelled **links**; `x.__class__ = …`, attribute / item assignment, `x *= …`, `append` **write** the region; a nested converter called
with `copy=False` writes it and everything reachable from it (**deep** write; assignments of references are recorded as links).  Conditions other than the `copy` flag are opaque: a valuation (bit mask)
decides every branch, and the theorems quantify over all valuations.

The programs are not written by hand: `translate/targets_C20.py` extracts them from the current source of every
`from_dataset` / `from_sequence` converter and of `Segmentation._get_segment_pixel_array` (`Generated/T20alias_*.lean`).
-/
namespace HdVerif.Aliasing

/-- a reference: the regions the object it denotes may live in (a may-point-to set: an attribute `x.f` is either a part
of `x`'s own allocation or an object that was stored under `f` earlier), and whether it is an allocation's root object itself -/
structure Ref where
  regions : List Nat
  root : Bool
  deriving DecidableEq, Repr

inductive Expr
  /-- local variable or parameter (numbered by the extractor) -/
  | var (x : Nat)
  /-- `view f e`: what is reached from `e` through field `f` — label 0: the same object seen differently (`reshape`,
  `np.asarray`, `cast`); label 1: an item (`x[...]`, iteration); label 3: a shared `DataElement`; label 4: an item of an item (of a dict of lists, a list of lists); labels ≥ 5: attribute names
  (numbered per program).  For each region `e` may live in: the objects stored under `f` from that region if there are any
  (explicitly assigned / appended), otherwise the region itself (a part of the same allocation).  [Dropping the region when it
  has such links can only lose writes to a region that already was the holder of a recorded store — an input region becomes
  a holder only through a write that is itself reported.] -/
  | view (f : Nat) (e : Expr)
  /-- a newly allocated object (deepcopy, astype, arithmetic, constructor, unknown call result) -/
  | fresh
  /-- either of two (used by the extractor to merge the arms of a branch of a long constructor: a weak update) -/
  | join (a : Expr) (b : Expr)
  deriving Repr

inductive Stmt
  | assign (x : Nat) (e : Expr)
  /-- in-place modification of the object `e` refers to itself (attribute / item assignment, `__class__ = …`, `*=`,
  `append`): every region it may live in -/
  | write (e : Expr)
  /-- recursive in-place conversion (a converter called with `copy=False`): the regions of `e` and every region reachable
  from them through links -/
  | writeDeep (e : Expr)
  /-- from now on the object `a` refers to holds, under field `f`, a reference to what `b` refers to (attribute / item
  assignment, `append`, a list literal or constructor call keeping its arguments) -/
  | link (a : Expr) (f : Nat) (b : Expr)
  /-- branch on opaque condition `c` (condition 0 is the `copy` flag where a converter has one) -/
  | ite (c : Nat) (t : List Stmt) (e : List Stmt)
  | ret (e : Expr)
  | raise
  deriving Repr

abbrev Prog := List Stmt

/-- contents are abstract: one natural number per region (any injective encoding of the real content);
a link is (holder region, field label, target region) -/
structure State where
  env : List (Nat × Ref)
  next : Nat
  store : Nat → Nat
  links : List (Nat × Nat × Nat)
  writes : List Nat
  result : Option Ref
  halted : Bool

def lookup (env : List (Nat × Ref)) (x : Nat) : Option Ref := (env.find? (·.1 == x)).map (·.2)

/-- regions stored under field `f` of an object living in one of `rs` -/
def targets (links : List (Nat × Nat × Nat)) (rs : List Nat) (f : Nat) : List Nat :=
  (links.filter fun l => rs.contains l.1 && l.2.1 == f).map (·.2.2)

/-- evaluate an expression: the reference it yields and the next free region id (a variable that was never bound
refers to something unrelated to the inputs: a fresh region) -/
def eval (env : List (Nat × Ref)) (links : List (Nat × Nat × Nat)) (next : Nat) : Expr → Ref × Nat
  | .var x => match lookup env x with
    | some r => (r, next)
    | none => (⟨[next], true⟩, next + 1)
  | .view f e =>
    let r := eval env links next e
    (⟨(if f = 0 then r.1.regions else r.1.regions.flatMap fun k =>
          -- label 4 = an item of an item: stored as such, or an item of an explicitly stored item
          let t := if f = 4 then targets links [k] 4 ++ targets links (targets links [k] 1) 1 else targets links [k] f
          if t.isEmpty then [k] else t).eraseDups, false⟩, r.2)
  | .fresh => (⟨[next], true⟩, next + 1)
  | .join a b =>
    let ra := eval env links next a
    let rb := eval env links ra.2 b
    (⟨(ra.1.regions ++ rb.1.regions).eraseDups, false⟩, rb.2)

/-- one round of following links (whatever their label) from the regions seen so far -/
def step (links : List (Nat × Nat × Nat)) (seen : List Nat) : List Nat :=
  links.foldl (fun acc p => if acc.contains p.1 && !acc.contains p.2.2 then p.2.2 :: acc else acc) seen

/-- regions reachable from `seen` through at most `fuel` rounds of links -/
def closure (links : List (Nat × Nat × Nat)) : Nat → List Nat → List Nat
  | 0, seen => seen
  | fuel + 1, seen => closure links fuel (step links seen)

mutual
/-- one statement; `v` is the valuation of the opaque conditions (bit `c` = condition `c`), `w` the (arbitrary) effect a
write has on the content of a region -/
def exec (v : Nat) (w : Nat → Nat → Nat) : Stmt → State → State
  | .assign x e, s =>
    if s.halted then s else
    let rn := eval s.env s.links s.next e
    { s with env := (x, rn.1) :: s.env, next := rn.2 }
  | .write e, s =>
    if s.halted then s else
    let rn := eval s.env s.links s.next e
    let hit := rn.1.regions
    { s with next := rn.2, writes := hit ++ s.writes,
             store := fun k => if hit.contains k then w k (s.store k) else s.store k }
  | .writeDeep e, s =>
    if s.halted then s else
    let rn := eval s.env s.links s.next e
    let hit := closure s.links (s.links.length + 1) rn.1.regions
    { s with next := rn.2, writes := hit ++ s.writes,
             store := fun k => if hit.contains k then w k (s.store k) else s.store k }
  | .link a f b, s =>
    if s.halted then s else
    let ra := eval s.env s.links s.next a
    let rb := eval s.env s.links ra.2 b
    { s with next := rb.2,
             links := (ra.1.regions.flatMap fun x => rb.1.regions.map fun y => (x, f, y)) ++ s.links }
  | .ite c t e, s =>
    if s.halted then s else
    if v.testBit c then execList v w t s else execList v w e s
  | .ret e, s =>
    if s.halted then s else
    let rn := eval s.env s.links s.next e
    { s with next := rn.2, result := some rn.1, halted := true }
  | .raise, s => if s.halted then s else { s with halted := true }

def execList (v : Nat) (w : Nat → Nat → Nat) : List Stmt → State → State
  | [], s => s
  | st :: rest, s => execList v w rest (exec v w st s)
end

/-- initial state: parameter `i` (variables `0 … nIn-1`) is the root of region `i`; everything else is unallocated -/
def init (nIn : Nat) (store : Nat → Nat) : State :=
  { env := (List.range nIn).map (fun i => (i, ⟨[i], true⟩)), next := nIn, store := store, links := [], writes := [], result := none,
    halted := false }

def run (p : Prog) (nIn : Nat) (v : Nat) (w : Nat → Nat → Nat) (store : Nat → Nat) : State :=
  execList v w p (init nIn store)

/-- the store plays no role for control and data flow: the write log, the result and the allocation counter of a run -/
def summary (p : Prog) (nIn : Nat) (v : Nat) : List Nat × Option Ref × Bool :=
  let s := run p nIn v (fun _ x => x) (fun _ => 0)
  (s.writes, s.result, s.halted)

/- conditions mentioned by a program are all below `k` -/
mutual
def condsBelow (k : Nat) : Stmt → Bool
  | .ite c t e => decide (c < k) && condsBelowList k t && condsBelowList k e
  | _ => true
def condsBelowList (k : Nat) : List Stmt → Bool
  | [] => true
  | st :: rest => condsBelow k st && condsBelowList k rest
end

/-- one extracted function: its name, the number of input parameters (regions `0 … nIn-1`), the number of opaque
conditions, whether condition 0 is a `copy` flag, and the program -/
structure Entry where
  name : String
  nIn : Nat
  nCond : Nat
  hasCopy : Bool
  prog : Prog

/-- no input region is ever written, whatever the opaque conditions (checked over all `2^nCond` valuations) -/
def neverWritesInputs (e : Entry) : Bool :=
  (List.range (2 ^ e.nCond)).all fun v => (summary e.prog e.nIn v).1.all fun r => decide (e.nIn ≤ r)

/-- with `copy = True` (bit 0 set) the converted input (region 0) is never written and what is returned is a
different region -/
def copyLeavesOriginal (e : Entry) : Bool :=
  (List.range (2 ^ e.nCond)).all fun v =>
    !v.testBit 0 ||
      ((summary e.prog e.nIn v).1.all (fun r => decide (e.nIn ≤ r)) &&
       match (summary e.prog e.nIn v).2.1 with
       | some r => r.regions.all fun k => decide (e.nIn ≤ k)
       | none => true)

/-- with `copy = False` (bit 0 clear) whatever is returned is the very object that was passed in (region 0, root) -/
def nocopyReturnsSame (e : Entry) : Bool :=
  (List.range (2 ^ e.nCond)).all fun v =>
    v.testBit 0 ||
      match (summary e.prog e.nIn v).2.1 with
      | some r => r == ⟨[0], true⟩
      | none => true

end HdVerif.Aliasing
