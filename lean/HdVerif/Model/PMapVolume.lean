import HdVerif.Model.PMapRead
import HdVerif.Model.Stack
import HdVerif.Generated.T1c
/-! C19: `Image.get_volume` on a parametric map (patient coordinate system, not tiled).

`get_volume` (image.py) refuses an image whose positions do not identify its frames (`_do_columns_identify_unique_frames`: a map with
several channels has several frames per position), assembles the stack geometry and the slice of every frame
(`_prepare_volume_positions_table` / `_get_stacked_volume_geometry`: **C11's model `Stack.assembleFrames`**, used here as it is),
then `_get_pixels_by_frame` walks the stack table, fetches every frame by its 0-based `frame_index` -- un-cached through
`get_raw_frame(frame_index + 1)`, cached through `pixel_array[frame_index]`: the expressions are C05's REGENERATED `Gen.pixelsRawArgs`,
`Gen.pixelsCacheIndex`, `Gen.pixelsSingleGuard` (T1c) -- and writes it into slice `vp[frame]` of the output array; slices no frame
goes to stay blank. -/
namespace HdVerif.PMap
open HdVerif HdVerif.Gen HdVerif.Codec HdVerif.FrameAccess

/-- Image Position (Patient) of plane `i` as a row of three numbers (a slide-coordinate map has five scalar attributes: its volume
    goes through `get_total_pixel_matrix`, outside this model -- such rows are refused by `rowsToV3`) -/
def positionRow (x : PMInput) (i : Nat) : List Rat :=
  match x.pos i with
  | [v] => v
  | _ => []

def positionRows (x : PMInput) : List (List Rat) := (List.range x.n).map (positionRow x)

/-- the frame `_get_pixels_by_frame` fetches for the 0-based `frame_index` of the stack table -/
def volumeFrame (o : PMObject) (cached : Bool) (fi : Int) : Except ErrKind (List Cell) :=
  if cached then
    -- the pixel transform is built first: it needs `PixelRepresentation`, which a float map does not have
    if o.element != "PixelData" then .error .attribute
    else match o.frames with
      | [] => .error .index
      | w :: _ =>
        if o.frames.length = 1 then (match pixelsSingleGuard fi with | .ok _ => .ok w | .error e => .error e)
        else (match pixelsCacheIndex fi with | .ok ci => pyIndex o.frames ci | .error e => .error e)
  else
    if o.element != "PixelData" then .error .attribute
    else match pixelsRawArgs fi with
      | .ok (rk, ai) => storedUncached singleSkel .memory o rk ai     -- `get_raw_frame` standardises the number, cuts the bytes
      | .error e => .error e

/-- `get_volume(...)` with all transforms off: spacing, origin, and for every slice of the output array the cells of the frame
    written there (`none`: blank) -/
def getVolume (x : PMInput) (o : PMObject) (cached : Bool) (ori : List Rat) (hint rtol atol : Option Rat) (allowMissing : Bool) :
    Except ErrKind (Rat × List Rat × List (Option (List Cell))) :=
  -- every frame must have a position of its own: channels share positions, equal plane positions do too
  if x.m ≠ 1 ∨ ¬ (positionRows x).Nodup then .error .runtime
  else
    match Stack.assembleFrames (positionRows x) ori hint rtol atol allowMissing with
    | .error e => .error e
    | .ok (sp, origin, n, vp) =>
      match (List.range x.n).mapM (fun (f : Nat) => volumeFrame o cached (f : Int)) with
      | .error e => .error e
      | .ok frames =>
        .ok (sp, origin, (List.range n.toNat).map (fun (s : Nat) => (vp.idxOf? (s : Int)).bind (fun f => frames[f]?)))

/-- `get_volume(apply_real_world_transform=True, real_world_value_map_selector=sel)`: every frame goes through the pixel
    transform built for ITS index (`_get_pixels_by_frame`, forwarding table T19f): the mapping selected from the mappings attached
    to that frame, applied to its stored values; one frame outside its mapping's range refuses the whole call -/
def getVolumeReal (x : PMInput) (o : PMObject) (cached : Bool) (ori : List Rat) (hint rtol atol : Option Rat) (allowMissing : Bool)
    (sel : Selector) : Except ErrKind (Rat × List Rat × List (Option (List Rat))) :=
  if x.m ≠ 1 ∨ ¬ (positionRows x).Nodup then .error .runtime
  else
    match Stack.assembleFrames (positionRows x) ori hint rtol atol allowMissing with
    | .error e => .error e
    | .ok (sp, origin, n, vp) =>
      match (List.range x.n).mapM (fun (f : Nat) => do
          let cells ← volumeFrame o cached (f : Int)
          let ms ← attachedMappings o f
          let mp ← select ms sel
          applyMapping mp (cells.map cellValue)) with
      | .error e => .error e
      | .ok frames =>
        .ok (sp, origin, (List.range n.toNat).map (fun (s : Nat) => (vp.idxOf? (s : Int)).bind (fun f => frames[f]?)))

end HdVerif.PMap
