import HdVerif.Model.Basic
import HdVerif.Generated.T9a
import HdVerif.Generated.T9b
import HdVerif.Generated.T9c
import HdVerif.Generated.T9d
import HdVerif.Generated.T9e
import HdVerif.Generated.T9f
import HdVerif.Generated.T9g
import HdVerif.Generated.T10a
import HdVerif.Generated.T10b
import HdVerif.Generated.T10c
import HdVerif.Generated.T10d
/-! C08: `highdicom.volume` — `_VolumeBase`, `VolumeGeometry`, `Volume` — as an executable model over `Rat`.

A geometry is the affine itself (three columns and a translation, exactly what `_affine` stores) plus the
spatial shape.  Every spatial operation returns the new geometry **and** the index map `src : I3 → I3`
(output index ↦ input index) that numpy's slicing / transposing / padding realises on the array; the
provenance map of the property is `fun j => if input.inRange (src j) then some (src j) else none`.

Integer cores come from the translator (tie T): `padToAxis`, `cropToAxis`, `padOrCropAxis`, `getitemAxisItem`,
`getitemAxisNone`, `checkInt`, `checkSlice`, `intToSlice` (namespace `HdVerif.Gen`).  CPython's `slice.indices`
(`sliceIndices`) and the length of a numpy slice (`sliceLen`) are re-defined by hand and compared with CPython
on a grid by the correspondence check. -/
namespace HdVerif.Vol
open HdVerif HdVerif.Gen

/-! ## vectors, indices, axes -/

structure V3 where
  x : Rat
  y : Rat
  z : Rat
deriving DecidableEq, Repr, Inhabited

namespace V3
def add (a b : V3) : V3 := ⟨a.x + b.x, a.y + b.y, a.z + b.z⟩
def smul (k : Rat) (a : V3) : V3 := ⟨k * a.x, k * a.y, k * a.z⟩
def dot (a b : V3) : Rat := a.x * b.x + a.y * b.y + a.z * b.z
def cross (a b : V3) : V3 := ⟨a.y * b.z - a.z * b.y, a.z * b.x - a.x * b.z, a.x * b.y - a.y * b.x⟩
end V3

/-- a spatial axis of the array -/
inductive Ax | a0 | a1 | a2
deriving DecidableEq, Repr, Inhabited

def Ax.ofInt (k : Int) : Option Ax :=
  if k = 0 then some .a0 else if k = 1 then some .a1 else if k = 2 then some .a2 else none

def Ax.toInt : Ax → Int
  | .a0 => 0 | .a1 => 1 | .a2 => 2

/-- a voxel index (any integers; `Geom.inRange` says whether it addresses a voxel) -/
structure I3 where
  i0 : Int
  i1 : Int
  i2 : Int
deriving DecidableEq, Repr, Inhabited

def I3.get (i : I3) : Ax → Int
  | .a0 => i.i0 | .a1 => i.i1 | .a2 => i.i2

/-- row `a` of a vector (x, y, z are the frame-of-reference axes 0, 1, 2) -/
def V3.get (v : V3) : Ax → Rat
  | .a0 => v.x | .a1 => v.y | .a2 => v.z

/-! ## geometry -/

/-- `_VolumeBase._affine` (columns `c0 c1 c2`, translation `t`; last row 0 0 0 1 implicit) and `spatial_shape` -/
structure Geom where
  c0 : V3
  c1 : V3
  c2 : V3
  t : V3
  n0 : Int
  n1 : Int
  n2 : Int
deriving DecidableEq, Repr, Inhabited

namespace Geom
def col (g : Geom) : Ax → V3
  | .a0 => g.c0 | .a1 => g.c1 | .a2 => g.c2
def size (g : Geom) : Ax → Int
  | .a0 => g.n0 | .a1 => g.n1 | .a2 => g.n2

/-- `map_indices_to_reference` for one index: `affine · (i0, i1, i2, 1)` -/
def pos (g : Geom) (i : I3) : V3 :=
  (g.t.add (V3.smul i.i0 g.c0)).add ((V3.smul i.i1 g.c1).add (V3.smul i.i2 g.c2))

def inRange (g : Geom) (i : I3) : Bool :=
  decide (0 ≤ i.i0) && decide (i.i0 < g.n0) && decide (0 ≤ i.i1) && decide (i.i1 < g.n1) &&
  decide (0 ≤ i.i2) && decide (i.i2 < g.n2)

/-- scaled orthogonal: columns pairwise orthogonal and none of them zero -/
def Orth (g : Geom) : Prop :=
  g.c0.dot g.c1 = 0 ∧ g.c0.dot g.c2 = 0 ∧ g.c1.dot g.c2 = 0 ∧
  g.c0.dot g.c0 ≠ 0 ∧ g.c1.dot g.c1 ≠ 0 ∧ g.c2.dot g.c2 ≠ 0

instance (g : Geom) : Decidable g.Orth := by unfold Orth; infer_instance

/-- every axis has at least one voxel -/
def Pos (g : Geom) : Prop := 0 < g.n0 ∧ 0 < g.n1 ∧ 0 < g.n2

instance (g : Geom) : Decidable g.Pos := by unfold Pos; infer_instance

/-- `np.cross(v1, v2) @ v3` of `handedness` -/
def triple (g : Geom) : Rat := (g.c0.cross g.c1).dot g.c2
/-- `handedness == LEFT_HANDED` -/
def leftHanded (g : Geom) : Bool := decide (g.triple < 0)
end Geom

/-! ## per-axis index maps -/

/-- What one axis of an operation does.
*Array side* (numpy): output index `k` reads input index `afirst + astep * k`; `alen` is the length numpy gives the array
along that axis (what a `Volume` reports as its shape).
*Affine side* (the library's own arithmetic): the new origin is the old affine at index `first`, the column is scaled by
`step`, and `size` is the new size the library computes (what a `VolumeGeometry` gets).
That both sides agree is a theorem (`AxGood`), not a definition. -/
structure AxMap where
  first : Int
  step : Int
  size : Int
  alen : Int
  afirst : Int
  astep : Int
deriving DecidableEq, Repr, Inhabited

/-- new geometry from three axis maps: column `d` scaled by `step`, origin moved to the voxel `first`
(`_prepare_getitem_index`: `self._affine[:3, d] * step`, `map_indices_to_reference(origin_indices)`;
`_prepare_pad_width` / `_translate_affine_matrix`: origin + direction @ origin_offset, columns kept) -/
def Geom.remap (sz : AxMap → Int) (g : Geom) (m0 m1 m2 : AxMap) : Geom :=
  { c0 := V3.smul m0.step g.c0, c1 := V3.smul m1.step g.c1, c2 := V3.smul m2.step g.c2,
    t := g.pos ⟨m0.first, m1.first, m2.first⟩,
    n0 := sz m0, n1 := sz m1, n2 := sz m2 }

/-- what numpy does to the array: output index `j` shows input index `afirst + astep * j` per axis -/
def remapSrc (m0 m1 m2 : AxMap) (j : I3) : I3 :=
  ⟨m0.afirst + m0.astep * j.i0, m1.afirst + m1.astep * j.i1, m2.afirst + m2.astep * j.i2⟩

/-! ## CPython `slice.indices` and numpy's slice length (hand-written, validated against CPython) -/

/-- `slice(start, stop, step).indices(len)` (CPython `sliceobject.c: slice_indices / _PySlice_GetLongIndices`) -/
def sliceIndices (start stop step : Option Int) (len : Int) : Except ErrKind (Int × Int × Int) :=
  let st : Int := match step with | none => 1 | some s => s
  if st = 0 then .error .value else
  let lower : Int := if st < 0 then -1 else 0
  let upper : Int := if st < 0 then len - 1 else len
  let s : Int := match start with
    | none => if st < 0 then upper else lower
    | some a => if a < 0 then max (a + len) lower else min a upper
  let e : Int := match stop with
    | none => if st < 0 then lower else upper
    | some b => if b < 0 then max (b + len) lower else min b upper
  .ok (s, e, st)

/-- `len(range(first, last, step))` = length of `array[first:last:step]` along an axis (numpy / CPython) -/
def sliceLen (first last step : Int) : Int :=
  if step > 0 then (if first < last then (last - first - 1) / step + 1 else 0)
  else if step < 0 then (if last < first then (first - last - 1) / (-step) + 1 else 0)
  else 0

/-! ## `__getitem__` -/

inductive Item
  | int (k : Int)
  | slice (start stop step : Option Int)
  | foreign   -- anything that is neither `int` (bool included) nor `slice`: None, Ellipsis, numpy integers, floats, lists …
deriving DecidableEq, Repr, Inhabited

abbrev PySlice := Option Int × Option Int × Option Int

/-- first pass of `_prepare_getitem_index`: bound checks; ints become one-element slices -/
def itemSlice (it : Item) (n : Int) : Except ErrKind PySlice :=
  match it with
  | .int k => do
    let k' ← checkInt k n
    let (s, hasEnd, e) ← intToSlice k'
    pure (some s, if hasEnd then some e else none, none)
  | .slice a b c => do
    let _ ← checkSlice a b n
    pure (a, b, c)
  | .foreign => .error .type     -- `Items within "index" must be ints, or slices` / `Argument "index" must be an int, slice or tuple`

def optItemSlice (it : Option Item) (n : Int) : Except ErrKind (Option PySlice) :=
  match it with
  | none => pure none
  | some i => do let s ← itemSlice i n; pure (some s)

/-- second pass, one axis: `.indices(n)`, emptiness test and size (T10a) -/
def axisOfSlice (s : Option PySlice) (n : Int) : Except ErrKind AxMap :=
  match s with
  | none => do
    let (first, step, size) ← getitemAxisNone n
    pure ⟨first, step, size, n, 0, 1⟩   -- numpy: an axis without index item is kept as it is
  | some (a, b, c) => do
    let (f, l, st) ← sliceIndices a b c n
    let (first, step, size) ← getitemAxisItem f l st
    pure ⟨first, step, size, sliceLen f l st, f, st⟩   -- numpy: `array[f:l:st]`

/-- `_prepare_getitem_index` (index already in tuple form; a bare int or slice is the 1-tuple): the three axis maps -/
def getitemMaps (g : Geom) (items : List Item) : Except ErrKind (AxMap × AxMap × AxMap) := do
  if items.length > 3 then throw ErrKind.index
  let s0 ← optItemSlice items[0]? g.n0
  let s1 ← optItemSlice items[1]? g.n1
  let s2 ← optItemSlice items[2]? g.n2
  let m0 ← axisOfSlice s0 g.n0
  let m1 ← axisOfSlice s1 g.n1
  let m2 ← axisOfSlice s2 g.n2
  pure (m0, m1, m2)

/-- result of a spatial operation on a geometry: new geometry and output-index ↦ input-index map -/
abbrev GStep := Geom × (I3 → I3)

def getitemG (sz : AxMap → Int) (g : Geom) (items : List Item) : Except ErrKind GStep := do
  let (m0, m1, m2) ← getitemMaps g items
  pure (g.remap sz m0 m1 m2, remapSrc m0 m1 m2)

/-! ## flip -/

def validAxis (a : Int) : Bool := a == 0 || a == 1 || a == 2

/-- `flip_spatial`: the index it hands to `__getitem__` -/
def flipItems (axes : List Int) : Except ErrKind (List Item) :=
  if axes.length > 3 || axes.any (fun a => !validAxis a) then .error .value
  else .ok ([0, 1, 2].map fun (d : Int) =>
    if axes.contains d then Item.slice (some (-1)) none (some (-1)) else Item.slice none none none)

def flipG (sz : AxMap → Int) (g : Geom) (axes : List Int) : Except ErrKind GStep := do
  let items ← flipItems axes
  getitemG sz g items

/-! ## permute / swap -/

abbrev Perm := Ax × Ax × Ax

/-- `_permute_affine`: `len(indices) != 3 or set(indices) != {0, 1, 2}` → ValueError -/
def permOfList (p : List Int) : Except ErrKind Perm :=
  match p with
  | [a, b, c] =>
    match Ax.ofInt a, Ax.ofInt b, Ax.ofInt c with
    | some x, some y, some z => if x ≠ y ∧ x ≠ z ∧ y ≠ z then .ok (x, y, z) else .error .value
    | _, _, _ => .error .value
  | _ => .error .value

/-- `_transform_affine_matrix(permute_indices=p)`: column `k` of the result is column `p[k]`; shape likewise -/
def Geom.permute (g : Geom) (p : Perm) : Geom :=
  { c0 := g.col p.1, c1 := g.col p.2.1, c2 := g.col p.2.2, t := g.t,
    n0 := g.size p.1, n1 := g.size p.2.1, n2 := g.size p.2.2 }

/-- `np.transpose(array, p)[j] = array[i]` with `i[p[k]] = j[k]` -/
def permSrc (p : Perm) (j : I3) : I3 :=
  let f (a : Ax) : Int := if p.1 = a then j.i0 else if p.2.1 = a then j.i1 else j.i2
  ⟨f .a0, f .a1, f .a2⟩

def permuteG (g : Geom) (p : List Int) : Except ErrKind GStep := do
  let q ← permOfList p
  pure (g.permute q, permSrc q)

/-- `swap_spatial_axes`: the permutation it hands to `permute_spatial_axes` -/
def swapList (a b : Int) : Except ErrKind (List Int) :=
  if !validAxis a || !validAxis b then .error .value
  else if a = b then .error .value
  else .ok ([0, 1, 2].map fun (d : Int) => if d = a then b else if d = b then a else d)

def swapG (g : Geom) (a b : Int) : Except ErrKind GStep := do
  let p ← swapList a b
  permuteG g p

/-! ## pad -/

inductive PadWidth
  | int (w : Int)
  | flat (ws : List Int)
  | nested (ws : List (List Int))
deriving DecidableEq, Repr, Inhabited

abbrev FullPad := (Int × Int) × (Int × Int) × (Int × Int)

/-- `_prepare_pad_width`: the four accepted forms → `[[before, after]] * 3` -/
def rawPadWidth (w : PadWidth) : Except ErrKind FullPad :=
  match w with
  | .int k => if k < 0 then .error .value else .ok ((k, k), (k, k), (k, k))
  | .flat ws =>
    match ws with
    | [] => .error .index
    | [b, a] => if b < 0 ∨ a < 0 then .error .value else .ok ((b, a), (b, a), (b, a))
    | _ => .error .value
  | .nested ws =>
    match ws with
    | [] => .error .index
    | [[a], [b], [c]] => .ok ((a, a), (b, b), (c, c))
    | [[a0, a1], [b0, b1], [c0, c1]] => .ok ((a0, a1), (b0, b1), (c0, c1))
    | _ => .error .value

def fullNeg (full : FullPad) : Bool :=
  decide (full.1.1 < 0) || decide (full.1.2 < 0) || decide (full.2.1.1 < 0) || decide (full.2.1.2 < 0) ||
  decide (full.2.2.1 < 0) || decide (full.2.2.2 < 0)

/-- `_prepare_pad_width`: negative values are refused in every form -/
def fullPadWidth (w : PadWidth) : Except ErrKind FullPad := do
  let full ← rawPadWidth w
  if fullNeg full then .error .value else pure full

/-- one padded axis: origin offset and new size as the library computes them (T9e); `numpy.pad` puts `before` new
elements in front (output index `k` shows input index `k - before`) and returns `n + before + after` elements -/
def padAxis (n before after : Int) : Except ErrKind AxMap := do
  let o ← padOriginOffset before after
  let sz ← padNewSize n before after
  pure ⟨o, 1, sz, n + before + after, -before, 1⟩

def padFullG (sz : AxMap → Int) (g : Geom) (full : FullPad) : Except ErrKind GStep := do
  let m0 ← padAxis g.n0 full.1.1 full.1.2
  let m1 ← padAxis g.n1 full.2.1.1 full.2.1.2
  let m2 ← padAxis g.n2 full.2.2.1 full.2.2.2
  pure (g.remap sz m0 m1 m2, remapSrc m0 m1 m2)

def padG (sz : AxMap → Int) (g : Geom) (w : PadWidth) : Except ErrKind GStep := do
  let full ← fullPadWidth w
  padFullG sz g full

/-! ## pad / crop to a spatial shape (per-axis arithmetic: T9a, T9b, T9c) -/

def shape3 (s : List Int) : Except ErrKind (Int × Int × Int) :=
  match s with
  | [a, b, c] => .ok (a, b, c)
  | _ => .error .value

/-- `pad_to_spatial_shape`: the pad widths it hands to `pad` (always the nested `[before, after]` form) -/
def padToWidth (g : Geom) (s : List Int) : Except ErrKind PadWidth := do
  let (o0, o1, o2) ← shape3 s
  let (f0, b0) ← padToAxis g.n0 o0
  let (f1, b1) ← padToAxis g.n1 o1
  let (f2, b2) ← padToAxis g.n2 o2
  pure (.nested [[f0, b0], [f1, b1], [f2, b2]])

def padToG (sz : AxMap → Int) (g : Geom) (s : List Int) : Except ErrKind GStep := do
  let w ← padToWidth g s
  padG sz g w

/-- `crop_to_spatial_shape`: the index `self[f0:s0, f1:s1, f2:s2]` it hands to `__getitem__` -/
def cropToItems (g : Geom) (s : List Int) : Except ErrKind (List Item) := do
  let (o0, o1, o2) ← shape3 s
  let (f0, e0) ← cropToAxis g.n0 o0
  let (f1, e1) ← cropToAxis g.n1 o1
  let (f2, e2) ← cropToAxis g.n2 o2
  pure [.slice (some f0) (some e0) none, .slice (some f1) (some e1) none, .slice (some f2) (some e2) none]

def cropToG (sz : AxMap → Int) (g : Geom) (s : List Int) : Except ErrKind GStep := do
  let items ← cropToItems g s
  getitemG sz g items

/-- `pad_or_crop_to_spatial_shape`: (crop index, pad widths); the crop is applied first -/
def padOrCropPlan (g : Geom) (s : List Int) : Except ErrKind (List Item × PadWidth) := do
  let (o0, o1, o2) ← shape3 s
  let ((pf0, pb0), (cs0, ce0)) ← padOrCropAxis g.n0 o0
  let ((pf1, pb1), (cs1, ce1)) ← padOrCropAxis g.n1 o1
  let ((pf2, pb2), (cs2, ce2)) ← padOrCropAxis g.n2 o2
  pure ([.slice (some cs0) (some ce0) none, .slice (some cs1) (some ce1) none, .slice (some cs2) (some ce2) none],
        .nested [[pf0, pb0], [pf1, pb1], [pf2, pb2]])

def padOrCropG (sz : AxMap → Int) (g : Geom) (s : List Int) : Except ErrKind GStep := do
  let (items, w) ← padOrCropPlan g s
  let (g1, f1) ← getitemG sz g items
  let (g2, f2) ← padG sz g1 w
  pure (g2, fun j => f1 (f2 j))

/-! ## patient orientation -/

inductive Dir | L | R | P | A | H | F
deriving DecidableEq, Repr, Inhabited

def Dir.ofChar (c : Char) : Option Dir :=
  if c = 'L' then some .L else if c = 'R' then some .R else if c = 'P' then some .P
  else if c = 'A' then some .A else if c = 'H' then some .H else if c = 'F' then some .F else none

def Dir.toChar : Dir → Char
  | .L => 'L' | .R => 'R' | .P => 'P' | .A => 'A' | .H => 'H' | .F => 'F'

/-- `PATIENT_ORIENTATION_OPPOSITES` -/
def Dir.opp : Dir → Dir
  | .L => .R | .R => .L | .P => .A | .A => .P | .H => .F | .F => .H

/-- frame-of-reference axis a direction lies on (`pos_directions` / `neg_directions` of `get_closest_patient_orientation`) -/
def Dir.row : Dir → Ax
  | .L => .a0 | .R => .a0 | .P => .a1 | .A => .a1 | .H => .a2 | .F => .a2

def posDir : Ax → Dir
  | .a0 => .L | .a1 => .P | .a2 => .H
def negDir : Ax → Dir
  | .a0 => .R | .a1 => .A | .a2 => .F

abbrev Orient := Dir × Dir × Dir

/-- `_normalize_patient_orientation` -/
def normOrient (s : List Char) : Except ErrKind Orient :=
  match s with
  | [a, b, c] =>
    match Dir.ofChar a, Dir.ofChar b, Dir.ofChar c with
    | some x, some y, some z =>
      let has (d : Dir) : Bool := x == d || y == d || z == d
      if (has .L != has .R) && (has .A != has .P) && (has .F != has .H) then .ok (x, y, z) else .error .value
    | _, _, _ => .error .value
  | _ => .error .value

def absR (x : Rat) : Rat := if x < 0 then -x else x

/-- insert into a list kept in descending key order, after every element that is not smaller (stable) -/
def insertDesc (x : Rat × Ax) : List (Rat × Ax) → List (Rat × Ax)
  | [] => [x]
  | y :: ys => if y.1 < x.1 then x :: y :: ys else y :: insertDesc x ys

/-- `np.argsort(-np.abs(column))` for one column: the three rows by descending magnitude (stable) -/
def sortRows (v : V3) : Ax × Ax × Ax :=
  let l := insertDesc (absR v.z, .a2) (insertDesc (absR v.y, .a1) (insertDesc (absR v.x, .a0) []))
  match l with
  | [a, b, c] => (a.2, b.2, c.2)
  | _ => (.a0, .a1, .a2)   -- unreachable: the list has three elements (`sortRows_length`)

/-- the inner loop of `get_closest_patient_orientation`: first row in the order that is not used yet
(Python leaves `i` at the last row when all are used) -/
def pickRow (o : Ax × Ax × Ax) (used : List Ax) : Ax :=
  if !used.contains o.1 then o.1 else if !used.contains o.2.1 then o.2.1 else o.2.2

def dirOf (v : V3) (r : Ax) : Dir := if v.get r > 0 then posDir r else negDir r

/-- `get_closest_patient_orientation(affine)` -/
def closest (g : Geom) : Orient :=
  let r0 := pickRow (sortRows g.c0) []
  let r1 := pickRow (sortRows g.c1) [r0]
  let r2 := pickRow (sortRows g.c2) [r0, r1]
  (dirOf g.c0 r0, dirOf g.c1 r1, dirOf g.c2 r2)

/-- `current_orientation.index(d)` -/
def orientIndex (cur : Orient) (d : Dir) : Option Int :=
  if cur.1 = d then some 0 else if cur.2.1 = d then some 1 else if cur.2.2 = d then some 2 else none

/-- one desired direction of `to_patient_orientation`: (from_index, flipped) -/
def planAxis (cur : Orient) (d : Dir) : Except ErrKind (Int × Bool) :=
  match orientIndex cur d with
  | some k => .ok (k, false)
  | none =>
    match orientIndex cur d.opp with
    | some k => .ok (k, true)
    | none => .error .value

/-- `to_patient_orientation`: (permute_indices, flip_axes) -/
def orientPlan (cur des : Orient) : Except ErrKind (List Int × List Int) := do
  let (k0, f0) ← planAxis cur des.1
  let (k1, f1) ← planAxis cur des.2.1
  let (k2, f2) ← planAxis cur des.2.2
  pure ([k0, k1, k2], (if f0 then [k0] else []) ++ (if f1 then [k1] else []) ++ (if f2 then [k2] else []))

inductive Coord | patient | slide
deriving DecidableEq, Repr, Inhabited

/-- `if len(flip_axes) > 0: result = self.flip_spatial(flip_axes) else: result = self` -/
def flipIfAny (sz : AxMap → Int) (g : Geom) (flips : List Int) : Except ErrKind GStep :=
  if flips.isEmpty then .ok (g, id) else flipG sz g flips

def toOrientationG (sz : AxMap → Int) (coord : Coord) (g : Geom) (o : List Char) : Except ErrKind GStep := do
  if coord ≠ .patient then throw ErrKind.runtime
  let des ← normOrient o
  let (perm, flips) ← orientPlan (closest g) des
  let (g1, f1) ← flipIfAny sz g flips
  let (g2, f2) ← permuteG g1 perm
  pure (g2, fun j => f1 (f2 j))

/-! ## handedness -/

def parseHandedness (s : String) : Option Bool :=
  if s = "LEFT_HANDED" then some true else if s = "RIGHT_HANDED" then some false else none

/-- `ensure_handedness(handedness, flip_axis=…, swap_axes=…)` -/
def ensureHandednessG (sz : AxMap → Int) (g : Geom) (h : String) (flipAxis : Option Int) (swapAxes : Option (List Int)) :
    Except ErrKind GStep :=
  if flipAxis.isNone == swapAxes.isNone then .error .type else
  match parseHandedness h with
  | none => .error .value
  | some wantLeft =>
    if wantLeft == g.leftHanded then .ok (g, id) else
    match flipAxis, swapAxes with
    | some a, _ => flipG sz g [a]
    | none, some [a, b] => swapG g a b
    | none, some _ => .error .value
    | none, none => .error .type

/-! ## operations as data (for histories) -/

inductive PadMode | constant | edge | minimum | maximum | mean | median
deriving DecidableEq, Repr, Inhabited

/-- `PadModes(mode.upper())` (the string arrives upper-cased) -/
def PadMode.parse (s : String) : Option PadMode :=
  if s = "CONSTANT" then some .constant else if s = "EDGE" then some .edge else if s = "MINIMUM" then some .minimum
  else if s = "MAXIMUM" then some .maximum else if s = "MEAN" then some .mean else if s = "MEDIAN" then some .median else none

structure PadOpts where
  mode : String
  cval : Rat
  perChannel : Bool
deriving Repr, Inhabited

/-- spatial operations that exist on `VolumeGeometry` and `Volume` alike -/
inductive SOp
  | getitem (items : List Item)
  | flip (axes : List Int)
  | permute (p : List Int)
  | swap (a b : Int)
  | pad (w : PadWidth) (o : PadOpts)
  | padTo (shape : List Int) (o : PadOpts)
  | cropTo (shape : List Int)
  | padOrCropTo (shape : List Int) (o : PadOpts)
  | toOrientation (o : List Char)
  | ensureHandedness (h : String) (flipAxis : Option Int) (swapAxes : Option (List Int))
  | copy
deriving Repr, Inhabited

/-- a spatial operation on a geometry (`sz = AxMap.size`: what `VolumeGeometry` computes; `sz = AxMap.alen`:
what the array of a `Volume` becomes) -/
def SOp.applyG (sz : AxMap → Int) (coord : Coord) (g : Geom) : SOp → Except ErrKind GStep
  | .getitem items => getitemG sz g items
  | .flip axes => flipG sz g axes
  | .permute p => permuteG g p
  | .swap a b => swapG g a b
  | .pad w _ => padG sz g w
  | .padTo s _ => padToG sz g s
  | .cropTo s => cropToG sz g s
  | .padOrCropTo s _ => padOrCropG sz g s
  | .toOrientation o => toOrientationG sz coord g o
  | .ensureHandedness h fa sa => ensureHandednessG sz g h fa sa
  | .copy => .ok (g, id)

/-- the operations that can only select voxels (everything except the three padding operations) -/
def SOp.cropping : SOp → Bool
  | .pad _ _ => false
  | .padTo _ _ => false
  | .padOrCropTo _ _ => false
  | _ => true

/-- the operations that rearrange or extend the grid (everything except indexing and the two cropping ones) -/
def SOp.keepsAll : SOp → Bool
  | .getitem _ => false
  | .cropTo _ => false
  | .padOrCropTo _ _ => false
  | _ => true

/-- the `VolumeGeometry` method -/
def SOp.applyGeom (coord : Coord) (g : Geom) (op : SOp) : Except ErrKind GStep := op.applyG AxMap.size coord g

/-! ## volumes: geometry + array + channels -/

/-- provenance of the property: output index ↦ the input voxel it shows, `none` = new (padding) voxel -/
abbrev Prov := I3 → Option I3

/-- `later` maps the final index to the intermediate one, `earlier` the intermediate to the original -/
def Prov.comp (later earlier : Prov) : Prov := fun j => (later j).bind earlier

def provOf (gin : Geom) (f : I3 → I3) : Prov := fun j => if gin.inRange (f j) then some (f j) else none

/-- A `Volume`: the array is a function of the spatial index and the channel multi-index (meaningful inside
`geom` × `cshape`); `chans` = (descriptor id, value ids) per channel dimension; `isInt` = integer dtype. -/
structure Vol where
  geom : Geom
  arr : I3 → List Nat → Rat
  cshape : List Nat
  chans : List (Nat × List Nat)
  isInt : Bool

abbrev VStep := Vol × Prov

/-- C-order enumeration of the voxel indices of a geometry -/
def Geom.indices (g : Geom) : List I3 :=
  (List.range g.n0.toNat).flatMap fun a => (List.range g.n1.toNat).flatMap fun b =>
    (List.range g.n2.toNat).map fun c => ⟨Int.ofNat a, Int.ofNat b, Int.ofNat c⟩

/-- C-order enumeration of the channel multi-indices -/
def chanIndices : List Nat → List (List Nat)
  | [] => [[]]
  | n :: rest => (List.range n).flatMap fun k => (chanIndices rest).map fun c => k :: c

def Vol.values (v : Vol) : List Rat :=
  v.geom.indices.flatMap fun i => (chanIndices v.cshape).map fun c => v.arr i c

def Vol.channelValues (v : Vol) (c : List Nat) : List Rat := v.geom.indices.map fun i => v.arr i c

/-- numpy's cast of a float constant into an integer array (truncation toward zero) -/
def ratTrunc (x : Rat) : Int := if x < 0 then x.ceil else x.floor

def castTo (isInt : Bool) (x : Rat) : Rat := if isInt then (ratTrunc x : Rat) else x

def listMin : List Rat → Option Rat
  | [] => none
  | x :: xs => some (xs.foldl (fun m y => if y < m then y else m) x)

def listMax : List Rat → Option Rat
  | [] => none
  | x :: xs => some (xs.foldl (fun m y => if m < y then y else m) x)

def listSum (l : List Rat) : Rat := l.foldl (· + ·) 0

def listMean (l : List Rat) : Option Rat := if l.isEmpty then none else some (listSum l / (l.length : Rat))

def insertAsc (x : Rat) : List Rat → List Rat
  | [] => [x]
  | y :: ys => if x < y then x :: y :: ys else y :: insertAsc x ys

def sortAsc (l : List Rat) : List Rat := l.foldl (fun acc x => insertAsc x acc) []

/-- `np.median` -/
def listMedian (l : List Rat) : Option Rat :=
  let s := sortAsc l
  let n := s.length
  if n = 0 then none
  else if n % 2 = 1 then s[n / 2]?
  else match s[n / 2 - 1]?, s[n / 2]? with
    | some a, some b => some ((a + b) / 2)
    | _, _ => none

def statOf (m : PadMode) (l : List Rat) : Option Rat :=
  match m with
  | .minimum => listMin l
  | .maximum => listMax l
  | .mean => listMean l
  | .median => listMedian l
  | _ => none

def clampI (x hi : Int) : Int := if x < 0 then 0 else if x > hi - 1 then hi - 1 else x

def Geom.clamp (g : Geom) (i : I3) : I3 := ⟨clampI i.i0 g.n0, clampI i.i1 g.n1, clampI i.i2 g.n2⟩

/-- per-channel padding value; `d` is returned for a channel index outside `cshape` (not a cell of the array) -/
def tableGet (t : List (List Nat × Option Rat)) (ch : List Nat) (d : Rat) : Rat :=
  match t.lookup ch with
  | some (some x) => x
  | _ => d

/-- `Volume.pad` after `_prepare_pad_width`: the padded array.  `f` is the index map of the padding. -/
def padArray (v : Vol) (f : I3 → I3) (o : PadOpts) : Except ErrKind ((I3 → List Nat → Rat) × Bool) :=
  match PadMode.parse o.mode with
  | none => .error .value
  | some mode =>
    -- T9d: the decision of `Volume.pad` whether to pad channel by channel
    match padPerChannel o.mode o.perChannel (Int.ofNat v.cshape.length) (v.cshape == [1]) with
    | .error e => .error e
    | .ok perChannel =>
    match mode with
    | .constant =>
      let c := castTo v.isInt o.cval
      .ok (fun j ch => if v.geom.inRange (f j) then v.arr (f j) ch else c, v.isInt)
    | .edge =>
      .ok (fun j ch => if v.geom.inRange (f j) then v.arr (f j) ch else v.arr (v.geom.clamp (f j)) ch, v.isInt)
    | _ =>
      if perChannel then
        -- one padding value per channel index; the result array is allocated with the dtype of the input
        let table := (chanIndices v.cshape).map fun c => (c, (statOf mode (v.channelValues c)).map (castTo v.isInt))
        if table.any (fun e => e.2.isNone) then .error .value else
        .ok (fun j ch => if v.geom.inRange (f j) then v.arr (f j) ch else
              tableGet table ch (v.arr (f j) ch), v.isInt)
      else
        match statOf mode v.values with
        | none => .error .value
        | some x =>
          let c := castTo v.isInt x
          .ok (fun j ch => if v.geom.inRange (f j) then v.arr (f j) ch else c, v.isInt)

/-- a non-padding spatial operation on a volume: the array is re-indexed through `f` -/
def Vol.reindex (v : Vol) (r : GStep) : VStep :=
  ({ v with geom := r.1, arr := fun j ch => v.arr (r.2 j) ch }, provOf v.geom r.2)

def Vol.padStep (v : Vol) (r : GStep) (o : PadOpts) : Except ErrKind VStep := do
  let (a, isInt) ← padArray v r.2 o
  pure ({ v with geom := r.1, arr := a, isInt := isInt }, provOf v.geom r.2)

/-- `PadModes(mode)` is evaluated before anything else in `Volume.pad` -/
def checkMode (o : PadOpts) : Except ErrKind Unit :=
  match PadMode.parse o.mode with
  | none => .error .value
  | some _ => .ok ()

/-- a spatial operation on a `Volume` -/
def SOp.applyVol (coord : Coord) (v : Vol) (op : SOp) : Except ErrKind VStep :=
  match op with
  | .pad w o => do
    checkMode o
    let r ← padG AxMap.alen v.geom w
    v.padStep r o
  | .padTo s o => do
    let w ← padToWidth v.geom s
    checkMode o
    let r ← padG AxMap.alen v.geom w
    v.padStep r o
  | .padOrCropTo s o => do
    let (items, w) ← padOrCropPlan v.geom s
    let r1 ← getitemG AxMap.alen v.geom items
    let (v1, p1) := v.reindex r1
    checkMode o
    let r2 ← padG AxMap.alen v1.geom w
    let (v2, p2) ← v1.padStep r2 o
    pure (v2, p2.comp p1)
  | op => do
    let r ← op.applyG AxMap.alen coord v.geom
    pure (v.reindex r)

/-! ## channel operations and array replacement (Volume only) -/

/-- insert the selected channel indices back: `sel` = (channel dimension, index); `nd` dimensions in the input -/
def expandChan (sel : List (Nat × Nat)) (nd : Nat) (c : List Nat) : List Nat :=
  let rec go (d : Nat) (fuel : Nat) (c : List Nat) : List Nat :=
    match fuel with
    | 0 => []
    | fuel + 1 =>
      match sel.lookup d with
      | some k => k :: go (d + 1) fuel c
      | none =>
        match c with
        | [] => []
        | x :: xs => x :: go (d + 1) fuel xs
  go 0 nd c

/-- keepdims: the selected dimensions stay with size one; input index = output index with the selection put in -/
def fixChan (sel : List (Nat × Nat)) (d : Nat) : List Nat → List Nat
  | [] => []
  | x :: xs => (match sel.lookup d with | some k => k | none => x) :: fixChan sel (d + 1) xs

def keepShape (sel : List (Nat × Nat)) (d : Nat) : List Nat → List Nat
  | [] => []
  | n :: ns => (match sel.lookup d with | some _ => 1 | none => n) :: keepShape sel (d + 1) ns

def keepChans (sel : List (Nat × Nat)) (d : Nat) : List (Nat × List Nat) → Except ErrKind (List (Nat × List Nat))
  | [] => .ok []
  | (id, vals) :: rest => do
    let e ← match sel.lookup d with
      | some k => match vals[k]? with
        | some x => pure (id, [x])
        | none => .error .value
      | none => pure (id, vals)
    let r ← keepChans sel (d + 1) rest
    pure (e :: r)

/-- `get_channel(keepdims=…, **{descriptor: value})` with descriptors and values given by their position -/
def getChannelV (v : Vol) (sel : List (Nat × Nat)) (keepdims : Bool) : Except ErrKind VStep :=
  let nd := v.cshape.length
  if sel.any (fun e => decide (e.1 ≥ nd)) then .error .value
  else if sel.any (fun e => match v.cshape[e.1]? with | some n => decide (e.2 ≥ n) | none => true) then .error .value
  else
    let dims := sel.map (·.1)
    if keepdims then do
      let chans ← keepChans sel 0 v.chans
      pure ({ v with cshape := keepShape sel 0 v.cshape, chans := chans,
                     arr := fun j c => v.arr j (fixChan sel 0 c) }, provOf v.geom id)
    else
      let keep := (List.range nd).filter fun d => !dims.contains d
      .ok ({ v with cshape := keep.filterMap (v.cshape[·]?), chans := keep.filterMap (v.chans[·]?),
                    arr := fun j c => v.arr j (expandChan sel nd c) }, provOf v.geom id)

/-- position of `d` in `q` -/
def findIdx (q : List Nat) (d : Nat) : Option Nat :=
  let rec go (k : Nat) : List Nat → Option Nat
    | [] => none
    | x :: xs => if x = d then some k else go (k + 1) xs
  go 0 q

/-- `np.transpose(array, [0, 1, 2] + [q + 3 …])`: the input channel index of output channel index `c`
(`input[q[k]] = c[k]`) -/
def permChan (q : List Nat) (nd : Nat) (c : List Nat) : List Nat :=
  (List.range nd).filterMap fun d => (findIdx q d).bind (c[·]?)

/-- `permute_channel_axes_by_index` -/
def permuteChannelsV (v : Vol) (p : List Int) : Except ErrKind VStep :=
  let nd := v.cshape.length
  if p.length ≠ nd || !(List.range nd).all (fun d => p.contains (d : Int)) then .error .value
  else
    let q := p.map Int.toNat
    .ok ({ v with cshape := q.filterMap (v.cshape[·]?), chans := q.filterMap (v.chans[·]?),
                  arr := fun j c => v.arr j (permChan q nd c) },
         provOf v.geom id)

/-- `with_array(array)` (channels=None): same spatial shape required; a 3-D array drops the channels,
otherwise the full shape must match -/
def withArrayV (v : Vol) (shape : List Int) (a : I3 → List Nat → Rat) (isInt : Bool) : Except ErrKind VStep :=
  match shape with
  | s0 :: s1 :: s2 :: cs =>
    if s0 ≠ v.geom.n0 ∨ s1 ≠ v.geom.n1 ∨ s2 ≠ v.geom.n2 then .error .value
    else if cs.isEmpty then .ok ({ v with arr := a, cshape := [], chans := [], isInt := isInt }, provOf v.geom id)
    else if cs ≠ v.cshape.map (fun (n : Nat) => (n : Int)) then .error .value
    else .ok ({ v with arr := a, isInt := isInt }, provOf v.geom id)
  | _ => .error .value

inductive Op
  | spatial (op : SOp)
  | getChannel (sel : List (Nat × Nat)) (keepdims : Bool)
  | permuteChannels (p : List Int)
  | withArray (shape : List Int) (a : I3 → List Nat → Rat) (isInt : Bool)

def Op.isSpatial : Op → Bool
  | .spatial _ => true
  | _ => false

def Op.apply (coord : Coord) (v : Vol) : Op → Except ErrKind VStep
  | .spatial op => op.applyVol coord v
  | .getChannel sel keep => getChannelV v sel keep
  | .permuteChannels p => permuteChannelsV v p
  | .withArray shape a isInt => withArrayV v shape a isInt

def Op.isWithArray : Op → Bool
  | .withArray _ _ _ => true
  | _ => false

/-- channel provenance of one operation on `v`: output channel index ↦ input channel index (spatial operations and
`with_array` do not re-index the channel axes) -/
def Op.chanSrc (v : Vol) : Op → List Nat → List Nat
  | .spatial _ => id
  | .getChannel sel keep => if keep then fixChan sel 0 else expandChan sel v.cshape.length
  | .permuteChannels p => permChan (p.map Int.toNat) v.cshape.length
  | .withArray _ _ _ => id

/-- composed channel provenance of a history (final channel index ↦ original channel index) -/
def historyChanSrc (coord : Coord) (v : Vol) : List Op → List Nat → List Nat
  | [] => id
  | op :: rest =>
    match op.apply coord v with
    | .ok (v1, _) => fun c => op.chanSrc v (historyChanSrc coord v1 rest c)
    | .error _ => id

/-- a history of accepted operations: final volume and the composed provenance -/
def runHistory (coord : Coord) (v : Vol) : List Op → Except ErrKind VStep
  | [] => .ok (v, provOf v.geom id)
  | op :: rest => do
    let (v1, p1) ← op.apply coord v
    let (v2, p2) ← runHistory coord v1 rest
    pure (v2, p2.comp p1)

/-- the same history on the geometry-only object (channel / array operations leave it alone) -/
def runHistoryGeom (coord : Coord) (g : Geom) : List Op → Except ErrKind Geom
  | [] => .ok g
  | .spatial op :: rest => do
    let (g1, _) ← op.applyGeom coord g
    runHistoryGeom coord g1 rest
  | _ :: rest => runHistoryGeom coord g rest


/-! ## where result arrays live (allocation kinds regenerated from source: T9f, T9g)

"The original object is unchanged" has two halves.  (1) The operation itself does not write into the input: the
translator lists every in-place store and every call with an in-place flag of the operation methods and affine helpers
together with the kind of the array written (`volumeArrayWrites`, `volumeInplaceCalls`, `affineHelperWrites`, …).
(2) Working in place on the *result* does not reach the input: that depends on how the result's array is produced
(`volumeArrayAlloc`): a fresh allocation, a view of the object's own array, the caller's array, or a numpy function that
decides at run time whether it copies (`np.ascontiguousarray`, `np.asarray`, … — "may alias"). -/

inductive Alloc | fresh | view | given | mayAlias | input | unknown
deriving DecidableEq, Repr, Inhabited

def Alloc.parse (s : String) : Alloc :=
  if s = "fresh" then .fresh else if s = "view" then .view else if s = "given" then .given
  else if s = "may_alias" then .mayAlias else if s = "input" then .input else .unknown

/-- how the method produces the array of its result, according to the current source -/
def arrayAllocOf (method : String) : Option Alloc := (volumeArrayAlloc.lookup method).map Alloc.parse

/-- a store of array buffers; an object's array lives in one of them (views index into the same buffer) -/
abbrev Store := List (List Rat)

/-- buffer the result's array lives in, given the buffer `own` of the input object's array and the buffer `given` of an
array argument: a fresh allocation is a new buffer, a view stays in the object's buffer, a given array is the caller's;
for the may-alias functions numpy decides at run time, so nothing is guaranteed -/
def resultBuffer (a : Alloc) (s : Store) (own given : Nat) : Option Nat :=
  match a with
  | .fresh => some s.length
  | .view => some own
  | .input => some own
  | .given => some given
  | .mayAlias => none
  | .unknown => none

/-- the store after the operation: a fresh result appends its buffer, everything else leaves the store as it is
(the operation methods write nothing else: `ops_never_write_input`) -/
def storeAfter (a : Alloc) (s : Store) (contents : List Rat) : Store :=
  match a with
  | .fresh => s ++ [contents]
  | _ => s

/-- an in-place edit: element `k` of buffer `b` becomes `x` -/
def writeBuf : Store → Nat → Nat → Rat → Store
  | [], _, _, _ => []
  | buf :: rest, 0, k, x => buf.set k x :: rest
  | buf :: rest, b + 1, k, x => buf :: writeBuf rest b k x

end HdVerif.Vol
