import HdVerif.Model.AffineCalls
import HdVerif.Generated.TC10f
/-! # Transformers built from an image dataset (`for_image`, `for_images`), property C10

`_get_spatial_information` (which functional group is read from where, shared before per-frame, nothing per-frame for TILED_FULL,
the total pixel matrix branch, the frame-number rules), `iter_tiled_full_frame_data` + `compute_tile_positions_per_frame` (the
implicit frame positions of a TILED_FULL image: channels outermost, then focal planes, then the tiles row by row) and the
`for_image` / `for_images` constructors of the six classes.  The lookup orders, the loop nest, the defaults, the z of a focal
plane, the number of tiles per direction, the islice bounds and the forwarding of the four results into the constructors are
regenerated from the source (target TC10g); the dataset is an abstract record of exactly the attributes these functions read.
NOT modelled: `get_image_coordinate_system` (its answer is a field), pydicom attribute access. -/
namespace HdVerif.Affine

/-- one functional-groups item (shared or of one frame): the groups `_get_spatial_information` looks for, `none` = absent -/
structure Groups where
  /-- `PixelMeasuresSequence[0]`: PixelSpacing, SpacingBetweenSlices (optional) -/
  measures : Option (List Rat × Option Rat) := none
  /-- `PlanePositionSlideSequence[0]`: X / Y / Z offset in the slide coordinate system -/
  posSlide : Option (List Rat) := none
  /-- `PlanePositionSequence[0].ImagePositionPatient` -/
  posPatient : Option (List Rat) := none
  /-- `PlaneOrientationSequence[0].ImageOrientationPatient` -/
  oriPatient : Option (List Rat) := none
  deriving Repr, Inhabited

inductive Coord | slide | patient
  deriving DecidableEq, Repr, Inhabited

/-- what `iter_tiled_full_frame_data` reads to decide how many channels (optical paths / segments) the image has -/
structure ChannelSource where
  sopClass : String
  /-- SegmentationType (segmentations only; "" otherwise) -/
  segmentationType : String := ""
  /-- number of items of SegmentSequence -/
  segments : Nat := 0
  /-- NumberOfOpticalPaths, if present -/
  declaredPaths : Option Nat := none
  /-- number of items of OpticalPathSequence -/
  pathItems : Nat := 0
  deriving Repr, Inhabited

/-- what `iter_tiled_full_frame_data` reads of a TILED_FULL image -/
structure TiledFull where
  rows : Int
  cols : Int
  totalRows : Int
  totalCols : Int
  source : ChannelSource
  /-- TotalPixelMatrixFocalPlanes, if present -/
  focalPlanes : Option Nat
  deriving Repr, Inhabited

/-- number of channels as the library derives it (regenerated decision, TC10g): segments of a segmentation (one channel for a
LABELMAP), else the declared number of optical paths, else the number of items of OpticalPathSequence -/
def TiledFull.channels (tf : TiledFull) : Nat :=
  Gen.tiledChannelCount tf.source.sopClass tf.source.segmentationType tf.source.segments tf.source.declaredPaths tf.source.pathItems

structure ImageDs where
  /-- answer of `get_image_coordinate_system` (none: no frame of reference / no position information) -/
  coord : Option Coord
  /-- `is_multiframe_image`: the IOD allows several frames -/
  multiframe : Bool
  /-- single-frame image: ImagePositionPatient, ImageOrientationPatient, PixelSpacing, SpacingBetweenSlices -/
  rootPos : List Rat := []
  rootOri : List Rat := []
  rootPs : List Rat := []
  rootSbs : Option Rat := none
  /-- `SharedFunctionalGroupsSequence[0]` -/
  shared : Groups := {}
  /-- `PerFrameFunctionalGroupsSequence` -/
  perFrame : List Groups := []
  /-- DimensionOrganizationType = TILED_FULL -/
  tiledFull : Option TiledFull := none
  /-- `TotalPixelMatrixOriginSequence[0]`: X, Y, (Z) -/
  totalOrigin : Option (Rat × Rat × Option Rat) := none
  /-- ImageOrientationSlide -/
  oriSlide : List Rat := []
  /-- FrameOfReferenceUID, if present (read by `for_images`) -/
  frameOfReference : Option String := none
  deriving Repr, Inhabited

/-- what `get_image_coordinate_system` looks at: the keywords present at the root of the dataset, which of the present
functional-group sequences hold `PlanePositionSequence[0].ImagePositionPatient` in their FIRST item, and which of them cannot be
indexed that far (the sequence itself or the `PlanePositionSequence` of its first item is EMPTY: `[0]` raises IndexError) -/
structure CoordInput where
  present : List String
  firstItemHasPatientPosition : List String
  emptyAtFirstItem : List String := []
  deriving Repr, Inhabited

/-- the loop over the functional-group sequences, in the regenerated order: the first sequence that is present decides when it holds a
patient position, raises when it cannot be indexed, and passes on to the next one otherwise -/
def patientFromGroups (d : CoordInput) : List String → Except ErrKind (Option Coord)
  | [] => .ok none
  | k :: ks =>
    if d.present.contains k then
      if d.emptyAtFirstItem.contains k then .error .index
      else if d.firstItemHasPatientPosition.contains k then .ok (some .patient)
      else patientFromGroups d ks
    else patientFromGroups d ks

/-- `get_image_coordinate_system`: no frame of reference = none; a slide marker (regenerated list) = SLIDE, even when patient
positions are present too; otherwise PATIENT iff an image position is found at the root or in the first item of one of the
(regenerated) functional-group sequences -/
def imageCoordinateSystem (d : CoordInput) : Except ErrKind (Option Coord) :=
  if !d.present.contains "FrameOfReferenceUID" then .ok none
  else if Gen.slideMarkers.any d.present.contains then .ok (some .slide)
  else if d.present.contains "ImagePositionPatient" then .ok (some .patient)
  else patientFromGroups d Gen.patientGroupSequences

/-- Python's `seq[i]` (negative indices count from the end; `_get_spatial_information` only gets here with `i ≥ 0` since the fix of
C10-frame-number-lower-bound) -/
def pyIndex {α : Type} (l : List α) (i : Int) : Except ErrKind α :=
  let j := if i < 0 then i + l.length else i
  if j < 0 then .error .index
  else match l[j.toNat]? with
    | some x => .ok x
    | none => .error .index

/-- an `if hasattr(shared_seq, X) … elif frame_seq is not None and hasattr(frame_seq, X) … else: raise ValueError` chain, in the
regenerated order -/
def lookupIn {α : Type} (order : List Char) (shared : Groups) (frame : Option Groups) (sel : Groups → Option α) : Except ErrKind α :=
  match order.filterMap (fun c => if c = 's' then sel shared else if c = 'f' then frame.bind sel else none) with
  | x :: _ => .ok x
  | [] => .error .value

def chainOrder (name : String) : List Char := (Gen.spatialLookups.lookup name).getD []

/-- unwrap a regenerated scalar expression -/
def genInt (e : Except ErrKind Int) : Int := match e with | .ok v => v | .error _ => 0
def genRat (e : Except ErrKind Rat) : Rat := match e with | .ok v => v | .error _ => 0

/-- the tiles of one plane in frame order: `np.meshgrid(range(tiles_per_column), range(tiles_per_row), indexing='xy')` flattened
row by row gives (tile column, tile row) with the column running fastest -/
def tileGrid (tf : TiledFull) : List (Int × Int) :=
  let ntc := (genInt (Gen.tilesPerColumn tf.totalCols tf.cols)).toNat
  let ntr := (genInt (Gen.tilesPerRow tf.totalRows tf.rows)).toNat
  (List.range ntr).flatMap fun (tr : Nat) => (List.range ntc).map fun (tc : Nat) => (((tc : Nat) : Int), ((tr : Nat) : Int))

/-- the frames of a TILED_FULL image in frame order as (channel, focal plane, tile), both 0-based: the nest of the three loops of
`iter_tiled_full_frame_data`, in the regenerated order -/
def frameNest (order : List String) (nch npl : Nat) (tiles : List (Int × Int)) : List (Nat × Nat × (Int × Int)) :=
  if order = ["channel", "slice_index", "tile"] then
    (List.range nch).flatMap fun c => (List.range npl).flatMap fun p => tiles.map fun t => (c, p, t)
  else if order = ["slice_index", "channel", "tile"] then
    (List.range npl).flatMap fun p => (List.range nch).flatMap fun c => tiles.map fun t => (c, p, t)
  else []

/-- position of frame `frame_number` of a TILED_FULL slide image: `next(islice(iter_tiled_full_frame_data(ds), f - 1, f))` -/
def tiledFramePosition (ds : ImageDs) (tf : TiledFull) (frameNumber : Int) : Except ErrKind (List Rat) :=
  match ds.totalOrigin, ds.shared.measures with
  | some (x, y, z), some (ps, sbs) =>
    if !Gen.tiledAllowedSopClasses.contains tf.source.sopClass then .error .value     -- not a slide image / segmentation
    else if tf.rows = 0 ∨ tf.cols = 0 then .error .other               -- ZeroDivisionError
    else
      let start := genInt (Gen.tiledFrameStart frameNumber)
      let stop := genInt (Gen.tiledFrameStop frameNumber)
      if start < 0 ∨ stop < 0 then .error .value                  -- islice refuses negative bounds
      else if stop ≤ start then .error .other                     -- empty slice: StopIteration
      else
        let frames := frameNest Gen.iterLoopNest tf.channels (tf.focalPlanes.getD Gen.iterDefaultFocalPlanes) (tileGrid tf)
        match frames[start.toNat]? with
        | none => .error .other                                   -- StopIteration
        | some (_, plane, (tc, tr)) => do
          let zOff := genRat (Gen.focalPlaneZ (z.getD Gen.iterDefaultZ) ((plane : Int) + 1) (sbs.getD Gen.iterDefaultSliceSpacing))
          let p ← tilePosition tf.rows tf.cols [x, y, zOff] ds.oriSlide (.seq ps) tc tr
          pure p.2.toList
  | _, _ => .error .attribute

/-- `_get_spatial_information(dataset, frame_number, for_total_pixel_matrix)`: position, orientation, pixel spacing, slice spacing -/
def getSpatialInformation (ds : ImageDs) (frameNumber : Option Int) (forTotal : Bool) :
    Except ErrKind (List Rat × List Rat × List Rat × Option Rat) :=
  match ds.coord with
  | none => .error .value
  | some cs =>
    if forTotal then
      match ds.totalOrigin with
      | none => .error .value
      | some (x, y, z) => do
        let m ← lookupIn Gen.totalMatrixMeasuresLookup ds.shared none (·.measures)
        pure ([x, y, z.getD Gen.totalMatrixDefaultZ], ds.oriSlide, m.1, m.2)
    else if ds.multiframe then
      match frameNumber with
      | none => .error .type
      | some f =>
        if f < Gen.firstFrameNumber then .error .index          -- a 1-based frame number below the first frame
        else do
        let frameSeq ← (if ds.tiledFull.isSome && Gen.tiledFullHasNoFrameGroups then pure none
          else (pyIndex ds.perFrame (genInt (Gen.frameGroupIndex f))).map some : Except ErrKind (Option Groups))
        let m ← lookupIn (chainOrder "PixelMeasuresSequence") ds.shared frameSeq (·.measures)
        match cs with
        | .slide => do
          let pos ← (match ds.tiledFull with
            | some tf => tiledFramePosition ds tf f
            | none => lookupIn (chainOrder "PlanePositionSlideSequence") ds.shared frameSeq (·.posSlide))
          pure (pos, ds.oriSlide, m.1, m.2)
        | .patient => do
          let pos ← lookupIn (chainOrder "PlanePositionSequence") ds.shared frameSeq (·.posPatient)
          let ori ← lookupIn (chainOrder "PlaneOrientationSequence") ds.shared frameSeq (·.oriPatient)
          pure (pos, ori, m.1, m.2)
    else
      match frameNumber with
      | some f => if f ≠ 1 then .error .type else pure (ds.rootPos, ds.rootOri, ds.rootPs, ds.rootSbs)
      | none => pure (ds.rootPos, ds.rootOri, ds.rootPs, ds.rootSbs)

/-! ## `for_image` of the four one-image classes, `for_images` of the two-image classes -/

def pixToRefForImage (ds : ImageDs) (frameNumber : Option Int) (forTotal : Bool) : Except ErrKind Aff := do
  let s ← getSpatialInformation ds frameNumber forTotal
  let c := Gen.pixToRefForImage s.1 s.2.1 s.2.2.1 s.2.2.2
  pixToRefAffine c.1 c.2.1 (.seq c.2.2.1)

def imgToRefForImage (ds : ImageDs) (frameNumber : Option Int) (forTotal : Bool) : Except ErrKind Aff := do
  let s ← getSpatialInformation ds frameNumber forTotal
  let c := Gen.imgToRefForImage s.1 s.2.1 s.2.2.1 s.2.2.2
  imgToRefAffine c.1 c.2.1 (.seq c.2.2.1)

def refToPixForImage (ds : ImageDs) (frameNumber : Option Int) (forTotal : Bool) : Except ErrKind Aff := do
  let s ← getSpatialInformation ds frameNumber forTotal
  let c := Gen.refToPixForImage s.1 s.2.1 s.2.2.1 (s.2.2.2.getD Gen.refToPixForImageDefaultSliceSpacing)
  invAffineFromAttributes c.1 c.2.1 (.seq c.2.2.1) (c.2.2.2.getD Gen.invAffineDefaultSpacingBetweenSlices)

def refToImgForImage (ds : ImageDs) (frameNumber : Option Int) (forTotal : Bool) : Except ErrKind Aff := do
  let s ← getSpatialInformation ds frameNumber forTotal
  let c := Gen.refToImgForImage s.1 s.2.1 s.2.2.1 (s.2.2.2.getD Gen.refToImgForImageDefaultSliceSpacing)
  refToImgAffine c.1 c.2.1 (.seq c.2.2.1) (c.2.2.2.getD Gen.invAffineDefaultSpacingBetweenSlices)

/-- the two tests every `for_images` starts with (statement order and ValueError pinned by TC10g): both datasets have a
FrameOfReferenceUID, and it is the same one -/
def sameFrameOfReference (dsF dsT : ImageDs) : Except ErrKind Unit :=
  match dsF.frameOfReference, dsT.frameOfReference with
  | some a, some b => if a ≠ b then .error .value else .ok ()
  | _, _ => .error .value

/-- `PixelToPixelTransformer.for_images` -/
def pixToPixForImages (dsF dsT : ImageDs) (frameF frameT : Option Int) (totalF totalT : Bool) : Except ErrKind Aff := do
  sameFrameOfReference dsF dsT
  let f ← getSpatialInformation dsF frameF totalF
  let t ← getSpatialInformation dsT frameT totalT
  let c := Gen.pixToPixForImages f.1 f.2.1 f.2.2.1 t.1 t.2.1 t.2.2.1
  pixToPixAffine c.1 c.2.1 (.seq c.2.2.1) c.2.2.2.1 c.2.2.2.2.1 (.seq c.2.2.2.2.2)

def imgToImgForImages (dsF dsT : ImageDs) (frameF frameT : Option Int) (totalF totalT : Bool) : Except ErrKind Aff := do
  sameFrameOfReference dsF dsT
  let f ← getSpatialInformation dsF frameF totalF
  let t ← getSpatialInformation dsT frameT totalT
  let c := Gen.imgToImgForImages f.1 f.2.1 f.2.2.1 t.1 t.2.1 t.2.2.1
  imgToImgAffine c.1 c.2.1 (.seq c.2.2.1) c.2.2.2.1 c.2.2.2.2.1 (.seq c.2.2.2.2.2)

end HdVerif.Affine
