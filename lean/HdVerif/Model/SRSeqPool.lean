import HdVerif.Model.SRContentSeq
/-! # Several names for several sequences: shallow copies, deep copies, pickling (property C14)

`ContentSequence` defines no `__copy__` / `__deepcopy__` / `__reduce__` (`Gen.csMethods`, theorem `method_set_pinned`),
so the three standard ways to duplicate one behave as CPython's defaults do on an object with a `__dict__`
(`_list`, `_lut`, `_is_root`, `_is_sr`):

* `copy.copy(seq)` copies the `__dict__` shallowly: the new object holds THE SAME list and THE SAME index — it is a
  second name for the one sequence (every later operation through either name is seen through both);
* `copy.deepcopy(seq)` and `pickle.loads(pickle.dumps(seq))` rebuild list and index from copies of the items, the
  copy of an item standing in the copied list wherever the item stood and in the copied index wherever it was filed
  (the memo keeps one copy per object): an independent sequence of NEW objects that are `==` the old ones.

The pool of `Model/SRContentSeq.lean` (`poolStep`: independent values) cannot say "second name"; here a pool is a
list of SLOTS (the sequences that exist) and a list of MEMBERS (the names the history uses, each pointing at a slot).
`clone` / `attach` are `poolStep`'s own constructions (so the bridge `tie_attribute_setter_flags` speaks about what
runs here); an operation that returns a new object (`find`, `get_nodes`) re-points the member.

Tie: correspondence only (CPython's copy protocol is not /repo code) — pool histories of `harness/corr/C14.py` with
`copy` / `deepcopy` / `pickle` steps, every member observed after every step. -/
namespace HdVerif.SRSeqPool
open HdVerif HdVerif.SRContentSeq

structure APool where
  slots : List Seq
  members : List Nat
  copies : Nat            -- deep copies made so far (their objects get identities nobody has)

inductive APoolOp
  | base (op : PoolOp)    -- an operation on a member / `clone` / `attach`, as in `poolStep`
  | copy (i : Nat)        -- `copy.copy(pool[i])`
  | deepcopy (i : Nat)    -- `copy.deepcopy(pool[i])`, `pickle.loads(pickle.dumps(pool[i]))`
  deriving Repr

/-- the identities of the k-th deep copy's objects (sums of distinct powers of two: no two lineages collide) -/
def freshObj (k : Nat) (o : Nat) : Nat := o + 1000000 * 2 ^ k

/-- at most three members; a fourth takes the last place -/
def putMember (members : List Nat) (slot : Nat) : List Nat :=
  if members.length < 3 then members ++ [slot] else members.set 2 slot

/-- the sequence a `clone` / `attach` of `s` constructs — by `poolStep` itself -/
def derive (s : Seq) (op : PoolOp) : Except ErrKind Seq :=
  match poolStep [s] op with
  | ([_, q], none) => .ok q
  | (_, some e) => .error e
  | _ => .error .runtime

/-- does the operation hand back a NEW sequence object (the member is re-pointed) rather than change the old one -/
def rebinds : Op → Bool
  | .intoFind _ => true
  | .intoNodes => true
  | _ => false

def slotOf (p : APool) (i : Nat) : Option Nat := p.members[i % p.members.length]?

def apoolStep (p : APool) : APoolOp → APool × Option ErrKind
  | .base (.on i op) =>
    match slotOf p i with
    | none => (p, some .index)
    | some k => match p.slots[k]? with
      | none => (p, some .index)
      | some s => match step s op with
        | (s', e) =>
          if rebinds op && e.isNone then
            ({ p with slots := p.slots ++ [s'], members := p.members.set (i % p.members.length) p.slots.length }, e)
          else ({ p with slots := p.slots.set k s' }, e)
  | .base (.clone i) =>
    match slotOf p i with
    | none => (p, some .index)
    | some k => match p.slots[k]? with
      | none => (p, some .index)
      | some s => match derive s (.clone 0) with
        | .ok q => ({ p with slots := p.slots ++ [q], members := putMember p.members p.slots.length }, none)
        | .error e => (p, some e)
  | .base (.attach i) =>
    match slotOf p i with
    | none => (p, some .index)
    | some k => match p.slots[k]? with
      | none => (p, some .index)
      | some s => match derive s (.attach 0) with
        | .ok q => ({ p with slots := p.slots ++ [q], members := putMember p.members p.slots.length }, none)
        | .error e => (p, some e)
  | .copy i =>
    match slotOf p i with
    | none => (p, some .index)
    | some k => ({ p with members := putMember p.members k }, none)
  | .deepcopy i =>
    match slotOf p i with
    | none => (p, some .index)
    | some k => match p.slots[k]? with
      | none => (p, some .index)
      | some s =>
        ({ slots := p.slots ++ [relabel (freshObj (p.copies + 1)) s], members := putMember p.members p.slots.length,
           copies := p.copies + 1 }, none)

def apoolRun (p : APool) : List APoolOp → APool
  | [] => p
  | op :: ops => apoolRun (apoolStep p op).1 ops

/-- what the history sees: the sequence behind every member -/
def view (p : APool) : List Seq := p.members.filterMap (fun k => p.slots[k]?)

def start (s : Seq) : APool := { slots := [s], members := [0], copies := 0 }

end HdVerif.SRSeqPool
