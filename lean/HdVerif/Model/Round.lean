/-! numpy / Python 3 rounding of one number: round half to even (`np.round`, `np.around`, `round`).
Used by translated targets (spec key `imports: ['HdVerif.Model.Round']`). -/
namespace HdVerif

/-- `np.round(x)` for a rational `x`: nearest integer, ties to the even neighbour. -/
def roundHalfEven (x : Rat) : Int :=
  let f := Rat.floor x
  let d := x - (f : Rat)
  if d < 1 / 2 then f
  else if 1 / 2 < d then f + 1
  else if f % 2 = 0 then f else f + 1

end HdVerif
