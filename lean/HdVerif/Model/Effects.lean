import HdVerif.Model.Basic
/-! C02 (purity of reads): a store model for "does this code write to the object's stored pixel cells?".

A translation target (T8h, `translate/targets_C02.py`) turns every assignment statement of a Python function into
one `Stmt` (names are numbered, 0 = `self`; the generated file carries the name table): which name is assigned (the base name for `x[...] = e` / `x.a = e`), whether the statement *rebinds* the name
(`x = e`) or writes *in place* (`x op= e`, `x[...] = e`, `x.a = e`), and what the right-hand side can be: the object's
stored pixel data or a view of it (`stored`), something that may share memory with given names (`view`: a name, a slice /
reshape / transpose of a name; `unknown`: any other expression, conservatively sharing with every name it mentions), or
a new array / scalar (`fresh`: arithmetic, comparisons, `np.zeros`, `astype`, `flatten`, `copy`, …).

`mayAlias` is the flow-insensitive may-alias set of the object's cells; `pureProg` says it is closed under all
statements and that no in-place statement targets a name in it.  `Proofs/Effects.lean` proves the analysis sound
against an operational semantics with locations. -/
namespace HdVerif.Effects

inductive Rhs
  | stored                      -- the object's stored pixel data, or a view of it
  | view (names : List Nat)  -- may share memory with any of these names
  | unknown (names : List Nat)
  | fresh
  deriving DecidableEq, Repr, Inhabited

structure Stmt where
  target : Nat
  inplace : Bool
  rhs : Rhs
  deriving DecidableEq, Repr, Inhabited

def Rhs.names : Rhs → List Nat
  | .view ns => ns
  | .unknown ns => ns
  | _ => []

/-- one statement's contribution to the may-alias set -/
def aliasStep (al : List Nat) (s : Stmt) : List Nat :=
  if s.inplace then al
  else match s.rhs with
    | .stored => if al.contains s.target then al else s.target :: al
    | .fresh => al
    | r => if r.names.any al.contains && !al.contains s.target then s.target :: al else al

def aliasPass (prog : List Stmt) (al : List Nat) : List Nat := prog.foldl aliasStep al

def iterate (f : List Nat → List Nat) : Nat → List Nat → List Nat
  | 0, al => al
  | n + 1, al => iterate f n (f al)

/-- names that may refer to the object's cells: `init` (the object itself and parameters assumed to alias it), closed
under the statements — six passes in source order; that the result is a fixpoint is re-checked by `closed` (soundness
needs closedness only: too few passes make `pureProg` fail, never pass wrongly) -/
def mayAlias (init : List Nat) (prog : List Stmt) : List Nat :=
  iterate (aliasPass prog) 6 init

/-- `al` is closed under every (rebinding) statement of the program -/
def closed (al : List Nat) (prog : List Stmt) : Bool :=
  prog.all fun s =>
    s.inplace ||
    (match s.rhs with
     | .stored => al.contains s.target
     | .fresh => true
     | r => !(r.names.any al.contains) || al.contains s.target)

/-- no statement writes in place through a name that may refer to the object's cells -/
def noObjectWrite (al : List Nat) (prog : List Stmt) : Bool :=
  prog.all fun s => !(s.inplace && al.contains s.target)

/-- the program never writes to the object's cells (by this analysis) -/
def pureProg (init : List Nat) (prog : List Stmt) : Bool :=
  let al := mayAlias init prog
  init.all al.contains && closed al prog && noObjectWrite al prog

/-! ### operational semantics: names refer to locations, location 0 is the object's stored pixel cells -/

structure St where
  env : Nat → Option Nat
  store : Nat → Nat

def St.bind (σ : St) (x : Nat) (l : Option Nat) : St := { σ with env := fun y => if y = x then l else σ.env y }
def St.write (σ : St) (l v : Nat) : St := { σ with store := fun k => if k = l then v else σ.store k }

/-- one execution step of *some* statement of the program (which statement runs next, how often, and what the unknown
parts evaluate to is left open: any interleaving of the statements is an execution, which covers branches and loops) -/
inductive Step (prog : List Stmt) : St → St → Prop
  | bindStored (s : Stmt) (hs : s ∈ prog) (hi : s.inplace = false) (hr : s.rhs = .stored) (σ : St) :
      Step prog σ (σ.bind s.target (some 0))
  | bindNew (s : Stmt) (hs : s ∈ prog) (hi : s.inplace = false) (l : Nat) (hl : l ≠ 0) (σ : St) :
      Step prog σ (σ.bind s.target (some l))
  | bindAlias (s : Stmt) (hs : s ∈ prog) (hi : s.inplace = false) (n : Nat) (hn : n ∈ s.rhs.names) (σ : St) :
      Step prog σ (σ.bind s.target (σ.env n))
  | writeInPlace (s : Stmt) (hs : s ∈ prog) (hi : s.inplace = true) (l v : Nat) (σ : St) (hl : σ.env s.target = some l) :
      Step prog σ (σ.write l v)

inductive Exec (prog : List Stmt) : St → St → Prop
  | refl (σ : St) : Exec prog σ σ
  | step {σ₁ σ₂ σ₃ : St} : Exec prog σ₁ σ₂ → Step prog σ₂ σ₃ → Exec prog σ₁ σ₃

/-- only names of `al` refer to the object's cells -/
def Inv (al : List Nat) (σ : St) : Prop := ∀ x, σ.env x = some 0 → x ∈ al

end HdVerif.Effects
