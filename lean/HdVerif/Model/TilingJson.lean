import HdVerif.Model.Json
import HdVerif.Model.Tiling
import HdVerif.Model.TilingChannels
/-! JSON entry points of the tiling model, shared by `Drivers/C04.lean` and `Drivers/C12.lean`.

Arrays travel as nested lists of integers; inside the model a pixel is an `Option Int` (`none` = an index
outside the array that was sent — reaching one is reported as an `index` error, never defaulted). -/
namespace HdVerif.TilingDrv
open Lean HdVerif HdVerif.Drv HdVerif.Gen HdVerif.Tiling

abbrev Px := Option Int

def imgOfLists (ll : List (List Int)) : Img Px := fun i j =>
  if i < 0 ∨ j < 0 then none else
  match ll[i.toNat]? with
  | none => none
  | some row => row[j.toNat]?

def getMatrix (v : Json) : Except String (List (List Int)) := do
  let a ← v.getArr?
  a.toList.mapM (fun r => do
    let ra ← r.getArr?
    ra.toList.mapM (·.getInt?))

def getMatrixKey (j : Json) (k : String) : Except String (List (List Int)) := do
  getMatrix (← j.getObjVal? k)

def getMatrixList (j : Json) (k : String) : Except String (List (List (List Int))) := do
  let a ← getArr j k
  a.toList.mapM getMatrix

/-- tabulate an `h × w` array; a `none` pixel is an error -/
def tabulate (h w : Int) (img : Img Px) : Except ErrKind (List (List Int)) :=
  (iota h).mapM (fun i => (iota w).mapM (fun j =>
    match img i j with
    | some v => .ok v
    | none => .error .index))

def matrixToJson (m : List (List Int)) : Json := Json.arr (m.map intsToJson).toArray

def regionToJson (r : Except ErrKind (Int × Int × Img Px)) : Json :=
  match r with
  | .error e => Json.mkObj [("err", Json.str e.toString)]
  | .ok (h, w, img) =>
    match tabulate h w img with
    | .error e => Json.mkObj [("err", Json.str ("tabulate-" ++ e.toString))]
    | .ok m => Json.mkObj [("ok", Json.mkObj [("shape", intsToJson [h, w]), ("data", matrixToJson m)])]

def getLut (j : Json) (k : String) : Except String (List LutRow) := do
  let a ← getArr j k
  a.toList.mapM (fun r => do
    let ra ← r.getArr?
    match ra.toList with
    | [rp, cp, fi, ch] => pure ⟨← rp.getInt?, ← cp.getInt?, ← fi.getNat?, ← ch.getInt?⟩
    | _ => throw "lut row must be [rp, cp, fi, ch]")

def getGeo (j : Json) (k : String) : Except String Geo := do
  match ← getRatList j k with
  | [ox, oy, oz, rx, ry, rz, cx, cy, cz, sr, sc] => pure ⟨ox, oy, oz, rx, ry, rz, cx, cy, cz, sr, sc⟩
  | _ => throw "geo must be [ox,oy,oz, rx,ry,rz, cx,cy,cz, sr,sc]"

/-- a region request `[rs, re, cs, ce, as_indices]` with `null` for None -/
structure Req where
  rs : Option Int
  re : Option Int
  cs : Option Int
  ce : Option Int
  asIdx : Bool

def optInt (v : Json) : Except String (Option Int) :=
  match v with
  | .null => pure none
  | _ => some <$> v.getInt?

def getReqs (j : Json) (k : String) : Except String (List Req) := do
  let a ← getArr j k
  a.toList.mapM (fun r => do
    let ra ← r.getArr?
    match ra.toList with
    | [a, b, c, d, e] => pure ⟨← optInt a, ← optInt b, ← optInt c, ← optInt d, ← jsonToBool e⟩
    | _ => throw "request must be [rs, re, cs, ce, as_indices]")

def pairsToJson (l : List (Int × Int)) : Json := Json.arr (l.map (fun p => intsToJson [p.1, p.2])).toArray

def getPairs (j : Json) (k : String) : Except String (List (Int × Int)) := do
  let a ← getArr j k
  a.toList.mapM (fun r => do
    let ra ← r.getArr?
    match ra.toList with
    | [x, y] => pure (← x.getInt?, ← y.getInt?)
    | _ => throw "pair expected")

def getOptChannels (j : Json) (k : String) : Except String (List (Option Int)) := do
  let a ← getArr j k
  a.toList.mapM optInt

def handlers : List (String × Handler) := [
  ("stdRowCol", fun j => do
    let r := stdRowColIndices (← getOptInt j "rs") (← getOptInt j "re") (← getOptInt j "cs") (← getOptInt j "ce")
      (← getInt j "rows") (← getInt j "cols") (← getBool j "as_indices") (← getBool j "out_idx")
    pure (exceptToJson (fun (v : Int × Int × Int × Int) => intsToJson [v.1, v.2.1, v.2.2.1, v.2.2.2]) r)),
  -- the instruction list `_iterate_indices_for_tiled_region` yields for one request (L2)
  ("instructions", fun j => do
    let lut ← getLut j "lut"
    let th ← getInt j "th"; let tw ← getInt j "tw"
    let r : Except ErrKind (List Instr × Int × Int) :=
      match stdRowColIndices (← getOptInt j "rs") (← getOptInt j "re") (← getOptInt j "cs") (← getOptInt j "ce")
          (← getInt j "rows") (← getInt j "cols") (← getBool j "as_indices") false with
      | .error e => .error e
      | .ok (r0, r1, c0, c1) =>
        match regionInstrs lut r0 r1 c0 c1 th tw with
        | .error e => .error e
        | .ok l => .ok (l, r1 - r0, c1 - c0)
    pure (exceptToJson (fun (v : List Instr × Int × Int) => Json.mkObj [
      ("shape", intsToJson [v.2.1, v.2.2]),
      ("instr", Json.arr (v.1.map (fun i => intsToJson [i.fi, i.a0, i.a1, i.b0, i.b1, i.o0, i.o1, i.p0, i.p1])).toArray)]) r)),
  -- several region reads of one image
  ("readRegions", fun j => do
    let frames := (← getMatrixList j "frames").map imgOfLists
    let rows ← getInt j "rows"; let cols ← getInt j "cols"
    let th ← getInt j "th"; let tw ← getInt j "tw"
    let full ← getBool j "full"
    let allowMissing ← getBool j "allow_missing"
    let chan ← getOptInt j "chan"
    let lut : Except ErrKind (List LutRow) ←
      if full then pure (tiledFullLut (← getOptChannels j "channels") (match getInt j "planes" with | .ok p => p | .error _ => 1) th tw rows cols)
      else pure (.ok (← getLut j "lut"))
    let reqs ← getReqs j "requests"
    match lut with
    | .error e => pure (Json.mkObj [("err", Json.str e.toString)])
    | .ok lut =>
      -- "volume": true = the same requests through the tiled branch of `Image.get_volume` (normalised twice)
      let viaVolume := match getBool j "volume" with | .ok b => b | .error _ => false
      pure (okJson (Json.arr (reqs.map (fun q =>
        regionToJson (if viaVolume then readVolumeRegion (some 0) lut frames rows cols th tw chan q.rs q.re q.cs q.ce q.asIdx full allowMissing
                      else readRegion (some 0) lut frames rows cols th tw chan q.rs q.re q.cs q.ce q.asIdx full allowMissing))).toArray))),
  -- Segmentation(tile_pixel_array=True) then get_total_pixel_matrix, several requests, one channel each
  ("tileThenRead", fun j => do
    let ms := (← getMatrixList j "matrices").map imgOfLists
    let segs ← getIntList j "segments"
    let R ← getInt j "rows"; let C ← getInt j "cols"
    let tr ← getInt j "th"; let tc ← getInt j "tw"
    let full ← getBool j "full"; let omitE ← getBool j "omit_empty"
    let chans ← getIntList j "chans"
    let reqs ← getReqs j "requests"
    pure (okJson (Json.arr (reqs.map (fun q => Json.arr (chans.map (fun ch =>
      regionToJson (tileThenRead (some 0) (segs.zip ms) R C tr tc full omitE ch q.rs q.re q.cs q.ce q.asIdx))).toArray)).toArray))),
  -- what the constructor stores: table rows and frames (L1)
  ("cutSegments", fun j => do
    let ms := (← getMatrixList j "matrices").map imgOfLists
    let segs ← getIntList j "segments"
    let R ← getInt j "rows"; let C ← getInt j "cols"
    let tr ← getInt j "th"; let tc ← getInt j "tw"
    let omitE ← getBool j "omit_empty"
    let r : Except ErrKind (List LutRow × List (List (List Int))) :=
      match tileOffsets tr tc R C with
      | .error e => .error e
      | .ok offs =>
        match keepMask (some 0) (segs.zip ms) R C tr tc offs omitE with
        | .error e => .error e
        | .ok keep =>
          match cutSegments (some 0) R C tr tc offs (segs.zip ms) keep 0 with
          | .error e => .error e
          | .ok (lut, frames) =>
            match frames.mapM (tabulate tr tc) with
            | .error e => .error e
            | .ok fr => .ok (lut, fr)
    pure (exceptToJson (fun (v : List LutRow × List (List (List Int))) => Json.mkObj [
      ("lut", Json.arr (v.1.map (fun r => intsToJson [r.rp, r.cp, r.fi, r.ch])).toArray),
      ("frames", Json.arr (v.2.map matrixToJson).toArray)]) r)),
  -- Segmentation(tile_pixel_array=True), then a HISTORY of segment-aware reads on that one object: per step the result of the read
  -- (one region per output channel) and the rows of the temporary channel table afterwards (null: no table)
  ("segHistory", fun j => do
    let ms := (← getMatrixList j "matrices").map imgOfLists
    let segs ← getIntList j "segments"
    let R ← getInt j "rows"; let C ← getInt j "cols"
    let tr ← getInt j "th"; let tc ← getInt j "tw"
    let full ← getBool j "full"; let omitE ← getBool j "omit_empty"
    let stepsJ ← getArr j "steps"
    let steps : List ChanRead ← stepsJ.toList.mapM (fun sj => do
      let data ← getPairs sj "data"
      match ← getReqs sj "request" with
      | [q] => pure (⟨data, ← getInt sj "nch", q.rs, q.re, q.cs, q.ce, q.asIdx, ← getBool sj "refuses",
                      (match getBool sj "labelmap" with | .ok b => b | .error _ => false)⟩ : ChanRead)
      | _ => throw "request must be a one-element list")
    match tiledSegTable (some 0) (segs.zip ms) R C tr tc full omitE with
    | .error e => pure (Json.mkObj [("err", Json.str e.toString)])
    | .ok (lut, frames) =>
      -- with locks: whether the iterator closes its cursor is regenerated (T4t); `kept`: the caller keeps the exceptions
      let kept := match getBool j "exceptions_kept" with | .ok b => b | .error _ => false
      let results := (runHistoryL (some 0) lut frames R C tr tc full true tiledRegionCursorClosedOnExit kept steps ⟨none, false⟩).1
      let states := historyStatesL (some 0) lut frames R C tr tc full true tiledRegionCursorClosedOnExit kept steps ⟨none, false⟩
      let resJ := (results.zip steps).map (fun (rq : Except ErrKind (Int × Int × (Int → Img Px)) × ChanRead) =>
        match rq.1 with
        | .error e => Json.mkObj [("err", Json.str e.toString)]
        | .ok (h, w, out) => okJson (Json.arr ((iota rq.2.nch).map (fun k => regionToJson (.ok (h, w, out k)))).toArray))
      let stJ := states.map (fun st => match st with
        | none => Json.null
        | some t => pairsToJson t)
      pure (okJson (Json.mkObj [("results", Json.arr resJ.toArray), ("states", Json.arr stJ.toArray)]))),
  ("tileIndexEnum", fun j => do
    let r := tileIndexEnum (← getInt j "R") (← getInt j "C") (← getInt j "tr") (← getInt j "tc")
    pure (exceptToJson pairsToJson r)),
  ("tileOffsets", fun j => do
    let r := tileOffsets (← getInt j "tr") (← getInt j "tc") (← getInt j "R") (← getInt j "C")
    pure (exceptToJson pairsToJson r)),
  ("tilePositions", fun j => do
    let r := tilePositions (← getInt j "tr") (← getInt j "tc") (← getInt j "R") (← getInt j "C") (← getGeo j "geo")
    pure (exceptToJson (fun (l : List ((Int × Int) × (Rat × Rat × Rat))) => Json.arr (l.map (fun p =>
      Json.arr #[(p.1.1 : Json), (p.1.2 : Json), ratToJson p.2.1, ratToJson p.2.2.1, ratToJson p.2.2.2])).toArray) r)),
  ("iterTiledFull", fun j => do
    let r := iterTiledFull (← getOptChannels j "channels") (← getInt j "planes") (← getInt j "tr") (← getInt j "tc")
      (← getInt j "R") (← getInt j "C") (← getGeo j "geo") (← getRat j "sbs")
    pure (exceptToJson (fun (l : List (Option Int × Int × Int × Int × Rat × Rat × Rat)) => Json.arr (l.map (fun p =>
      Json.arr #[(match p.1 with | some c => (c : Json) | none => Json.null), (p.2.1 : Json), (p.2.2.1 : Json), (p.2.2.2.1 : Json),
        ratToJson p.2.2.2.2.1, ratToJson p.2.2.2.2.2.1, ratToJson p.2.2.2.2.2.2])).toArray) r)),
  ("channelNumbers", fun j => do
    pure (okJson (Json.arr ((channelNumbers (← getInt j "n")).map (fun c => match c with | some v => (v : Json) | none => Json.null)).toArray))),
  ("framePosition", fun j => do
    let r := framePosition (← getOptChannels j "channels") (← getInt j "planes") (← getInt j "tr") (← getInt j "tc")
      (← getInt j "R") (← getInt j "C") (← getGeo j "geo") (← getRat j "sbs") (← getInt j "k")
    pure (exceptToJson (fun (p : Rat × Rat × Rat) => Json.arr #[ratToJson p.1, ratToJson p.2.1, ratToJson p.2.2]) r)),
  ("planePositionTiledFull", fun j => do
    let z3d : Option (Int × Rat) ← (do
      match ← getOptInt j "slice_index" with
      | none => pure none
      | some si => pure (some (si, ← getRat j "sbs")))
    let r := planePositionTiledFull (← getInt j "row_index") (← getInt j "col_index") (← getInt j "tr") (← getInt j "tc")
      (← getGeo j "geo") z3d
    pure (exceptToJson (fun (p : Int × Int × Rat × Rat × Rat) =>
      Json.arr #[(p.1 : Json), (p.2.1 : Json), ratToJson p.2.2.1, ratToJson p.2.2.2.1, ratToJson p.2.2.2.2]) r)),
  ("arePlanePositionsTiledFull", fun j => do
    let r := arePlanePositionsTiledFull (← getPairs j "positions") (← getInt j "rows") (← getInt j "cols")
    pure (exceptToJson (fun (b : Bool) => Json.bool b) r)),
  ("getTileArray", fun j => do
    let m ← getMatrixKey j "M"
    let R ← getInt j "R"; let C ← getInt j "C"
    let ro ← getInt j "ro"; let co ← getInt j "co"
    let tr ← getInt j "tr"; let tc ← getInt j "tc"
    let r : Except ErrKind (Int × Int × Img Px) :=
      match getTileShape R C ro co tr tc, getTileArray (some 0) (imgOfLists m) R C ro co tr tc with
      | .ok (h, w), .ok t => .ok (h, w, t)
      | .error e, _ => .error e
      | _, .error e => .error e
    pure (regionToJson r)),
  ("cutPaste", fun j => do
    let m ← getMatrixKey j "M"
    let r := cutPaste (some 0) (imgOfLists m) (← getInt j "R") (← getInt j "C") (← getInt j "tr") (← getInt j "tc")
    pure (regionToJson r))
]

end HdVerif.TilingDrv
