import HdVerif.Model.Tiling
import HdVerif.Generated.T4t
import HdVerif.Generated.T4fv
import HdVerif.Generated.T4fw
/-! C04: segment-aware reads of a tiled image — the temporary channel table that is joined with the frame table
(`_prepare_channel_tables`, `_generate_temp_tables`), the channel axis of the output, and HISTORIES of reads on one object.

The SQL statements issued around the `with` body are regenerated from the source (`Gen.tempTableSetup`, `Gen.tempTableCleanup`,
`Gen.tempTableCleanupOnError`, T4t); what one statement does to the table (`tempOp`: a four-statement fragment of SQLite) is
written by hand and exercised against the real SQLite connection of the image by the correspondence (table contents after
every step of a history, L2). -/
namespace HdVerif.Tiling
open HdVerif HdVerif.Gen

/-- rows of a temporary channel table: (OutputChannelIndex — declared UNIQUE —, value of the joined column = segment number) -/
abbrev ChanTable := List (Int × Int)

/-- the temporary channel table in the image's SQLite connection: absent, or present with these rows -/
abbrev TempState := Option ChanTable

/-- no row of the table has OutputChannelIndex `k` -/
def keyFree (t : ChanTable) (k : Int) : Bool := t.all (fun r => r.1 != k)

/-- `executemany('INSERT [OR REPLACE] INTO t VALUES (?, ?)', rows)`, row by row.  A row whose OutputChannelIndex is already
present violates the UNIQUE constraint: with OR REPLACE the old row is deleted first, without it the statement fails
(IntegrityError, `none`). -/
def insertRows (orReplace : Bool) : ChanTable → ChanTable → Option ChanTable
  | t, [] => some t
  | t, r :: rest =>
    if keyFree t r.1 then insertRows orReplace (t ++ [r]) rest
    else if orReplace then insertRows orReplace (t.filter (fun x => x.1 != r.1) ++ [r]) rest
    else none

/-- one SQL statement of the regenerated programs on the table state: new state and the error raised, if any.
0 = DROP TABLE if it exists, 1 = DROP TABLE, 2 = CREATE TABLE (flag: IF NOT EXISTS), 3 = INSERT all rows (flag: OR REPLACE;
a failing insert is rolled back by `with self._db_con`, the table stays). -/
def tempOp (op : Nat × Bool) (data : ChanTable) (st : TempState) : TempState × Option ErrKind :=
  match op.1 with
  | 0 => (none, none)
  | 1 => (match st with
          | some _ => (none, none)
          | none => (none, some .other))
  | 2 => (match st with
          | none => (some [], none)
          | some t => if op.2 then (some t, none) else (some t, some .other))
  | 3 => (match st with
          | none => (none, some .other)
          | some t =>
            match insertRows op.2 t data with
            | some t' => (some t', none)
            | none => (some t, some .other))
  | _ => (st, some .other)

/-- a program of statements; stops at the first error -/
def runOps : List (Nat × Bool) → ChanTable → TempState → TempState × Option ErrKind
  | [], _, st => (st, none)
  | op :: ops, data, st =>
    match tempOp op data st with
    | (st', none) => runOps ops data st'
    | (st', some e) => (st', some e)

/-- `FrameLUT L INNER JOIN TemporaryChannelTable0 ON L.ReferencedSegmentNumber = T.ReferencedSegmentNumber`, selecting
`T.OutputChannelIndex`: every selected frame row paired with the output channel of every table row naming its segment -/
def joinRows (sel : List LutRow) (table : ChanTable) : List (LutRow × Int) :=
  sel.flatMap (fun r => (table.filter (fun t => t.2 == r.ch)).map (fun t => (r, t.1)))

/-- the copy loop of `_get_pixels_by_frame` with a channel axis: `out[o0:o1, p0:p1, k] = frame[a0:a1, b0:b1]`.
`k` is a numpy index on an axis of length `nch` (negative values count from the end, anything else outside is an IndexError). -/
def copyLoopCh {α} (frames : List (Img α)) (rs re cs ce th tw : Int) (oh ow nch : Int) :
    List (LutRow × Int) → (Int → Img α) → Except ErrKind (Int → Img α)
  | [], out => .ok out
  | (r, k) :: rest, out =>
    match instrOf rs re cs ce th tw r with
    | .error e => .error e
    | .ok ins =>
      match frames[r.fi]? with
      | none => .error .index
      | some fr =>
        let k' := if k < 0 then k + nch else k
        if k' < 0 ∨ nch ≤ k' then .error .index else
        match assignSlice (out k') oh ow fr th tw ins with
        | .error e => .error e
        | .ok o' => copyLoopCh frames rs re cs ce th tw oh ow nch rest (fun c => if c = k' then o' else out c)

/-- The body of the `with` block of a stacked segment-aware region read (`Segmentation.get_total_pixel_matrix`,
`combine_segments=False`), given the rows the temporary channel table holds AT THAT MOMENT (`none`: the table does not exist —
the join fails): missing-frame test, query (WHERE, ORDER BY, JOIN), copy loop into `nch` output channels. -/
def stackedBody {α} (z : α) (lut : List LutRow) (frames : List (Img α)) (th tw : Int) (table : TempState) (ndata : Int) (nch : Int)
    (r0 r1 c0 c1 cnt : Int) (full allowMissing : Bool) : Except ErrKind (Int × Int × (Int → Img α)) :=
  match table with
  | none => .error .other          -- sqlite3.OperationalError: no such table
  | some t =>
    let sel := (lut.filter (selected r0 r1 c0 c1 th tw)).mergeSort lutLe
    let J := joinRows sel t
    if !allowMissing && !full && (J.length : Int) ≠ cnt * ndata then .error .runtime else
    let oh := r1 - r0
    let ow := c1 - c0
    if oh < 0 ∨ ow < 0 ∨ nch < 0 then .error .value else
    match copyLoopCh frames r0 r1 c0 c1 th tw oh ow nch J (fun _ _ _ => z) with
    | .error e => .error e
    | .ok out => .ok (oh, ow, out)

/-- one segment-aware read request on a tiled segmentation -/
structure ChanRead where
  /-- `column_data` of the channel table: (output channel index or remapped label, segment number) per requested segment -/
  data : ChanTable
  /-- length of the channel axis of the output (`len(segment_numbers)`) -/
  nch : Int
  rs : Option Int
  re : Option Int
  cs : Option Int
  ce : Option Int
  asIdx : Bool
  /-- the options of the call are refused by `_get_pixels_by_seg_frame` (dtype, rescale/combine combination, unknown or repeated
  segment numbers, overlap …): an exception raised INSIDE the `with` block, after the table has been set up -/
  bodyRefuses : Bool
  /-- LABELMAP segmentation: the read makes NO channel query (`channel_indices = None`, no temporary table, `data` unused); the
  stored label matrix is read as one channel and split into segments afterwards (`_get_pixels_by_seg_frame`, C02) -/
  labelmap : Bool := false

/-- One segment-aware region read on an image whose connection holds the temporary-table state `st`: new state and result.
Order as in `_iterate_indices_for_tiled_region`: uniqueness test and request normalisation (refusals that leave the state alone),
then the set-up program, the body, and the clean-up program — which is skipped when the body raises unless the source wraps the
`yield` in `try … finally`. -/
def stepRead {α} (z : α) (lut : List LutRow) (frames : List (Img α)) (rows cols th tw : Int) (full allowMissing : Bool)
    (q : ChanRead) (st : TempState) : TempState × Except ErrKind (Int × Int × (Int → Img α)) :=
  if q.labelmap then
    -- `channel_table_defs = []`: the loops of `_generate_temp_tables` run over nothing; the read is the plain region read
    (st, match readRegion z lut frames rows cols th tw none q.rs q.re q.cs q.ce q.asIdx full allowMissing with
         | .error e => .error e
         | .ok (h, w, out) => if q.bodyRefuses then .error .value else .ok (h, w, fun _ => out))
  else
  if !(uniquePos lut) then (st, .error .runtime) else
  match stdRowColIndices q.rs q.re q.cs q.ce rows cols q.asIdx false with
  | .error e => (st, .error e)
  | .ok (r0, r1, c0, c1) =>
    match expectedCount r0 r1 c0 c1 th tw with
    | .error e => (st, .error e)
    | .ok cnt =>
      match runOps tempTableSetup q.data st with
      | (st1, some e) => (st1, .error e)
      | (st1, none) =>
        let res : Except ErrKind (Int × Int × (Int → Img α)) :=
          if q.bodyRefuses then .error .value
          else stackedBody z lut frames th tw st1 (q.data.length : Int) q.nch r0 r1 c0 c1 cnt full allowMissing
        match res with
        | .error e => ((if tempTableCleanupOnError then (runOps tempTableCleanup q.data st1).1 else st1), .error e)
        | .ok v =>
          match runOps tempTableCleanup q.data st1 with
          | (st2, some e) => (st2, .error e)
          | (st2, none) => (st2, .ok v)

/-- a history of reads on one object: results in order, and the final state -/
def runHistory {α} (z : α) (lut : List LutRow) (frames : List (Img α)) (rows cols th tw : Int) (full allowMissing : Bool) :
    List ChanRead → TempState → List (Except ErrKind (Int × Int × (Int → Img α))) × TempState
  | [], st => ([], st)
  | q :: qs, st =>
    let (st', res) := stepRead z lut frames rows cols th tw full allowMissing q st
    let (rest, stEnd) := runHistory z lut frames rows cols th tw full allowMissing qs st'
    (res :: rest, stEnd)

/-- the table states after every step of a history (what the correspondence compares with the real connection) -/
def historyStates {α} (z : α) (lut : List LutRow) (frames : List (Img α)) (rows cols th tw : Int) (full allowMissing : Bool) :
    List ChanRead → TempState → List TempState
  | [], _ => []
  | q :: qs, st =>
    let st' := (stepRead z lut frames rows cols th tw full allowMissing q st).1
    st' :: historyStates z lut frames rows cols th tw full allowMissing qs st'

/-! ## Table locks

While a cursor of a SELECT that joins the temporary table is open, SQLite refuses `DROP TABLE` on it ("database table is locked").
The frame query of a read is such a cursor: it is executed when the instruction generator is created (the first row is fetched at
once), so it is still open after the read iff the body raised — at any point — while the query had at least one row, the iterator
does not close it on exit (`Gen.tiledRegionCursorClosedOnExit`, T4t) and the caller holds on to the exception (whose traceback keeps
the generator, hence the cursor, alive). -/

/-- the connection: the temporary table and whether an abandoned frame query still locks it -/
structure Conn where
  table : TempState
  locked : Bool
  deriving DecidableEq

/-- one statement on a possibly locked table: the two DROP statements fail on a table that exists and is locked -/
def tempOpL (locked : Bool) (op : Nat × Bool) (data : ChanTable) (st : TempState) : TempState × Option ErrKind :=
  if locked && st.isSome && (op.1 == 0 || op.1 == 1) then (st, some .other) else tempOp op data st

def runOpsL (locked : Bool) : List (Nat × Bool) → ChanTable → TempState → TempState × Option ErrKind
  | [], _, st => (st, none)
  | op :: ops, data, st =>
    match tempOpL locked op data st with
    | (st', none) => runOpsL locked ops data st'
    | (st', some e) => (st', some e)

/-- `stepRead` on a connection with locks.  `closes`: the iterator closes the cursor of its frame query on every exit; `kept`: the
caller keeps the exception of a refused read (for the rest of the history). -/
def stepReadL {α} (z : α) (lut : List LutRow) (frames : List (Img α)) (rows cols th tw : Int) (full allowMissing : Bool)
    (closes kept : Bool) (q : ChanRead) (c : Conn) : Conn × Except ErrKind (Int × Int × (Int → Img α)) :=
  if q.labelmap then
    (c, match readRegion z lut frames rows cols th tw none q.rs q.re q.cs q.ce q.asIdx full allowMissing with
        | .error e => .error e
        | .ok (h, w, out) => if q.bodyRefuses then .error .value else .ok (h, w, fun _ => out))
  else
  if !(uniquePos lut) then (c, .error .runtime) else
  match stdRowColIndices q.rs q.re q.cs q.ce rows cols q.asIdx false with
  | .error e => (c, .error e)
  | .ok (r0, r1, c0, c1) =>
    match expectedCount r0 r1 c0 c1 th tw with
    | .error e => (c, .error e)
    | .ok cnt =>
      match runOpsL c.locked tempTableSetup q.data c.table with
      | (st1, some e) => (⟨st1, c.locked⟩, .error e)
      | (st1, none) =>
        let res : Except ErrKind (Int × Int × (Int → Img α)) :=
          if q.bodyRefuses then .error .value
          else stackedBody z lut frames th tw st1 (q.data.length : Int) q.nch r0 r1 c0 c1 cnt full allowMissing
        match res with
        | .error e =>
          -- is the cursor of the frame query still open?  (it was executed before the body ran; a query without rows is finished)
          let hasRows := match st1 with
            | some t => !(joinRows ((lut.filter (selected r0 r1 c0 c1 th tw)).mergeSort lutLe) t).isEmpty
            | none => false
          let open_ := hasRows && !closes
          ((⟨if tempTableCleanupOnError then (runOpsL open_ tempTableCleanup q.data st1).1 else st1, open_ && kept⟩ : Conn), .error e)
        | .ok v =>
          match runOpsL false tempTableCleanup q.data st1 with
          | (st2, some e) => (⟨st2, false⟩, .error e)
          | (st2, none) => (⟨st2, false⟩, .ok v)

def runHistoryL {α} (z : α) (lut : List LutRow) (frames : List (Img α)) (rows cols th tw : Int) (full allowMissing : Bool)
    (closes kept : Bool) : List ChanRead → Conn → List (Except ErrKind (Int × Int × (Int → Img α))) × Conn
  | [], c => ([], c)
  | q :: qs, c =>
    let (c', res) := stepReadL z lut frames rows cols th tw full allowMissing closes kept q c
    let (rest, cEnd) := runHistoryL z lut frames rows cols th tw full allowMissing closes kept qs c'
    (res :: rest, cEnd)

/-- the table states after every step, with locks -/
def historyStatesL {α} (z : α) (lut : List LutRow) (frames : List (Img α)) (rows cols th tw : Int) (full allowMissing : Bool)
    (closes kept : Bool) : List ChanRead → Conn → List TempState
  | [], _ => []
  | q :: qs, c =>
    let c' := (stepReadL z lut frames rows cols th tw full allowMissing closes kept q c).1
    c'.table :: historyStatesL z lut frames rows cols th tw full allowMissing closes kept qs c'

/-- the request `get_total_pixel_matrix(segment_numbers=segs, combine_segments=False)` makes: channel `k` of the output is
segment `segs[k]` -/
def stackedRequest (segs : List Int) (rs re cs ce : Option Int) (asIdx : Bool) : ChanRead :=
  ⟨(segs.zipIdx).map (fun (p : Int × Nat) => ((p.2 : Int), p.1)), (segs.length : Int), rs, re, cs, ce, asIdx, false, false⟩

/-- a read of a LABELMAP segmentation: no channel query -/
def labelmapRequest (rs re cs ce : Option Int) (asIdx : Bool) : ChanRead :=
  ⟨[], 1, rs, re, cs, ce, asIdx, false, true⟩

/-- frames and frame table of `Segmentation(tile_pixel_array=True)` as a reader sees them (`tileThenRead` up to the read):
tile offsets, which tiles are kept, the TILED_FULL / `omit_empty_frames` refusal, the tiling loop, explicit or implied table -/
def tiledSegTable {α} [BEq α] (z : α) (Ms : List (Int × Img α)) (R C tr tc : Int) (full omitEmpty : Bool) :
    Except ErrKind (List LutRow × List (Img α)) :=
  match tileOffsets tr tc R C with
  | .error e => .error e
  | .ok offs =>
    match keepMask z Ms R C tr tc offs omitEmpty with
    | .error e => .error e
    | .ok keep =>
      match (if full && omitEmpty then allTilesEmpty z Ms R C tr tc offs else .ok true) with
      | .error e => .error e
      | .ok allEmpty =>
      if full && omitEmpty && !allEmpty then .error .value else
      match cutSegments z R C tr tc offs Ms keep 0 with
      | .error e => .error e
      | .ok (lutSparse, frames) =>
        let lut : Except ErrKind (List LutRow) :=
          if full then tiledFullLut (Ms.map (fun m => some m.1)) 1 tr tc R C else .ok lutSparse
        match lut with
        | .error e => .error e
        | .ok lut => .ok (lut, frames)

/-- `Segmentation(tile_pixel_array=True)`, then a history of segment-aware reads on that one object -/
def tileThenHistory {α} [BEq α] (z : α) (Ms : List (Int × Img α)) (R C tr tc : Int) (full omitEmpty : Bool)
    (steps : List ChanRead) : Except ErrKind (List (Except ErrKind (Int × Int × (Int → Img α)))) :=
  match tiledSegTable z Ms R C tr tc full omitEmpty with
  | .error e => .error e
  | .ok (lut, frames) => .ok (runHistory z lut frames R C tr tc full true steps none).1

/-- `Image.get_volume` on a tiled image, pixel part: the request is normalised once to 0-based indices (regenerated call flags,
`Gen.volumeStdCall`) and the results are handed to the total-pixel-matrix read as indices (`Gen.volumeTpmCall`) -/
def readVolumeRegion {α} (z : α) (lut : List LutRow) (frames : List (Img α)) (rows cols th tw : Int)
    (chan : Option Int) (rs re cs ce : Option Int) (asIdx full allowMissing : Bool) : Except ErrKind (Int × Int × Img α) :=
  match volumeStdCall asIdx with
  | .error e => .error e
  | .ok (ai, oi) =>
    match stdRowColIndices rs re cs ce rows cols ai oi with
    | .error e => .error e
    | .ok (a, b, c, d) =>
      match volumeTpmCall a b c d with
      | .error e => .error e
      | .ok (a', b', c', d', ai') =>
        readRegion z lut frames rows cols th tw chan (some a') (some b') (some c') (some d') ai' full allowMissing


end HdVerif.Tiling
