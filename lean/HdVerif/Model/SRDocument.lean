import HdVerif.Model.SREvidence
import HdVerif.Generated.T15i
/-! C15: the SR document constructors WITH their options (`sr/sop.py`, `_SR.__init__` and the three public classes).

`SREvidence.buildSR` is the decision core (evidence, verification guard, content conversion, evidence collection, SCOORD3D
guard).  `constructSR` puts the option handling around it, as the source does: the transfer-syntax guard right after the
evidence guard, the three flags (`Gen.srCompletionFlag`, `Gen.srPreliminaryFlag`, `Gen.srVerificationFlag`), the verifying
observer item, institution / department (`Gen.srInstitutionStored`), performed procedure codes, requested procedures.
Everything named `Gen.*` is regenerated from the current source on every run (T15i, T15a).  Option VALUES are opaque strings
(names, codes as "value|scheme|meaning", requested-procedure items in canonical form): the model says WHICH argument lands in
WHICH attribute and when. -/
namespace HdVerif.SREvidence
open HdVerif

/-- the optional arguments of the document constructors that are not part of `DocArgs` -/
structure Options where
  isComplete : Bool := false
  isFinal : Bool := false
  observer : Option String := none          -- verifying_observer_name
  organization : Option String := none      -- verifying_organization
  institution : Option String := none       -- institution_name
  department : Option String := none        -- institutional_department_name
  procedureCodes : Option (List String) := none
  requested : Option (List String) := none
  transferSyntax : String := "1.2.840.10008.1.2.1"
deriving Repr

/-- one item of VerifyingObserverSequence -/
structure Observer where
  name : String
  organization : String
deriving DecidableEq, Repr

/-- the option-dependent attributes of the document data set next to the evidence part (`Doc`) -/
structure DocDs where
  doc : Doc
  completion : String
  preliminary : String
  verification : String
  observers : List Observer                 -- VerifyingObserverSequence ([] = attribute absent)
  institution : Option String               -- InstitutionName
  department : Option String                -- InstitutionalDepartmentName
  procedureCodes : List String              -- PerformedProcedureCodeSequence (always present, possibly empty)
  requested : Option (List String)          -- ReferencedRequestSequence

/-- the arguments the decision core sees: "observer given" / "organization given" are the options themselves -/
def Options.core (o : Options) (a : DocArgs) : DocArgs :=
  { a with hasObserver := o.observer.isSome, hasOrganization := o.organization.isSome }

/-- `_SR.__init__` (through any of the three public classes, which forward every option unchanged: `Gen.srForwarded`) -/
def constructSR (o : Options) (a : DocArgs) : Except ErrKind DocDs :=
  if a.evidence.isEmpty then .error .value else
  if !Gen.srSupportedTransferSyntaxes.contains o.transferSyntax then .error .value else
  match buildSR (o.core a) with
  | .error e => .error e
  | .ok d =>
    match Gen.srCompletionFlag o.isComplete, Gen.srPreliminaryFlag o.isFinal, Gen.srVerificationFlag a.verified,
          Gen.srInstitutionStored o.institution.isSome o.department.isSome with
    | .ok c, .ok p, .ok v, .ok (si, sd) =>
      .ok { doc := d, completion := c, preliminary := p, verification := v,
            observers := (if a.verified then
                            match o.observer, o.organization with
                            | some n, some g => [⟨n, g⟩]
                            | _, _ => []          -- unreachable: the verification guard refused
                          else []),
            institution := if si then o.institution else none,
            department := if sd then o.department else none,
            procedureCodes := match o.procedureCodes with | some l => l | none => [],
            requested := o.requested }
    | _, _, _, _ => .error .other

end HdVerif.SREvidence
