import HdVerif.Model.Basic
/-! C05: encapsulated pixel data as the lazy reader (`io.py`) sees it, at the level of items.

The stream after the Basic Offset Table item is a list of fragments; fragment `f` occupies
`8 + f.length` bytes (item tag, 4-byte length, data) and the list is closed by a sequence
delimiter.  Parsing tags and lengths from bytes is pydicom's `DicomIO`; what is modelled
here is highdicom's own bookkeeping: the `_build_bot` loop (offsets, JPEG/J2K start-marker
test, the choice between frame and fragment offsets) and the fragment walk of
`ImageFileReader.read_frame_raw` (`stop_at`, `n += 4 + 4 + length`). -/
namespace HdVerif.Offsets
open HdVerif

abbrev Frag := List Nat   -- the bytes of one fragment

/-- `first_two_bytes in _START_MARKERS` (JPEG / JPEG-LS SOI `FF D8`, JPEG 2000 SOC `FF 4F`) -/
def isStart (d : Frag) : Bool := d.take 2 == [0xFF, 0xD8] || d.take 2 == [0xFF, 0x4F]

/-- the `while True` loop of `_build_bot`: position, (fragment offsets, frame offsets) -/
def botLoop : List Frag → Nat → List Nat × List Nat → Except ErrKind (List Nat × List Nat)
  | [], _, acc => .ok acc
  | f :: fs, pos, (frag, frm) =>
    if f.length % 2 = 1 then .error .other
    else if f.length = 0 then .error .other
    else botLoop fs (pos + 8 + f.length) (frag ++ [pos], if isStart f then frm ++ [pos] else frm)

/-- `_build_bot` -/
def buildBot (fs : List Frag) (numberOfFrames : Nat) : Except ErrKind (List Nat) := do
  let (frag, frm) ← botLoop fs 0 ([], [])
  if frm.length = numberOfFrames then .ok frm
  else if frag.length = numberOfFrames then .ok frag
  else .error .value

/-- `_get_bot`: a stored table is used iff it has one entry per frame, otherwise it is rebuilt -/
def getBot (stored : List Nat) (fs : List Frag) (numberOfFrames : Nat) : Except ErrKind (List Nat) :=
  if stored.length ≠ numberOfFrames then buildBot fs numberOfFrames else .ok stored

/-- `fp.seek(first_frame_offset + frame_offset)`: the fragments from byte offset `t` on; offsets that are
    not item boundaries are not modelled (the real reader would parse data bytes as a tag) -/
def seekFrag : List Frag → Nat → Nat → Except ErrKind (List Frag)
  | fs, pos, t =>
    if pos = t then .ok fs
    else match fs with
      | [] => .error .other
      | f :: fs => if pos < t then seekFrag fs (pos + 8 + f.length) t else .error .other

/-- the fragment walk of `read_frame_raw` -/
def readLoop : List Frag → Int → Int → List Frag → List Frag
  | [], _, _, acc => acc
  | f :: fs, n, stopAt, acc =>
    if n = stopAt then acc else readLoop fs (n + 4 + 4 + f.length) stopAt (acc ++ [f])

/-- `read_frame_raw` for encapsulated data (index already validated against the table length) -/
def readFrameRaw (fs : List Frag) (table : List Nat) (i : Nat) : Except ErrKind (List Nat) := do
  match table[i]? with
  | none => .error .index
  | some off =>
    let stopAt : Int := match table[i + 1]? with
      | some nxt => (nxt : Int) - (off : Int)
      | none => -1
    let rest ← seekFrag fs 0 off
    let data := (readLoop rest 0 stopAt []).flatten
    if data.length = 0 then .error .other else .ok data

end HdVerif.Offsets
