import HdVerif.Model.Basic
import HdVerif.Model.Round
import HdVerif.Generated.TC09a
import HdVerif.Generated.TC09b
import HdVerif.Generated.TC09c
import HdVerif.Generated.TC09d
import HdVerif.Generated.TC09e
import HdVerif.Model.MatchOps
import HdVerif.Generated.TC09f
import HdVerif.Generated.TC09g
import HdVerif.Generated.TC09h
/-! # Model for C09: `geometry_equal`, `match_geometry`, `VolumeToVolumeTransformer`, bounds checks
(`src/highdicom/volume.py`).

Exact arithmetic over `Rat`.  A geometry is kept factored as unit vectors × spacing × position
(DESIGN 4.1: the code's `spacing = ‖column‖`, `unit vector = column / ‖column‖` are modelled as
returning the factors).  A volume is a geometry plus a total voxel function `(Ax → Int) → α`.

Translated from the current source (tie T) and used here unchanged:
`Gen.mgAlign` (alignment test of one target/source axis pair), `Gen.mgCropPad` (per-axis crop/pad
derivation), `Gen.geomEqualDecision` (the decision of `geometry_equal`), `Gen.refBoundsAxis`,
`Gen.v2vBoundsAxis` (per-axis tests of the two bounds checks), `Gen.mgHead` (the refusals at the
head of `match_geometry`).  Hand-written (tie C): the loops
around them, `permute_spatial_axes`, `pad` (all `PadModes`), `__getitem__` with slices
(CPython `slice.indices`), `np.allclose`, the 4×4 inverse and product of the transformer. -/
namespace HdVerif.Match
open HdVerif HdVerif.Gen

/-- the three spatial array axes -/
abbrev Ax := Fin 3

/-- a triple indexed by axis -/
def mk3 {α : Type} (a b c : α) : Ax → α := fun i =>
  match i with
  | 0 => a
  | 1 => b
  | 2 => c

/-- a vector of the frame-of-reference space -/
structure V3 where
  x : Rat
  y : Rat
  z : Rat
  deriving DecidableEq, Repr

namespace V3
def add (a b : V3) : V3 := ⟨a.x + b.x, a.y + b.y, a.z + b.z⟩
def sub (a b : V3) : V3 := ⟨a.x - b.x, a.y - b.y, a.z - b.z⟩
def smul (c : Rat) (a : V3) : V3 := ⟨c * a.x, c * a.y, c * a.z⟩
def neg (a : V3) : V3 := ⟨-a.x, -a.y, -a.z⟩
def dot (a b : V3) : Rat := a.x * b.x + a.y * b.y + a.z * b.z
def cross (a b : V3) : V3 := ⟨a.y * b.z - a.z * b.y, a.z * b.x - a.x * b.z, a.x * b.y - a.y * b.x⟩
end V3

/-- `abs` on rationals -/
def rabs (x : Rat) : Rat := if x < 0 then -x else x

/-- Geometry of a volume: `dir a` unit vector of array axis `a`, `spacing a` its voxel spacing,
`pos` the position of voxel (0,0,0); column `a` of the affine matrix is `spacing a • dir a`. -/
structure Geom where
  dir : Ax → V3
  spacing : Ax → Rat
  pos : V3
  shape : Ax → Int
  cs : String
  frameOfRef : Option String

/-- column `a` of the 3×3 part of the affine matrix -/
def Geom.col (g : Geom) (a : Ax) : V3 := V3.smul (g.spacing a) (g.dir a)

/-- `map_indices_to_reference` for one (continuous) index -/
def Geom.toRef (g : Geom) (x : Ax → Rat) : V3 :=
  V3.add (V3.add (V3.add g.pos (V3.smul (x 0) (g.col 0))) (V3.smul (x 1) (g.col 1))) (V3.smul (x 2) (g.col 2))

/-- integer index as a continuous index -/
def toRat (k : Ax → Int) : Ax → Rat := fun a => (k a : Rat)

/-- a volume without channel dimensions -/
structure Vol (α : Type) where
  geom : Geom
  vox : (Ax → Int) → α

def inAx (shape : Ax → Int) (k : Ax → Int) (a : Ax) : Bool := decide (0 ≤ k a) && decide (k a < shape a)
/-- `k` is an index of an array of the given shape -/
def inShape (shape : Ax → Int) (k : Ax → Int) : Bool := inAx shape k 0 && inAx shape k 1 && inAx shape k 2

/-! ## geometry_equal -/

/-- `np.allclose` default relative tolerance -/
def rtolDefault : Rat := 1 / 100000

/-- one entry of `np.allclose(a, b, atol)` (`np.isclose`): `|a - b| <= atol + rtol * |b|`, or the two entries are identical
(numpy's `| (x == y)` term: it only matters for a negative `atol`) -/
def closeEntry (atol a b : Rat) : Bool := decide (rabs (a - b) ≤ atol + rtolDefault * rabs b) || decide (a = b)

def closeV (atol : Rat) (a b : V3) : Bool := closeEntry atol a.x b.x && closeEntry atol a.y b.y && closeEntry atol a.z b.z

/-- `np.allclose(self._affine, other._affine, atol=tol)`; the last row is (0,0,0,1) in both -/
def affineClose (g h : Geom) (atol : Rat) : Bool :=
  closeV atol (g.col 0) (h.col 0) && closeV atol (g.col 1) (h.col 1) && closeV atol (g.col 2) (h.col 2)
    && closeV atol g.pos h.pos

/-- `np.array_equal(self._affine, other._affine)` -/
def affineIdentical (g h : Geom) : Bool :=
  decide (g.col 0 = h.col 0) && decide (g.col 1 = h.col 1) && decide (g.col 2 = h.col 2) && decide (g.pos = h.pos)

/-- `self.geometry_equal(other, tol)` for objects whose arrays have channel extents `cg` / `ch`
(the size of a channel dimension; a geometry has none); the decision is the translated
`Gen.geomEqualDecision`, which is handed both the spatial shapes and the channel extents -/
def geometryEqualC (g h : Geom) (cg ch : Int) (tol : Option Rat) : Except ErrKind Bool :=
  geomEqualDecision g.frameOfRef h.frameOfRef (g.shape 0) (g.shape 1) (g.shape 2) (h.shape 0) (h.shape 1) (h.shape 2)
    cg ch g.cs h.cs tol (affineIdentical g h)
    (match tol with
     | some t => affineClose g h t
     | none => affineIdentical g h)

/-- `geometry_equal` of two geometries (no channels); equal to `geometryEqualC` for all channel
extents by `geometryEqual_ignores_channels` -/
def geometryEqual (g h : Geom) (tol : Option Rat) : Except ErrKind Bool := geometryEqualC g h 0 0 tol

/-! ## the volume operations `match_geometry` is composed of -/

/-- `set(indices) == {0, 1, 2}` -/
def isPerm (p : Ax → Ax) : Bool :=
  (p 0 == 0 || p 1 == 0 || p 2 == 0) && (p 0 == 1 || p 1 == 1 || p 2 == 1) && (p 0 == 2 || p 1 == 2 || p 2 == 2)

/-- the array axis that holds source axis `a` after `np.transpose(array, p)` -/
def invPerm (p : Ax → Ax) (a : Ax) : Ax := if p 0 = a then 0 else if p 1 = a then 1 else 2

/-- `_permute_affine` + new shape: new axis `i` is old axis `p i` -/
def permuteGeom (g : Geom) (p : Ax → Ax) : Except ErrKind Geom :=
  if isPerm p then
    .ok { g with dir := fun i => g.dir (p i), spacing := fun i => g.spacing (p i), shape := fun i => g.shape (p i) }
  else .error .value

/-- `permute_spatial_axes(p)`: geometry as above, array `np.transpose(array, p)` -/
def permute {α : Type} (v : Vol α) (p : Ax → Ax) : Except ErrKind (Vol α) :=
  match permuteGeom v.geom p with
  | .error e => .error e
  | .ok g => .ok { geom := g, vox := fun k => v.vox (fun a => k (invPerm p a)) }

/-- `_prepare_pad_width` (nested form) + new shape -/
def padGeom (g : Geom) (before after : Ax → Int) : Except ErrKind Geom :=
  if before 0 < 0 || before 1 < 0 || before 2 < 0 || after 0 < 0 || after 1 < 0 || after 2 < 0 then .error .value
  else
    .ok { g with pos := g.toRef (fun a => -(before a : Rat)), shape := fun a => g.shape a + before a + after a }

/-- The padding rules of `Volume.pad` (`PadModes`).  The voxel type `α` is arbitrary: for a volume
with channel dimensions it is the vector of channel values of one voxel (`Ch → β`), the spatial
operations never look inside it.
* `constant c` — CONSTANT: every padded voxel is `c` (the same scalar in every channel);
* `edge` — EDGE (`np.pad(mode='edge')`): the value of the nearest voxel, indices clamped per axis;
* `stat f` — MINIMUM / MAXIMUM / MEAN / MEDIAN, over the whole array or per channel: one value `f v`
  computed from the array being padded (`f` is a parameter; the only law used is that it does not
  depend on the order of the axes). -/
inductive PadMode (α : Type) where
  | constant (c : α)
  | edge
  | stat (f : Vol α → α)

/-- `np.pad(mode='edge')`: index clamped into the array, axis by axis -/
def clampIdx (shape : Ax → Int) (j : Ax → Int) : Ax → Int := fun a => max 0 (min (j a) (shape a - 1))

/-- value of a padded voxel whose position in the coordinates of `v` is the out-of-range index `j` -/
def PadMode.fill {α : Type} (m : PadMode α) (v : Vol α) : (Ax → Int) → α :=
  match m with
  | .constant c => fun _ => c
  | .edge => fun j => v.vox (clampIdx v.geom.shape j)
  | .stat f => fun _ => f v

/-- `pad([[b0,a0],[b1,a1],[b2,a2]], mode, constant_value, per_channel)` -/
def pad {α : Type} (v : Vol α) (before after : Ax → Int) (mode : PadMode α) : Except ErrKind (Vol α) :=
  match padGeom v.geom before after with
  | .error e => .error e
  | .ok g =>
    .ok { geom := g,
          vox := fun k => if inShape v.geom.shape (fun a => k a - before a) then v.vox (fun a => k a - before a)
                          else mode.fill v (fun a => k a - before a) }

/-- a Python slice with an explicit start -/
structure Sl where
  start : Int
  stop : Option Int
  step : Int

/-- CPython `PySlice_AdjustIndices` for one bound -/
def adjustBound (b n step : Int) : Int :=
  if b < 0 then (if b + n < 0 then (if step < 0 then -1 else 0) else b + n)
  else if b ≥ n then (if step < 0 then n - 1 else n)
  else b

/-- `_check_slice` for the stop value -/
def stopOutOfRange (stop : Option Int) (n : Int) : Bool :=
  match stop with
  | some e => e < -n - 1 || e > n
  | none => false

/-- `slice(start, stop, step).indices(n)[1]` (`step ≠ 0`) -/
def lastOf (s : Sl) (n : Int) : Int :=
  match s.stop with
  | some e => adjustBound e n s.step
  | none => if s.step < 0 then -1 else n

/-- one axis of `_prepare_getitem_index` for a slice item → (first, step, size) -/
def getitemAxis (s : Sl) (n : Int) : Except ErrKind (Int × Int × Int) :=
  if s.start < -n || s.start ≥ n then .error .value          -- _check_slice
  else if stopOutOfRange s.stop n then .error .value
  else if s.step = 0 then .error .value                       -- slice.indices: "slice step cannot be zero"
  else if lastOf s n - adjustBound s.start n s.step = 0 ||
          (decide (lastOf s n - adjustBound s.start n s.step < 0) != decide (s.step < 0)) then .error .index
  else .ok (adjustBound s.start n s.step, s.step,
            ((Int.natAbs (lastOf s n - adjustBound s.start n s.step) : Int) - 1) / (Int.natAbs s.step : Int) + 1)

/-- geometry after indexing with (first, step, size) per axis: columns scaled by the step, origin at `first` -/
def sliceGeom (g : Geom) (first step size : Ax → Int) : Geom :=
  { g with dir := fun a => if step a < 0 then V3.neg (g.dir a) else g.dir a,
           spacing := fun a => g.spacing a * ((Int.natAbs (step a) : Int) : Rat),
           pos := g.toRef (toRat first),
           shape := size }

/-- `_prepare_getitem_index` for three slices → (new geometry, first, step) -/
def getitemGeom (g : Geom) (s : Ax → Sl) : Except ErrKind (Geom × (Ax → Int) × (Ax → Int)) :=
  match getitemAxis (s 0) (g.shape 0) with
  | .error e => .error e
  | .ok r0 =>
  match getitemAxis (s 1) (g.shape 1) with
  | .error e => .error e
  | .ok r1 =>
  match getitemAxis (s 2) (g.shape 2) with
  | .error e => .error e
  | .ok r2 =>
    let first : Ax → Int := mk3 r0.1 r1.1 r2.1
    let step : Ax → Int := mk3 r0.2.1 r1.2.1 r2.2.1
    let size : Ax → Int := mk3 r0.2.2 r1.2.2 r2.2.2
    .ok (sliceGeom g first step size, first, step)

/-- `volume[s0, s1, s2]` -/
def getitem {α : Type} (v : Vol α) (s : Ax → Sl) : Except ErrKind (Vol α) :=
  match getitemGeom v.geom s with
  | .error e => .error e
  | .ok (g, first, step) => .ok { geom := g, vox := fun k => v.vox (fun a => first a + step a * k a) }

/-! ## match_geometry -/

/-- inner alignment loop: first source axis (in order 0,1,2) accepted by `mgAlign` for the target
axis with unit vector `u` and spacing `s`; `else: raise RuntimeError` when none matches -/
def alignAxis (src : Geom) (u : V3) (s tol : Rat) : Except ErrKind (Ax × Int) :=
  match mgAlign (V3.dot u (src.dir 0)) s (src.spacing 0) tol with
  | .error e => .error e
  | .ok (true, st) => .ok (0, st)
  | .ok (false, _) =>
  match mgAlign (V3.dot u (src.dir 1)) s (src.spacing 1) tol with
  | .error e => .error e
  | .ok (true, st) => .ok (1, st)
  | .ok (false, _) =>
  match mgAlign (V3.dot u (src.dir 2)) s (src.spacing 2) tol with
  | .error e => .error e
  | .ok (true, st) => .ok (2, st)
  | .ok (false, _) => .error .runtime

/-- what the crop/pad loop leaves behind for one axis -/
structure AxisPlan where
  sl : Sl
  before : Int
  after : Int
  requiresCrop : Bool
  requiresPad : Bool

def planOf (r : Int × Bool × Int × Int × Int × Int × Bool × Bool) : AxisPlan :=
  { sl := ⟨r.1, if r.2.1 then none else some r.2.2.1, r.2.2.2.1⟩,
    before := r.2.2.2.2.1, after := r.2.2.2.2.2.1,
    requiresCrop := r.2.2.2.2.2.2.1, requiresPad := r.2.2.2.2.2.2.2 }

/-- one iteration of the crop/pad loop (translated body) for axis `a` of the permuted volume -/
def planAxis (nv tgt : Geom) (step : Int) (tol : Rat) (a : Ax) (rc rp : Bool) : Except ErrKind AxisPlan :=
  match mgCropPad (V3.dot (nv.dir a) (V3.sub tgt.pos nv.pos)) (nv.spacing a) step (tgt.shape a) (nv.shape a) tol rc rp with
  | .error e => .error e
  | .ok r => .ok (planOf r)

/-- the alignment loops: `permute_indices` and `step_sizes` -/
def matchAlign (src tgt : Geom) (tol : Rat) : Except ErrKind ((Ax → Ax) × (Ax → Int)) :=
  match alignAxis src (tgt.dir 0) (tgt.spacing 0) tol with
  | .error e => .error e
  | .ok a0 =>
  match alignAxis src (tgt.dir 1) (tgt.spacing 1) tol with
  | .error e => .error e
  | .ok a1 =>
  match alignAxis src (tgt.dir 2) (tgt.spacing 2) tol with
  | .error e => .error e
  | .ok a2 => .ok (mk3 a0.1 a1.1 a2.1, mk3 a0.2 a1.2 a2.2)

/-- the crop/pad derivation loop over the three axes of the permuted volume -/
def matchPlan (nv tgt : Geom) (steps : Ax → Int) (tol : Rat) : Except ErrKind (AxisPlan × AxisPlan × AxisPlan) :=
  match planAxis nv tgt (steps 0) tol 0 false false with
  | .error e => .error e
  | .ok p0 =>
  match planAxis nv tgt (steps 1) tol 1 p0.requiresCrop p0.requiresPad with
  | .error e => .error e
  | .ok p1 =>
  match planAxis nv tgt (steps 2) tol 2 p1.requiresCrop p1.requiresPad with
  | .error e => .error e
  | .ok p2 => .ok (p0, p1, p2)

/-- `requires_permute = permute_indices != [0, 1, 2]` -/
def requiresPermute (p : Ax → Ax) : Bool := !(p 0 == 0 && p 1 == 1 && p 2 == 2)

/-- pad if required, crop if required (`copy()` when nothing is required: the identity here) -/
def matchApply {α : Type} (nv : Vol α) (pl : AxisPlan × AxisPlan × AxisPlan) (mode : PadMode α) : Except ErrKind (Vol α) :=
  match (if pl.2.2.requiresPad then
           pad nv (mk3 pl.1.before pl.2.1.before pl.2.2.before) (mk3 pl.1.after pl.2.1.after pl.2.2.after) mode
         else .ok nv) with
  | .error e => .error e
  | .ok nv1 => if pl.2.2.requiresCrop then getitem nv1 (mk3 pl.1.sl pl.2.1.sl pl.2.2.sl) else .ok nv1

/-- `self.match_geometry(other, mode, constant_value, per_channel, tol)` as written
(after the fixes a5861fb, 79e6ca4, f6a8aef): frame of reference and coordinate system tests,
alignment, permutation, crop/pad derivation, pad, crop, final comparison with the target. -/
def matchGeometry {α : Type} (src : Vol α) (tgt : Geom) (tol : Rat) (mode : PadMode α) : Except ErrKind (Vol α) :=
  match mgHead src.geom.frameOfRef tgt.frameOfRef src.geom.cs tgt.cs with   -- FoR / CS refusals (translated)
  | .error e => .error e
  | .ok _ =>
  match matchAlign src.geom tgt tol with
  | .error e => .error e
  | .ok (p, steps) =>
  match (if requiresPermute p then permute src p else .ok src) with
  | .error e => .error e
  | .ok nv =>
  match matchPlan nv.geom tgt steps tol with
  | .error e => .error e
  | .ok pl =>
  match matchApply nv pl mode with
  | .error e => .error e
  | .ok r =>
  match geometryEqual r.geom tgt (some tol) with
  | .error e => .error e
  | .ok true => .ok r
  | .ok false => .error .runtime

/-! ## index transformer and bounds checks -/

/-- a 3-D affine map: columns of the linear part and the translation -/
structure Aff where
  c0 : V3
  c1 : V3
  c2 : V3
  t : V3
  deriving DecidableEq, Repr

def Geom.aff (g : Geom) : Aff := ⟨g.col 0, g.col 1, g.col 2, g.pos⟩

def Aff.lin (A : Aff) (v : V3) : V3 := V3.add (V3.add (V3.smul v.x A.c0) (V3.smul v.y A.c1)) (V3.smul v.z A.c2)
def Aff.apply (A : Aff) (v : V3) : V3 := V3.add (A.lin v) A.t
/-- 4×4 matrix product `A @ B` -/
def Aff.comp (A B : Aff) : Aff := ⟨A.lin B.c0, A.lin B.c1, A.lin B.c2, A.apply B.t⟩
def Aff.det (A : Aff) : Rat := V3.dot A.c0 (V3.cross A.c1 A.c2)

/-- `np.linalg.inv` of the 4×4 matrix (adjugate / determinant); singular matrices raise -/
def Aff.inv (A : Aff) : Except ErrKind Aff :=
  let d := A.det
  if d = 0 then .error .other
  else
    let r0 := V3.smul (1 / d) (V3.cross A.c1 A.c2)     -- rows of the inverse linear part
    let r1 := V3.smul (1 / d) (V3.cross A.c2 A.c0)
    let r2 := V3.smul (1 / d) (V3.cross A.c0 A.c1)
    let L : Aff := ⟨⟨r0.x, r1.x, r2.x⟩, ⟨r0.y, r1.y, r2.y⟩, ⟨r0.z, r1.z, r2.z⟩, ⟨0, 0, 0⟩⟩
    .ok { L with t := V3.neg (L.lin A.t) }

/-! ### the same as 4×4 matrices (what numpy actually multiplies and inverts) -/

/-- a 4×4 matrix -/
abbrev M4 := Fin 4 → Fin 4 → Rat

/-- `M @ N` -/
def M4.mul (M N : M4) : M4 := fun i j => M i 0 * N 0 j + M i 1 * N 1 j + M i 2 * N 2 j + M i 3 * N 3 j
def M4.one : M4 := fun i j => if i = j then 1 else 0

/-- a column of the affine matrix: the three components and the entry of the last row -/
def V3.col4 (v : V3) (last : Rat) : Fin 4 → Rat := fun i =>
  match i with
  | 0 => v.x
  | 1 => v.y
  | 2 => v.z
  | 3 => last

/-- the 4×4 affine matrix `[[c0 c1 c2 t], [0 0 0 1]]` of an affine map -/
def Aff.hom (A : Aff) : M4 := fun i j =>
  match j with
  | 0 => A.c0.col4 0 i
  | 1 => A.c1.col4 0 i
  | 2 => A.c2.col4 0 i
  | 3 => A.t.col4 1 i

/-- `np.dot(M, [x, y, z, 1])[:3]`: how the transformer applies its matrix to an index -/
def M4.applyPt (M : M4) (v : V3) : V3 :=
  ⟨M 0 0 * v.x + M 0 1 * v.y + M 0 2 * v.z + M 0 3, M 1 0 * v.x + M 1 1 * v.y + M 1 2 * v.z + M 1 3,
   M 2 0 * v.x + M 2 1 * v.y + M 2 2 * v.z + M 2 3⟩

def roundV (v : V3) : V3 := ⟨(roundHalfEven v.x : Int), (roundHalfEven v.y : Int), (roundHalfEven v.z : Int)⟩

def minL : List Rat → Rat → Rat
  | [], m => m
  | x :: xs, m => minL xs (if x < m then x else m)
def maxL : List Rat → Rat → Rat
  | [], m => m
  | x :: xs, m => maxL xs (if m < x then x else m)

/-- the loop over the three axes of a bounds check, `axisTest shape min max` per axis -/
def boundsFail (axisTest : Int → Rat → Rat → Except ErrKind Bool) (shape : Ax → Int) (pts : List V3) :
    Except ErrKind Bool :=
  match pts with
  | [] => .ok false                       -- guard `shape[0] > 0` (fix e9544ba)
  | p :: ps => do
    let f0 ← axisTest (shape 0) (minL (ps.map (·.x)) p.x) (maxL (ps.map (·.x)) p.x)
    if f0 then pure true else
    let f1 ← axisTest (shape 1) (minL (ps.map (·.y)) p.y) (maxL (ps.map (·.y)) p.y)
    if f1 then pure true else
    axisTest (shape 2) (minL (ps.map (·.z)) p.z) (maxL (ps.map (·.z)) p.z)

/-- sequencing in `Except` (an exception ends the call) -/
def bindE {β γ : Type} (r : Except ErrKind β) (f : β → Except ErrKind γ) : Except ErrKind γ :=
  match r with
  | .error e => .error e
  | .ok b => f b

/-! ### the dtype of the index array

`VolumeToVolumeTransformer.__call__` looks at `indices.dtype`: results are cast (`astype`) to the
input's integer type when rounding (only if they fit, else to int64 — fix 6590cdc) and back to the
input's floating type when not rounding.  The three decisions are translated (TC09g). -/

/-- what the transformer can see of the dtype of its input -/
structure PtDtype where
  kind : String          -- `dtype.kind`: "i", "u", "f", "b", …
  lo : Int               -- `np.iinfo(dtype).min` (integer kinds)
  hi : Int               -- `np.iinfo(dtype).max`
  narrow : Rat → Rat     -- rounding of a float64 value to this dtype (floating kinds; the identity for float64)

def int64Lo : Int := -9223372036854775808
def int64Hi : Int := 9223372036854775807

/-- `astype` of an integral value to an integer type with range `[lo, hi]`: wrap-around -/
def wrapInt (lo hi v : Int) : Int := lo + (v - lo) % (hi - lo + 1)

def castIntV (lo hi : Int) (v : V3) : V3 :=
  ⟨(wrapInt lo hi (Rat.floor v.x) : Int), (wrapInt lo hi (Rat.floor v.y) : Int), (wrapInt lo hi (Rat.floor v.z) : Int)⟩
def narrowV (f : Rat → Rat) (v : V3) : V3 := ⟨f v.x, f v.y, f v.z⟩

/-- `output_indices.min()` / `.max()` over all entries (only looked at when there are entries) -/
def minAll : List V3 → Rat
  | [] => 0
  | p :: ps => minL ((p :: ps).map (·.y) ++ (p :: ps).map (·.z) ++ ps.map (·.x)) p.x
def maxAll : List V3 → Rat
  | [] => 0
  | p :: ps => maxL ((p :: ps).map (·.y) ++ (p :: ps).map (·.z) ++ ps.map (·.x)) p.x

/-- the `astype` at the end of either branch of `if self._round_output` -/
def v2vCast (dt : PtDtype) (roundOut : Bool) (out : List V3) : Except ErrKind (List V3) :=
  if roundOut then
    bindE (v2vInputIsInt dt.kind) (fun isInt =>
    bindE (v2vKeepInputType isInt (3 * (out.length : Int)) (minAll out) (maxAll out) dt.lo dt.hi) (fun keep =>
    .ok (if keep then out.map (castIntV dt.lo dt.hi) else out.map (castIntV int64Lo int64Hi))))
  else
    bindE (v2vCastBack dt.kind) (fun back => .ok (if back then out.map (narrowV dt.narrow) else out))

/-- `VolumeToVolumeTransformer(from, to, round_output, check_bounds)(indices)` for an index array of
dtype `dt`: `self._affine = to.inverse_affine @ from.affine`, applied to every point, rounded if
asked, cast, bounds check (ValueError) on what is returned -/
def v2v (fromA toA : Aff) (toShape : Ax → Int) (dt : PtDtype) (roundOut check : Bool) (pts : List V3) :
    Except ErrKind (List V3) :=
  match toA.inv with
  | .error e => .error e
  | .ok inv =>
    let M := inv.comp fromA
    match v2vCast dt roundOut (pts.map (fun p => if roundOut then roundV (M.apply p) else M.apply p)) with
    | .error e => .error e
    | .ok out =>
      if check then
        match boundsFail v2vBoundsAxis toShape out with
        | .error e => .error e
        | .ok true => .error .value
        | .ok false => .ok out
      else .ok out

/-- `map_reference_to_indices(coordinates, round_output, check_bounds)`: bounds check
(RuntimeError) on the unrounded indices, then rounding -/
def refToIdx (A : Aff) (shape : Ax → Int) (roundOut check : Bool) (pts : List V3) : Except ErrKind (List V3) :=
  match A.inv with
  | .error e => .error e
  | .ok inv =>
    let out := pts.map inv.apply
    let res := if roundOut then out.map roundV else out
    if check then
      match boundsFail refBoundsAxis shape out with
      | .error e => .error e
      | .ok true => .error .runtime
      | .ok false => .ok res
    else .ok res

/-! ## the same entry points, driven by the order of operations found in the source (TC09f)

`Gen.mgSteps`, `Gen.v2vSteps`, `Gen.refIdxSteps` are regenerated from the AST on every run.  The
interpreters below execute such a list; `Props/C09.lean` proves that on the regenerated lists they
coincide with the staged definitions above (`model_follows_source_order`), and the driver runs the
interpreters. -/

/-- what `match_geometry` has computed so far -/
structure MgState (α : Type) where
  vol : Vol α
  align : Option ((Ax → Ax) × (Ax → Int))
  plan : Option (AxisPlan × AxisPlan × AxisPlan)

def MgState.requiresPermute {α : Type} (s : MgState α) : Bool :=
  match s.align with
  | some a => Match.requiresPermute a.1
  | none => false
def MgState.requiresPad {α : Type} (s : MgState α) : Bool :=
  match s.plan with
  | some pl => pl.2.2.requiresPad
  | none => false
def MgState.requiresCrop {α : Type} (s : MgState α) : Bool :=
  match s.plan with
  | some pl => pl.2.2.requiresCrop
  | none => false

/-- one top-level operation of `match_geometry` -/
def mgStep {α : Type} (src : Geom) (tgt : Geom) (tol : Rat) (mode : PadMode α) (s : MgState α) (op : MgOp) :
    Except ErrKind (MgState α) :=
  match op with
  | .head => bindE (mgHead src.frameOfRef tgt.frameOfRef src.cs tgt.cs) (fun _ => .ok s)
  | .align => bindE (matchAlign s.vol.geom tgt tol) (fun a => .ok ⟨s.vol, some a, s.plan⟩)
  | .permute =>
    match s.align with
    | none => .error .other
    | some a => bindE (permute s.vol a.1) (fun v => .ok ⟨v, s.align, s.plan⟩)
  | .plan =>
    match s.align with
    | none => .error .other
    | some a => bindE (matchPlan s.vol.geom tgt a.2 tol) (fun pl => .ok ⟨s.vol, s.align, some pl⟩)
  | .copy => .ok s
  | .pad =>
    match s.plan with
    | none => .error .other
    | some pl =>
      bindE (pad s.vol (mk3 pl.1.before pl.2.1.before pl.2.2.before) (mk3 pl.1.after pl.2.1.after pl.2.2.after) mode)
        (fun v => .ok ⟨v, s.align, s.plan⟩)
  | .crop =>
    match s.plan with
    | none => .error .other
    | some pl => bindE (getitem s.vol (mk3 pl.1.sl pl.2.1.sl pl.2.2.sl)) (fun v => .ok ⟨v, s.align, s.plan⟩)
  | .finalCheck =>
    bindE (geometryEqual s.vol.geom tgt (some tol)) (fun eq => if eq then .ok s else .error .runtime)

/-- run a list of guarded operations -/
def runMatch {α : Type} (src tgt : Geom) (tol : Rat) (mode : PadMode α) :
    List (MgOp × (Bool → Bool → Bool → Bool)) → MgState α → Except ErrKind (MgState α)
  | [], s => .ok s
  | (op, guard) :: rest, s =>
    if guard s.requiresPermute s.requiresPad s.requiresCrop then
      bindE (mgStep src tgt tol mode s op) (runMatch src tgt tol mode rest)
    else runMatch src tgt tol mode rest s

/-- `match_geometry`, operations in the order of the current source -/
def matchBySource {α : Type} (src : Vol α) (tgt : Geom) (tol : Rat) (mode : PadMode α) : Except ErrKind (Vol α) :=
  bindE (runMatch src.geom tgt tol mode mgSteps ⟨src, none, none⟩) (fun s => .ok s.vol)

/-- one operation of an index-mapping entry point; the state is (matrix to apply, current points) -/
def idxStep (fromA toA : Aff) (shape : Ax → Int) (dt : PtDtype) (roundOut check : Bool)
    (axisTest : Int → Rat → Rat → Except ErrKind Bool) (err : ErrKind) (s : Option Aff × List V3) (op : IdxOp) :
    Except ErrKind (Option Aff × List V3) :=
  match op with
  | .product =>
    match toA.inv with
    | .error e => .error e
    | .ok inv => .ok (some (inv.comp fromA), s.2)
  | .inverse =>
    match toA.inv with
    | .error e => .error e
    | .ok inv => .ok (some inv, s.2)
  | .apply =>
    match s.1 with
    | none => .error .other
    | some M => .ok (s.1, s.2.map M.apply)
  | .round => .ok (s.1, if roundOut then s.2.map roundV else s.2)
  | .cast => bindE (v2vCast dt roundOut s.2) (fun out => .ok (s.1, out))
  | .check =>
    if check then
      match boundsFail axisTest shape s.2 with
      | .error e => .error e
      | .ok true => .error err
      | .ok false => .ok s
    else .ok s

def runIdx (fromA toA : Aff) (shape : Ax → Int) (dt : PtDtype) (roundOut check : Bool)
    (axisTest : Int → Rat → Rat → Except ErrKind Bool) (err : ErrKind) :
    List IdxOp → Option Aff × List V3 → Except ErrKind (Option Aff × List V3)
  | [], s => .ok s
  | op :: rest, s =>
    match idxStep fromA toA shape dt roundOut check axisTest err s op with
    | .error e => .error e
    | .ok s' => runIdx fromA toA shape dt roundOut check axisTest err rest s'

/-- the transformer, operations in the order of the current source -/
def v2vBySource (fromA toA : Aff) (toShape : Ax → Int) (dt : PtDtype) (roundOut check : Bool) (pts : List V3) :
    Except ErrKind (List V3) :=
  match runIdx fromA toA toShape dt roundOut check v2vBoundsAxis .value v2vSteps (none, pts) with
  | .error e => .error e
  | .ok s => .ok s.2

/-- `map_reference_to_indices`, operations in the order of the current source -/
def refToIdxBySource (A : Aff) (shape : Ax → Int) (roundOut check : Bool) (pts : List V3) : Except ErrKind (List V3) :=
  match runIdx A A shape ⟨"f", 0, 0, id⟩ roundOut check refBoundsAxis .runtime refIdxSteps (none, pts) with
  | .error e => .error e
  | .ok s => .ok s.2

end HdVerif.Match
