import HdVerif.Model.Basic
import HdVerif.Generated.T2
import HdVerif.Generated.T3
import HdVerif.Generated.TC03pyr
import HdVerif.Generated.TC03stack
import HdVerif.Generated.TC03segvol
import HdVerif.Generated.TC03imgvol
import HdVerif.Generated.TC03wireV
import HdVerif.Generated.TC03wireI
import HdVerif.Generated.TC03wireS
import HdVerif.Generated.TC03single
/-! # Geometry of derived images (C03)

Executable model over `Rat` of how highdicom places a derived image in space:

* `storeStack`        `Volume.get_plane_positions / get_plane_orientation / get_pixel_measures`
                      (volume.py) as consumed by `Segmentation.__init__` (seg/sop.py) — which positions,
                      orientation and measures are written for the planes that are kept;
* `volumePositions`   `spatial.get_volume_positions` (both the `allow_missing_positions` branch used by
                      segmentations and the strict branch used by `Image.get_volume`);
* `fromAttributes`    `VolumeGeometry.from_attributes` → `create_affine_matrix_from_attributes`
                      (index convention (D, R), slices first, right-handed normal) incl. the orthogonality
                      check of `_VolumeBase.__init__`;
* `stackedGeometry`   `_Image._get_stacked_volume_geometry` (image.py) with the translated
                      `Gen.stdSliceIndices`;
* `getitemAxis`       one axis of `_VolumeBase._prepare_getitem_index` for a slice without step;
* `getVolumeStack`    the stacked branch of `Image.get_volume` / `Segmentation.get_volume`;
* `tiledVolume`       the tiled branch of both (geometry from the total-pixel-matrix origin) with the
                      translated `Gen.stdRowColIndices`;
* `Gen.pyramidSpacing`, `Gen.pyramidLevelSize` are translated from seg/pyramid.py.

A volume geometry is kept factored as unit directions × spacings × position (`Geom`); the code's
`spacing = ‖column‖` is modelled as returning the factor (a fact about ℝ, modelling assumption). -/
namespace HdVerif.SegGeom
open HdVerif HdVerif.Gen

/-! ## vectors and affines over ℚ -/

structure V3 where
  x : Rat
  y : Rat
  z : Rat
deriving DecidableEq, Repr, Inhabited

namespace V3
def add (a b : V3) : V3 := ⟨a.x + b.x, a.y + b.y, a.z + b.z⟩
def sub (a b : V3) : V3 := ⟨a.x - b.x, a.y - b.y, a.z - b.z⟩
def smul (c : Rat) (a : V3) : V3 := ⟨c * a.x, c * a.y, c * a.z⟩
def dot (a b : V3) : Rat := a.x * b.x + a.y * b.y + a.z * b.z
def cross (a b : V3) : V3 :=
  ⟨a.y * b.z - a.z * b.y, a.z * b.x - a.x * b.z, a.x * b.y - a.y * b.x⟩
end V3
open V3

/-- top three rows of a 4×4 affine: three columns and the translation -/
structure Aff where
  c0 : V3
  c1 : V3
  c2 : V3
  t : V3
deriving DecidableEq, Repr

/-- `map_indices_to_reference` of one index triple -/
def Aff.apply (a : Aff) (i j k : Int) : V3 :=
  add (add (add a.t (smul (i : Rat) a.c0)) (smul (j : Rat) a.c1)) (smul (k : Rat) a.c2)

/-- same columns, translation moved to the position of index `(i, j, k)` -/
def Aff.shift (a : Aff) (i j k : Int) : Aff := { a with t := a.apply i j k }

/-- geometry of a volume, factored -/
structure Geom where
  d0 : V3
  d1 : V3
  d2 : V3
  s0 : Rat
  s1 : Rat
  s2 : Rat
  p : V3
deriving Repr

def Geom.aff (g : Geom) : Aff := ⟨smul g.s0 g.d0, smul g.s1 g.d1, smul g.s2 g.d2, g.p⟩

/-- determinant of the direction matrix: +1 right-handed, −1 left-handed (for orthonormal directions) -/
def Geom.det (g : Geom) : Rat := dot g.d0 (cross g.d1 g.d2)

/-! ## small numeric helpers -/

def rabs (x : Rat) : Rat := if x < 0 then -x else x
def rmin (a b : Rat) : Rat := if a ≤ b then a else b
def rmax (a b : Rat) : Rat := if a ≤ b then b else a
def imax (a b : Int) : Int := if a ≤ b then b else a
def imin (a b : Int) : Int := if a ≤ b then a else b

/-- `np.round`: nearest integer, ties to even -/
def roundHalfEven (x : Rat) : Int :=
  let f := Rat.floor x
  let d := x - (f : Rat)
  if d < 1 / 2 then f
  else if 1 / 2 < d then f + 1
  else if f % 2 = 0 then f else f + 1

def listMin (a : Rat) (l : List Rat) : Rat := l.foldl rmin a
def listMax (a : Rat) (l : List Rat) : Rat := l.foldl rmax a
def listMaxInt (a : Int) (l : List Int) : Int := l.foldl imax a

/-- first occurrences, input order (`np.unique(axis=0)` up to order) -/
def dedup : List V3 → List V3
  | [] => []
  | a :: t => a :: (dedup t).filter (fun b => b != a)

def insertSorted (a : Rat) : List Rat → List Rat
  | [] => [a]
  | b :: t => if a ≤ b then a :: b :: t else b :: insertSorted a t

def sortRat : List Rat → List Rat
  | [] => []
  | a :: t => insertSorted a (sortRat t)

def diffs : List Rat → List Rat
  | a :: b :: t => (b - a) :: diffs (b :: t)
  | _ => []

/-! ## writing: volume → stored attributes -/

/-- what the read side sees of a stacked image -/
structure Stack where
  rowCos : V3
  colCos : V3
  psRow : Rat
  psCol : Rat
  hint : Option Rat
  pos : List V3
  /-- channel of each frame as `get_volume` distinguishes frames beyond their position (ReferencedSegmentNumber of a
  BINARY / FRACTIONAL segmentation); `[]` = one channel (images, label maps) -/
  chan : List Nat := []
deriving Repr

/-- the same stack with the frames' channels given -/
def withChan (st : Stack) (c : List Nat) : Stack := { st with chan := c }

/-- `get_plane_positions()[k]` = `map_indices_to_reference([[k, 0, 0]])` -/
def planePosition (g : Geom) (k : Nat) : V3 := g.aff.apply (k : Int) 0 0

/-- Attributes a segmentation built from a volume records for the kept planes `ks` (in any order):
`direction_cosines` = (unit vector of affine column 2, of column 1), `pixel_spacing` = (‖column 1‖,
‖column 2‖), `spacing_between_slices` = ‖column 0‖ (always present for volumes). -/
def storeStack (g : Geom) (ks : List Nat) : Stack :=
  { rowCos := g.d2, colCos := g.d1, psRow := g.s1, psCol := g.s2, hint := some g.s0,
    pos := ks.map (planePosition g) }

/-- which planes a segmentation stores: `_get_nonempty_plane_indices` (planes with any non-zero pixel; all planes
when every plane is empty) behind the `omit_empty_frames` switch of the constructor.  `nonempty[k]` = plane `k` has a
non-zero pixel. -/
def keptPlanes (nonempty : List Bool) (omitEmpty : Bool) : List Nat :=
  let idx := (nonempty.zipIdx.filter (fun p => p.1)).map (fun p => p.2)
  if omitEmpty && !idx.isEmpty then idx else List.range nonempty.length

/-! ## reading: stored attributes → geometry -/

/-- normal used everywhere on the read side: `get_normal_vector(iop, (D, R), RIGHT_HANDED)` =
`cross(column cosines, row cosines)` -/
def normal (rowCos colCos : V3) : V3 := cross colCos rowCos

def tolSpacing : Rat := 1 / 100          -- _DEFAULT_SPACING_RELATIVE_TOLERANCE
def tolEq : Rat := 1 / 100000            -- _DEFAULT_EQUALITY_TOLERANCE
def tolPerp : Rat := 1 / 1000            -- _DOT_PRODUCT_PERPENDICULAR_TOLERANCE

/-- `np.isclose(a, b, rtol, atol=0)` / one element of `np.allclose` -/
def isClose (a b rtol : Rat) : Bool := rabs (a - b) ≤ rtol * rabs b

/-- `spacing_hint` normalisation at the top of `get_volume_positions` -/
def normHint : Option Rat → Except ErrKind (Option Rat)
  | none => .ok none
  | some h => if h == 0 then .error .value else .ok (some (rabs h))

def defaultSpacing : Option Rat → Rat
  | some h => h
  | none => 1

/-- smallest gap between two different distances (= `np.diff(sorted).min()`) -/
def minGap (ds : List Rat) : Option Rat :=
  match diffs (sortRat ds) with
  | [] => none
  | a :: t => some (listMin a t)

/-- the perpendicularity test: `|n·span/‖span‖ ∓ 1| < tol`, written on squares (no square root) -/
def isPerp (n span : V3) : Bool :=
  let q := dot n span * dot n span
  let m := dot span span
  (1 - tolPerp) * (1 - tolPerp) * m < q && q < (1 + tolPerp) * (1 + tolPerp) * m

/-- lexicographic order of positions (`np.unique(axis=0)` sorts the rows this way) -/
def lexLe (a b : V3) : Bool :=
  a.x < b.x || (a.x == b.x && (a.y < b.y || (a.y == b.y && a.z ≤ b.z)))
def lexMin (a : V3) (l : List V3) : V3 := l.foldl (fun m p => if lexLe m p then m else p) a
def lexMax (a : V3) (l : List V3) : V3 := l.foldl (fun m p => if lexLe m p then p else m) a

/-- smallest and largest distance along the normal, and the positions `unique_positions[sort_index[0]]`,
`unique_positions[sort_index[-1]]`: the unique positions are in lexicographic order and the sort by distance keeps
that order among equal distances, so these are the lexicographically smallest position at the smallest distance
and the lexicographically largest at the largest distance -/
def extremes (pos : List V3) (n p0 : V3) : Option (Rat × Rat × V3 × V3) :=
  let ds := pos.map (dot n)
  let dmin := listMin (dot n p0) ds
  let dmax := listMax (dot n p0) ds
  match pos.filter (fun p => dot n p == dmin), pos.filter (fun p => dot n p == dmax) with
  | a :: t, b :: u => some (dmin, dmax, lexMin a t, lexMax b u)
  | _, _ => none

/-- the regularity test of the `allow_missing_positions` branch on one multiple: `np.allclose(m, m.round(), rtol=0,
atol=rtol + atol/|spacing|)` with the default `rtol = 0.01`, `atol = 0` — within 1 % of a spacing of a whole multiple,
whatever the plane number (/repo 95f2029) -/
def nearWhole (m : Rat) : Bool := rabs (m - (roundHalfEven m : Rat)) ≤ tolSpacing

def allDistinct {α : Type} [DecidableEq α] : List α → Bool
  | [] => true
  | a :: t => !t.contains a && allDistinct t

/-- refinement of the estimated spacing over growing baselines (/repo 8504cfa): for the distance `D` of each plane above the
lowest one, in increasing order, `n = round(D / s)` (half to even) and, if `n > 0`, the estimate becomes `D / n` -/
def refineSpacing (s : Rat) (ds : List Rat) : Rat :=
  ds.foldl (fun s D => if 0 < roundHalfEven (D / s) then D / ((roundHalfEven (D / s) : Int) : Rat) else s) s

/-- the spacing estimated without a hint when gaps are allowed: the smallest gap between the sorted distinct distances
(`none` when that is 0 within `1e-5`), refined over the distance of every plane from the lowest one -/
def estimateSpacing (du : List Rat) : Option Rat :=
  match minGap du with
  | none => none
  | some gp =>
    if rabs gp ≤ tolEq then none else
    match sortRat du with
    | [] => none
    | lo :: rest => some (refineSpacing gp (rest.map (fun d => d - lo)))

/-- `allow_missing_positions=True`: spacing is the hint (or the refined smallest gap), every distance must be a
whole multiple of it (within 1 % of the spacing), the distinct positions must lie at pairwise different multiples, the
multiples are the volume positions -/
def regularMissing (ds du : List Rat) (dmin : Rat) (hint : Option Rat) (perp : Bool) : Option (Rat × List Int) :=
  let spacing? : Option Rat := match hint with
    | some h => some h
    | none => estimateSpacing du
  match spacing? with
  | none => none
  | some sp =>
    if sp == 0 then none else
    let mult := ds.map (fun d => (d - dmin) / sp)
    let regular := mult.all nearWhole && allDistinct (du.map (fun d => roundHalfEven ((d - dmin) / sp)))
    if regular && perp then some (rabs sp, mult.map roundHalfEven) else none

/-- "Inferred spacing does not match the given spacing_hint" -/
def hintMismatch (sp : Rat) : Option Rat → Bool
  | some h => !(isClose (rabs sp) h tolSpacing)
  | none => false

/-- `allow_missing_positions=False`: spacing is the mean gap, every gap of the sorted distinct distances must
equal it (within `rtol`), the volume position is the rank of the distance -/
def regularStrict (ds du : List Rat) (dmin dmax : Rat) (hint : Option Rat) (perp : Bool) :
    Except ErrKind (Option (Rat × List Int)) :=
  let sp := (dmax - dmin) / (((du.length : Int) : Rat) - 1)
  if hintMismatch sp hint then .error .runtime else
  let regular := (diffs (sortRat du)).all (fun d => isClose d sp tolSpacing)
  if regular && perp then
    .ok (some (rabs sp, ds.map (fun d => ((du.filter (fun e => e < d)).length : Int)))) else .ok none

/-- `get_volume_positions`, two or more positions (`p0` is the first one) -/
def volumePositionsMany (pos : List V3) (p0 rowCos colCos : V3) (hint : Option Rat) (allowMissing allowDup : Bool) :
    Except ErrKind (Option (Rat × List Int)) :=
  if !allowDup && decide ((dedup pos).length < pos.length) then .ok none else
  if pos.all (fun p => p == p0) then .ok (some (defaultSpacing hint, pos.map (fun _ => 0)))
  else
    let n := normal rowCos colCos
    let ds := pos.map (dot n)
    let du := (dedup pos).map (dot n)
    match extremes pos n p0 with
    | none => .error .other
    | some (dmin, dmax, p1, p2) =>
      let perp := isPerp n (sub p2 p1)
      if allowMissing then .ok (regularMissing ds du dmin hint perp)
      else regularStrict ds du dmin dmax hint perp

/-- `get_volume_positions(positions, iop, sort=True, allow_missing_positions, allow_duplicate_positions,
spacing_hint)`: `.ok none` = "not a regular volume", otherwise (|spacing|, volume position per input). -/
def volumePositions (pos : List V3) (rowCos colCos : V3) (hint0 : Option Rat) (allowMissing : Bool)
    (allowDup : Bool := true) : Except ErrKind (Option (Rat × List Int)) :=
  match normHint hint0 with
  | .error e => .error e
  | .ok hint =>
    match pos with
    | [] => .error .value
    | [_] => .ok (some (defaultSpacing hint, [0]))
    | p0 :: _ => volumePositionsMany pos p0 rowCos colCos hint allowMissing allowDup

/-- `_is_matrix_orthogonal(m, require_unit=False)` with the default tolerance -/
def orthogonalCols (a : Aff) : Bool :=
  rabs (dot a.c0 a.c1) ≤ tolEq && rabs (dot a.c0 a.c2) ≤ tolEq && rabs (dot a.c1 a.c2) ≤ tolEq

/-- `VolumeGeometry.from_attributes`: columns (spacing·normal, row spacing·column cosines,
column spacing·row cosines), translation = image position -/
def fromAttributes (origin rowCos colCos : V3) (psRow psCol sbs : Rat) : Except ErrKind Aff :=
  if psRow ≤ 0 || psCol ≤ 0 then .error .value else
  let a : Aff := ⟨smul sbs (normal rowCos colCos), smul psRow colCos, smul psCol rowCos, origin⟩
  if orthogonalCols a then .ok a else .error .value

/-- one axis of `_prepare_getitem_index` for `slice(start, stop)`: (first index, size) -/
def getitemAxis (start stop : Option Int) (n : Int) : Except ErrKind (Int × Int) :=
  let badStart := match start with
    | some s => decide (s < -n) || decide (s ≥ n)
    | none => false
  let badStop := match stop with
    | some s => decide (s < -n - 1) || decide (s > n)
    | none => false
  if badStart || badStop then .error .value else
  let first := match start with
    | none => 0
    | some s => if s < 0 then imax (s + n) 0 else imin s n
  let last := match stop with
    | none => n
    | some s => if s < 0 then imax (s + n) 0 else imin s n
  if last - first ≤ 0 then .error .index else .ok (first, last - first)

/-- index of the first element equal to `v` (`list.index`) -/
def indexOf? (v : Int) : List Int → Option Nat
  | [] => none
  | a :: t => if a == v then some 0 else (indexOf? v t).map (· + 1)

/-- frames kept by a slice request, with their output slot — the loop of `_get_stacked_volume_geometry` over
`zip(frame_numbers, volume_positions)` with the translated body `Gen.stackFrameSlot` -/
def framePositions (vps : List Int) (s e : Int) : List (Nat × Int) :=
  (vps.zipIdx).filterMap (fun (vp, i) =>
    match stackFrameSlot vp s e with
    | .ok (true, slot) => some (i, slot)
    | _ => none)

/-- result of `_get_stacked_volume_geometry`: affine, spatial shape, frame placement -/
structure StackGeom where
  aff : Aff
  n : Int
  rows : Int
  cols : Int
  frames : List (Nat × Int)
deriving Repr

def stackedGeometry (st : Stack) (rows cols : Int) (allowMissing : Bool) (ss se : Option Int) (asIdx : Bool) :
    Except ErrKind StackGeom :=
  match volumePositions st.pos st.rowCos st.colCos st.hint allowMissing with
  | .error e => .error e
  | .ok none => .error .runtime
  | .ok (some (spacing, vps)) =>
    match stackInitialSlices (listMaxInt 0 vps) with
    | .error e => .error e
    | .ok nInit =>
      match stdSliceIndices ss se nInit asIdx with
      | .error e => .error e
      | .ok (s, e) =>
        match indexOf? 0 vps with
        | none => .error .value
        | some oi =>
          match st.pos[oi]? with
          | none => .error .index
          | some origin =>
            match fromAttributes origin st.rowCos st.colCos st.psRow st.psCol spacing with
            | .error e => .error e
            | .ok a =>
              match stackGeomSlice s e with
              | .error e => .error e
              | .ok (g0, g1) =>
                match getitemAxis (some g0) (some g1) nInit with
                | .error e => .error e
                | .ok (first, size) =>
                  .ok { aff := a.shift first 0 0, n := size, rows := rows, cols := cols,
                        frames := framePositions vps s e }

/-- which class's `get_volume` -/
inductive Kind | image | seg
deriving DecidableEq, Repr

def tiledGeomLowerOf : Kind → Int → Int → Int → Int → Except ErrKind (Int × Int)
  | .image => imgTiledGeomLower
  | .seg => segTiledGeomLower
def stackGeomSliceOf : Kind → Int → Int → Int → Int → Except ErrKind (Int × Int × Int × Int)
  | .image => imgStackGeomSlice
  | .seg => segStackGeomSlice
def stackArraySliceOf : Kind → Int → Int → Int → Int → Except ErrKind (Int × Int × Int × Int)
  | .image => imgStackArraySlice
  | .seg => segStackArraySlice

/-- numpy basic slicing `x[a:b]` on an axis of length `n` (never fails): first index and length -/
def npFirst (a n : Int) : Int := if a < 0 then imax (a + n) 0 else imin a n
def npLen (a b n : Int) : Int := imax (npFirst b n - npFirst a n) 0

/-- a sub-volume request as the user writes it -/
structure Request where
  sliceStart : Option Int := none
  sliceEnd : Option Int := none
  rowStart : Option Int := none
  rowEnd : Option Int := none
  colStart : Option Int := none
  colEnd : Option Int := none
  asIdx : Bool := false
deriving Repr

/-- observable result of `get_volume`: affine, spatial shape, where each stored frame goes and which
rows/columns of a frame are kept -/
structure VolOut where
  aff : Aff
  n : Int
  rows : Int
  cols : Int
  frames : List (Nat × Int)
  rowFirst : Int
  colFirst : Int
deriving Repr

/-- `_do_columns_identify_unique_frames`: `Image.get_volume` needs pairwise different frame positions,
`Segmentation.get_volume` pairwise different (position, segment) pairs (positions alone for a label map) -/
def framesUnique (k : Kind) (st : Stack) : Bool :=
  match k with
  | .image => allDistinct st.pos
  | .seg => if st.chan.length == st.pos.length then allDistinct (st.pos.zip st.chan) else allDistinct st.pos

/-- stacked branch of `Image.get_volume` / `Segmentation.get_volume` (`k` selects whose translated slicing
expressions are used): the pixel array is cut with numpy slicing, the affine is that of the sliced geometry -/
def getVolumeStack (k : Kind) (st : Stack) (rows cols : Int) (allowMissing : Bool) (rq : Request) : Except ErrKind VolOut :=
  match stdRowColIndices rq.rowStart rq.rowEnd rq.colStart rq.colEnd rows cols rq.asIdx true with
  | .error e => .error e
  | .ok (rs, re, cs, ce) =>
    if !(framesUnique k st) then .error .runtime else
    match stackedGeometry st rows cols allowMissing rq.sliceStart rq.sliceEnd rq.asIdx with
    | .error e => .error e
    | .ok sg =>
      match stackArraySliceOf k rs re cs ce, stackGeomSliceOf k rs re cs ce with
      | .ok (ar0, ar1, ac0, ac1), .ok (gr0, gr1, gc0, gc1) =>
        match getitemAxis (some gr0) (some gr1) rows, getitemAxis (some gc0) (some gc1) cols with
        | .ok (r0, _), .ok (c0, _) =>
          .ok { aff := sg.aff.shift 0 r0 c0, n := sg.n, rows := npLen ar0 ar1 rows, cols := npLen ac0 ac1 cols,
                frames := sg.frames, rowFirst := npFirst ar0 rows, colFirst := npFirst ac0 cols }
        | .error e, _ => .error e
        | _, .error e => .error e
      | .error e, _ => .error e
      | _, .error e => .error e

/-- tiled branch: geometry from the total-pixel-matrix origin; the pixel region is standardised a second time
inside `get_total_pixel_matrix(…, as_indices=True)` (one-based outputs), whose differences give the shape;
the affine is `volume_geometry[:, lo_r:, lo_c:]` with the translated lower bounds. -/
def tiledVolume (k : Kind) (origin rowCos colCos : V3) (psRow psCol : Rat) (sbs : Option Rat) (totalRows totalCols : Int)
    (rq : Request) : Except ErrKind VolOut :=
  match stdRowColIndices rq.rowStart rq.rowEnd rq.colStart rq.colEnd totalRows totalCols rq.asIdx true with
  | .error e => .error e
  | .ok (rs, re, cs, ce) =>
    match fromAttributes origin rowCos colCos psRow psCol (defaultSpacing sbs) with
    | .error e => .error e
    | .ok a =>
      match stdSliceIndices rq.sliceStart rq.sliceEnd 1 rq.asIdx with
      | .error e => .error e
      | .ok _ =>
        match stdRowColIndices (some rs) (some re) (some cs) (some ce) totalRows totalCols true false with
        | .error e => .error e
        | .ok (rs1, re1, cs1, ce1) =>
          if re1 - rs1 < 0 || ce1 - cs1 < 0 then .error .value else
          match tiledGeomLowerOf k rs re cs ce with
          | .error e => .error e
          | .ok (lr, lc) =>
            match getitemAxis (some lr) none totalRows, getitemAxis (some lc) none totalCols with
            | .ok (r0, _), .ok (c0, _) =>
              .ok { aff := a.shift 0 r0 c0, n := 1, rows := re1 - rs1, cols := ce1 - cs1, frames := [],
                    rowFirst := rs, colFirst := cs }
            | .error e, _ => .error e
            | _, .error e => .error e

/-! ## writing: arrays aligned to source images -/

/-- SpacingBetweenSlices a segmentation records (seg/sop.py, "Automatically populate the spacing between
slices"): the source's own value when its pixel measures carry one, otherwise what `get_volume_positions`
(defaults: sort, no missing, no duplicates, no hint) infers from ALL source plane positions before empty planes
are removed; nothing when they do not form a regular stack, and nothing for a single plane. -/
def recordedHint (srcHint : Option Rat) (allPos : List V3) (rowCos colCos : V3) : Except ErrKind (Option Rat) :=
  match srcHint with
  | some h => .ok (some h)
  | none =>
    if allPos.length ≤ 1 then .ok none else
    match volumePositions allPos rowCos colCos none false false with
    | .error e => .error e
    | .ok none => .ok none
    | .ok (some (sp, _)) => .ok (some sp)

/-- attributes recorded for an array aligned to source planes at `allPos` (orientation and pixel spacing copied
from the source) of which the planes `kept` (indices into `allPos`, any order) are stored -/
def storeAligned (rowCos colCos : V3) (psRow psCol : Rat) (srcHint : Option Rat) (allPos : List V3) (kept : List Nat) :
    Except ErrKind Stack :=
  match recordedHint srcHint allPos rowCos colCos with
  | .error e => .error e
  | .ok hint =>
    match kept.mapM (fun k => allPos[k]?) with
    | none => .error .index
    | some pos => .ok { rowCos := rowCos, colCos := colCos, psRow := psRow, psCol := psCol, hint := hint, pos := pos }

/-! ## writing: tiled segmentation from a volume in SLIDE coordinates -/

/-- what the read side sees of a tiled image: total-pixel-matrix origin, ImageOrientationSlide, pixel measures -/
structure TiledAttrs where
  origin : V3
  rowCos : V3
  colCos : V3
  psRow : Rat
  psCol : Rat
  sbs : Option Rat
deriving Repr

/-- `Segmentation(pixel_array=Volume (1, R, C), tile_pixel_array=True)`: the single plane position becomes the
TotalPixelMatrixOriginSequence, orientation and measures are the volume's -/
def storeTiled (g : Geom) : TiledAttrs :=
  { origin := planePosition g 0, rowCos := g.d2, colCos := g.d1, psRow := g.s1, psCol := g.s2, sbs := some g.s0 }

/-- TotalPixelMatrixOriginSequence of a tiled segmentation whose total pixel matrix the user places at `user`
(single PlanePositionSequence or SLIDE volume): the source's origin `src` is copied when the locations count as
preserved — translated `Gen.originPreserved`, same orientation, same pixel spacing, same tile size — otherwise
the recorded origin is the position of the tile at (1, 1), i.e. the user's position. -/
def recordedTiledOrigin (user src : V3) (sameOrientation sameSpacing sameTiles : Bool) : Except ErrKind V3 :=
  match originPreserved user.x user.y user.z src.x src.y src.z with
  | .error e => .error e
  | .ok op => if op && sameOrientation && sameSpacing && sameTiles then .ok src else .ok user

/-- `get_volume_geometry()` of a stacked image: the default request of `_get_stacked_volume_geometry` -/
def volumeGeometryStack (st : Stack) (rows cols : Int) (allowMissing : Bool) : Except ErrKind StackGeom :=
  stackedGeometry st rows cols allowMissing none none false

/-- `get_volume_geometry()` of a single-frame image (its own branch of `_get_volume_geometry`): position,
orientation and pixel spacing of the image, slice spacing from the translated `Gen.singleFrameSpacing` applied to
`self.get('SpacingBetweenSlices', 1.0)` -/
def volumeGeometrySingle (p rowCos colCos : V3) (psRow psCol : Rat) (sbs : Option Rat) : Except ErrKind Aff :=
  match singleFrameSpacing (defaultSpacing sbs) with
  | .error e => .error e
  | .ok sp => fromAttributes p rowCos colCos psRow psCol sp

/-- what a tiled segmentation records when it is built from the SLIDE volume `g` over a source whose total pixel
matrix origin is `src`: the volume's orientation and measures, and the origin the constructor decides on -/
def storeTiledFrom (g : Geom) (src : V3) (sameOrientation sameSpacing sameTiles : Bool) : Except ErrKind TiledAttrs :=
  match recordedTiledOrigin (planePosition g 0) src sameOrientation sameSpacing sameTiles with
  | .error e => .error e
  | .ok o => .ok { storeTiled g with origin := o }

/-- `get_volume_geometry()` of a tiled slide image -/
def volumeGeometryTiled (origin rowCos colCos : V3) (psRow psCol : Rat) (sbs : Option Rat) : Except ErrKind Aff :=
  fromAttributes origin rowCos colCos psRow psCol (defaultSpacing sbs)

end HdVerif.SegGeom
