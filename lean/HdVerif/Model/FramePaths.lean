import HdVerif.Model.FrameAccess
import HdVerif.Generated.T1c
import HdVerif.Generated.T11f
import HdVerif.Generated.T11g
/-! C05: the OTHER ways of fetching stored frames, and histories on one object.

`Model/FrameAccess.lean` composes `get_stored_frame` / `get_stored_frames`.  Stored frames are also read by the frame
loops of `get_frames` (behind `get_frame(s)` with every transform off) and `_get_pixels_by_frame` (behind `get_volume` and
`get_total_pixel_matrix`), which fetch the raw bytes themselves, and by `pixel_array` of a lazily read image, which is
assembled from `get_stored_frame(s)`.  Their call skeletons are regenerated from the source (`Generated/T1c.lean`) and
composed here; `Props/C05.lean` proves that all of them return THE SAME thing, the one specification

    frame i  =  slice i of the decoded pixel data            (`sliceBits` / `sliceBytes`).

The second half is a state machine for ONE image object: cache of the whole array empty / filled / stale after the
PixelData value was replaced, and any sequence of fetches in between. -/
namespace HdVerif.FramePaths
open HdVerif HdVerif.Bits HdVerif.Gen HdVerif.FrameAccess

/-- THE specification, native 1-bit data: frame `i` (0-based) of frames with `N` pixels = bits `i*N .. (i+1)*N` of the
    unpacked pixel data (PS3.5 8.1.1 / 8.2: frames are concatenated without padding between them) -/
def sliceBits (pd : List Nat) (N i : Nat) : List Bool := pySlice (unpack pd) (i * N) ((i + 1) * N)

/-- THE specification, >= 8 bits allocated: frame `i` = bytes `i*L .. (i+1)*L`, `L` bytes per frame -/
def sliceBytes (pd : List Nat) (L i : Nat) : List Nat := pySlice pd (i * L) ((i + 1) * L)

/-! ### frame loops that fetch the raw bytes themselves (regenerated skeleton T1c) -/

structure LoopSkel where
  lazyArg : Int → Except ErrKind Int
  rawArgs : Int → Except ErrKind (Int × Bool)
  decodeIndex : Int → Except ErrKind Int
  cacheIndex : Int → Except ErrKind Int
  singleGuard : Int → Except ErrKind Int

def framesSkel : LoopSkel := ⟨framesLazyArg, framesRawArgs, framesDecodeIndex, framesCacheIndex, framesSingleGuard⟩
def pixelsSkel : LoopSkel := ⟨pixelsLazyArg, pixelsRawArgs, pixelsDecodeIndex, pixelsCacheIndex, pixelsSingleGuard⟩

/-- (raw bytes, index handed to the decoder) for the 0-based `frame_index` of the loop: from the file reader on a lazily
    read image, through `get_raw_frame` (which standardises what it is handed) otherwise -/
def LoopSkel.fetch (sk : LoopSkel) (lazy : Bool) (memRawFn lazyRawFn : Int → Except ErrKind (List Nat)) (n idx : Int) :
    Except ErrKind (List Nat × Int) := do
  let raw ← if lazy then do
      let i ← sk.lazyArg idx
      lazyRawFn i
    else do
      let (rk, rai) ← sk.rawArgs idx
      let ridx ← stdFrameIndex rk rai n
      memRawFn ridx
  let d ← sk.decodeIndex idx
  pure (raw, d)

/-- the same pair as `get_stored_frame` / `get_stored_frames` determine it (skeleton T1b); on a lazily read image
    `get_raw_frame` hands the standardised index to the reader (`rawLazyArg`, T1c) -/
def Skel.fetch (sk : Skel) (lazy : Bool) (memRawFn lazyRawFn : Int → Except ErrKind (List Nat)) (n k : Int) (asIndex : Bool) :
    Except ErrKind (List Nat × Int) := do
  let idx ← sk.index n k asIndex
  let (rk, rai) ← sk.rawArgs k asIndex idx
  let ridx ← stdFrameIndex rk rai n
  let raw ← if lazy then do
      let i ← rawLazyArg ridx
      lazyRawFn i
    else memRawFn ridx
  let d ← sk.decodeIndex k asIndex idx
  pure (raw, d)

/-- `get_frames(frame_numbers, as_indices)` with every transform off, one requested number, un-cached branch -/
def getFramesFetch (lazy : Bool) (memRawFn lazyRawFn : Int → Except ErrKind (List Nat)) (n k : Int) (asIndex : Bool) :
    Except ErrKind (List Nat × Int) := do
  let idx ← stdFrameIndex k asIndex n
  framesSkel.fetch lazy memRawFn lazyRawFn n idx

/-- the cached branch of a frame loop: the whole array for a single-frame image (only frame_index 0), else
    `pixel_array[…]` -/
def LoopSkel.cached {α} (sk : LoopSkel) (frames : List α) (whole : α) (idx : Int) : Except ErrKind α := do
  let n : Int := frames.length
  if n = 1 then do
    let _ ← sk.singleGuard idx
    pure whole
  else do
    let ci ← sk.cacheIndex idx
    pyIndex frames ci

/-- decode a fetched pair as a native 1-bit frame -/
def decodeFetchedBits (rows cols samples : Int) (p : List Nat × Int) : Except ErrKind (List Bool) :=
  decodeBits p.1 rows cols samples p.2

/-- `pixel_array` of a lazily read native 1-bit image, first access (regenerated shape, T1c): `get_stored_frame(1)` for a
    single-frame image, `get_stored_frames()` otherwise; the frames in stored order -/
def lazyWholeBits (pixelData : List Nat) (rows cols samples n : Int) : Except ErrKind (List (List Bool)) :=
  if n = 1 then do
    let f ← lazyFrameBits pixelData rows cols samples n pixelArrayLazySingleNumber false
    pure [f]
  else do
    let (a, b) ← batchDefaultRange false n
    let frames ← (pyRange a b).mapM (fun k =>
      batchSkel.frameBits (lazyRaw pixelData rows cols samples 1 n "MONOCHROME2") rows cols samples n k false)
    if frames.isEmpty then .error .value else .ok frames

/-! ### histories on one image object

`one pd k asIndex` is the un-cached single fetch on pixel data `pd` (`get_stored_frame` while `_pixel_array is None`),
`all pd` the decode of the whole array (pydicom).  The cache remembers which pixel data the array was decoded from
(pydicom: `_pixel_id`); `Dataset.pixel_array` reuses it only for the current pixel data. -/

structure Img (α : Type) where
  pd : List Nat
  cache : Option (List Nat × List α)

inductive Op
  | fetch (k : Int) (asIndex : Bool)          -- get_stored_frame
  | fetchVia (batch : Bool) (k : Int) (asIndex : Bool)   -- get_stored_frames([k]) / get_stored_frame(k)
  | whole                                     -- .pixel_array
  | replace (pd : List Nat)                   -- ds['PixelData'].value = …
  | scribble (i : Nat)                        -- the caller overwrites, in place, frame `i` as an earlier cached fetch returned it
  deriving Repr

variable {α : Type}

/-- pydicom's `Dataset.pixel_array` (in-memory image): decode unless the cached array belongs to the current PixelData -/
def revalidate (all : List Nat → Except ErrKind (List α)) (s : Img α) : Except ErrKind (Img α × List α) :=
  match s.cache with
  | some (src, fr) =>
    if src = s.pd then .ok (s, fr)
    else match all s.pd with
      | .ok fr' => .ok ({ s with cache := some (s.pd, fr') }, fr')
      | .error e => .error e
  | none =>
    match all s.pd with
    | .ok fr' => .ok ({ s with cache := some (s.pd, fr') }, fr')
    | .error e => .error e

/-- one fetch of `get_stored_frame` / `get_stored_frames([k])` on the object in state `s`: un-cached branch while nothing is
    cached, otherwise index check, `self.pixel_array` (revalidated), subscript (regenerated skeleton T1b).  A refused
    request leaves the object as it was. -/
def fetchStep (one : List Nat → Int → Bool → Except ErrKind α) (all : List Nat → Except ErrKind (List α)) (n : Int)
    (sk : Skel) (s : Img α) (k : Int) (asIndex : Bool) : Img α × Except ErrKind α :=
  match s.cache with
  | none => (s, one s.pd k asIndex)
  | some _ =>
    match sk.index n k asIndex with
    | .error e => (s, .error e)
    | .ok _ =>
      match revalidate all s with
      | .error e => (s, .error e)
      | .ok (s', fr) =>
        match fr with
        | [] => (s', .error .index)
        | w :: _ => (s', sk.cached fr w k asIndex)

def step (one : List Nat → Int → Bool → Except ErrKind α) (all : List Nat → Except ErrKind (List α)) (n : Int)
    (s : Img α) : Op → Img α
  | .fetch k ai => (fetchStep one all n singleSkel s k ai).1
  | .fetchVia b k ai => (fetchStep one all n (if b then batchSkel else singleSkel) s k ai).1
  | .whole => match revalidate all s with
    | .ok (s', _) => s'
    | .error _ => s
  | .replace pd => { s with pd := pd }
  | .scribble i =>
    -- results of the cached branch are copies iff the source says so (regenerated: `singleCachedIsCopy`, T1b; the batch method
    -- always stacks into a new array: `batchCachedIsCopy`); a view would let the caller's write reach the cached array
    if singleCachedIsCopy && batchCachedIsCopy then s
    else { s with cache := s.cache.map fun c => (c.1, c.2.eraseIdx i) }

def run (one : List Nat → Int → Bool → Except ErrKind α) (all : List Nat → Except ErrKind (List α)) (n : Int)
    (s : Img α) (ops : List Op) : Img α := ops.foldl (step one all n) s

/-! ### what may be handed in as a frame number

The guards compare integers; what reaches them is decided by the conversion the source applies first (regenerated name:
`frameNumberConversion`, `readerIndexConversion`).  `operator.index` accepts exactly the objects with `__index__`: Python
ints (bool is a subclass of int: True is 1) and numpy integer scalars of every width; it refuses floats (integral or not),
strings, None and numpy booleans.  `int(...)` would also accept floats (truncating) and numeric strings. -/

inductive PyVal
  | int (k : Int)
  | npInt (bits : Nat) (signed : Bool) (k : Int)
  | bool (b : Bool)
  | npBool (b : Bool)
  | float (v : Rat)
  | str (s : String) (parsed : Option Int)     -- `parsed`: what `int(s)` would return
  | none
  deriving Repr

/-- `operator.index` -/
def opIndex : PyVal → Except ErrKind Int
  | .int k => .ok k
  | .npInt _ _ k => .ok k
  | .bool b => .ok (if b then 1 else 0)
  | _ => .error .type

/-- `int(...)` (truncation towards zero; numeric strings parsed) - NOT what the source uses -/
def pyIntOf : PyVal → Except ErrKind Int
  | .int k => .ok k
  | .npInt _ _ k => .ok k
  | .bool b => .ok (if b then 1 else 0)
  | .npBool b => .ok (if b then 1 else 0)
  | .float v => .ok (if v < 0 then Rat.ceil v else Rat.floor v)
  | .str _ (some k) => .ok k
  | .str _ .none => .error .value
  | .none => .error .type

/-- the conversion named `name` applied to a value; an unknown conversion is refused (the model does not know it), no
    conversion at all lets only ints through to the comparisons (anything else raises TypeError in `<`, or worse, slips) -/
def convertBy (name : String) (v : PyVal) : Except ErrKind Int :=
  if name = "operator.index" then opIndex v
  else if name = "int" then pyIntOf v
  else .error .other

/-- `_standardize_frame_index` on a Python VALUE -/
def stdFrameIndexV (v : PyVal) (asIndex : Bool) (n : Int) : Except ErrKind Int := do
  let k ← convertBy frameNumberConversion v
  stdFrameIndex k asIndex n

/-- the reader's guard on a Python value -/
def lazyIndexGuardV (v : PyVal) (n : Int) : Except ErrKind Int := do
  let k ← convertBy (readerIndexConversion.headD "none") v
  lazyIndexGuard k n

/-- the integer a value denotes, if it is an integer object -/
def PyVal.asInteger : PyVal → Option Int
  | .int k => some k
  | .npInt _ _ k => some k
  | .bool b => some (if b then 1 else 0)
  | _ => Option.none

/-! ### what may be handed to `imread` / `Image.from_file`

Kinds of the `fp` argument and Python's `isinstance` against the type names that occur in the two dispatches (regenerated
tuples: `fromFileBytesTypes`, `fromFilePassThroughTypes` of `from_file`; `readerFileObjectTypes`, `readerPathTypes` of
`ImageFileReader.__init__`). -/

inductive FpKind
  | str            -- a path as str
  | path           -- pathlib.Path
  | purePath       -- pathlib.PurePath that is not a Path
  | fsPath         -- any other object with __fspath__
  | bytes          -- the content of the file
  | dicomIO        -- an open pydicom DicomIO
  | binaryIO       -- any other open binary file object (io.BytesIO, open(..., 'rb'))
  deriving DecidableEq, Repr

def FpKind.all : List FpKind := [.str, .path, .purePath, .fsPath, .bytes, .dicomIO, .binaryIO]

/-- `isinstance(<object of kind k>, <type named t>)` -/
def FpKind.isInstance (k : FpKind) (t : String) : Bool :=
  match k with
  | .str => t == "str"
  | .path => t == "Path" || t == "PathLike" || t == "PurePath"
  | .purePath => t == "PurePath" || t == "PathLike"
  | .fsPath => t == "PathLike"
  | .bytes => t == "bytes"
  | .dicomIO => t == "DicomIO"
  | .binaryIO => t == "BinaryIO"

def FpKind.isInstanceAny (k : FpKind) (ts : List String) : Bool := ts.any k.isInstance

/-- what `from_file` hands to the reader on the lazy branch: bytes and foreign file objects become a DicomIO -/
def lazyHandedToReader (k : FpKind) : FpKind :=
  if k.isInstanceAny fromFileBytesTypes then .dicomIO
  else if !(k.isInstanceAny fromFilePassThroughTypes) then .dicomIO
  else k

/-- `ImageFileReader.__init__`: accepted as file object or as path, else TypeError -/
def readerAccepts (k : FpKind) : Bool := k.isInstanceAny readerFileObjectTypes || k.isInstanceAny readerPathTypes

/-- `imread(fp, lazy_frame_retrieval=True)` gets as far as a reader -/
def lazyOpens (k : FpKind) : Bool := readerAccepts (lazyHandedToReader k)

/-! ### the file behind a lazily read image: opened and closed around every call

`ImageFileReader.__enter__` / `__exit__` (regenerated, T11g) count how deep `with reader:` blocks are nested; a reader that
was given a PATH opens the file on the outermost enter and closes it on the outermost exit (`should_close`), a reader that
was given an open file object never closes it.  A read needs the file open. -/

structure RState where
  depth : Int
  isOpen : Bool
  deriving DecidableEq, Repr

inductive ROp | enter | exit | read
  deriving DecidableEq, Repr

/-- one step; a read reports whether the file was open -/
def rstep (shouldClose : Bool) (s : RState) : ROp → RState × List Bool
  | .enter => match readerEnter s.depth s.isOpen with
    | .ok (d, o) => (⟨d, o⟩, [])
    | .error _ => (s, [])
  | .exit => match readerExit s.depth s.isOpen shouldClose with
    | .ok (d, o) => (⟨d, o⟩, [])
    | .error _ => (s, [])
  | .read => (s, [s.isOpen])

def rrun (shouldClose : Bool) : RState → List ROp → RState × List Bool
  | s, [] => (s, [])
  | s, op :: ops =>
    let r := rstep shouldClose s op
    let rest := rrun shouldClose r.1 ops
    (rest.1, r.2 ++ rest.2)

/-- what the methods of a lazily read image do with the reader: `get_raw_frame` (behind `get_stored_frame` / `get_frame`) wraps
    ONE read in `with reader:`; the batch methods (`get_stored_frames`, `get_frames`, `_get_pixels_by_frame`) wrap their loop in
    `with reader:` and read `k` frames inside, through `get_raw_frame` (nested `with`) or from the reader directly -/
inductive LazyCall
  | single
  | batch (k : Nat) (viaRawFrame : Bool)
  deriving Repr

def singleOps : List ROp := [.enter, .read, .exit]

def LazyCall.ops : LazyCall → List ROp
  | .single => singleOps
  | .batch k via => .enter :: (List.replicate k (if via then singleOps else [.read])).flatten ++ [.exit]

def LazyCall.reads : LazyCall → Nat
  | .single => 1
  | .batch k _ => k

/-- the reader between two calls: nothing entered; the file closed iff the reader owns it -/
def restState (shouldClose : Bool) : RState := ⟨0, !shouldClose⟩

def runCalls (shouldClose : Bool) (calls : List LazyCall) : RState × List Bool :=
  rrun shouldClose (restState shouldClose) (calls.map LazyCall.ops).flatten

end HdVerif.FramePaths
