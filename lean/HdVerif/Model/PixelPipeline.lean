import HdVerif.Generated.T6a
import HdVerif.Generated.T6b
import HdVerif.Generated.T6c
import HdVerif.Generated.T6d
import HdVerif.Generated.T6e
import HdVerif.Generated.T6f
/-! C06: the pixel-transform pipeline of `highdicom.image._CombinedPixelTransform`.

Translated from /repo's current source (tie T, `HdVerif.Gen`): the tri-state flag logic `cptFlags`, the
folding of a window / of the inversion / of a VOI LUT through the rescale (`foldWindow`, `foldInvert`,
`foldVoiLut`), the window function on one value (`voiWindowLinear`, `voiSigmoidArg`) and the table
position of `apply_lut` (`applyLutIndex`).  Hand-written here (tie C): what `__init__` does with the flags
once it knows which transforms are present (`stageOutcome`), how it combines the stages into one effective
LUT / affine map / window (`build`), `__call__` (`applyEff`), the LUT accessors, the selectors, and the
*reference* pipeline `ref` written from PS3.3 (C.7.6.16.2.11, C.11.1, C.11.2, C.11.6).

Pixel arithmetic is over `Rat` (exact); `exp` never occurs: a sigmoid value is the symbolic
`off + k / (1 + exp arg)` (`Out.sig`). -/
namespace HdVerif.PixelPipeline
open HdVerif HdVerif.Gen

/-! ## 1. Flags -/

/-- a tri-state flag: `True`, `False`, `None` -/
inductive Tri | t | f | n
  deriving DecidableEq, Repr, Inhabited

/-- Python truthiness as the translated code sees it (`bool` is an `int`) -/
def Tri.toOpt : Tri → Option Int
  | .t => some 1 | .f => some 0 | .n => none

inductive CType | mono | color | palette
  deriving DecidableEq, Repr, Inhabited

/-- names of `_ImageColorType` -/
def CType.name : CType → String
  | .mono => "MONOCHROME" | .color => "COLOR" | .palette => "PALETTE_COLOR"

structure Flags where
  rw : Tri
  mod : Tri
  voi : Tri
  pal : Tri
  icc : Tri
  pres : Bool
  deriving DecidableEq, Repr

/-- which transforms the datasets that apply to the frame contain -/
structure Present where
  rwvm : Bool
  modality : Bool
  voi : Bool
  icc : Bool
  /-- PresentationLUTShape = INVERSE, or absent and MONOCHROME1 -/
  inverse : Bool
  deriving DecidableEq, Repr

structure Stages where
  rwvm : Bool
  modality : Bool
  voi : Bool
  invert : Bool
  palette : Bool
  icc : Bool
  deriving DecidableEq, Repr

/-- `_CombinedPixelTransform.__init__` after the flag block: which stages end up in the transform, or the
refusal.  (Selector and dtype refusals are separate.) -/
def stageOutcome (fl : Flags) (ct : CType) (p : Present) : Except ErrKind Stages :=
  match cptFlags fl.rw.toOpt fl.mod.toOpt fl.voi.toOpt fl.pal.toOpt fl.icc.toOpt ct.name with
  | .error e => .error e
  | .ok (useRw, reqRw, useMod, reqMod, useVoi, reqVoi, usePal, _reqPal, useIcc, reqIcc) =>
    let mono := ct == .mono
    let hasRw := mono && useRw && p.rwvm
    if mono && reqRw && !hasRw then .error .runtime else
    let hasMod := mono && !hasRw && useMod && p.modality
    if mono && reqMod && !hasMod then .error .runtime else
    let hasVoi := mono && !hasRw && useVoi && p.voi
    if mono && reqVoi && !hasVoi then .error .runtime else
    let invert := mono && !hasRw && fl.pres && p.inverse
    let pal := ct == .palette && usePal
    let icc := !mono && useIcc && p.icc
    if reqIcc && !icc then .error .runtime else
    .ok ⟨hasRw, hasMod, hasVoi, invert, pal, icc⟩

/-- The property's table: `True` = applied or refused, `False` = never, `None` = iff present; the real-world
map supersedes modality / VOI / presentation; documented preconditions between the flags are refusals.
`none` = refused. -/
def specOutcome (fl : Flags) (ct : CType) (p : Present) : Option Stages :=
  let mono := ct == .mono
  if fl.rw == .t && fl.mod == .t then none else
  if fl.rw != .t && fl.voi != .f && fl.mod == .f then none else
  if fl.icc != .f && fl.pal == .f then none else
  let rwOn := mono && p.rwvm && (fl.rw == .t || (fl.rw == .n && fl.mod != .t))
  if fl.rw == .t && !rwOn then none else
  let modOn := mono && !rwOn && fl.mod != .f && fl.rw != .t && p.modality
  if fl.mod == .t && !modOn then none else
  let voiOn := mono && !rwOn && fl.voi != .f && fl.rw != .t && p.voi
  if fl.voi == .t && !voiOn then none else
  let inv := mono && !rwOn && fl.pres && p.inverse
  let palOn := ct == .palette && fl.pal != .f
  if fl.pal == .t && !palOn then none else
  let iccOn := !mono && fl.icc != .f && p.icc
  if fl.icc == .t && !iccOn then none else
  some ⟨rwOn, modOn, voiOn, inv, palOn, iccOn⟩

def toOpt {α} : Except ErrKind α → Option α
  | .ok a => some a
  | .error _ => none

/-! ## 2. Lookup tables -/

/-- `table[i]` for a position computed by `applyLutIndex`; a negative or too large position is an error
(numpy would wrap a negative one: the clipped positions never are) -/
def getIdx {α} (l : List α) (i : Int) : Except ErrKind α :=
  if i < 0 then .error .index else
  match l[i.toNat]? with
  | some v => .ok v
  | none => .error .index

/-- `pixels.apply_lut` on one value -/
def applyLut {α} (table : List α) (first : Int) (clip : Bool) (x : Int) : Except ErrKind α :=
  match applyLutIndex first clip x table.length with
  | .error e => .error e
  | .ok i => getIdx table i

/-- smallest / largest entry of a non-empty table -/
def listMin : List Nat → Option Nat
  | [] => none
  | a :: t => some (t.foldl min a)

def listMax : List Nat → Option Nat
  | [] => none
  | a :: t => some (t.foldl max a)

/-- `LUT.get_scaled_lut_data`: entries scaled from [min, max] of the table to [lo, hi], optionally inverted.
A constant table (numpy: division by zero, inf/nan) is refused here. -/
def scaledLut (data : List Nat) (lo hi : Rat) (invert : Bool) : Except ErrKind (List Rat) :=
  match listMin data, listMax data with
  | some mn, some mx =>
    if mx = mn then .error .other else
    let sf : Rat := (hi - lo) / (((mx : Int) : Rat) - ((mn : Int) : Rat))
    .ok (data.map fun (v : Nat) =>
      if invert then (-((v : Int) : Rat) - (-((mx : Int) : Rat))) * sf + lo
      else (((v : Int) : Rat) - ((mn : Int) : Rat)) * sf + lo)
  | _, _ => .error .value

/-- `LUT.get_inverted_lut_data` (`min + max - data`; numpy computes it modulo 2^bits, which is the same
number because the result lies between min and max) -/
def invertedLut (data : List Nat) : Except ErrKind (List Rat) :=
  match listMin data, listMax data with
  | some mn, some mx => .ok (data.map fun (v : Nat) => ((mn : Int) : Rat) + ((mx : Int) : Rat) - ((v : Int) : Rat))
  | _, _ => .error .value

/-! ## 3. Values and the window function -/

/-- a result value: an exact number, or the sigmoid `off + k / (1 + exp arg)` -/
inductive Out
  | val (q : Rat)
  | sig (k off arg : Rat)
  deriving DecidableEq, Repr

def Out.eval (exp : Rat → Rat) : Out → Rat
  | .val q => q
  | .sig k off arg => off + k / (1 + exp arg)

inductive WinFn | linear | exact | sigmoid
  deriving DecidableEq, Repr, Inhabited

def WinFn.name : WinFn → String
  | .linear => "LINEAR" | .exact => "LINEAR_EXACT" | .sigmoid => "SIGMOID"

/-- `pixels.apply_voi_window` on one value (translated cores) -/
def windowOut (fn : WinFn) (c w lo hi : Rat) (invert : Bool) (x : Rat) : Except ErrKind Out :=
  match fn with
  | .sigmoid =>
    match voiSigmoidArg x c w invert with
    | .ok a => .ok (.sig (hi - lo) lo a)
    | .error e => .error e
  | fn =>
    match voiWindowLinear x c w fn.name lo hi invert with
    | .ok y => .ok (.val y)
    | .error e => .error e

/-! ## 4. Parameters in force for one frame -/

inductive Modality
  | none
  | rescale (m b : Rat)
  | lut (first : Int) (data : List Nat)
  deriving Repr

inductive Voi
  | none
  | window (fn : WinFn) (c w : Rat)
  | lut (first : Int) (data : List Nat)
  deriving Repr

inductive Rwvm
  | none
  | linear (first last : Rat) (m b : Rat)
  | lut (first : Int) (data : List Rat)
  deriving Repr

structure Params where
  modality : Modality
  voi : Voi
  rwvm : Rwvm
  /-- range of stored values (from BitsStored / PixelRepresentation) -/
  imin : Int
  imax : Int
  /-- voi_output_range -/
  lo : Rat
  hi : Rat
  deriving Repr

/-! ## 5. Reference pipeline (PS3.3)

Stage order, the window functions, table clipping and the real-world value map are the standard's.  Two conventions
are the LIBRARY's (documented behaviour of `LUT.get_scaled_lut_data` / `get_inverted_lut_data`), copied here and in the
harness oracle alike, so the folding theorems about them show internal consistency, not conformance: a VOI LUT's output
is scaled from the table's own [min, max] entry to `voi_output_range` (`refVoi .lut`), and an inversion without VOI
stage over a modality LUT reflects about `min + max` of the table entries (`rangeSum .lut`) - PS3.3 C.11.2 / C.11.6
speak of the full output range of the descriptor's bit depth.  The real-world-map range check is per value here; the
code tests `frame.min()` / `frame.max()`, i.e. refuses the whole frame when one value is outside. -/

/-- C.11.2.1.2.1 -/
def refLinear (c w lo hi x : Rat) : Rat :=
  if x ≤ c - 1/2 - (w - 1) / 2 then lo
  else if x > c - 1/2 + (w - 1) / 2 then hi
  else ((x - (c - 1/2)) / (w - 1) + 1/2) * (hi - lo) + lo

/-- C.11.2.1.3.2 -/
def refExact (c w lo hi x : Rat) : Rat :=
  if x ≤ c - w / 2 then lo
  else if x > c + w / 2 then hi
  else ((x - c) / w + 1/2) * (hi - lo) + lo

/-- C.11.2.1.3.1: `(hi - lo) / (1 + exp (-4 (x - c) / w)) + lo` -/
def refSigmoid (c w lo hi x : Rat) : Out := .sig (hi - lo) lo (-4 * (x - c) / w)

/-- a table with clipping: below / above -> first / last entry (C.11.1.1, C.11.2.1.1) -/
def refLookup {α} (data : List α) (first : Int) (x : Int) : Except ErrKind α :=
  match data with
  | [] => .error .index
  | a :: t =>
    if x < first then .ok a
    else if x > first + (data.length : Int) - 1 then .ok ((a :: t).getLast (by simp))
    else getIdx data (x - first)

/-- presentation inversion of a value within the VOI output range -/
def invertOut (lo hi : Rat) : Out → Out
  | .val q => .val (hi + lo - q)
  | .sig k off arg => .sig (-k) (hi + lo - off) arg

def refVoi (v : Voi) (lo hi : Rat) (x : Rat) : Except ErrKind Out :=
  match v with
  | .none => .ok (.val x)
  | .window .linear c w => .ok (.val (refLinear c w lo hi x))
  | .window .exact c w => .ok (.val (refExact c w lo hi x))
  | .window .sigmoid c w => .ok (refSigmoid c w lo hi x)
  | .lut first data =>
    if x.den ≠ 1 then .error .value else
    match listMin data, listMax data with
    | some mn, some mx =>
      if mx = mn then .error .other else
      match refLookup data first x.num with
      | .error e => .error e
      | .ok v => .ok (.val ((((v : Int) : Rat) - ((mn : Int) : Rat)) / (((mx : Int) : Rat) - ((mn : Int) : Rat)) * (hi - lo) + lo))
    | _, _ => .error .value

def refModality (m : Modality) (s : Int) : Except ErrKind Rat :=
  match m with
  | .none => .ok (s : Rat)
  | .rescale a b => .ok (a * (s : Rat) + b)
  | .lut first data =>
    match refLookup data first s with
    | .ok v => .ok ((v : Int) : Rat)
    | .error e => .error e

/-- lower + upper end of the modality output range (what an inversion without VOI reflects about) -/
def rangeSum (m : Modality) (imin imax : Int) : Except ErrKind Rat :=
  match m with
  | .none => .ok (((imin + imax : Int)) : Rat)
  | .rescale a b => .ok (a * (((imin + imax : Int)) : Rat) + 2 * b)
  | .lut _ data =>
    match listMin data, listMax data with
    | some mn, some mx => .ok (((mn : Int) : Rat) + ((mx : Int) : Rat))
    | _, _ => .error .value

def refRwvm (r : Rwvm) (s : Int) : Except ErrKind Out :=
  match r with
  | .none => .error .runtime
  | .linear first last m b =>
    if (s : Rat) < first ∨ (s : Rat) > last then .error .value else .ok (.val (m * (s : Rat) + b))
  | .lut first data =>
    if s < first ∨ s > first + (data.length : Int) - 1 then .error .value else
    match getIdx data (s - first) with
    | .ok v => .ok (.val v)
    | .error e => .error e

/-- the stages of the standard, in order, on one stored value -/
def ref (p : Params) (st : Stages) (s : Int) : Except ErrKind Out :=
  if st.rwvm then refRwvm p.rwvm s else
  let modality := if st.modality then p.modality else .none
  match refModality modality s with
  | .error e => .error e
  | .ok x =>
    if st.voi then
      match refVoi p.voi p.lo p.hi x with
      | .error e => .error e
      | .ok y => .ok (if st.invert then invertOut p.lo p.hi y else y)
    else if st.invert then
      match rangeSum modality p.imin p.imax with
      | .error e => .error e
      | .ok r => .ok (.val (r - x))
    else .ok (.val x)

/-! ## 6. What `_CombinedPixelTransform` builds and applies -/

inductive Eff
  | lut (first : Int) (data : List Out) (clip : Bool)
  | affine (a b : Rat) (check : Option (Rat × Rat))
  | window (fn : WinFn) (c w : Rat) (invert : Bool)
  | ident
  deriving Repr

/-- `T[::step]` -/
def stride {α} (l : List α) (step : Nat) : List α :=
  (List.range ((l.length + step - 1) / step)).filterMap fun j => l[j * step]?

def mapExcept {α β} (f : α → Except ErrKind β) : List α → Except ErrKind (List β)
  | [] => .ok []
  | a :: t =>
    match f a with
    | .error e => .error e
    | .ok b =>
      match mapExcept f t with
      | .error e => .error e
      | .ok bs => .ok (b :: bs)

/-- the "determine how to combine modality, voi and presentation transforms" part of `__init__` -/
def build (p : Params) (st : Stages) : Except ErrKind Eff :=
  if st.rwvm then
    match p.rwvm with
    | .none => .error .runtime
    | .lut first data => .ok (.lut first (data.map .val) false)
    | .linear first last m b => .ok (.affine m b (some (first, last)))
  else
    let modality := if st.modality then p.modality else .none
    let voi := if st.voi then p.voi else .none
    match modality with
    | .lut mfirst mdata =>
      match voi with
      | .window fn c w =>
        match mapExcept (fun (v : Nat) => windowOut fn c w p.lo p.hi st.invert ((v : Int) : Rat)) mdata with
        | .error e => .error e
        | .ok d => .ok (.lut mfirst d true)
      | .lut vfirst vdata =>
        match scaledLut vdata p.lo p.hi st.invert with
        | .error e => .error e
        | .ok scaled =>
          match mapExcept (fun (v : Nat) => applyLut scaled vfirst true (v : Int)) mdata with
          | .error e => .error e
          | .ok d => .ok (.lut mfirst (d.map .val) true)
      | .none =>
        if st.invert then
          match invertedLut mdata with
          | .error e => .error e
          | .ok d => .ok (.lut mfirst (d.map .val) true)
        else .ok (.lut mfirst (mdata.map fun (v : Nat) => .val ((v : Int) : Rat)) true)
    | modality =>
      let mb : Rat × Rat := match modality with
        | .rescale m b => (m, b)
        | _ => (1, 0)
      match voi with
      | .window fn c w =>
        match foldWindow c w mb.2 mb.1 fn.name with
        | .error e => .error e
        | .ok (c', w') => .ok (.window fn c' w' st.invert)
      | .lut vfirst vdata =>
        if mb.1 = 0 then .error .value else     -- Python: `[::0]` / division by zero
        match foldVoiLut mb.1 mb.2 vdata.length vfirst with
        | .error e => .error e
        | .ok (rev, step, app, firstOut) =>
          match scaledLut vdata p.lo p.hi st.invert with
          | .error e => .error e
          | .ok scaled =>
            let T := if rev then scaled.reverse else scaled
            let eff := stride T step.toNat ++ (if app then T.drop (T.length - 1) else [])
            .ok (.lut firstOut (eff.map .val) true)
      | .none =>
        if st.invert then
          match foldInvert mb.1 mb.2 p.imin p.imax false with
          | .error e => .error e
          | .ok (a, b) => .ok (.affine a b none)
        else
          match modality with
          | .rescale m b => .ok (.affine m b none)
          | _ => .ok .ident

/-- `__call__` on one stored value -/
def applyEff (lo hi : Rat) (e : Eff) (s : Int) : Except ErrKind Out :=
  match e with
  | .lut first data clip => applyLut data first clip s
  | .affine a b chk =>
    match chk with
    | some (first, last) =>
      if (s : Rat) < first ∨ (s : Rat) > last then .error .value else .ok (.val ((s : Rat) * a + b))
    | none => .ok (.val ((s : Rat) * a + b))
  | .window fn c w inv => windowOut fn c w lo hi inv (s : Rat)
  | .ident => .ok (.val (s : Rat))

/-- the transform the library applies to a stored value -/
def folded (p : Params) (st : Stages) (s : Int) : Except ErrKind Out :=
  match build p st with
  | .error e => .error e
  | .ok e => applyEff p.lo p.hi e s

/-! ## 7. LUT objects (`content.LUT`): descriptor and data encoding, accessors -/

/-- a LUT sequence item as far as the accessors read it -/
structure LutDs where
  /-- LUTDescriptor: number of entries (0 for 65536), first mapped value, bits per entry -/
  descriptor : List Int
  /-- LUTData as bytes (VR OW) -/
  data : List Nat
  deriving DecidableEq, Repr

/-- numpy `tobytes` of one uint8 / uint16 entry (little endian) -/
def entryBytes (bits : Nat) (v : Nat) : List Nat :=
  if bits = 8 then [v % 256] else [v % 256, v / 256 % 256]

def encodeEntries (bits : Nat) (data : List Nat) : List Nat := data.flatMap (entryBytes bits)

/-- numpy `frombuffer(dtype=uint16)`; an odd number of bytes is refused -/
def decode16 : List Nat → Except ErrKind (List Nat)
  | [] => .ok []
  | [_] => .error .value
  | a :: b :: t =>
    match decode16 t with
    | .ok r => .ok ((a + 256 * b) :: r)
    | .error e => .error e

def decodeEntries (bits : Nat) (bytes : List Nat) : Except ErrKind (List Nat) :=
  if bits = 8 then .ok bytes else decode16 bytes

/-- `LUT.__init__(first_mapped_value, lut_data)`; `bits` is the dtype of the array (anything but uint8 /
uint16 is refused), the entries are values of that dtype -/
def lutInit (first : Int) (bits : Nat) (data : List Nat) : Except ErrKind LutDs :=
  if first < 0 then .error .value else
  if first ≥ 2 ^ 16 then .error .value else
  if data.length = 0 then .error .value else
  if data.length > 2 ^ 16 then .error .value else
  let lenData : Int := if data.length = 2 ^ 16 then 0 else (data.length : Int)
  if bits ≠ 16 ∧ bits ≠ 8 then .error .value else
  -- 8-bit tables with an odd number of entries are padded to whole 16-bit words
  let pad : List Nat := if bits = 8 ∧ data.length % 2 = 1 then [0] else []
  .ok ⟨[lenData, first, (bits : Int)], encodeEntries bits data ++ pad⟩

def descr (ds : LutDs) (i : Nat) : Except ErrKind Int :=
  match ds.descriptor[i]? with
  | some v => .ok v
  | none => .error .index

/-- `LUT.number_of_entries` -/
def numberOfEntries (ds : LutDs) : Except ErrKind Int :=
  match descr ds 0 with
  | .ok v => .ok (if v = 0 then 2 ^ 16 else v)
  | .error e => .error e

/-- `LUT.first_mapped_value` -/
def firstMapped (ds : LutDs) : Except ErrKind Int := descr ds 1

/-- `LUT.lut_data` (VR OW) -/
def lutData (ds : LutDs) : Except ErrKind (List Nat) :=
  match descr ds 2 with
  | .error e => .error e
  | .ok bits =>
    if bits ≠ 8 ∧ bits ≠ 16 then .error .runtime else
    match numberOfEntries ds with
    | .error e => .error e
    | .ok length =>
      let data := if bits = 8 ∧ length % 2 = 1 ∧ (ds.data.length : Int) = length + 1
        then ds.data.take (ds.data.length - 1) else ds.data
      match decodeEntries bits.toNat data with
      | .error e => .error e
      | .ok arr => if (arr.length : Int) ≠ length then .error .runtime else .ok arr

/-- what writing to a file does to an odd number of bytes -/
def padEven (ds : LutDs) : LutDs :=
  if ds.data.length % 2 = 1 then { ds with data := ds.data ++ [0] } else ds

/-! ## 8. Selectors -/

inductive Sel
  | idx (k : Int)
  | str (s : String)
  deriving DecidableEq, Repr

/-- Python `l[k]` for a list: negative positions count from the end, out of range is `IndexError` -/
def pyGet {α} (l : List α) (k : Int) : Option α :=
  if k < 0 then
    if -k ≤ (l.length : Int) then l[l.length - (-k).toNat]? else none
  else l[k.toNat]?

/-- Python `l.index(x)` -/
def pyIndex {α} [DecidableEq α] : List α → α → Option Nat
  | [], _ => none
  | a :: t, x => if a = x then some 0 else (pyIndex t x).map (· + 1)

/-- one attribute holding a value (pydicom: scalar) or several (MultiValue) -/
def pickValue {α} (vals : List α) (k : Int) : Option α :=
  match vals with
  | [] => none
  | [v] => if k = 0 ∨ k = -1 then some v else none       -- `selector not in (0, -1)`
  | vals => pyGet vals k

/-- `pixels._select_voi_window_center_width` -/
def selectWindow (centers widths : List Rat) (expl : Option (List String)) (sel : Sel) : Option (Rat × Rat) :=
  let k : Option Int := match sel with
    | .idx k => some k
    | .str s => match expl with
      | none => none
      | some ex => (pyIndex ex s).map fun (j : Nat) => (j : Int)
  match k with
  | none => none
  | some k =>
    match pickValue widths k with
    | none => none
    | some w =>
      match pickValue centers k with
      | none => none
      | some c => some (c, w)

/-- `pixels._select_voi_lut`: the items' LUTExplanation (absent = none) and the items -/
def selectLut {α} (expl : List (Option String)) (items : List α) (sel : Sel) : Option α :=
  match sel with
  | .idx k => pyGet items k
  | .str s => match pyIndex expl (some s) with
    | none => none
    | some j => pyGet items (j : Int)

/-- a selector of `pixels._select_real_world_value_map`: position, LUTLabel, or measurement unit -/
inductive RwSel
  | idx (k : Int)
  | label (s : String)
  | unit (value scheme : String)
  deriving DecidableEq, Repr

def selectRwvm {α} (labels : List String) (units : List (String × String)) (items : List α) (sel : RwSel) : Option α :=
  match sel with
  | .idx k => pyGet items k
  | .label s => match pyIndex labels s with
    | none => none
    | some j => pyGet items (j : Int)
  | .unit v sch => match pyIndex units (v, sch) with
    | none => none
    | some j => pyGet items (j : Int)

/-! ## 9. Where the parameters of a frame come from -/

/-- one kind of parameters (rescale, window, real-world maps) and the places it may sit in -/
structure Placed (α : Type) where
  image : Option α
  shared : Option α
  /-- per item of PerFrameFunctionalGroupsSequence; `[]` = no such sequence -/
  perFrame : List (Option α)
  deriving Repr

/-- the list `datasets` of `__init__` for frame `f`: (content, shared by all frames) -/
def Placed.candidates {α} (pl : Placed α) (f : Nat) : List (Option α × Bool) :=
  (match pl.perFrame[f]? with
   | some o => [(o, false)]
   | none => []) ++ [(pl.shared, true), (pl.image, true)]

/-- the search loops of `__init__`: first dataset that has the parameters -/
def firstHit {α} : List (Option α × Bool) → Option (α × Bool)
  | [] => none
  | (some a, sh) :: _ => some (a, sh)
  | (none, _) :: t => firstHit t

def Placed.find {α} (pl : Placed α) (f : Nat) : Option (α × Bool) := firstHit (pl.candidates f)

/-- VOI information of ONE dataset (the image itself, or the item of FrameVOILUTSequence in a functional group): a VOI
LUT sequence and / or window values; the LUT sequence is used when both are there -/
def voiItem {l w} (luts : Option l) (win : Option w) : Option (Sum l w) :=
  match luts with
  | some x => some (.inl x)
  | none => win.map .inr

/-- VOI information at the three places, each a (VOI LUT sequence, window values) pair -/
def Placed.ofVoi {l w} (image shared : Option l × Option w) (perFrame : List (Option l × Option w)) : Placed (Sum l w) :=
  ⟨voiItem image.1 image.2, voiItem shared.1 shared.2, perFrame.map fun x => voiItem x.1 x.2⟩

/-- the three searched kinds of an image: real-world value maps, rescale parameters, and VOI information (`ω`: window
values or a VOI LUT sequence, `Placed.ofVoi`).  A Modality LUT sequence exists at the image level only (PS3.3 has no
functional group for it); it takes the place of the rescale search and does not affect `applies_to_all_frames`. -/
structure Meta (ρ μ ω : Type) where
  rwvm : Placed ρ
  rescale : Placed μ
  voi : Placed ω

/-- what `__init__` finds for frame `f` and its `applies_to_all_frames` -/
structure Found (ρ μ ω : Type) where
  rwvm : Option ρ
  rescale : Option μ
  voi : Option ω
  all : Bool

def discover {ρ μ ω} (im : Meta ρ μ ω) (useRw useMod useVoi : Bool) (f : Nat) : Found ρ μ ω :=
  let rw := if useRw then im.rwvm.find f else none
  match rw with
  | some (r, sh) => ⟨some r, none, none, sh⟩
  | none =>
    let rs := if useMod then im.rescale.find f else none
    let wn := if useVoi then im.voi.find f else none
    ⟨none, rs.map (·.1), wn.map (·.1),
      (match rs with | some (_, sh) => sh | none => true) && (match wn with | some (_, sh) => sh | none => true)⟩

/-- `get_frame`: transform built for the frame itself -/
def getFrame {ρ μ ω β} (im : Meta ρ μ ω) (useRw useMod useVoi : Bool) (apply : Found ρ μ ω → Nat → β) (f : Nat) : β :=
  apply (discover im useRw useMod useVoi f) f

/-- the frame loop shared by `get_frames` and `_get_pixels_by_frame`: one transform built for frame `f0`, reused
while it `applies_to_all_frames`, otherwise rebuilt for the frame of the iteration -/
def getWith {ρ μ ω β} (im : Meta ρ μ ω) (useRw useMod useVoi : Bool) (apply : Found ρ μ ω → Nat → β) (f0 : Nat)
    (fs : List Nat) : List β :=
  let d0 := discover im useRw useMod useVoi f0
  fs.map fun f => if d0.all then apply d0 f else apply (discover im useRw useMod useVoi f) f

/-- `get_frames`: the reusable transform is built for the first requested frame -/
def getFrames {ρ μ ω β} (im : Meta ρ μ ω) (useRw useMod useVoi : Bool) (apply : Found ρ μ ω → Nat → β) (fs : List Nat) : List β :=
  match fs with
  | [] => []
  | f0 :: _ => getWith im useRw useMod useVoi apply f0 fs

/-- `_get_pixels_by_frame` (core of `get_volume` and `get_total_pixel_matrix`): the reusable transform is built
for frame 1 (index 0) -/
def getPixelsByFrame {ρ μ ω β} (im : Meta ρ μ ω) (useRw useMod useVoi : Bool) (apply : Found ρ μ ω → Nat → β) (fs : List Nat) : List β :=
  getWith im useRw useMod useVoi apply 0 fs

end HdVerif.PixelPipeline
