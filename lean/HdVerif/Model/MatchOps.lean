/-! Names of the steps of `match_geometry`, `VolumeToVolumeTransformer` and
`map_reference_to_indices`, in which the translator (target TC09f) writes down the *order of
operations it finds in the source*; `Model/Match.lean` interprets such lists. -/
namespace HdVerif.Match

/-- the top-level steps of `match_geometry` -/
inductive MgOp
  | head          -- frame-of-reference / coordinate-system refusals (Gen.mgHead)
  | align         -- the two nested alignment loops (body: Gen.mgAlign)
  | permute       -- new_volume = self.permute_spatial_axes(permute_indices)   [else: new_volume = self]
  | plan          -- the crop/pad derivation loop (body: Gen.mgCropPad)
  | copy          -- new_volume = new_volume.copy()
  | pad           -- new_volume = new_volume.pad(pad_values, mode=mode, constant_value=constant_value, per_channel=per_channel)
  | crop          -- new_volume = new_volume[tuple(crop_slices)]
  | finalCheck    -- if not new_volume.geometry_equal(other, tol=tol): raise RuntimeError
  deriving DecidableEq, Repr

/-- the steps of the two index-mapping entry points -/
inductive IdxOp
  | product       -- self._affine = volume_to.inverse_affine @ volume_from.affine
  | inverse       -- np.dot(self.inverse_affine, ...)   (inverse_affine = np.linalg.inv(self._affine))
  | apply         -- np.dot(self._affine, [indices; 1])[:3]
  | round         -- np.around(...) when round_output
  | cast          -- astype(...): choice of the output dtype (rounded) / cast back to a float input dtype (unrounded)
  | check         -- the bounds check when check_bounds
  deriving DecidableEq, Repr

/-- whose attribute: the volume being matched (`self` / `new_volume`) or the target (`other`) -/
inductive GObj
  | own
  | other
  deriving DecidableEq, Repr

/-- a per-axis sequence of `match_geometry` -/
inductive AxisSrc
  | unit (o : GObj)       -- o.unit_vectors()
  | spacing (o : GObj)    -- o.spacing
  | shape (o : GObj)      -- o.spatial_shape
  | steps                 -- step_sizes
  deriving DecidableEq, Repr

/-- what the crop/pad loop forwards into its (translated) body, extracted from the source (TC09i) -/
structure PlanArgs where
  offsetVec : AxisSrc
  offsetFrom : GObj
  offsetTo : GObj
  spacing : AxisSrc
  step : AxisSrc
  outShape : AxisSrc
  inShape : AxisSrc
  cropInit : Bool
  padInit : Bool
  deriving DecidableEq, Repr

/-- what the alignment loops forward into their (translated) body, extracted from the source (TC09j) -/
structure AlignArgs where
  u : AxisSrc
  s : AxisSrc
  v : AxisSrc
  t : AxisSrc
  deriving DecidableEq, Repr

end HdVerif.Match
