import HdVerif.Model.Coding
/-! C17, second part of the hand model: coded concepts as **dictionary keys / set members** and **histories on an
object store** (several concepts made one after the other by the constructor, `from_code`, `from_dataset`,
`deepcopy` / a pickle round trip, then written to through their references), and the DICOM file round trip of the
four strings.

* Python's `dict` / `set` are modelled by what is observable: the entries in insertion order; a look-up walks the
  entries and takes the first one whose STORED hash equals the hash of the key looked up and whose stored key
  compares equal to it (`stored == looked-up`, CPython `lookdict`: full hashes are compared before `==` is
  called; the probe order is not observable as long as at most one entry can match, which `PyDict.distinct`
  states and every operation keeps).  The identity shortcut (`stored is key`) is not modelled: `==` is reflexive
  on every object the theorems speak about.
* The object store is the `Heap` of `Model/Coding.lean`; `deepcopy` and `pickle.loads(pickle.dumps(x))` allocate a
  new cell with equal class and content.

Tie: stream `dict-history` / `store-history` / `file-strings` of `harness/corr/C17.py` (model vs real objects,
step by step); `fromCode` / `fromDataset` / `mkConcept` used by the steps are the definitions of
`Model/Coding.lean` with their regenerated decision parts. -/
namespace HdVerif.Coding
open HdVerif HdVerif.Gen

/-! ### dict / set -/

/-- one slot of a dict (`β` = value type; `Unit` for a set) -/
structure Entry (β : Type) where
  hash : Int
  key : Obj
  val : β

abbrev PyDict (β : Type) := List (Entry β)

/-- `d[k]` / `k in d` with the hash of `k` already computed -/
def pyGetH {β : Type} (retired : String → String → Option String) (hk : Int) (k : Obj) :
    PyDict β → Except ErrKind (Option β)
  | [] => .ok none
  | e :: rest =>
    if e.hash = hk then
      match objEq retired e.key k with
      | .error err => .error err
      | .ok true => .ok (some e.val)
      | .ok false => pyGetH retired hk k rest
    else pyGetH retired hk k rest

/-- `d[k] = v` / `s.add(k)`: an entry that matches keeps its KEY OBJECT and its position, only the value is
replaced; otherwise a new entry is appended -/
def pySetH {β : Type} (retired : String → String → Option String) (hk : Int) (k : Obj) (v : β) :
    PyDict β → Except ErrKind (PyDict β)
  | [] => .ok [⟨hk, k, v⟩]
  | e :: rest =>
    if e.hash = hk then
      match objEq retired e.key k with
      | .error err => .error err
      | .ok true => .ok ({ e with val := v } :: rest)
      | .ok false => match pySetH retired hk k v rest with
        | .error err => .error err
        | .ok r => .ok (e :: r)
    else match pySetH retired hk k v rest with
      | .error err => .error err
      | .ok r => .ok (e :: r)

/-- `del d[k]` / `s.remove(k)`: `none` = KeyError -/
def pyDelH {β : Type} (retired : String → String → Option String) (hk : Int) (k : Obj) :
    PyDict β → Except ErrKind (Option (PyDict β))
  | [] => .ok none
  | e :: rest =>
    if e.hash = hk then
      match objEq retired e.key k with
      | .error err => .error err
      | .ok true => .ok (some rest)
      | .ok false => match pyDelH retired hk k rest with
        | .error err => .error err
        | .ok none => .ok none
        | .ok (some r) => .ok (some (e :: r))
    else match pyDelH retired hk k rest with
      | .error err => .error err
      | .ok none => .ok none
      | .ok (some r) => .ok (some (e :: r))

def pyGet {β : Type} (h : String → Int) (retired : String → String → Option String) (d : PyDict β) (k : Obj) :
    Except ErrKind (Option β) :=
  match hashOf h k with
  | .error e => .error e
  | .ok hk => pyGetH retired hk k d

def pySet {β : Type} (h : String → Int) (retired : String → String → Option String) (d : PyDict β) (k : Obj) (v : β) :
    Except ErrKind (PyDict β) :=
  match hashOf h k with
  | .error e => .error e
  | .ok hk => pySetH retired hk k v d

def pyDel {β : Type} (h : String → Int) (retired : String → String → Option String) (d : PyDict β) (k : Obj) :
    Except ErrKind (Option (PyDict β)) :=
  match hashOf h k with
  | .error e => .error e
  | .ok hk => pyDelH retired hk k d

/-- a history of insertions `d[k] = v`, first to last (an insertion that raises stops the history) -/
def insertAll {β : Type} (h : String → Int) (retired : String → String → Option String) :
    PyDict β → List (Obj × β) → Except ErrKind (PyDict β)
  | d, [] => .ok d
  | d, (k, v) :: rest => match pySet h retired d k v with
    | .error e => .error e
    | .ok d' => insertAll h retired d' rest

/-- operations of a dict / set history -/
inductive DOp (β : Type)
  | set (k : Obj) (v : β)
  | get (k : Obj)
  | del (k : Obj)

/-- one step: new dict and what the caller sees (`some v` found / `none` absent or KeyError) -/
def dictStep {β : Type} (h : String → Int) (retired : String → String → Option String) (d : PyDict β) :
    DOp β → Except ErrKind (PyDict β × Option β)
  | .set k v => match pySet h retired d k v with
    | .error e => .error e
    | .ok d' => .ok (d', some v)
  | .get k => match pyGet h retired d k with
    | .error e => .error e
    | .ok r => .ok (d, r)
  | .del k => match pyGet h retired d k, pyDel h retired d k with
    | .ok r, .ok (some d') => .ok (d', r)
    | .ok _, .ok none => .ok (d, none)
    | .error e, _ => .error e
    | _, .error e => .error e

/-- a whole history; a step that raises leaves the dict as it was -/
def dictRun {β : Type} (h : String → Int) (retired : String → String → Option String) :
    PyDict β → List (DOp β) → PyDict β × List (Except ErrKind (Option β))
  | d, [] => (d, [])
  | d, op :: rest => match dictStep h retired d op with
    | .error e =>
      let r := dictRun h retired d rest
      (r.1, .error e :: r.2)
    | .ok (d', out) =>
      let r := dictRun h retired d' rest
      (r.1, .ok out :: r.2)

/-! ### histories on the object store -/

/-- what a program can do with coded concepts it holds by reference -/
inductive HOp
  /-- `CodedConcept(v, s, m, ver)` -/
  | new (v s m : String) (ver : Option String)
  /-- `CodedConcept.from_code(Code(v, s, m, ver))` -/
  | fromCode (v s m : String) (ver : Option String)
  /-- `CodedConcept.from_code(<object r>)` -/
  | fromConcept (r : Nat)
  /-- `CodedConcept.from_dataset(<object r>, copy)` -/
  | fromDataset (r : Nat) (copy : Bool)
  /-- `copy.deepcopy(<object r>)`, `pickle.loads(pickle.dumps(<object r>))` -/
  | deepcopy (r : Nat)
  /-- `<object r>.<k> = v` -/
  | set (r : Nat) (k v : String)
  /-- `del <object r>.<k>` (AttributeError when absent) -/
  | del (r : Nat) (k : String)

/-- the reference an operation writes through (every other existing object must stay as it is) -/
def HOp.target : HOp → Option Nat
  | .set r _ _ => some r
  | .del r _ => some r
  | .fromDataset r false => some r
  | _ => none

/-- one step: new store and the reference returned (`none` for statements) -/
def stepH (h : Heap) : HOp → Except ErrKind (Heap × Option Nat)
  | .new v s m ver => match mkConcept v s m ver with
    | .error e => .error e
    | .ok d => .ok (h ++ [{ cls := .codedConcept, ds := d }], some h.length)
  | .fromCode v s m ver => match fromCode (.code ⟨some v, some s, some m, ver⟩) with
    | .error e => .error e
    | .ok (.concept d) => .ok (h ++ [{ cls := .codedConcept, ds := d }], some h.length)
    | .ok (.code _) => .error .other
  | .fromConcept r => match h[r]? with
    | none => .error .other
    | some cell =>
      if cell.cls = .codedConcept then
        match fromCode (.concept cell.ds) with
        | .error e => .error e
        | .ok _ => .ok (h, some r)
      else .error .attribute
  | .fromDataset r copy => match fromDataset h r copy with
    | .error e => .error e
    | .ok (h', r') => .ok (h', some r')
  | .deepcopy r => match h[r]? with
    | none => .error .other
    | some cell => .ok (h ++ [cell], some h.length)
  | .set r k v => match h[r]? with
    | none => .error .other
    | some _ => .ok (setAttr h r k v, none)
  | .del r k => match h[r]? with
    | none => .error .other
    | some cell =>
      if DS.has cell.ds k then .ok (h.set r { cell with ds := DS.del cell.ds k }, none)
      else .error .attribute

/-- a history; a refused step leaves the store as it was -/
def runH : Heap → List HOp → Heap × List (Except ErrKind (Option Nat))
  | h, [] => (h, [])
  | h, op :: rest => match stepH h op with
    | .error e =>
      let r := runH h rest
      (r.1, .error e :: r.2)
    | .ok (h', out) =>
      let r := runH h' rest
      (r.1, .ok out :: r.2)

/-! ### `copy.copy`: pydicom's shallow copy shares the element table

`copy.copy(ds)` makes a new Python object whose `__dict__` is a shallow copy of the original's: the attribute `_dict` (keyword ↦
element) of the two objects is THE SAME dictionary.  Objects are therefore modelled as pointers into a list of element tables;
`deepcopy` / pickle allocate a new table, `copy.copy` a new object on the old table. -/

structure OStore where
  /-- element tables -/
  tables : List DS
  /-- object ↦ index of its element table -/
  objs : List Nat
  deriving DecidableEq, Repr

inductive SOp
  | shallow (o : Nat)          -- copy.copy(<object o>)
  | deep (o : Nat)             -- copy.deepcopy(<object o>)
  | set (o : Nat) (k v : String)
  | del (o : Nat) (k : String)

/-- what object `o` reads -/
def OStore.content (s : OStore) (o : Nat) : Option DS :=
  match s.objs[o]? with
  | none => none
  | some t => s.tables[t]?

def sstep (s : OStore) : SOp → OStore
  | .shallow o => match s.objs[o]? with
    | none => s
    | some t => { s with objs := s.objs ++ [t] }
  | .deep o => match s.content o with
    | none => s
    | some d => { tables := s.tables ++ [d], objs := s.objs ++ [s.tables.length] }
  | .set o k v => match s.objs[o]?, s.content o with
    | some t, some d => { s with tables := s.tables.set t (DS.set d k v) }
    | _, _ => s
  | .del o k => match s.objs[o]?, s.content o with
    | some t, some d => { s with tables := s.tables.set t (DS.del d k) }
    | _, _ => s

def srun (s : OStore) (ops : List SOp) : OStore := ops.foldl sstep s

/-- a dict entry whose key OBJECT was mutated after the insertion: the entry keeps the hash it was stored under -/
def mutateKey {β : Type} (d : PyDict β) (i : Nat) (newKey : Obj) : PyDict β :=
  match d[i]? with
  | none => d
  | some e => d.set i { e with key := newKey }

/-! ### the four strings through a written file (no SpecificCharacterSet: pydicom's default repertoire, ISO 8859-1) -/

/-- what the writer makes of a character: code points above 255 cannot be encoded in the default repertoire and become `?` -/
def toDefaultRepertoire (c : Char) : Char := if c.val < 256 then c else '?'

/-- padding characters of the text VRs (SH, LO, UC): blank and NUL -/
def isPad (c : Char) : Bool := c == ' ' || c == '\x00'

/-- Python's `str.isspace` on the default repertoire (what `rstrip()` without argument removes) -/
def isPyWhitespace (c : Char) : Bool :=
  c.val == 9 || c.val == 10 || c.val == 11 || c.val == 12 || c.val == 13 || c.val == 28 || c.val == 29 || c.val == 30 ||
  c.val == 31 || c.val == 32 || c.val == 133 || c.val == 160

/-- drop the trailing characters that satisfy `p` -/
def stripTrailingBy (p : Char → Bool) (s : String) : String :=
  String.ofList (s.toList.reverse.dropWhile p).reverse

/-- trailing blanks and NULs (the padding characters) are gone -/
def stripTrailing (s : String) : String := stripTrailingBy isPad s

/-- which trailing characters pydicom's reader removes from the value of attribute `kw`: all white space for the UR value
of URNCodeValue (`rstrip()`), the padding characters everywhere else -/
def stripSet (kw : String) : Char → Bool := if kw = "URNCodeValue" then isPyWhitespace else isPad

/-- a string written into attribute `kw` and read back -/
def readBack (kw : String) (s : String) : String :=
  stripTrailingBy (stripSet kw) (String.ofList (s.toList.map toDefaultRepertoire))

/-- a concept's dataset after `dcmwrite` + `dcmread` -/
def fileRoundTrip (d : DS) : DS := d.map (fun e => (e.1, readBack e.1 e.2))

end HdVerif.Coding
