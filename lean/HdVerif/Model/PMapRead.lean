import HdVerif.Model.PMap
import HdVerif.Model.FrameAccess
import HdVerif.Model.CodecGlue
/-! C19: reading the frames of a parametric map back through ONE image object, along every path and after every history.

`get_stored_frame` / `get_stored_frames` have two branches (`if self._pixel_array is None`): the un-cached one cuts the frame's
bytes out of the pixel data element (in memory) or reads them from the file (lazy frame retrieval) and decodes them; the cached
one subscripts the `pixel_array` that was decoded earlier.  Both are written here with the call skeletons REGENERATED from
`image.py` for C05 (`FrameAccess.singleSkel`, `batchSkel`: T1b; byte ranges, offsets, guards: T4, T11, T11b, T11c), so that the
read-back theorems of this property speak about the current source; `Proofs/PMapRead.lean` relates them to the hand-written
`readStoredFrame` of `Model/PMap.lean`. -/
namespace HdVerif.PMap
open HdVerif HdVerif.Gen HdVerif.Codec HdVerif.FrameAccess

/-- how the image object holds the data: the whole data set in memory, or a file read lazily -/
inductive Holding | memory | lazy
  deriving DecidableEq, Repr

/-- frame number as the caller spells it for the 0-based frame `f`: 1-based, or 0-based with `as_index=True` -/
def frameKey (f : Nat) (asIndex : Bool) : Int := if asIndex then (f : Int) else (f : Int) + 1

/-- the un-cached branch: the frame's bytes (C05's regenerated skeleton and byte ranges) cut into cells.  **As the code is**:
    this branch reads `self.PixelData` (in memory) resp. hands `self.PixelRepresentation` to `decode_frame` (lazy), which a map
    stored in `FloatPixelData` / `DoubleFloatPixelData` does not have (open finding C19-float-frames-unreadable). -/
def storedUncached (sk : Skel) (how : Holding) (o : PMObject) (k : Int) (asIndex : Bool) : Except ErrKind (List Cell) :=
  -- both methods standardise the frame number first (`IndexError` beyond the image), then touch the element
  match sk.index (o.numberOfFrames : Int) k asIndex with
  | .error e => .error e
  | .ok _ =>
  if o.element != "PixelData" then .error .attribute
  else
    let bits : Int := ((8 * o.itemsize : Nat) : Int)
    let n : Int := (o.numberOfFrames : Int)
    let raw := match how with
      | .memory => sk.frameBytes (memRaw o.pixelData (o.rows : Int) (o.cols : Int) ((1 : Nat) : Int) bits "MONOCHROME2") n k asIndex
      | .lazy => sk.frameBytes (lazyRaw o.pixelData (o.rows : Int) (o.cols : Int) ((1 : Nat) : Int) bits n "MONOCHROME2") n k asIndex
    match raw with
    | .ok b => .ok (toCells o.itemsize (o.rows * o.cols) b)
    | .error e => .error e

/-- the cached branch: `pixel_array` -- pydicom's decode of whichever pixel data element is there, frame `f` of it being the
    cells of frame `f` -- subscripted with the regenerated expression (the whole array for a single-frame image) -/
def storedCached (sk : Skel) (o : PMObject) (k : Int) (asIndex : Bool) : Except ErrKind (List Cell) :=
  match o.frames with
  | [] => .error .index
  | w :: _ => sk.cached o.frames w k asIndex

/-- what a caller can do with one image object -/
inductive ReadOp
  /-- `get_stored_frame(k, as_index)` for the 0-based frame `f` -/
  | stored (f : Nat) (asIndex : Bool)
  /-- one element of `get_stored_frames([.., k, ..], as_indices)` -/
  | storedBatch (f : Nat) (asIndex : Bool)
  /-- touching `.pixel_array` -/
  | pixelArray
  /-- `get_frame(k, as_index, apply_real_world_transform=True, real_world_value_map_selector=sel)` -/
  | real (f : Nat) (asIndex : Bool) (sel : Selector)

inductive ReadResult
  | cells (r : Except ErrKind (List Cell))
  | reals (r : Except ErrKind (List Rat))
  | done
  | failed (e : ErrKind)
  deriving DecidableEq

/-- `get_stored_frame` in the state `cached` of the object -/
def storedIn (sk : Skel) (how : Holding) (o : PMObject) (cached : Bool) (f : Nat) (asIndex : Bool) : Except ErrKind (List Cell) :=
  if cached then storedCached sk o (frameKey f asIndex) asIndex else storedUncached sk how o (frameKey f asIndex) asIndex

/-- one operation: (new state, result).  `pixel_array` populates the cache: in memory pydicom decodes the element that is
    there; on a lazily read image it is assembled from `get_stored_frames()`, which fails for a float map. -/
def step (how : Holding) (o : PMObject) (cached : Bool) : ReadOp → Bool × ReadResult
  | .stored f ai => (cached, .cells (storedIn singleSkel how o cached f ai))
  | .storedBatch f ai => (cached, .cells (storedIn batchSkel how o cached f ai))
  | .pixelArray =>
    if cached then (true, .done)
    else match how with
      | .memory => (true, .done)
      | .lazy => if o.element != "PixelData" then (false, .failed .attribute) else (true, .done)
  | .real f ai sel =>
    (cached, .reals (
      -- `get_frame` = `get_stored_frame`, then the pixel transform, which needs `PixelRepresentation`
      if o.element != "PixelData" then .error .attribute
      else do
        let stored ← storedIn singleSkel how o cached f ai
        let ms ← attachedMappings o f
        let mp ← select ms sel
        applyMapping mp (stored.map cellValue)))

/-- a whole history on one object, from the state `cached` -/
def run (how : Holding) (o : PMObject) : Bool → List ReadOp → List ReadResult
  | _, [] => []
  | cached, op :: ops => (step how o cached op).2 :: run how o (step how o cached op).1 ops

/-- what every read of a native integer map must return, whatever happened before -/
def spec (x : PMInput) : ReadOp → ReadResult
  | .stored f _ => .cells (if f < x.n * x.m then .ok (plane x (f / x.m) (f % x.m)) else .error .index)
  | .storedBatch f _ => .cells (if f < x.n * x.m then .ok (plane x (f / x.m) (f % x.m)) else .error .index)
  | .pixelArray => .done
  | .real f _ sel => .reals (
      if f < x.n * x.m then
        (select (x.maps (f % x.m)) sel).bind (fun mp => applyMapping mp ((plane x (f / x.m) (f % x.m)).map cellValue))
      else .error .index)

/-! ### a secondary capture read through highdicom's own readers -/

/-- the pixel module of the written secondary capture, as the readers of the image classes see it (`Codec.readFrame`, T13g) -/
def SCObject.module (ts : String) (o : SCObject) : Codec.PixelModule :=
  ⟨ts, o.rows, o.cols, o.samplesPerPixel.toNat, o.bitsAllocated, some o.bitsStored, o.photometricInterpretation,
   o.pixelRepresentation, o.planarConfiguration⟩

/-- the pixel module of a written parametric map with integer pixel data, as the readers see it -/
def PMObject.module (ts : String) (o : PMObject) : Codec.PixelModule :=
  ⟨ts, o.rows, o.cols, 1, o.bitsAllocated, some o.bitsStored, "MONOCHROME2", o.pixelRepresentation, none⟩

end HdVerif.PMap
