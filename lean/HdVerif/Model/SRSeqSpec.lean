import HdVerif.Model.SRContentSeq
/-! # The specification machine of a content sequence: a plain list (property C14)

What the property says a `ContentSequence` IS: a list of items governed by the relationship-type rule of its two
flags, with the name index DERIVED from the list (`derivedIndex`).  No shadow state.  Every operation of the history
language (`SRContentSeq.Op`) has its list effect and its refusal written down here without mentioning `_lut`;
`Props/C14.lean` proves that the model of the class (`SRContentSeq.step`, whose index maintenance is the
regenerated program of the current source) refines this machine on every reachable state, for whole histories,
refused operations and their partial effects included (`refines_list_machine`, `history_refines_list_machine`).

Nothing here is source code: this file is the specification side of the refinement. -/
namespace HdVerif.SRSeqSpec
open HdVerif HdVerif.SRContentSeq

/-- the property's relationship-type rule: root items carry no relationship type, items of a non-root SR sequence
carry one, non-SR sequences take both -/
def ruleOk (isRoot isSr : Bool) (it : Item) : Bool :=
  if isRoot then it.rel.isNone else (!isSr || it.rel.isSome)

/-- the name index the property talks about: the items of that name, as they stand in the list -/
def derivedIndex (l : List Item) (n : Nat) : List Item := l.filter (fun it => it.name == n)

/-- `extend` / `+=`: the items go in one by one; the first that breaks the rule stops it (what came before stays) -/
def specExtend (r sr : Bool) (l xs : List Item) : List Item × Option ErrKind :=
  (l ++ xs.takeWhile (ruleOk r sr), if xs.all (ruleOk r sr) then none else some .attribute)

/-- the list effect and the refusal of every operation whose outcome the list determines (all but `intoFind`, whose
result is fixed up to the order of the items: `SpecStep.find`) -/
def specFn (r sr : Bool) (l : List Item) : Op → Option (List Item × Option ErrKind)
  | .append x => some (if ruleOk r sr x then (l ++ [x], none) else (l, some .attribute))
  | .extend xs => some (specExtend r sr l xs)
  | .iadd xs => some (specExtend r sr l xs)
  | .extendSelf => some (specExtend r sr l l)
  | .insert pos x =>
    some (if ruleOk r sr x then
      (l.take (insertPos l.length pos) ++ x :: l.drop (insertPos l.length pos), none) else (l, some .attribute))
  | .insertBad x => some (l, some (if ruleOk r sr x then .type else .attribute))
  | .setItem i x =>
    some (if ruleOk r sr x then
      (match normIdx l.length i with
       | .ok k => (l.set k x, none)
       | .error e => (l, some e))
     else (l, some .attribute))
  | .setSlice a b c xs =>
    some (if xs.all (ruleOk r sr) then
      (match resolveSlice l.length a b c with
       | .error e => (l, some e)
       | .ok sel => match setSel l xs sel with
         | .error e => (l, some e)
         | .ok l' => (l', none))
     else (l, some .attribute))
  | .delItem i =>
    some (match normIdx l.length i with
      | .ok k => (l.take k ++ l.drop (k + 1), none)
      | .error e => (l, some e))
  | .delSlice a b c =>
    some (match resolveSlice l.length a b c with
      | .ok sel => (delSel l sel, none)
      | .error e => (l, some e))
  | .pop i =>
    some (match normIdx l.length (i.getD (-1)) with
      | .ok k => (l.take k ++ l.drop (k + 1), none)
      | .error e => (l, some e))
  | .remove x =>
    some (if l.any (fun y => y.eqv x) then
      (l.take (l.findIdx (fun y => y.eqv x)) ++ l.drop (l.findIdx (fun y => y.eqv x) + 1), none)
     else (l, some .value))
  | .reverse => some (l.reverse, none)
  | .clear => some ([], none)
  | .intoFind _ => none
  | .intoNodes => some (l.filter (·.hasContent), none)
  | .appendOther => some (l, some .type)
  | .extendOther pre => some ((specExtend r sr l pre).1, some ((specExtend r sr l pre).2.getD .type))
  | .insertOther => some (l, some .type)
  | .setOther pre => some (l, some (if pre.all (ruleOk r sr) then .type else .attribute))

/-- one step of the specification machine: list before, operation, list after, refusal -/
inductive SpecStep (r sr : Bool) (l : List Item) : Op → List Item → Option ErrKind → Prop
  | det {op : Op} {l' : List Item} {e : Option ErrKind} : specFn r sr l op = some (l', e) → SpecStep r sr l op l' e
  | find {n : Nat} {l' : List Item} : l'.Perm (derivedIndex l n) → SpecStep r sr l (.intoFind n) l' none

/-- a whole history of the specification machine (refused operations are steps like any other) -/
inductive SpecRun (r sr : Bool) : List Item → List Op → List Item → Prop
  | nil {l : List Item} : SpecRun r sr l [] l
  | cons {l l' l'' : List Item} {op : Op} {ops : List Op} {e : Option ErrKind} :
      SpecStep r sr l op l' e → SpecRun r sr l' ops l'' → SpecRun r sr l (op :: ops) l''

/-- the queries of the specification: functions of the list alone -/
def specIndex (l : List Item) (x : Item) : Except ErrKind Nat :=
  if l.any (fun y => y.eqv x) then .ok (l.findIdx (fun y => y.eqv x)) else .error .value

def specContains (l : List Item) (x : Item) : Bool := l.any (fun y => y.eqv x)

def specNodes (l : List Item) : List Item := l.filter (·.hasContent)

end HdVerif.SRSeqSpec
