import HdVerif.Model.Basic
/-!
# Value-representation guards and UIDs (C20)

* a small executable semantics of the fragment of Python `re` used by `valuerep.py`
  (character classes, `.`, bounded / unbounded repetition of a single class, `$`, `\Z`; `re.match`,
  `re.fullmatch`, `re.search` observed only through `is None`), validated against CPython's engine by the
  correspondence (every string up to length 3/4 over an alphabet containing the boundary characters);
* the DICOM PS3.5 §6.2 validity predicates for CS, SH, LO, ST, LT (character repertoire and length) — these
  are the *specification*, written independently of the code;
* UID validity (PS3.5 §9.1) and the decimal rendering used by `UID.from_uuid` / `UID()`.

A Python `str` is modelled as `List Char` (code points; `len` = `List.length`).
-/
namespace HdVerif.VR

/-! ## regular expressions -/

/-- a character class `[...]`: inclusive code-point ranges, possibly negated (`.` is `[^\n]`) -/
structure Cls where
  neg : Bool
  ranges : List (Nat × Nat)
  deriving Repr, DecidableEq

def Cls.mem (k : Cls) (c : Char) : Bool :=
  (k.ranges.any fun r => decide (r.1 ≤ c.toNat) && decide (c.toNat ≤ r.2)) != k.neg

inductive Atom
  /-- `[k]{lo,hi}`; `hi = none` is unbounded (`*`, `+`, `{lo,}`) -/
  | rep (k : Cls) (lo : Nat) (hi : Option Nat)
  /-- `$` without MULTILINE: at the end, or just before a newline that ends the string -/
  | eol
  /-- `\Z`: only at the very end -/
  | eos
  deriving Repr

abbrev Re := List Atom

/-- try every admissible repetition count of class `k` in front of the continuation `cont`
(existence of a match is all that is observed, so greediness / backtracking order is irrelevant) -/
def repGo (k : Cls) (cont : List Char → Bool) : Nat → Option Nat → List Char → Bool
  | lo, _, [] => lo == 0 && cont []
  | lo, hi, c :: t =>
    (lo == 0 && cont (c :: t)) || (hi != some 0 && k.mem c && repGo k cont (lo - 1) (hi.map (· - 1)) t)

/-- does the pattern match a prefix of `s` (Python `re.match(p, s) is not None`) -/
def matchFrom : Re → List Char → Bool
  | [], _ => true
  | .eol :: r, s => (s == [] || s == ['\n']) && matchFrom r s
  | .eos :: r, s => s == [] && matchFrom r s
  | .rep k lo hi :: r, s => repGo k (matchFrom r) lo hi s

/-- `re.match(p, s) is not None` -/
def reMatch (p : Re) (s : List Char) : Bool := matchFrom p s
/-- `re.fullmatch(p, s) is not None` -/
def reFullmatch (p : Re) (s : List Char) : Bool := matchFrom (p ++ [.eos]) s
/-- `re.search(p, s) is not None` -/
def reSearch (p : Re) : List Char → Bool
  | [] => matchFrom p []
  | c :: t => matchFrom p (c :: t) || reSearch p t

/-! ## PS3.5 §6.2 validity (the specification) -/

/-- C0 control characters and DEL -/
def isControl (c : Char) : Prop := c.toNat < 32 ∨ c.toNat = 127
instance (c : Char) : Decidable (isControl c) := by unfold isControl; exact inferInstance

/-- CS repertoire: uppercase letters `A`–`Z` (65–90), digits `0`–`9` (48–57), SPACE (32), underscore (95) -/
def isCSChar (c : Char) : Prop :=
  (65 ≤ c.toNat ∧ c.toNat ≤ 90) ∨ (48 ≤ c.toNat ∧ c.toNat ≤ 57) ∨ c.toNat = 32 ∨ c.toNat = 95
instance (c : Char) : Decidable (isCSChar c) := by unfold isCSChar; exact inferInstance

/-- digit, space or underscore (what `_check_code_string` refuses as a first character) -/
def isDigitSpaceUnderscore (c : Char) : Prop := (48 ≤ c.toNat ∧ c.toNat ≤ 57) ∨ c.toNat = 32 ∨ c.toNat = 95
/-- space or underscore (what `_check_code_string` refuses as a last character) -/
def isSpaceUnderscore (c : Char) : Prop := c.toNat = 32 ∨ c.toNat = 95

/-- Code String: at most 16 characters of the CS repertoire -/
def validCS (s : List Char) : Prop := s.length ≤ 16 ∧ ∀ c ∈ s, isCSChar c

/-- SH / LO: at most `n` characters, no backslash (5CH), no control character except ESC (1BH) -/
def validString (n : Nat) (s : List Char) : Prop :=
  s.length ≤ n ∧ (∀ c ∈ s, c.toNat ≠ 92) ∧ ∀ c ∈ s, isControl c → c.toNat = 27
def validSH := validString 16
def validLO := validString 64

/-- ST / LT: at most `n` characters; control characters only TAB (09H), LF (0AH), FF (0CH), CR (0DH), ESC (1BH) -/
def validText (n : Nat) (s : List Char) : Prop :=
  s.length ≤ n ∧ ∀ c ∈ s, isControl c → c.toNat = 9 ∨ c.toNat = 10 ∨ c.toNat = 12 ∨ c.toNat = 13 ∨ c.toNat = 27
def validST := validText 1024
def validLT := validText 10240

/-! ## UIDs (PS3.5 §9.1) -/

/-- Python `str.split('.')` on a list of characters -/
def splitDot : List Char → List (List Char)
  | [] => [[]]
  | c :: t =>
    if c = '.' then [] :: splitDot t
    else match splitDot t with
      | [] => [[c]]
      | h :: r => (c :: h) :: r

/-- one UID component: non-empty, decimal digits only, no leading zero unless it is the single digit `0` -/
def compOk (comp : List Char) : Prop :=
  comp ≠ [] ∧ (∀ c ∈ comp, c.isDigit = true) ∧ (comp.head? = some '0' → comp = ['0'])
instance (comp : List Char) : Decidable (compOk comp) := by unfold compOk; exact inferInstance

/-- a valid UID: at most 64 characters, dot-separated valid components -/
def validUID (s : List Char) : Prop := s.length ≤ 64 ∧ ∀ comp ∈ splitDot s, compOk comp
instance (s : List Char) : Decidable (validUID s) := by unfold validUID; exact inferInstance

/-- `f'{prefix}{n}'`: the prefix followed by the decimal rendering of `n` (Python `str(int)`) -/
def renderUid (pre : String) (n : Nat) : List Char := pre.toList ++ Nat.toDigits 10 n

/-- `UID.from_uuid`: the 128-bit integer value `n` of the UUID under the root taken from the source -/
def fromUuid (root : String) (n : Nat) : Except ErrKind (List Char) :=
  if n < 2 ^ 128 then .ok (renderUid root n) else .error .value

/-- `UID()`: `pydicom.uid.generate_uid(prefix)` draws `n < 10 ** (64 - len(prefix))`; `n` is the draw -/
def defaultUid (pre : String) (n : Nat) : Except ErrKind (List Char) :=
  if n < 10 ^ (64 - pre.length) then .ok (renderUid pre n) else .error .value

end HdVerif.VR
