import HdVerif.Model.SegEncode
import HdVerif.Model.Tiling
import HdVerif.Generated.T25
/-! # C01 model, part 2: what travels with a stored frame, the other reading entry points, tiled masks

* `dimIndexValues` / `frameDims`: the `DimensionIndexValues` the frame loop of `Segmentation.__init__` and
  `_get_pffg_item` record for a frame (stack of planes in a frame of reference): the segment number (not for LABELMAP)
  followed by the 1-based rank of the plane among the *visited* planes (`enumerate(plane_sort_index, 1)` after the empty
  planes were filtered out; the start value is regenerated, T25).
* `readByDimIndex`: `get_pixels_by_dimension_index_values` as a look-up in that column of the frame table (the SQL join
  as a list look-up, like `readBySource`).
* `tileMask`: the planes the loop cuts from a total-pixel-matrix mask (`tile_pixel_array=True`), row-major, zero padded;
  `tilesViaSource` is the same through `get_tile_array` (C04's `Tiling.getTileArray`, bounds regenerated as T6) at the
  offsets of `compute_tile_positions_per_frame` (`Tiling.tileOffsets`, T7b). -/
namespace HdVerif.SegEncode
open HdVerif HdVerif.Gen HdVerif.Tiling

/-! ## dimension index values -/

/-- `[int(segment_number)]`, or nothing for a LABELMAP frame (`segment_number is None`) -/
def segPrefix : Option Nat → List Nat
  | some s => [s]
  | none => []

/-- `all_index_values` of the frame of cell (segment `sg`, plane `p`); `ord` = the planes visited, in order -/
def dimIndexValues (ord : List Nat) (sg : Option Nat) (p : Nat) : List Nat :=
  segPrefix sg ++ [ord.idxOf p + segDimIndexStart]

/-- the DimensionIndexValues column of the per-frame functional groups, in frame order -/
def frameDims (ord : List Nat) (keys : List (Option Nat × Nat)) : List (List Nat) :=
  keys.map fun k => dimIndexValues ord k.1 k.2

/-- ... for a source image without frame of reference (one plane only; no position to index): the segment number alone,
    and for LABELMAP the constant 1 of the "Frame Label" dimension -/
def dimIndexValuesNoFoR : Option Nat → List Nat
  | some s => [s]
  | none => [1]

def frameDimsNoFoR (keys : List (Option Nat × Nat)) : List (List Nat) := keys.map fun k => dimIndexValuesNoFoR k.1

/-! ### slide coordinates (tiled objects): one index per coordinate -/

/-- `np.unique` of a column of coordinate values: the distinct values in increasing order -/
def insertUniq (v : Rat) : List Rat → List Rat
  | [] => [v]
  | a :: t => if v < a then v :: a :: t else if v = a then a :: t else a :: insertUniq v t

def uniqueSorted (l : List Rat) : List Rat := l.foldr insertUniq []

/-- `int(np.where(unique_dimension_values[idx] == pos)[0][0] + 1)` for every coordinate `idx` of a tile's position
    (row and column in the total pixel matrix, then x, y, z), behind the segment number: `uniq[idx]` = the distinct values of
    coordinate `idx` over the tiles that are stored -/
def slideDimIndexValues (uniq : List (List Rat)) (sg : Option Nat) (pos : List Rat) : List Nat :=
  segPrefix sg ++ List.zipWith (fun u v => u.idxOf v + 1) uniq pos

/-- the unique-value tables the constructor builds: per coordinate, over the visited tiles -/
def slideUniques (pos : Nat → List Rat) (ord : List Nat) (ncoord : Nat) : List (List Rat) :=
  (List.range ncoord).map fun idx => uniqueSorted (ord.map fun p => (pos p).getD idx 0)

def frameDimsSlide (pos : Nat → List Rat) (ord : List Nat) (ncoord : Nat) (keys : List (Option Nat × Nat)) : List (List Nat) :=
  keys.map fun k => slideDimIndexValues (slideUniques pos ord ncoord) k.1 (pos k.2)

/-- lexicographic "comes before" on index vectors (the order DICOM asks frames to be stored in) -/
def lexLt : List Nat → List Nat → Bool
  | a :: as, b :: bs => decide (a < b) || (a == b && lexLt as bs)
  | [], _ :: _ => true
  | _, [] => false

/-- pixels delivered for one index vector: the frame carrying it, zeros if there is none -/
def readDimKey (codec : Option Codec) (o : SegObj) (dims : List (List Nat)) (v : List Nat) : Except ErrKind (List Nat) :=
  match findKey dims v with
  | some i => readFrame codec o i
  | none => .ok (List.replicate (o.rows * o.cols) 0)

/-- one requested position index: per described segment the pixel list (LABELMAP: one-hot expansion) -/
def readDimRow (codec : Option Codec) (o : SegObj) (dims : List (List Nat)) (k : Nat) : Except ErrKind (List (List Nat)) :=
  if o.t = .labelmap then
    match readDimKey codec o dims [k] with
    | .error e => .error e
    | .ok lab => .ok (o.segs.map fun s => lab.map fun v => if v = s then 1 else 0)
  else mapE (fun s => readDimKey codec o dims [s, k]) o.segs

/-- `get_pixels_by_dimension_index_values` (position index only, `assert_missing_frames_are_empty=True`,
    `rescale_fractional=False`): result indexed [requested index][segment][pixel] -/
def readByDimIndex (codec : Option Codec) (o : SegObj) (dims : List (List Nat)) (ks : List Nat) :
    Except ErrKind (List (List (List Nat))) :=
  if ¬ dims.Nodup then .error .runtime else mapE (readDimRow codec o dims) ks

/-! ## source numbers recorded per frame -/

/-- the source numbers the per-frame items name instead of plane indices: `σ p` = index of the source frame / instance
    recorded for plane `p` (`source_image_index`: the plane index itself for stacks of planes; for a tiled mask the frame of
    the source image that shows the tile, looked up by position) -/
def relabelSources (σ : Nat → Nat) (o : SegObj) : SegObj := { o with keys := o.keys.map fun k => (k.1, σ k.2) }

/-- ... when the source image lacks some tiles: `σ p = none` means the frame of tile `p` names no source frame; the table is
    usable for reads by source frame only if every stored frame names one -/
def recordedSources (σ : Nat → Option Nat) (o : SegObj) : Option SegObj :=
  (mapO (fun k : Option Nat × Nat => (σ k.2).map fun f => (k.1, f)) o.keys).map fun ks => { o with keys := ks }

/-! ## tiles of a total pixel matrix -/

/-- where the pixels of tile (k, l) of the grid come from: row-major positions in the `R × C` matrix, `none` = padding
    beyond the last row / column -/
def tileIdx (R C tr tc k l : Nat) : List (Option Nat) :=
  (List.range tr).flatMap fun a => (List.range tc).map fun b =>
    if k * tr + a < R ∧ l * tc + b < C then some ((k * tr + a) * C + (l * tc + b)) else none

/-- pixels picked from `px` by position, `z` where there is none -/
def pick {α} (z : α) (px : List α) : Option Nat → α
  | some i => px.getD i z
  | none => z

def gatherL {α} (z : α) (px : List α) (idx : List (Option Nat)) : List α := idx.map (pick z px)

/-- number of tiles along an axis of `n` pixels with tiles of `t` (`ceil(n / t)`) -/
def tilesAlong (n t : Nat) : Nat := (n + t - 1) / t

/-- the frames of the tile grid, row-major (the order of `compute_tile_positions_per_frame`), zero padded -/
def tilesOf {α} (z : α) (R C tr tc : Nat) (px : List α) : List (List α) :=
  (List.range (tilesAlong R tr)).flatMap fun k => (List.range (tilesAlong C tc)).map fun l =>
    gatherL z px (tileIdx R C tr tc k l)

/-- the zero pixel of a stacked plane: one zero per channel -/
def zeroLike {α} (z : α) (px : List (List α)) : List α := (px.headD []).map fun _ => z

/-- plane 0 of a (one-plane) mask cut into the frames of the tile grid -/
def tileMask (R C tr tc : Nat) : Mask → Mask
  | .intLabel ps => .intLabel (tilesOf 0 R C tr tc (ps.headD []))
  | .fltLabel ps => .fltLabel (tilesOf 0 R C tr tc (ps.headD []))
  | .intStack ps => .intStack (tilesOf (zeroLike 0 (ps.headD [])) R C tr tc (ps.headD []))
  | .fltStack ps => .fltStack (tilesOf (zeroLike 0 (ps.headD [])) R C tr tc (ps.headD []))

/-! ... and the same through the source's own functions, as C04 models them (bridge: `tilesOf_is_get_tile_array`) -/

/-- a row-major plane of `C` columns as a function of (row, column) -/
def planeImg {α} (z : α) (C : Nat) (px : List α) : Img α :=
  fun i j => if 0 ≤ i ∧ 0 ≤ j ∧ j < (C : Int) then px.getD (i.toNat * C + j.toNat) z else z

/-- the `tr × tc` frame `get_tile_array` cuts at the 1-based offsets (column, row) `off`, flattened row-major -/
def tilePx {α} (z : α) (R C tr tc : Nat) (px : List α) (off : Int × Int) : Except ErrKind (List α) :=
  match getTileArray z (planeImg z C px) R C off.2 off.1 tr tc with
  | .error e => .error e
  | .ok t => .ok ((List.range tr).flatMap fun (a : Nat) => (List.range tc).map fun (b : Nat) => t (a : Int) (b : Int))

/-- all frames: `get_tile_array` at every offset `compute_tile_positions_per_frame` lists -/
def tilesViaSource {α} (z : α) (R C tr tc : Nat) (px : List α) : Except ErrKind (List (List α)) :=
  match tileOffsets tr tc R C with
  | .error e => .error e
  | .ok offs => mapE (tilePx z R C tr tc px) offs

/-- `Segmentation(..., tile_pixel_array=True)` as far as pixels go: the total-pixel-matrix mask `m` (one plane of
    `R * C` pixels) is cut into `tr × tc` tiles, which are then the planes of the frame loop (`plane_sort_index =
    arange(number of tiles)`).  The implementation casts the whole matrix first and cuts afterwards; cutting first is the
    same because the checks are per pixel and padding adds only background (exercised by the `tiled` correspondence
    stream, which feeds this function the user's matrix). -/
def buildTiled (codec : Option Codec) (R C tr tc : Nat) (t : SegType) (segs : List Nat) (mfv : Nat) (omt : Bool)
    (m : Mask) : Except ErrKind SegObj :=
  if m.numPlanes ≠ 1 then .error .value
  else if m.planeSizes.any (· != R * C) then .error .value
  else build codec tr tc t segs mfv omt (List.range (tileMask R C tr tc m).numPlanes) (tileMask R C tr tc m)

/-- number of pixels of a plane -/
def Plane.size : Plane → Nat
  | .intLabel px => px.length
  | .intStack px => px.length
  | .fltLabel px => px.length
  | .fltStack px => px.length

/-- the `R × C` matrix put together for segment number `j` from what was read tile by tile (`out` indexed
    [tile][segment][pixel of the tile]): pixel (r, c) from the frame of the tile that covers it -- the gathering step of
    `get_total_pixel_matrix` for the whole matrix (`none`: no such tile / segment / pixel) -/
def assembleTPM (out : List (List (List Nat))) (R C tr tc j : Nat) : List (Option Nat) :=
  (List.range R).flatMap fun r => (List.range C).map fun c =>
    ((out[(r / tr) * tilesAlong C tc + c / tc]?.bind (·[j]?)).bind (·[(r % tr) * tc + c % tc]?))

/-- the same constructor path in the order of the source: `_check_and_cast_pixel_array` on the whole matrix, then the loop
    cuts the *cast* array with `get_tile_array` (equal to `buildTiled`: `buildTiled_is_source_order`) -/
def buildTiledSrc (codec : Option Codec) (R C tr tc : Nat) (t : SegType) (segs : List Nat) (mfv : Nat) (omt : Bool)
    (m : Mask) : Except ErrKind SegObj :=
  if m.numPlanes ≠ 1 then .error .value
  else if m.planeSizes.any (· != R * C) then .error .value
  else match checkArgs codec t segs mfv with
    | .error e => .error e
    | .ok bits =>
      match castMask segs t m with
      | .error e => .error e
      | .ok r =>
        match storedFrames (tileMask R C tr tc r.1) segs t mfv omt (List.range (tileMask R C tr tc r.1).numPlanes) with
        | .error e => .error e
        | .ok frames =>
          match encodePixelData codec tr tc bits (frames.map (·.px)) with
          | .error e => .error e
          | .ok pd => .ok { rows := tr, cols := tc, bits, t, mfv, segs, keys := frames.map (fun f => (f.seg, f.plane)), pd }

end HdVerif.SegEncode
