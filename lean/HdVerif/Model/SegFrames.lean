import HdVerif.Model.SegGeom
import HdVerif.Generated.TC03loop
import HdVerif.Generated.TC03idxval
import HdVerif.Generated.TC03dist
/-! # The frames a segmentation stores (C03)

Executable model of the part of `Segmentation.__init__` (seg/sop.py) that decides, for a stack of planes in the
patient coordinate system, WHICH frames are stored, in WHICH order, with WHICH plane position and WHICH
DimensionIndexValues:

* `planeSortIndex`   `DimensionIndexSequence.get_index_values(plane_positions, image_orientation, VOLUME_INDEX_CONVENTION)`
                     (seg/content.py): distance of every plane along the right-handed (D, R) normal,
                     `np.unique(distances, return_index=True)` — distinct values ascending with the index of their first
                     occurrence — refused when two planes share a distance;
* `includedPlanes`   `_get_nonempty_plane_indices` behind `omit_empty_frames` (the switch is turned off when every
                     plane is empty) and the removal of omitted planes from the sort index;
* `frameLoop`        the loop `for segment_number in segments_iterable: for plane_dim_ind, plane_index in
                     enumerate(plane_sort_index, 1)`: a frame of a segment that is absent from a plane is skipped
                     (only with `omit_empty_frames`), the frame carries `pixel_array[plane_index]`,
                     `plane_positions[plane_index]` and the dimension index value `plane_dim_ind`;
* `framesStack`      what the read side then sees (positions and ReferencedSegmentNumber per frame, in frame order).

The regenerated pieces (`Gen.frameSkipped`, `Gen.framePlaneIndexValue`, `Gen.frameEnumStart`, `Gen.omitEffective`,
TC03loop) are tied to the hand-written loop by the bridge theorems of `Proofs/SegFrames.lean`. -/
namespace HdVerif.SegFrames
open HdVerif HdVerif.Gen HdVerif.SegGeom HdVerif.SegGeom.V3

/-- insertion of `(d, i)` into a list strictly ascending in `d`; an entry with the same `d` is REPLACED — the caller
inserts from the last plane to the first, so the entry that stays is the first occurrence -/
def insertKey (d : Rat) (i : Nat) : List (Rat × Nat) → List (Rat × Nat)
  | [] => [(d, i)]
  | (e, j) :: t =>
    if d < e then (d, i) :: (e, j) :: t
    else if d = e then (d, i) :: t
    else (e, j) :: insertKey d i t

/-- `np.unique(values, return_index=True)` on (value, index) pairs: distinct values ascending, each with the index of
its first occurrence -/
def uniqueSorted : List (Rat × Nat) → List (Rat × Nat)
  | [] => []
  | (d, i) :: t => insertKey d i (uniqueSorted t)

/-- `get_index_values` (patient branch) on the distances of the planes: the order in which the planes are stored;
"Input image/frame positions are not unique …" (ValueError) when two planes lie at the same distance -/
def planeSortIndex (ds : List Rat) : Except ErrKind (List Nat) :=
  let u := uniqueSorted ds.zipIdx
  if u.length = ds.length then .ok (u.map (fun p => p.2)) else .error .value

/-- indices of the planes with a non-zero pixel (`_get_nonempty_plane_indices`, first component) -/
def nonemptyIdx (nonempty : List Bool) : List Nat :=
  (nonempty.zipIdx.filter (fun p => p.1)).map (fun p => p.2)

/-- the `omit_empty_frames` the frame loop sees: switched off when every plane is empty -/
def omitEff (nonempty : List Bool) (om : Bool) : Bool := om && !(nonemptyIdx nonempty).isEmpty

/-- `plane_sort_index` after the omission step: `[ind for ind in plane_sort_index if ind in included_plane_indices_set]`
when planes are omitted, unchanged otherwise -/
def includedPlanes (psi : List Nat) (nonempty : List Bool) (om : Bool) : List Nat :=
  if omitEff nonempty om then psi.filter (fun k => (nonemptyIdx nonempty).contains k) else psi

/-- one stored frame -/
structure Frame where
  /-- ReferencedSegmentNumber; `none` for a label map -/
  seg : Option Nat
  /-- index of the input plane whose pixels (`pixel_array[plane_index]`) and position (`plane_positions[plane_index]`)
  the frame carries -/
  plane : Nat
  /-- `plane_dim_ind`: the entry of DimensionIndexValues for the position dimension -/
  div : Int
deriving DecidableEq, Repr

/-- the skip of the plane loop: only frames of an individual segment, only with `omit_empty_frames`, only when the
segment has no pixel in the plane -/
def skipped (s : Option Nat) (om present : Bool) : Bool := s.isSome && om && !present

/-- the inner loop `for plane_dim_ind, plane_index in enumerate(plane_sort_index, d)` for one segment -/
def planeFrames (s : Option Nat) (om : Bool) (present : Option Nat → Nat → Bool) : Int → List Nat → List Frame
  | _, [] => []
  | d, p :: t =>
    if skipped s om (present s p) then planeFrames s om present (d + 1) t
    else ⟨s, p, d⟩ :: planeFrames s om present (d + 1) t

/-- `segments_iterable` -/
def segmentsIterable (labelmap : Bool) (described : List Nat) : List (Option Nat) :=
  if labelmap then [none] else described.map some

/-- the two nested loops; `plane_dim_ind` starts at the regenerated `Gen.frameEnumStart` -/
def frameLoop (segs : List (Option Nat)) (psi : List Nat) (om : Bool) (present : Option Nat → Nat → Bool) : List Frame :=
  segs.flatMap (fun s => planeFrames s om present frameEnumStart psi)

/-- the frames `Segmentation.__init__` stores for planes at `pos` (input order) with the recorded orientation
`(rowCos, colCos)`; `nonempty[k]` = plane `k` has a non-zero pixel in some segment, `present s k` = segment `s` has a
pixel in plane `k` -/
def segFrames (pos : List V3) (rowCos colCos : V3) (nonempty : List Bool) (om : Bool) (segs : List (Option Nat))
    (present : Option Nat → Nat → Bool) : Except ErrKind (List Frame) :=
  match planeSortIndex (pos.map (dot (normal rowCos colCos))) with
  | .error e => .error e
  | .ok psi => .ok (frameLoop segs (includedPlanes psi nonempty om) (omitEff nonempty om) present)

/-- DimensionIndexValues of a frame (`_get_pffg_item`: `[int(segment_number)] + dimension_index_values`) -/
def Frame.indexValues (f : Frame) : List Int :=
  match f.seg with
  | none => [f.div]
  | some s => [(s : Int), f.div]

/-- positions of the frames, in frame order -/
def framePositionsOf (pos : List V3) (frames : List Frame) : Option (List V3) := frames.mapM (fun f => pos[f.plane]?)

/-- what the read side sees of the stored frames: per-frame positions and segment numbers in frame order, shared
orientation and measures -/
def framesStack (rowCos colCos : V3) (psRow psCol : Rat) (hint : Option Rat) (pos : List V3) (frames : List Frame) :
    Except ErrKind Stack :=
  match framePositionsOf pos frames with
  | none => .error .index
  | some ps => .ok { rowCos := rowCos, colCos := colCos, psRow := psRow, psCol := psCol, hint := hint, pos := ps,
                     chan := frames.filterMap (fun f => f.seg) }

end HdVerif.SegFrames
