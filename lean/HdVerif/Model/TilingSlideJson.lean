import HdVerif.Model.TilingJson
import HdVerif.Model.TilingSlide
/-! JSON entry points of the C12-only part of the tiling model (`Drivers/C12.lean`). -/
namespace HdVerif.TilingDrv
open Lean HdVerif HdVerif.Drv HdVerif.Gen HdVerif.Tiling

def slideHandlers : List (String × Handler) := [
  ("slidePerFrame", fun j => do
    let r := slidePerFrame (← getOptChannels j "channels") (← getInt j "planes") (← getInt j "tr") (← getInt j "tc")
      (← getInt j "R") (← getInt j "C") (← getGeo j "geo") (← getRat j "sbs")
    pure (exceptToJson (fun (l : List (Int × Int × Rat × Rat × Rat)) => Json.arr (l.map (fun p =>
      Json.arr #[(p.1 : Json), (p.2.1 : Json), ratToJson p.2.2.1, ratToJson p.2.2.2.1, ratToJson p.2.2.2.2])).toArray) r))
]

end HdVerif.TilingDrv
