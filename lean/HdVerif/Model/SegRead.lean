import HdVerif.Model.Basic
import HdVerif.Generated.T8
import HdVerif.Generated.T8b
import HdVerif.Generated.T8c
import HdVerif.Generated.T8d
import HdVerif.Generated.T8e
import HdVerif.Generated.T8f
import HdVerif.Generated.T8g
import HdVerif.Generated.T8p
import HdVerif.Generated.T8q
/-! C02: the read side of `highdicom.seg.Segmentation` (`seg/sop.py`).

`Segmentation._get_pixels_by_seg_frame` as written — the validation head, the LABELMAP branch (`need_remap`,
intermediate dtype, `remapping` table, one-hot through `np.eye`) and the BINARY/FRACTIONAL branch (channel table,
stacking, the combination loop with its overlap test, fractional rescaling) — over the *stored frames* of an
object.  The decisions of the head and of both branches are the definitions regenerated from the source
(`Gen.readHead`, `Gen.labelmapDecision`, `Gen.stackDecision`, `Gen.unsignedDtype`).

A stored frame carries the value of the stack dimension the entry point joins on (`key`: source instance, source
frame number, dimension index tuple, volume position, tile position — an opaque number here), the referenced
segment number (unused for label maps) and its pixels.  The SQL join
`TemporaryStackTable F ⋈ FrameLUT L ⋈ TemporaryChannelTable C … ORDER BY F.OutputFrameIndex` is the list
comprehension `joinRows`; the output array is built one output frame at a time (the query is ordered by output
frame), rows of one output frame in stored order. -/
namespace HdVerif.SegRead
open HdVerif HdVerif.Gen

/-- numpy dtypes a caller can ask for (float16 excluded: integers above 2048 are not exact there) -/
inductive DType | u8 | u16 | u32 | u64 | i8 | i16 | i32 | i64 | f32 | f64 | bool
  deriving DecidableEq, Repr, Inhabited

/-- dtype codes shared with `translate/targets_C02.py` -/
def DType.code : DType → Int
  | .u8 => 8 | .u16 => 16 | .u32 => 32 | .u64 => 64 | .i8 => 108 | .i16 => 116 | .i32 => 132 | .i64 => 164
  | .f32 => 232 | .f64 => 264 | .bool => 1

def DType.ofCode (c : Int) : Option DType :=
  if c = 8 then some .u8 else if c = 16 then some .u16 else if c = 32 then some .u32 else if c = 64 then some .u64
  else if c = 108 then some .i8 else if c = 116 then some .i16 else if c = 132 then some .i32
  else if c = 164 then some .i64 else if c = 232 then some .f32 else if c = 264 then some .f64
  else if c = 1 then some .bool else none

/-- `np.iinfo(d).max`, `np.finfo(d).max` (an integer for both float types), 1 for bool -/
def DType.maxVal : DType → Int
  | .u8 => 255 | .u16 => 65535 | .u32 => 4294967295 | .u64 => 18446744073709551615
  | .i8 => 127 | .i16 => 32767 | .i32 => 2147483647 | .i64 => 9223372036854775807
  | .f32 => 2 ^ 128 - 2 ^ 104 | .f64 => 2 ^ 1024 - 2 ^ 971 | .bool => 1

def DType.isFloat : DType → Bool
  | .f32 => true | .f64 => true | _ => false

/-- `astype` of an integer value: unsigned and signed integers wrap, bool is "non-zero", floats are exact
(for |v| < 2^24, which covers every segment number and stored value). -/
def castVal : DType → Int → Int
  | .u8, v => v % 256 | .u16, v => v % 65536 | .u32, v => v % 4294967296 | .u64, v => v % 18446744073709551616
  | .i8, v => (v + 128) % 256 - 128 | .i16, v => (v + 32768) % 65536 - 32768
  | .i32, v => (v + 2147483648) % 4294967296 - 2147483648
  | .i64, v => (v + 9223372036854775808) % 18446744073709551616 - 9223372036854775808
  | .f32, v => v | .f64, v => v
  | .bool, v => if v = 0 then 0 else 1

def castFrame (d : DType) (f : List Int) : List Int := f.map (castVal d)

/-- `numpy.dtype.kind` -/
def DType.kind : DType → String
  | .u8 => "u" | .u16 => "u" | .u32 => "u" | .u64 => "u" | .i8 => "i" | .i16 => "i" | .i32 => "i" | .i64 => "i"
  | .f32 => "f" | .f64 => "f" | .bool => "b"

/-- `_CombinedPixelTransform._check_output_range` (image.py): when no transform applies, stored integers are cast directly
to an integer output dtype and are range-checked iff `np.can_cast(stored dtype, output dtype, 'safe')` is false — stored
dtype uint8 (1 and 8 bit objects): only int8; uint16: uint8, int8, int16 -/
def rangeCheckActive (bits : Nat) (d : DType) : Bool :=
  if bits ≤ 8 then d == .i8 else (d == .u8 || d == .i8 || d == .i16)

/-- `_check_numpy_value_representation`: the dispatch on the kind and the comparison are the translated function
(`Gen.checkReprT`, T8g); `np.finfo(d).max` / `np.iinfo(d).max` are supplied from the table of maxima -/
def checkRepr (maxVal : Int) (d : DType) : Except ErrKind Unit :=
  (checkReprT maxVal d.kind d.maxVal d.maxVal).map fun _ => ()

inductive SegType | binary | fractional | labelmap
  deriving DecidableEq, Repr, Inhabited

structure SFrame where
  key : Nat
  seg : Nat
  pix : List Nat
  deriving DecidableEq, Repr, Inhabited

/-- what the read side sees of a segmentation object -/
structure Stored where
  type : SegType
  segNums : List Nat     -- `self.segment_numbers` (non-background, in SegmentSequence order)
  bitsStored : Nat
  mfv : Nat              -- MaximumFractionalValue (FRACTIONAL only)
  bg : Nat               -- PixelPaddingValue, 0 when absent
  npix : Nat             -- Rows * Columns
  frames : List SFrame
  refs : List Nat := []  -- the source instances the object references (its `InstanceUIDs` table), as opaque numbers
  frameSrcs : List Nat := []  -- the instances frames derive from (`ReferencedSOPInstanceUID` column of the frame table)
  tiledFull : Bool := false   -- DimensionOrganizationType TILED_FULL (`_is_tiled_full`)
  -- `_locations_preserved`: `some true` = every source image item says SpatialLocationsPreserved YES, `some false` = some item
  -- says NO, `none` = otherwise (some item does not say, or REORIENTED_ONLY)
  locPreserved : Option Bool := some true
  singleSource : Bool := true -- every frame derives from exactly one source frame (`_single_source_frame_per_frame`)
  -- ReferencedSegmentNumber is a dimension index of the object (BINARY / FRACTIONAL): the frame table then has the column the
  -- channel query joins on; an object that carries the Segment Identification macro only in the shared functional groups
  -- (or does not index by it) has no such column and every read by segment fails (KeyError / sqlite3.OperationalError)
  segIndexed : Bool := true
  deriving Repr, Inhabited

structure Req where
  keys : List Nat        -- requested values of the stack dimension, in output order
  segs : List Nat        -- requested segment numbers, in output order
  combine : Bool
  relabel : Bool
  rescale : Bool
  skipOverlap : Bool
  dtype : Option DType
  ignoreSpatial : Bool := false   -- `ignore_spatial_locations` (by source instance / source frame only)
  deriving Repr, Inhabited

/-- result arrays: `combined[frame][pixel]`; `stacked[frame][channel][pixel]`, every entry meaning `value / denom`
(`denom` = MaximumFractionalValue for a rescaled FRACTIONAL read, 1 otherwise) -/
inductive Out
  | combined (px : List (List Int))
  | stacked (denom : Nat) (px : List (List (List Int)))
  deriving DecidableEq, Repr, Inhabited

def zeros (n : Nat) : List Int := List.replicate n 0

def natFrame (f : SFrame) : List Int := f.pix.map Int.ofNat

/-- `_get_segment_remap_values` -/
def remapValues (segs : List Nat) (combine relabel : Bool) : Option (List Nat) :=
  if combine then (if relabel then some (List.range' 1 segs.length) else some segs) else none

/-- rows of `TemporaryChannelTable0`: (OutputChannelIndex, ReferencedSegmentNumber) (`_prepare_channel_tables`) -/
def chanTable (segs : List Nat) (remap : Option (List Nat)) : List (Nat × Nat) :=
  match remap with
  | some r => r.zip segs
  | none => (List.range segs.length).zip segs

/-- the frame passes the output range check of the frame transform (`frame.max() > np.iinfo(dtype).max` raises) -/
def frameInRange (bits : Nat) (d : DType) (f : SFrame) : Bool :=
  !rangeCheckActive bits d || f.pix.all fun p => decide ((p : Int) ≤ d.maxVal)

/-- rows of the join for the output frame whose stack value is `k`: (stored frame, output channel index) -/
def joinRows (frames : List SFrame) (chan : List (Nat × Nat)) (k : Nat) : List (SFrame × Nat) :=
  (frames.filter (fun f => f.key == k)).flatMap fun f =>
    (chan.filter (fun c => c.2 == f.seg)).map fun c => (f, c.1)

/-! ### BINARY / FRACTIONAL, stacked: `_get_pixels_by_frame(channel_shape=(n,), dtype=intermediate)` -/

/-- one output frame `[channel][pixel]`: zeros, then `out[fo, :, :, ch] = frame.astype(dtype)` for every row -/
def stackRow (d : DType) (npix nch : Nat) (rows : List (SFrame × Nat)) : List (List Int) :=
  rows.foldl (fun acc r => acc.set r.2 (castFrame d (natFrame r.1))) (List.replicate nch (zeros npix))

/-! ### BINARY / FRACTIONAL, combined: the loop of `_get_pixels_by_seg_frame` -/

/-- one iteration: `pix_value`, the FRACTIONAL binarity test and `// mfv`, the overlap test, `np.maximum` -/
def combineStep (ty : SegType) (mfv : Nat) (skip : Bool) (d : DType) (acc : List Int) (r : SFrame × Nat) :
    Except ErrKind (List Int) := do
  let pixValue := castVal d (r.2 : Int)
  let pix ← (if ty = .fractional then
      (if mfv = 0 then .error .other
       else if r.1.pix.all (fun p => p == 0 || p == mfv) then .ok (r.1.pix.map (fun p => ((p / mfv : Nat) : Int)))
       else .error .value)
    else .ok (natFrame r.1) : Except ErrKind (List Int))
  if !skip && (List.zipWith (fun p o => decide (p > 0) && decide (o > 0)) pix acc).any id then .error .runtime
  else .ok (castFrame d (List.zipWith (fun p o => max (p * pixValue) o) pix acc))

def combineRow (ty : SegType) (mfv : Nat) (skip : Bool) (d : DType) (npix : Nat) (rows : List (SFrame × Nat)) :
    Except ErrKind (List Int) :=
  rows.foldlM (combineStep ty mfv skip d) (zeros npix)

/-! ### LABELMAP -/

/-- one output frame of `_get_pixels_by_frame(dtype=intermediate)` without channels: last write wins -/
def labelRow (d : DType) (npix : Nat) (fs : List SFrame) : List Int :=
  fs.foldl (fun _ f => castFrame d (natFrame f)) (zeros npix)

/-- the distinct values of a list (`np.unique` without the sorting, which does not matter for a count) -/
def uniq : List Nat → List Nat
  | [] => []
  | a :: t => if t.contains a then uniq t else a :: uniq t

/-- size of `np.setxor1d(a, b)`: number of distinct values that are in exactly one of the two -/
def nXor (a b : List Nat) : Nat :=
  ((uniq a).filter (fun x => !b.contains x)).length + ((uniq b).filter (fun x => !a.contains x)).length

def isOneToN (segs : List Nat) : Bool := segs == List.range' 1 segs.length

/-- position of the first occurrence, `np.nonzero(segment_numbers == s)[0][0]` -/
def firstIdx (segs : List Nat) (s : Nat) : Nat := segs.findIdx (· == s)

def listMax (l : List Nat) : Nat := l.foldl max 0

/-- the `remapping` table: `np.zeros(len, dtype)` filled by the loop of the branch taken — length, dtype and every
cell come from the translated block (`Gen.remapCell`, T8e); `s in segment_numbers` and
`np.nonzero(segment_numbers == s)[0][0]` are computed here -/
def remapTableT (st : Stored) (rq : Req) (d interm : DType) : Except ErrKind (List Int) := do
  let cell := fun (s : Nat) => remapCell rq.combine rq.relabel d.code interm.code (s : Int)
    (listMax st.segNums : Int) (st.bg : Int) (rq.segs.contains s) (firstIdx rq.segs s : Int)
  let (len, dc, _) ← cell 0
  let rd ← (match DType.ofCode dc with | some x => .ok x | none => .error .type : Except ErrKind DType)
  (List.range len.toNat).mapM fun s => do
    let (_, _, e) ← cell s
    pure (castVal rd e)

/-- numpy fancy indexing `table[v]` with a possibly negative index -/
def pyIndex (table : List Int) (v : Int) : Except ErrKind Int :=
  let i := if v < 0 then v + table.length else v
  if i < 0 then .error .index else
  match table[i.toNat]? with
  | some x => .ok x
  | none => .error .index

/-- `np.eye(n + 1, dtype)[v][1:]` : channels 1..n of the one-hot row of `v` -/
def oneHot (d : DType) (n : Nat) (v : Int) : Except ErrKind (List Int) :=
  let i := if v < 0 then v + (n + 1 : Nat) else v
  if i < 0 ∨ i > n then .error .index
  else .ok ((List.range' 1 n).map fun (k : Nat) => castVal d (if i = (k : Int) then 1 else 0))

/-- channel-major layout of a list of per-pixel one-hot rows -/
def transposeTo (n : Nat) (rows : List (List Int)) : List (List Int) :=
  (List.range n).map fun c => rows.map fun r => r.getD c 0

/-- `out_array = remapping[out_array]` for one output frame (`table = none`: no remapping) -/
def labelmapFrame (table : Option (List Int)) (raw : List Int) : Except ErrKind (List Int) :=
  match table with
  | some t => raw.mapM (pyIndex t)
  | none => .ok raw

def labelmapRead (st : Stored) (rq : Req) (d : DType) : Except ErrKind Out := do
  let (needRemap, ic) ← labelmapDecision false rq.combine rq.relabel d.code rq.segs.length
      (nXor rq.segs st.segNums) (isOneToN rq.segs) st.bitsStored
  let interm ← (match DType.ofCode ic with | some x => .ok x | none => .error .type : Except ErrKind DType)
  -- every frame that is read goes through the frame transform with output dtype `interm` (its range check refuses a value
  -- the dtype cannot hold; which frame fails first does not matter: the loop has no other refusal)
  if !(rq.keys.all fun k => (st.frames.filter (fun f => f.key == k)).all (frameInRange st.bitsStored interm)) then
    .error .value else
  -- the frames are read first, the table is built once afterwards
  let raws := rq.keys.map fun k => labelRow interm st.npix (st.frames.filter (fun f => f.key == k))
  let table ← (if needRemap then some <$> remapTableT st rq d interm else pure none : Except ErrKind (Option (List Int)))
  let frames ← raws.mapM (labelmapFrame table)
  if rq.combine then .ok (.combined frames)
  else do
    let n := rq.segs.length
    let hot ← frames.mapM fun fr => do
      let rows ← fr.mapM (oneHot d n)
      pure (transposeTo n rows)
    pure (.stacked 1 hot)

/-! ### BINARY / FRACTIONAL -/

/-- the remapped channel indices violate `OutputChannelIndex INTEGER UNIQUE` -/
def remapDup (remap : Option (List Nat)) : Bool :=
  match remap with
  | some r => !(decide r.Nodup)
  | none => false

def stackRead (st : Stored) (rq : Req) (d : DType) (willRescale : Bool) : Except ErrKind Out := do
  let ic ← stackDecision willRescale rq.combine rq.rescale d.code (st.type == .fractional) (!d.isFloat)
  let interm ← (match DType.ofCode ic with | some x => .ok x | none => .error .type : Except ErrKind DType)
  let remap := remapValues rq.segs rq.combine rq.relabel
  -- `OutputChannelIndex INTEGER UNIQUE`
  if remapDup remap then .error .other else
  let chan := chanTable rq.segs remap
  if rq.combine then
    let frames ← rq.keys.mapM fun k => combineRow st.type st.mfv rq.skipOverlap interm st.npix (joinRows st.frames chan k)
    pure (.combined frames)
  else
    if !(rq.keys.all fun k => (joinRows st.frames chan k).all fun r => frameInRange st.bitsStored interm r.1) then
      .error .value else
    let frames := rq.keys.map fun k => stackRow interm st.npix rq.segs.length (joinRows st.frames chan k)
    if rq.rescale && st.type == .fractional then
      if frames.any (fun fr => fr.any (fun ch => ch.any (fun v => v > (st.mfv : Int)))) then .error .runtime
      else if st.mfv = 0 then .error .other
      else pure (.stacked st.mfv (frames.map fun fr => fr.map (castFrame d)))
    else pure (.stacked 1 frames)

/-! ### `_get_pixels_by_seg_frame` -/

def readCore (st : Stored) (rq : Req) : Except ErrKind Out := do
  -- none is requested twice (first statement of `_get_segment_remap_values`, which every entry point calls with the caller's
  -- numbers before any query is opened) and every requested number is described (`Gen.requestAdmitted`, T8p)
  let _ ← requestAdmitted (rq.segs.all fun s => st.segNums.contains s) ((uniq rq.segs).length : Int) (rq.segs.length : Int)
  let (mo, willRescale, dc) ← readHead rq.combine rq.relabel rq.rescale (rq.dtype.map DType.code)
      rq.segs.length (listMax rq.segs) (st.type == .fractional) st.mfv
  let d ← (match DType.ofCode dc with | some x => .ok x | none => .error .value : Except ErrKind DType)
  checkRepr mo d
  if st.type = .labelmap then labelmapRead st rq d else stackRead st rq d willRescale

/-! ### the public entry points -/

/-- the stack entry points; what each knows about the sources comes from the object itself: by source instance the
referenced instances (`st.refs`); by source frame the instance `uid` must be referenced and the frame numbers are
judged against the highest referenced frame number; by dimension index values the positions that have a frame;
volume / total pixel matrix derive the positions from the object -/
inductive Mode
  | bySource
  | frame (uid : Nat)
  | div
  | all
  deriving Repr, Inhabited

def framesUnique (st : Stored) : Bool :=
  if st.type = .labelmap then decide (st.frames.map (·.key)).Nodup
  else decide (st.frames.map fun f => (f.key, f.seg)).Nodup

/-- by source frame: every requested number passes the translated per-number checks (`Gen.frameAdmitted`, T8f:
positive, and not above the highest referenced frame number unless the caller asserts that missing frames are empty) -/
def framesAdmitted (st : Stored) (assertMissing : Bool) (keys : List Nat) : Bool :=
  keys.all fun k => (frameAdmitted (k : Int) assertMissing (listMax (st.frames.map (·.key)) : Int)).isOk

/-- the entry point refuses the requested stack values -/
def entryRefuses (st : Stored) (mode : Mode) (assertMissing : Bool) (keys : List Nat) : Bool :=
  match mode with
  | .bySource => !assertMissing && keys.any fun k => !st.refs.contains k
  | .div => !assertMissing && keys.any fun k => !(st.frames.map (·.key)).contains k
  | .frame uid => (!assertMissing && !st.frameSrcs.contains uid) || !framesAdmitted st assertMissing keys
  | .all => false

/-- the frames the query runs over: by source frame with an instance the object does not reference (possible only
under the assertion) no frame is used (`indices = iter(())`); "references" here means: some frame derives from it — being
listed in ReferencedSeriesSequence is not enough -/
def effective (st : Stored) (mode : Mode) : Stored :=
  match mode with
  | .frame uid => if st.frameSrcs.contains uid then st else { st with frames := [] }
  | _ => st

/-- `_check_indexing_with_source_frames` (`Gen.sourceIndexingAllowed`, T8q) refuses; only the two entry points that index by
source apply it (`Gen.indexingChecked`), before anything else -/
def sourceIndexingRefused (st : Stored) (mode : Mode) (ignoreSpatial : Bool) : Bool :=
  match mode with
  | .bySource | .frame _ =>
    !(sourceIndexingAllowed ignoreSpatial st.tiledFull (st.locPreserved == none) (st.locPreserved == some false)
        st.singleSource).isOk
  | _ => false

def read (st : Stored) (mode : Mode) (assertMissing : Bool) (rq : Req) : Except ErrKind Out := do
  if sourceIndexingRefused st mode rq.ignoreSpatial then .error .runtime else
  if rq.segs.isEmpty then .error .value else
  if rq.keys.isEmpty then .error .value else
  if st.type ≠ .labelmap && !st.segIndexed then .error .key else
  if !framesUnique st then .error .runtime else
  if entryRefuses st mode assertMissing rq.keys then .error .key else
  readCore (effective st mode) rq

/-! ### construction: a 4-D stacked 0/1 mask stored as a label map (`_combine_segments` and the look-up that follows it
in `_check_and_cast_pixel_array`), one pixel at a time -/

/-- `argmax` along the segment axis: index of the first maximal entry -/
def argmaxFirst (chans : List Nat) : Nat := chans.findIdx (· == listMax chans)

/-- `_combine_segments` for one pixel: the single channel, or `(argmax + 1) * max` -/
def combinePixel (chans : List Nat) : Nat :=
  match chans with
  | [c] => c
  | _ => (argmaxFirst chans + 1) * listMax chans

/-- `np.concatenate([[0], segment_numbers])[combined]`: channel i of the stack is the i-th described segment -/
def labelPixel (nums : List Nat) (chans : List Nat) : Except ErrKind Nat :=
  match (0 :: nums)[combinePixel chans]? with
  | some v => .ok v
  | none => .error .index

/-! ### specification-level views of a stored object (used by the theorems, not by the code model) -/

/-- by source frame: a frame number 0 is requested (`Frame numbers are 1-based indices and must be > 0`) -/
def zeroFrameRequested (mode : Mode) (keys : List Nat) : Bool :=
  match mode with
  | .frame _ => keys.any (· == 0)
  | _ => false

/-- a requested stack value is **unknown to the object's reference tables**: a source instance it does not reference;
by source frame an instance no frame derives from (even if it is listed among the referenced instances) or a frame
number above the highest referenced one; dimension index values no
frame has.  (A referenced source without any frame is *known*: it reads as empty without any assertion.) -/
def missingRefused (st : Stored) (mode : Mode) (keys : List Nat) : Bool :=
  match mode with
  | .bySource => keys.any fun k => !st.refs.contains k
  | .div => keys.any fun k => !(st.frames.map (·.key)).contains k
  | .frame uid => !st.frameSrcs.contains uid || keys.any fun k => decide (k > listMax (st.frames.map (·.key)))
  | .all => false

/-- every stored frame stems from a referenced source (by source instance) -/
def RefsCover (st : Stored) : Prop := ∀ f ∈ st.frames, f.key ∈ st.refs

/-- closed form of one cell of the remapping table (before the cast), `numIn` = `num_input_segments` -/
def remapEntry (segs : List Nat) (combine relabel : Bool) (bg numIn s : Nat) : Int :=
  if combine && !relabel then
    (if s < numIn then (if segs.contains s then (s : Int) else (bg : Int)) else 0)
  else
    (if segs.contains s then ((firstIdx segs s + 1 : Nat) : Int) else 0)

/-- closed form of the remapping table -/
def remapTable (segs : List Nat) (combine relabel : Bool) (bg numIn : Nat) (d : DType) : List Int :=
  (List.range (numIn + 1)).map fun s => castVal d (remapEntry segs combine relabel bg numIn s)

/-- the label plane stored for stack value `k` (all zero when the object has no frame for it) -/
def rawLabels (st : Stored) (k : Nat) : List Nat :=
  match (st.frames.filter (fun f => f.key == k)).getLast? with
  | some f => f.pix
  | none => List.replicate st.npix 0

/-- the plane stored for segment `s` at stack value `k` (BINARY / FRACTIONAL; all zero when there is no such frame) -/
def segPlane (st : Stored) (k s : Nat) : List Nat :=
  match st.frames.find? (fun f => f.key == k && f.seg == s) with
  | some f => f.pix
  | none => List.replicate st.npix 0

/-- value a combined result gives to a pixel covered by segment `v`: its own number, or its 1-based position in the
request under `relabel`; 0 for a segment that was not requested -/
def outVal (segs : List Nat) (relabel : Bool) (v : Nat) : Int :=
  if segs.contains v then (if relabel then ((firstIdx segs v + 1 : Nat) : Int) else (v : Int)) else 0

/-- the largest value the requested output can contain (`max_output_val`) -/
def ceiling (st : Stored) (rq : Req) : Int :=
  if rq.combine then (if rq.relabel then (rq.segs.length : Int) else (listMax rq.segs : Int))
  else if st.type == .fractional && !rq.rescale then (st.mfv : Int) else 1

/-- `will_be_rescaled` -/
def willRescale (st : Stored) (rq : Req) : Bool := rq.rescale && st.type == .fractional && !rq.combine

/-- the output dtype: the caller's, else float32 for a rescaled read, else the smallest unsigned type for `ceiling` -/
def chosenDtype (st : Stored) (rq : Req) : DType :=
  match rq.dtype with
  | some d => d
  | none => if willRescale st rq then .f32
            else if ceiling st rq < 256 then .u8 else if ceiling st rq < 65536 then .u16 else .u32

/-- 1-based position of segment `v` in the request, 0 when it was not requested -/
def posNat (segs : List Nat) (v : Nat) : Nat :=
  if segs.contains v then firstIdx segs v + 1 else 0

def posVal (segs : List Nat) (v : Nat) : Int := (posNat segs v : Int)

/-- a well-formed label map: 8 or 16 bits, background 0, every stored pixel value is 0 or a described segment
number, and the described numbers fit the stored bit depth -/
structure WfLabel (st : Stored) : Prop where
  type : st.type = .labelmap
  bits : st.bitsStored = 8 ∨ st.bitsStored = 16
  bg : st.bg = 0
  described : ∀ f ∈ st.frames, ∀ p ∈ f.pix, p = 0 ∨ p ∈ st.segNums
  fit : ∀ s ∈ st.segNums, s < 2 ^ st.bitsStored

/-- segment `s` covers pixel `i` of the plane at stack value `k` (BINARY / FRACTIONAL) -/
def covers (st : Stored) (k s i : Nat) : Prop := ∃ p, (segPlane st k s)[i]? = some p ∧ 0 < p

/-- `v` is the value a combined read must give pixel `i` at stack value `k`: the largest output value among the
requested segments covering the pixel (there is exactly one such segment unless the caller skipped the overlap
check), 0 when none covers it -/
def IsCombinedValue (st : Stored) (segs : List Nat) (relabel : Bool) (k i : Nat) (v : Int) : Prop :=
  (∀ s ∈ segs, covers st k s i → outVal segs relabel s ≤ v) ∧
  (v = 0 ∨ ∃ s ∈ segs, covers st k s i ∧ v = outVal segs relabel s)

/-- no two different requested segments share a pixel of the plane at stack value `k` -/
def NoOverlap (st : Stored) (segs : List Nat) (k : Nat) : Prop :=
  ∀ s₁ ∈ segs, ∀ s₂ ∈ segs, s₁ ≠ s₂ → ∀ i, ¬ (covers st k s₁ i ∧ covers st k s₂ i)

/-- every frame the combined read uses (requested stack value, requested segment) can be combined: 0/1 valued (BINARY),
0/MaximumFractionalValue valued (FRACTIONAL) -/
def UsedBinary (st : Stored) (keys segs : List Nat) : Prop :=
  ∀ f ∈ st.frames, f.key ∈ keys → f.seg ∈ segs →
    if st.type = .fractional then st.mfv ≠ 0 ∧ ∀ p ∈ f.pix, p = 0 ∨ p = st.mfv else ∀ p ∈ f.pix, p ≤ 1

/-- a well-formed BINARY / FRACTIONAL object: a (stack value, segment) pair identifies at most one frame, pixel
values are 0/1 (BINARY) or at most MaximumFractionalValue ≤ 255 (FRACTIONAL), segment numbers are positive and every
frame has Rows*Columns pixels; the pixel depth is 1 (BINARY) or 8 (FRACTIONAL) -/
structure WfStack (st : Stored) : Prop where
  type : st.type ≠ .labelmap
  unique : framesUnique st = true
  range : ∀ f ∈ st.frames, ∀ p ∈ f.pix, p ≤ (if st.type = .fractional then st.mfv else 1)
  mfv : st.type = .fractional → 1 ≤ st.mfv ∧ st.mfv ≤ 255
  pos : ∀ s ∈ st.segNums, 0 < s
  len : ∀ f ∈ st.frames, f.pix.length = st.npix
  bits : st.bitsStored ≤ 8

end HdVerif.SegRead
