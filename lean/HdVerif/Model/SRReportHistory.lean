import HdVerif.Model.SRReport
/-! C16: several calls on ONE report object, and reports that spell their codes differently.

`run` is the semantics of a history of in-place edits and queries on a report whose only state is the list of its group
containers — which is what the real object is as long as the queries write nothing on it (`Gen.queryWritesOnSelf` empty,
T16g, theorem `queries_write_nothing_on_the_report`) and carry nothing from group to group (`Gen.queryLoopCarried`, T16e).
`respell` / `queryN` state what "equivalent spellings of a code" means for the queries: code equality in the library is
equality after normalisation (C17: the legacy SNOMED-RT identifier of a concept equals its SNOMED-CT identifier); the
harness normalises every code read from a data set with pydicom's table before it reaches the model. -/
namespace HdVerif.SRReport
open HdVerif

/-- an in-place edit of the report's sequence of measurement groups -/
inductive Edit
  | replace (i : Nat) (g : Group)     -- `seq[i] = other_group`
  | swap (i j : Nat)                  -- `seq[i], seq[j] = seq[j], seq[i]`
  | delete (i : Nat)                  -- `del seq[i]`
  | append (g : Group)                -- `seq.append(other_group)`

inductive Op
  | edit (e : Edit)
  | query (k : Kind) (f : Filters)

def applyEdit (r : List Group) : Edit → List Group
  | .replace i g => r.set i g
  | .swap i j =>
    match r[i]?, r[j]? with
    | some a, some b => (r.set i b).set j a
    | _, _ => r
  | .delete i => r.eraseIdx i
  | .append g => r ++ [g]

/-- the report after a history (queries leave it as it is) -/
def stateAfter : List Group → List Op → List Group
  | r, [] => r
  | r, .edit e :: ops => stateAfter (applyEdit r e) ops
  | r, .query _ _ :: ops => stateAfter r ops

/-- the answers of the queries of a history, in order -/
def run : List Group → List Op → List (Except ErrKind (List Nat))
  | _, [] => []
  | r, .edit e :: ops => run (applyEdit r e) ops
  | r, .query k f :: ops => query k r f :: run r ops

def Op.isEdit : Op → Bool
  | .edit _ => true
  | .query _ _ => false

/-! ## spellings -/

def Kid.mapCodes (n : String → String) (k : Kid) : Kid := { k with name := n k.name }

/-- every concept name, and the value of every CODE item, rewritten by `n` -/
def GItem.mapCodes (n : String → String) (it : GItem) : GItem :=
  { it with name := n it.name, value := if it.vt == "CODE" then n it.value else it.value, kids := it.kids.map (Kid.mapCodes n) }

def Group.mapCodes (n : String → String) (g : Group) : Group := { g with items := g.items.map (GItem.mapCodes n) }

def Filters.mapCodes (n : String → String) (f : Filters) : Filters :=
  { f with findingType := f.findingType.map n, findingSite := f.findingSite.map n, referenceType := f.referenceType.map n }

/-- the query as the library evaluates it on a report with arbitrary spellings: codes are compared after normalisation -/
def queryN (norm : String → String) (k : Kind) (gs : List Group) (f : Filters) : Except ErrKind (List Nat) :=
  query k (gs.map (Group.mapCodes norm)) (f.mapCodes norm)

/-! ## the name filter of the accessors -/

/-- `get_measurements(name=n)`: `find_content_items(root_item, name=n, value_type=NUM, relationship_type=CONTAINS)` -/
def measurementsNamed (g : Group) (n : String) : List (String × String) :=
  (g.items.filter (fun it => it.name == n && it.vt == "NUM" && it.rel == "CONTAINS")).map (fun it => (it.name, it.value))

/-- `get_qualitative_evaluations(name=n)` -/
def evaluationsNamed (g : Group) (n : String) : List (String × String) :=
  (g.items.filter (fun it => it.name == n && it.vt == "CODE" && it.rel == "CONTAINS" && !reservedCodeNames.contains it.name)).map
    (fun it => (it.name, it.value))

end HdVerif.SRReport
