import HdVerif.Model.Basic
import HdVerif.Generated.T18
import HdVerif.Generated.T18s
/-! C18: bulk annotations (`highdicom.ann.AnnotationGroup`, `Measurements`,
`MicroscopyBulkSimpleAnnotations`).

Coordinates and measurement values are **opaque cells** of a type `α` with decidable equality
(float32/float64 byte encodings are numpy's; equality of cells stands for numeric equality).
A point is a row `List α`, an annotation (an `(n, d)` array) a list of rows, the graphic data of a
group a list of annotations.

From /repo's current source (tie T, `Generated/T18.lean`, `T18s.lean`): the per-annotation
validation (`pointCountCheck`), the guards and the shared-z / dimensionality / attribute decision
(`encodePlan`), `indexSpan`, `indexListTypes`, `indexListBase`, the decode-side plan (`decodePlan`),
`splitIndex`, `splitDropFirst`, `coordIndex`, `measIndexGuard`, `measIndexBase`,
`groupLookupDecision`.  Hand-written (tie C): numpy's concatenate / flatten / reshape / split /
fancy assignment as list functions, the group filter of `get_annotation_groups`. -/
namespace HdVerif.Ann
open HdVerif HdVerif.Gen

abbrev Row (α : Type) := List α
abbrev Annot (α : Type) := List (Row α)
abbrev GData (α : Type) := List (Annot α)

/-- what the constructor stores in the dataset (L1 observables) -/
structure Enc (α : Type) where
  coords : List α              -- PointCoordinatesData / DoublePointCoordinatesData, as values
  double : Bool                -- DoublePointCoordinatesData is the attribute used
  commonZ : Option α           -- CommonZCoordinateValue
  indexList : Option (List Int) -- LongPrimitivePointIndexList
  numAnn : Nat                 -- NumberOfAnnotations
  deriving Repr, DecidableEq

/-! ### numpy as list functions -/

/-- `reshape(-1, d)` row by row: `n` rows of width `d` -/
def chunkN {β : Type} (d : Nat) : Nat → List β → List (List β)
  | 0, _ => []
  | n + 1, l => l.take d :: chunkN d n (l.drop d)

/-- `a.reshape(-1, d)`; ValueError unless the size is a multiple of `d` -/
def reshapeRows {β : Type} (d : Nat) (l : List β) : Except ErrKind (List (List β)) :=
  if d = 0 then .error .value
  else if l.length % d ≠ 0 then .error .value
  else .ok (chunkN d (l.length / d) l)

/-- `np.split(rows, k)` with an integer: `k` equal sections, ValueError otherwise -/
def equalSplit {β : Type} (k : Int) (rows : List β) : Except ErrKind (List (List β)) :=
  if k ≤ 0 then .error .value
  else if rows.length % k.toNat ≠ 0 then .error .value
  else .ok (chunkN (rows.length / k.toNat) k.toNat rows)

/-- `np.split(rows, cuts)` with a list of indices: `rows[0:c1], rows[c1:c2], …, rows[ck:]` -/
def splitCuts {β : Type} (rows : List β) : Nat → List Nat → List (List β)
  | prev, [] => [rows.drop prev]
  | prev, c :: cs => ((rows.take c).drop prev) :: splitCuts rows c cs

/-- number of distinct values, as in `len(np.unique(z))` -/
def distinct {α : Type} [DecidableEq α] : List α → List α
  | [] => []
  | a :: as => if a ∈ as then distinct as else a :: distinct as

/-- `Except`-map over a list, structurally -/
def mapE {β γ : Type} (f : β → Except ErrKind γ) : List β → Except ErrKind (List γ)
  | [] => .ok []
  | a :: as => match f a with
    | .error e => .error e
    | .ok b => match mapE f as with
      | .error e => .error e
      | .ok bs => .ok (b :: bs)

/-- `[base, base + s0, base + s0 + s1, …]`, one entry per span: `[1] ++ (cumsum(spans) + 1)[:-1]` -/
def indexListFrom : Int → List Int → List Int
  | _, [] => []
  | acc, s :: ss => acc :: indexListFrom (acc + s) ss

/-! ### construction -/

/-- first point equals last point (`np.array_equal` of two rows); false for an empty array -/
def firstEqLast {α : Type} [DecidableEq α] (a : Annot α) : Bool :=
  match a.head?, a.getLast? with
  | some x, some y => decide (x = y)
  | _, _ => false

/-- every row has width `c` (`np.concatenate` refuses arrays of different widths) -/
def uniformWidth {α : Type} (c : Nat) (rows : List (Row α)) : Bool := rows.all (fun r => r.length == c)

/-- third column -/
def zColumn {α : Type} (rows : List (Row α)) : List α := rows.filterMap (fun r => r[2]?)

/-- the attributes written once the plan is known: flattened coordinates (only the columns kept),
the shared z value, the one-based index list for the variable-length types -/
def finish {α : Type} (gt : String) (gd : GData α) (rows : List (Row α))
    (plan : Int × Int × Int × Bool × Bool) : Except ErrKind (Enc α × Int) :=
  match plan with
  | (ct, dim, kept, hasZ, dbl) =>
    if kept < 0 then .error .other else
    let coords := (rows.map (fun r => r.take kept.toNat)).flatten
    let cz := if hasZ then (zColumn rows).head? else none
    if hasZ && cz.isNone then .error .other else
    if indexListTypes.contains gt then
      match mapE (fun (a : Annot α) => indexSpan dim (a.length : Int)) gd with
      | .error e => .error e
      | .ok spans =>
        .ok ({ coords := coords, double := dbl, commonZ := cz, indexList := some (indexListFrom indexListBase spans),
               numAnn := gd.length }, ct)
    else
      .ok ({ coords := coords, double := dbl, commonZ := cz, indexList := none, numAnn := gd.length }, ct)

/-- `AnnotationGroup.__init__`, graphic data part.  `finite`: numpy's `isfinite` on a cell;
`isDouble`: the concatenated array has dtype float64; `cast`: the constructor's cast (float32 for integers, exact below 2^24) applied to the
cells (float32 for integer input, identity otherwise). -/
def encode {α : Type} [DecidableEq α] (gt : String) (finite : α → Bool) (isDouble : Bool) (cast : α → α)
    (gd : GData α) : Except ErrKind (Enc α × Int) :=
  -- validation loop
  match mapE (fun a => pointCountCheck gt (a.length : Int) (firstEqLast a)) gd with
  | .error e => .error e
  | .ok _ =>
    -- np.concatenate(graphic_data, axis=0), then the cast of integer input
    let rows := gd.flatten.map (fun r => r.map cast)
    match rows.head? with
    | none => .error .value
    | some r0 =>
      if !uniformWidth r0.length rows then .error .value else
      match encodePlan 2 (r0.length : Int) (rows.all (fun r => r.all finite))
          ((distinct (zColumn rows)).length : Int) isDouble with
      | .error e => .error e
      | .ok plan => finish gt gd rows plan

/-- an annotation group as far as graphic data goes: stored attributes + the in-memory cache
`_graphic_data` (coordinate type as 2/3 ↦ the arrays given to the constructor) -/
structure Group (α : Type) where
  gtype : String
  enc : Enc α
  cache : Option (Int × GData α)
  /-- `_coordinate_type`: the coordinate type handed down by the instance the group was parsed with (absent on a group
  built by the constructor or parsed on its own by `AnnotationGroup.from_dataset`) -/
  known : Option Int := none

def construct {α : Type} [DecidableEq α] (gt : String) (finite : α → Bool) (isDouble : Bool) (cast : α → α)
    (gd : GData α) : Except ErrKind (Group α) :=
  match encode gt finite isDouble cast gd with
  | .error e => .error e
  | .ok (enc, ct) => .ok { gtype := gt, enc := enc, cache := some (ct, gd) }

/-- the constructor with the dtype of the concatenated array made explicit: numpy `kind` letter and item size;
`toF32` is the cast to single precision (the constructor's cast of integers, lossy from 2^24; lossless widening of half precision) -/
def constructDT {α : Type} [DecidableEq α] (gt : String) (finite : α → Bool) (kind : String) (itemsize : Int)
    (toF32 : α → α) (gd : GData α) : Except ErrKind (Group α) :=
  match dtypePlan kind itemsize with
  | .error e => .error e
  | .ok cast32 => construct gt finite (!cast32 && itemsize == 8) (if cast32 then toF32 else id) gd

/-- an input array: one-dimensional (a flat list of values) or two-dimensional (rows) -/
inductive Arr (α : Type)
  | d1 (vals : List α)
  | d2 (rows : Annot α)

def Arr.shape0 {α : Type} : Arr α → Nat
  | .d1 vals => vals.length
  | .d2 rows => rows.length

def Arr.firstEqLast {α : Type} [DecidableEq α] : Arr α → Bool
  | .d1 vals => match vals.head?, vals.getLast? with
    | some x, some y => decide (x = y)
    | _, _ => false
  | .d2 rows => Ann.firstEqLast rows

/-- all arrays two-dimensional? -/
def allD2 {α : Type} : List (Arr α) → Option (GData α)
  | [] => some []
  | .d2 rows :: rest => match allD2 rest with
    | some gd => some (rows :: gd)
    | none => none
  | .d1 _ :: _ => none

/-- the constructor on arbitrary (1-D or 2-D) input arrays: the validation loop looks at `shape[0]`, then
`np.concatenate` refuses arrays of different rank, and a one-dimensional result fails the `ndim` guard -/
def constructArrs {α : Type} [DecidableEq α] (gt : String) (finite : α → Bool) (kind : String) (itemsize : Int)
    (toF32 : α → α) (arrs : List (Arr α)) : Except ErrKind (Group α) :=
  match allD2 arrs with
  | some gd => constructDT gt finite kind itemsize toF32 gd
  | none =>
    match mapE (fun (a : Arr α) => pointCountCheck gt (a.shape0 : Int) a.firstEqLast) arrs with
    | .error e => .error e
    | .ok _ =>
      if arrs.any (fun a => match a with | .d2 _ => true | .d1 _ => false) then .error .value   -- mixed ranks
      else match dtypePlan kind itemsize with
        | .error e => .error e
        | .ok _ => match encodePlan 1 0 true 0 false with
          | .error e => .error e
          | .ok _ => .error .other

/-- `AnnotationGroup.from_dataset` (also after a file round trip): the stored attributes, no cache -/
def parse {α : Type} (g : Group α) : Group α := { g with cache := none }

/-- the group as an item of an instance parsed by `MicroscopyBulkSimpleAnnotations.from_dataset` / `annread` whose
AnnotationCoordinateType is `t` (2 / 3): no cache, and the instance hands its coordinate type down
(`Gen.sopHandsDownCoordinateType`, regenerated from `ann/sop.py`) -/
def parseVia {α : Type} (t : Int) (g : Group α) : Group α :=
  { g with cache := none, known := if sopHandsDownCoordinateType then some t else none }

/-! ### reading -/

/-- `np.any(np.diff(z) <= 0)` -/
def anyNotIncreasing : List Int → Bool
  | a :: b :: rest => decide (b - a ≤ 0) || anyNotIncreasing (b :: rest)
  | _ => false

/-- `z[0] != 0` (only looked at on a non-empty list) -/
def headNotZero (z : List Int) : Bool :=
  match z.head? with
  | some h => decide (h ≠ 0)
  | none => false

/-- `z[-1] >= total` (only looked at on a non-empty list) -/
def lastBeyond (z : List Int) (total : Int) : Bool :=
  match z.getLast? with
  | some l => decide (l ≥ total)
  | none => false

/-- the validation of the stored index list (translated `indexListGuard` over the five facts about the
zero-based entries; Python's `or` short-circuits, so the element accesses are only made on a non-empty list) -/
def checkIndexList (stored nRows : Int) (il : List Int) : Except ErrKind (List Int) :=
  match mapE pointIndexZero il with
  | .error e => .error e
  | .ok z =>
    match indexListTotal stored nRows with
    | .error e => .error e
    | .ok total =>
      match indexListGuard z.isEmpty (headNotZero z) (anyNotIncreasing z)
          (z.any (fun i => decide (Int.fmod i stored ≠ 0))) (lastBeyond z total) with
      | .error e => .error e
      | .ok _ => .ok z

/-- cut positions from the index list: validation, then `((idx - 1) // stored)[1:]` -/
def cutsOf (stored nRows : Int) (il : List Int) : Except ErrKind (List Nat) :=
  match checkIndexList stored nRows il with
  | .error e => .error e
  | .ok _ =>
    match mapE (fun i => splitIndex i stored) il with
    | .error e => .error e
    | .ok cs => mapE (fun (c : Int) => if c < 0 then .error .other else .ok c.toNat) (cs.drop splitDropFirst)

/-- `frombuffer(...).reshape(-1, stored)` and, when CommonZCoordinateValue is present, the z column -/
def storedRows {α : Type} (stored : Nat) (e : Enc α) : Except ErrKind (List (Row α)) :=
  match reshapeRows stored e.coords with
  | .error err => .error err
  | .ok rows0 => .ok (match e.commonZ with
    | some z => rows0.map (fun r => r ++ [z])
    | none => rows0)

/-- `np.split` of the point array into annotations -/
def splitRows {α : Type} (gt : String) (e : Enc α) (ct stored : Int) (rows : List (Row α)) : Except ErrKind (GData α) :=
  match decodePlan ct gt e.commonZ.isSome (rows.length : Int) with
  | .error err => .error err
  | .ok (_, mode, sections) =>
    if mode = 0 then equalSplit sections rows
    else match e.indexList with
      | none => .error .attribute
      | some il => match cutsOf stored (rows.length : Int) il with
        | .error err => .error err
        | .ok cuts => .ok (splitCuts rows 0 cuts)

/-- the parsed branch of `get_graphic_data` -/
def decode {α : Type} (gt : String) (e : Enc α) (ct : Int) : Except ErrKind (GData α) :=
  match decodePlan ct gt e.commonZ.isSome 0 with
  | .error err => .error err
  | .ok (stored, _, _) =>
    if stored ≤ 0 then .error .other else
    match storedRows stored.toNat e with
    | .error err => .error err
    | .ok rows => splitRows gt e ct stored rows

/-- `get_graphic_data(coordinate_type)` -/
def getGraphicData {α : Type} (g : Group α) (ct : Int) : Except ErrKind (GData α) :=
  match g.cache with
  | some (t, gd) => if t = ct then .ok gd else .error .value
  | none => match coordTypeGuard ct g.known g.enc.commonZ.isSome with
    | .error e => .error e
    | .ok _ => decode g.gtype g.enc ct

/-- `get_coordinates(annotation_number, coordinate_type)` -/
def getCoordinates {α : Type} (g : Group α) (k : Int) (ct : Int) : Except ErrKind (Annot α) :=
  match coordIndex k with
  | .error e => .error e
  | .ok i =>
    match getGraphicData g ct with
    | .error e => .error e
    | .ok gd =>
      if i < 0 then
        -- Python would wrap; `coordIndex` never yields a negative index
        .error .other
      else match gd[i.toNat]? with
        | some a => .ok a
        | none => .error .index

/-! ### call histories: `get_graphic_data` fills the cache `_graphic_data` of a parsed group -/

inductive Access
  | whole (ct : Int)              -- get_graphic_data(ct)
  | nth (k : Int) (ct : Int)      -- get_coordinates(k, ct)
  deriving Repr, DecidableEq

/-- the coordinate type an access asks for (2 / 3) -/
def Access.ct : Access → Int
  | .whole ct => ct
  | .nth _ ct => ct

inductive Obs (α : Type)
  | whole (gd : GData α)
  | nth (a : Annot α)
  deriving DecidableEq

/-- `get_graphic_data` with its side effect: a parsed group first refuses a requested coordinate type that contradicts
what it knows (`Gen.coordTypeGuard`: the type handed down by its instance, a stored CommonZCoordinateValue), then decodes
with the REQUESTED type and keeps the result under that key; once the cache is filled every other type is refused -/
def getGraphicDataS {α : Type} (g : Group α) (ct : Int) : Except ErrKind (GData α × Group α) :=
  match g.cache with
  | some (t, gd) => if t = ct then .ok (gd, g) else .error .value
  | none => match coordTypeGuard ct g.known g.enc.commonZ.isSome with
    | .error e => .error e
    | .ok _ => match decode g.gtype g.enc ct with
      | .error e => .error e
      | .ok gd => .ok (gd, { g with cache := some (ct, gd) })

/-- one access: its answer and the state of the object afterwards (an exception raised after the decoding
has happened leaves the cache filled) -/
def accessS {α : Type} (g : Group α) : Access → Except ErrKind (Obs α) × Group α
  | .whole ct => match getGraphicDataS g ct with
    | .error e => (.error e, g)
    | .ok (gd, g') => (.ok (.whole gd), g')
  | .nth k ct => match coordIndex k with
    | .error e => (.error e, g)
    | .ok i => match getGraphicDataS g ct with
      | .error e => (.error e, g)
      | .ok (gd, g') =>
        if i < 0 then (.error .other, g')
        else match gd[i.toNat]? with
          | some a => (.ok (.nth a), g')
          | none => (.error .index, g')

/-- the answers of a sequence of accesses on one object -/
def runHistory {α : Type} (g : Group α) : List Access → List (Except ErrKind (Obs α))
  | [] => []
  | a :: rest => (accessS g a).1 :: runHistory (accessS g a).2 rest

/-! ### several groups in one instance: every group keeps its own cache -/

/-- one access to the group at position `i` of an instance (`ann.AnnotationGroupSequence[i]`, the object that
`get_annotation_group(s)` return): the answer and the instance afterwards -/
def stepInst {α : Type} (gs : List (Group α)) (i : Nat) (a : Access) : Except ErrKind (Obs α) × List (Group α) :=
  match gs[i]? with
  | none => (.error .index, gs)
  | some g => ((accessS g a).1, gs.set i (accessS g a).2)

/-- a history of accesses to the groups of one instance, in any interleaving -/
def runInst {α : Type} : List (Group α) → List (Nat × Access) → List (Nat × Except ErrKind (Obs α))
  | _, [] => []
  | gs, (i, a) :: rest => (i, (stepInst gs i a).1) :: runInst (stepInst gs i a).2 rest

/-! ### measurements: `none` is NaN -/

structure MeasEnc (β : Type) where
  values : List β               -- FloatingPointValues
  indices : Option (List Int)   -- AnnotationIndexList
  numberOfValues : Option Nat   -- `_number_of_values` (only on objects built by the constructor)
  deriving Repr, DecidableEq

/-- zero-based positions of the entries that are present (`np.where(~is_nan)[0]`), counted from `i` -/
def positions {β : Type} : Nat → List (Option β) → List Nat
  | _, [] => []
  | i, none :: rest => positions (i + 1) rest
  | i, some _ :: rest => i :: positions (i + 1) rest

/-- `Measurements.__init__`: `cast32` is the cast to float32 -/
def encodeMeas {β : Type} (cast32 : β → β) (vals : List (Option β)) : MeasEnc β :=
  { values := (vals.filterMap id).map cast32,
    indices := if vals.any Option.isNone then some ((positions 0 vals).map (fun (i : Nat) => (i : Int) + measIndexBase)) else none,
    numberOfValues := some vals.length }

/-- numpy `values[indices] = stored`: all indices are checked first (IndexError), negative ones wrap,
later assignments win -/
def assignAll {β : Type} (n : Nat) : List (Int × β) → List (Option β) → Except ErrKind (List (Option β))
  | [], acc => .ok acc
  | (i, v) :: rest, acc =>
    if i ≥ (n : Int) ∨ i < -(n : Int) then .error .index
    else
      let j := if i < 0 then (i + n).toNat else i.toNat
      assignAll n rest (acc.set j (some v))

/-- `Measurements.get_values(number_of_annotations)` -/
def getValues {β : Type} (m : MeasEnc β) (n : Nat) : Except ErrKind (List (Option β)) :=
  let idx : List Int := match m.indices with
    | some il => il.map (fun i => i - measIndexBase)
    | none => (List.range n).map (fun (i : Nat) => (i : Int))
  match measIndexGuard m.indices.isSome ((m.indices.getD []).length : Int) (n : Int) (m.values.length : Int) with
  | .error e => .error e
  | .ok _ => assignAll n (idx.zip m.values) (List.replicate n none)

/-- the check `AnnotationGroup.__init__` applies to every item of `measurements` -/
def checkMeas {β : Type} (m : MeasEnc β) (n : Nat) : Except ErrKind Unit :=
  match m.numberOfValues with
  | some k => if k ≠ n then .error .value else
    match getValues m n with
    | .error .index => .error .value
    | .error e => .error e
    | .ok vals => if vals.length ≠ n then .error .value else .ok ()
  | none =>
    match getValues m n with
    | .error .index => .error .value
    | .error e => .error e
    | .ok vals => if vals.length ≠ n then .error .value else .ok ()

/-- `name is None or item.name == name` -/
def nameMatches {κ : Type} (same : κ → κ → Bool) (name : Option κ) (k : κ) : Bool :=
  match name with
  | none => true
  | some q => same k q

/-- `get_measurements(name)`: the value vectors (columns of the returned matrix) of the items whose
name matches, in order; `κ` stands for coded names, `same` for their equality (C17) -/
def getMeasurements {β κ : Type} (same : κ → κ → Bool) (items : List (κ × MeasEnc β)) (n : Nat) (name : Option κ) :
    Except ErrKind (List (List (Option β))) :=
  mapE (fun (it : κ × MeasEnc β) => getValues it.2 n) (items.filter (fun it => nameMatches same name it.1))

/-- `np.vstack(values).T` (and `np.empty((n, 0))` without columns): row `i` holds the `i`-th entry of every column -/
def measMatrix {β : Type} (n : Nat) (cols : List (List (Option β))) : List (List (Option β)) :=
  (List.range n).map (fun i => cols.map (fun c => (c[i]?).join))

/-- the value array `get_measurements(name)` returns: one row per annotation, one column per matching item -/
def getMeasurementMatrix {β κ : Type} (same : κ → κ → Bool) (items : List (κ × MeasEnc β)) (n : Nat) (name : Option κ) :
    Except ErrKind (List (List (Option β))) :=
  match getMeasurements same items n name with
  | .error e => .error e
  | .ok cols => .ok (measMatrix n cols)

/-! ### group lookup -/

structure GroupInfo where
  number : Int
  uid : String
  label : String
  category : Nat        -- coded concepts up to equality (C17)
  ptype : Nat
  gtype : String
  algType : String
  alg : Option (String × String × Nat)   -- name, version, family
  deriving Repr, DecidableEq

/-- `get_annotation_group(number, uid)` -/
def getGroup (gs : List GroupInfo) (number : Option Int) (uid : Option String) : Except ErrKind GroupInfo :=
  let u : Option Int := uid.map (fun _ => 0)
  -- which key does the code use?  (asked with a count that passes the later checks)
  match groupLookupDecision number u 1 with
  | .error e => .error e
  | .ok branch =>
    let items := if branch = 1 then gs.filter (fun g => some g.number == number)
                 else gs.filter (fun g => some g.uid == uid)
    match groupLookupDecision number u (items.length : Int) with
    | .error e => .error e
    | .ok _ => match items.head? with
      | some g => .ok g
      | none => .error .index

structure Filter where
  category : Option Nat := none
  ptype : Option Nat := none
  label : Option String := none
  gtype : Option String := none
  algType : Option String := none
  algName : Option String := none
  algVersion : Option String := none
  algFamily : Option Nat := none
  deriving Repr, DecidableEq

/-- `Except`-filter over a list, structurally -/
def filterE {β : Type} (p : β → Except ErrKind Bool) : List β → Except ErrKind (List β)
  | [] => .ok []
  | a :: as => match p a with
    | .error e => .error e
    | .ok b => match filterE p as with
      | .error e => .error e
      | .ok rest => .ok (if b then a :: rest else rest)

/-- loop body of `get_annotation_groups` (translated `groupFilterDecision`): `has_<c>` = the criterion is
given, `eq_<c>` = its comparison with the item; the three algorithm criteria compare with the item's
algorithm identification when it has one -/
def selected (g : GroupInfo) (f : Filter) : Except ErrKind Bool :=
  groupFilterDecision
    f.category.isSome (decide (f.category = some g.category))
    f.ptype.isSome (decide (f.ptype = some g.ptype))
    f.label.isSome (decide (f.label = some g.label))
    f.gtype.isSome (decide (f.gtype = some g.gtype))
    f.algType.isSome (decide (f.algType = some g.algType))
    f.algName.isSome (match g.alg with | some (name, _, _) => decide (f.algName = some name) | none => false)
    f.algFamily.isSome (match g.alg with | some (_, _, family) => decide (f.algFamily = some family) | none => false)
    f.algVersion.isSome (match g.alg with | some (_, version, _) => decide (f.algVersion = some version) | none => false)
    g.alg.isSome

/-- `get_annotation_groups(**criteria)` -/
def getGroups (gs : List GroupInfo) (f : Filter) : Except ErrKind (List GroupInfo) :=
  filterE (fun g => selected g f) gs

/-- the constructor of the SOP class accepts groups numbered 1, 2, … in order -/
def sopAcceptsNumbers (numbers : List Int) : Bool :=
  decide (numbers = (List.range numbers.length).map (fun (i : Nat) => (i : Int) + 1))

/-- the constructor of the SOP class with coordinate type `ct` accepts a group built by the group constructor only when its
graphic data is of that type (`built`: `some t` = built with type `t`, `none` = a parsed group, whose type is unknown) -/
def sopAcceptsTypes (ct : Int) (built : List (Option Int)) : Bool :=
  built.all (fun b => match b with
    | none => true
    | some t => t == ct)

/-- … and accepts a PARSED group (no `_graphic_data`) only when what the group knows does not contradict the instance: the
coordinate type it learned from the instance it was parsed with (`Group.known`) and a stored common z (3-D only).  A group
parsed on its own without a common z knows nothing and is accepted (open finding). -/
def sopAcceptsParsed {α : Type} (ct : Int) (gs : List (Group α)) : Bool :=
  gs.all (fun g => match sopKnownTypeCheck ct g.known g.enc.commonZ.isSome with
    | .ok _ => true
    | .error _ => false)

end HdVerif.Ann
