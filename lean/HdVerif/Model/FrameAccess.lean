import HdVerif.Model.Bits
import HdVerif.Generated.T1
import HdVerif.Generated.T4
import HdVerif.Generated.T11
import HdVerif.Generated.T11b
import HdVerif.Generated.T11c
import HdVerif.Generated.T12
/-! C05: the ways of fetching a stored frame of a *native* image, composed from the translated
index/byte-range/bit-offset arithmetic (tie T) and the bit-packing model.

`PixelData` is a list of bytes (`Nat < 256`); a frame is a list of bits (1-bit images) or a
list of bytes (8/16/32-bit images: decoding bytes to numbers is numpy's job and identical on
every path, so frames are compared as byte strings). -/
namespace HdVerif.FrameAccess
open HdVerif HdVerif.Bits HdVerif.Gen

/-- Python `bytes[a:b]` / `array[a:b]` for non-negative bounds; negative bounds are refused
    (the code never produces them for validated indices; a model that wrapped would hide bugs). -/
def slice {α} (l : List α) (a b : Int) : Except ErrKind (List α) :=
  if a < 0 ∨ b < 0 then .error .other else .ok (pySlice l a.toNat b.toNat)

/-- `get_raw_frame` (in-memory, native): validated 0-based index → raw bytes -/
def memRaw (pixelData : List Nat) (rows cols samples bits : Int) (pi : String) (idx : Int) :
    Except ErrKind (List Nat) := do
  let (s, e) ← rawFrameRange idx rows cols samples bits pi
  slice pixelData s e

/-- `decode_frame` for native 1-bit data: unpack, cut the translated bit slice, `reshape`
    (which fails unless exactly rows*cols bits are left) -/
def decodeBits (raw : List Nat) (rows cols samples : Int) (idx : Int) : Except ErrKind (List Bool) := do
  let (lo, hi) ← bitSlice idx rows cols samples
  let bits ← slice (unpack raw) lo hi
  if (bits.length : Int) = rows * cols then .ok bits else .error .value

/-- `get_stored_frame` on an in-memory native 1-bit image -/
def memFrameBits (pixelData : List Nat) (rows cols samples n : Int) (k : Int) (asIndex : Bool) :
    Except ErrKind (List Bool) := do
  let idx ← stdFrameIndex k asIndex n
  let raw ← memRaw pixelData rows cols samples 1 "MONOCHROME2" idx
  decodeBits raw rows cols samples idx

/-- `get_stored_frame` on an in-memory native image with ≥ 8 bits: the frame's bytes -/
def memFrameBytes (pixelData : List Nat) (rows cols samples bits n : Int) (pi : String) (k : Int)
    (asIndex : Bool) : Except ErrKind (List Nat) := do
  let idx ← stdFrameIndex k asIndex n
  memRaw pixelData rows cols samples bits pi idx

/-- `ImageFileReader.read_frame_raw` on native data: guard, offset table entry, read length.
    Reading past the end of the file returns fewer bytes, exactly like `List.take`. -/
def lazyRaw (pixelData : List Nat) (rows cols samples bits n : Int) (pi : String) (idx : Int) :
    Except ErrKind (List Nat) := do
  let i ← lazyIndexGuard idx n
  let ppf := rows * cols * samples
  let bpf ← lazyBytesPerFrame ppf bits pi rows cols
  let off ← if bits = 1 then lazyOffsetBit i ppf else lazyOffsetByte i bpf
  let len ← lazyReadLength i off bits ppf bpf
  let raw ← slice pixelData off (off + len)
  if raw.length = 0 then .error .other else .ok raw

/-- lazily read and decode a 1-bit native frame (via `Image.get_stored_frame`, which validates the number first) -/
def lazyFrameBits (pixelData : List Nat) (rows cols samples n : Int) (k : Int) (asIndex : Bool) :
    Except ErrKind (List Bool) := do
  let idx ← stdFrameIndex k asIndex n
  let raw ← lazyRaw pixelData rows cols samples 1 n "MONOCHROME2" idx
  decodeBits raw rows cols samples idx

def lazyFrameBytes (pixelData : List Nat) (rows cols samples bits n : Int) (pi : String) (k : Int)
    (asIndex : Bool) : Except ErrKind (List Nat) := do
  let idx ← stdFrameIndex k asIndex n
  lazyRaw pixelData rows cols samples bits n pi idx

/-- batch access is a map over single access, failing at the first bad number -/
def memFramesBits (pixelData : List Nat) (rows cols samples n : Int) (ks : List Int) (asIndex : Bool) :
    Except ErrKind (List (List Bool)) :=
  ks.mapM (fun k => memFrameBits pixelData rows cols samples n k asIndex)

end HdVerif.FrameAccess
