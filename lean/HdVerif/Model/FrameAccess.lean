import HdVerif.Model.Bits
import HdVerif.Generated.T1
import HdVerif.Generated.T1b
import HdVerif.Generated.T4
import HdVerif.Generated.T11
import HdVerif.Generated.T11b
import HdVerif.Generated.T11c
import HdVerif.Generated.T12
/-! C05: the ways of fetching a stored frame of a *native* image, composed from the translated
index/byte-range/bit-offset arithmetic (tie T) and the bit-packing model.

`PixelData` is a list of bytes (`Nat < 256`); a frame is a list of bits (1-bit images) or a
list of bytes (8/16/32-bit images: decoding bytes to numbers is numpy's job and identical on
every path, so frames are compared as byte strings). -/
namespace HdVerif.FrameAccess
open HdVerif HdVerif.Bits HdVerif.Gen

/-- Python `bytes[a:b]` / `array[a:b]` for non-negative bounds; negative bounds are refused
    (the code never produces them for validated indices; a model that wrapped would hide bugs). -/
def slice {α} (l : List α) (a b : Int) : Except ErrKind (List α) :=
  if a < 0 ∨ b < 0 then .error .other else .ok (pySlice l a.toNat b.toNat)

/-- `get_raw_frame` (in-memory, native): validated 0-based index → raw bytes -/
def memRaw (pixelData : List Nat) (rows cols samples bits : Int) (pi : String) (idx : Int) :
    Except ErrKind (List Nat) := do
  let (s, e) ← rawFrameRange idx rows cols samples bits pi
  slice pixelData s e

/-- `decode_frame` for native 1-bit data: unpack, cut the translated bit slice, `reshape`
    (which fails unless exactly rows*cols*samples bits are left) -/
def decodeBits (raw : List Nat) (rows cols samples : Int) (idx : Int) : Except ErrKind (List Bool) := do
  let (lo, hi) ← bitSlice idx rows cols samples
  let bits ← slice (unpack raw) lo hi
  if (bits.length : Int) = rows * cols * samples then .ok bits else .error .value

/-! ### The call skeleton of `get_stored_frame` / `get_stored_frames` (regenerated, target T1b)

Which expressions reach `_standardize_frame_index`, `get_raw_frame` (which standardises its arguments again),
`decode_frame(index=…)` and the subscript of the cached `pixel_array` is read off the current AST for the single and
for the batch method separately; the access functions below are *defined through* those pieces, so "batch = single"
and "cached = decoded" are statements about what the source says now (audit A, C05-1/C05-2). -/

structure Skel where
  stdArgs : Int → Bool → Int → Except ErrKind (Int × Bool)
  rawArgs : Int → Bool → Int → Except ErrKind (Int × Bool)
  decodeIndex : Int → Bool → Int → Except ErrKind Int
  cacheIndex : Int → Bool → Int → Except ErrKind Int

def singleSkel : Skel := ⟨singleStdArgs, singleRawArgs, singleDecodeIndex, singleCacheIndex⟩
def batchSkel : Skel := ⟨batchStdArgs, batchRawArgs, batchDecodeIndex, batchCacheIndex⟩

/-- the first statement of both methods: `frame_index = self._standardize_frame_index(…)`; `frame_index` is not bound yet
    when the arguments are evaluated (the generated definition takes it as a parameter only for uniformity) -/
def Skel.index (sk : Skel) (n k : Int) (asIndex : Bool) : Except ErrKind Int := do
  let (a, b) ← sk.stdArgs k asIndex 0
  stdFrameIndex a b n

/-- one stored 1-bit frame through the un-cached branch; `rawFn` = in-memory byte range or lazy file read -/
def Skel.frameBits (sk : Skel) (rawFn : Int → Except ErrKind (List Nat)) (rows cols samples n k : Int) (asIndex : Bool) :
    Except ErrKind (List Bool) := do
  let idx ← sk.index n k asIndex
  let (rk, rai) ← sk.rawArgs k asIndex idx
  let ridx ← stdFrameIndex rk rai n          -- `get_raw_frame` standardises what it is handed
  let raw ← rawFn ridx
  let didx ← sk.decodeIndex k asIndex idx
  decodeBits raw rows cols samples didx

/-- one stored frame of >= 8 bits as bytes (decoding bytes to numbers is numpy's and index-independent) -/
def Skel.frameBytes (sk : Skel) (rawFn : Int → Except ErrKind (List Nat)) (n k : Int) (asIndex : Bool) :
    Except ErrKind (List Nat) := do
  let idx ← sk.index n k asIndex
  let (rk, rai) ← sk.rawArgs k asIndex idx
  let ridx ← stdFrameIndex rk rai n
  rawFn ridx

/-- `get_stored_frame` on an in-memory native 1-bit image -/
def memFrameBits (pixelData : List Nat) (rows cols samples n : Int) (k : Int) (asIndex : Bool) :
    Except ErrKind (List Bool) :=
  singleSkel.frameBits (memRaw pixelData rows cols samples 1 "MONOCHROME2") rows cols samples n k asIndex

/-- `get_stored_frame` on an in-memory native image with ≥ 8 bits: the frame's bytes -/
def memFrameBytes (pixelData : List Nat) (rows cols samples bits n : Int) (pi : String) (k : Int)
    (asIndex : Bool) : Except ErrKind (List Nat) :=
  singleSkel.frameBytes (memRaw pixelData rows cols samples bits pi) n k asIndex

/-- `ImageFileReader.read_frame_raw` on native data: guard, offset table entry, read length.
    Reading past the end of the file returns fewer bytes, exactly like `List.take`. -/
def lazyRaw (pixelData : List Nat) (rows cols samples bits n : Int) (pi : String) (idx : Int) :
    Except ErrKind (List Nat) := do
  let i ← lazyIndexGuard idx n
  let ppf := rows * cols * samples
  let bpf ← lazyBytesPerFrame ppf bits pi rows cols
  let off ← if bits = 1 then lazyOffsetBit i ppf else lazyOffsetByte i bpf
  let len ← lazyReadLength i off bits ppf bpf
  let raw ← slice pixelData off (off + len)
  if raw.length = 0 then .error .other else .ok raw

/-- lazily read and decode a 1-bit native frame (`Image.get_stored_frame` on a lazily read image: `get_raw_frame` hands
    the standardised index to the file reader) -/
def lazyFrameBits (pixelData : List Nat) (rows cols samples n : Int) (k : Int) (asIndex : Bool) :
    Except ErrKind (List Bool) :=
  singleSkel.frameBits (lazyRaw pixelData rows cols samples 1 n "MONOCHROME2") rows cols samples n k asIndex

def lazyFrameBytes (pixelData : List Nat) (rows cols samples bits n : Int) (pi : String) (k : Int)
    (asIndex : Bool) : Except ErrKind (List Nat) :=
  singleSkel.frameBytes (lazyRaw pixelData rows cols samples bits n pi) n k asIndex

/-- the same single frame as the BATCH method fetches it (its own copy of the call skeleton) -/
def batchOneBits (pixelData : List Nat) (rows cols samples n : Int) (k : Int) (asIndex : Bool) :
    Except ErrKind (List Bool) :=
  batchSkel.frameBits (memRaw pixelData rows cols samples 1 "MONOCHROME2") rows cols samples n k asIndex

/-- Python `range(a, b)` as a list -/
def pyRange (a b : Int) : List Int := (List.range (b - a).toNat).map (fun (i : Nat) => a + (i : Int))

/-- `get_stored_frames(frame_numbers, as_indices)` (un-cached, 1-bit native): `None` means the translated default range;
    the frames are stacked with `np.stack`, which refuses an empty list -/
def memFramesBits (pixelData : List Nat) (rows cols samples n : Int) (ks : Option (List Int)) (asIndex : Bool) :
    Except ErrKind (List (List Bool)) := do
  let nums ← match ks with
    | some l => pure l
    | none => do
      let (a, b) ← batchDefaultRange asIndex n
      pure (pyRange a b)
  let frames ← nums.mapM (fun k => batchOneBits pixelData rows cols samples n k asIndex)
  if frames.isEmpty then .error .value else .ok frames

/-- Python/numpy subscript with one integer: negative values count from the end, out of range is an IndexError -/
def pyIndex {α} (l : List α) (i : Int) : Except ErrKind α :=
  let j := if i < 0 then i + l.length else i
  if j < 0 then .error .index else
  match l[j.toNat]? with
  | some x => .ok x
  | none => .error .index

/-- the cached-pixel-array branch of both methods: the whole array for a single-frame image, else `pixel_array[…]`
    with the translated subscript expression -/
def Skel.cached {α} (sk : Skel) (frames : List α) (whole : α) (k : Int) (asIndex : Bool) : Except ErrKind α := do
  let n : Int := frames.length
  let idx ← sk.index n k asIndex
  if n = 1 then .ok whole else do
    let ci ← sk.cacheIndex k asIndex idx
    pyIndex frames ci

/-- cached batch -/
def cachedFrames {α} (frames : List α) (whole : α) (ks : Option (List Int)) (asIndex : Bool) : Except ErrKind (List α) := do
  let n : Int := frames.length
  let nums ← match ks with
    | some l => pure l
    | none => do
      let (a, b) ← batchDefaultRange asIndex n
      pure (pyRange a b)
  let out ← nums.mapM (fun k => batchSkel.cached frames whole k asIndex)
  if out.isEmpty then .error .value else .ok out

/-- bytes per frame as the in-memory path computes them: `bits * n_pixels / 8` with
    `n_pixels = rows*cols*2` for YBR_FULL_422 and `rows*cols*samples` otherwise -/
def frameBytes (rows cols samples bits : Nat) (pi : String) : Nat :=
  bits * (if pi = "YBR_FULL_422" then rows * cols * 2 else rows * cols * samples) / 8


end HdVerif.FrameAccess
