import HdVerif.Model.Basic
import HdVerif.Generated.T13o
import HdVerif.Generated.T13e
/-! # Model of the coordinate-transform code of `highdicom/spatial.py` (property C10)

Exact rational model (every float / DS string is a rational; rounding *inside* numpy operations is
not modelled, DESIGN 4.1).  Modelled functions, by name in `spatial.py`:

* `_normalize_pixel_index_convention`, `get_normal_vector`, `create_rotation_matrix`,
  `_stack_affine_matrix`, `create_affine_matrix_from_attributes`,
  `_create_inv_affine_matrix_from_attributes` (`np.linalg.inv` = adjugate / determinant, refusing
  singular matrices), `_is_matrix_orthogonal`, `rotation_for_patient_orientation`,
  `create_affine_matrix_from_components`, `_normalize_patient_orientation`,
  `get_closest_patient_orientation`, `_transform_affine_to_convention` (through
  `_transform_affine_matrix` with `flip_reference` / `permute_reference`), `_are_images_coplanar`;
* the six transformer classes (`__init__` builds the affine by the same matrix products as the code,
  `__call__` applies it to `(c, r, 0, 1)` resp. `(x, y, z, 1)`), `map_pixel_into_coordinate_system`,
  `map_coordinate_into_pixel_matrix`;
* `compute_tile_positions_per_frame` (frame position of a TILED_FULL tile).

The literal tables (letters -> unit vectors, positive / negative letters per axis, opposites) are
NOT written here: they are `HdVerif.Gen.*` regenerated from the source (tie T, target T13o). -/
namespace HdVerif.Affine

/-- 3-vector over ℚ. -/
structure V3 where
  x : Rat
  y : Rat
  z : Rat
  deriving DecidableEq, Repr, Inhabited

/-- 3×3 matrix given by its three COLUMNS (the code builds matrices with `np.column_stack`). -/
structure M3 where
  c0 : V3
  c1 : V3
  c2 : V3
  deriving DecidableEq, Repr, Inhabited

/-- 4×4 affine matrix with last row `0 0 0 1`: linear part and translation. -/
structure Aff where
  m : M3
  t : V3
  deriving DecidableEq, Repr, Inhabited

namespace V3
def zero : V3 := ⟨0, 0, 0⟩
def add (a b : V3) : V3 := ⟨a.x + b.x, a.y + b.y, a.z + b.z⟩
def sub (a b : V3) : V3 := ⟨a.x - b.x, a.y - b.y, a.z - b.z⟩
def neg (a : V3) : V3 := ⟨-a.x, -a.y, -a.z⟩
def smul (s : Rat) (a : V3) : V3 := ⟨s * a.x, s * a.y, s * a.z⟩
def dot (a b : V3) : Rat := a.x * b.x + a.y * b.y + a.z * b.z
def cross (a b : V3) : V3 := ⟨a.y * b.z - a.z * b.y, a.z * b.x - a.x * b.z, a.x * b.y - a.y * b.x⟩
def get (a : V3) : Nat → Rat
  | 0 => a.x | 1 => a.y | _ => a.z
def toList (a : V3) : List Rat := [a.x, a.y, a.z]
def ofList : List Rat → Option V3
  | [a, b, c] => some ⟨a, b, c⟩
  | _ => none
end V3

namespace M3
def id : M3 := ⟨⟨1, 0, 0⟩, ⟨0, 1, 0⟩, ⟨0, 0, 1⟩⟩
/-- matrix × vector -/
def mulVec (m : M3) (v : V3) : V3 :=
  (V3.smul v.x m.c0).add ((V3.smul v.y m.c1).add (V3.smul v.z m.c2))
/-- matrix × matrix (columns of the product are `a` applied to the columns of `b`) -/
def mul (a b : M3) : M3 := ⟨a.mulVec b.c0, a.mulVec b.c1, a.mulVec b.c2⟩
def col (m : M3) : Nat → V3
  | 0 => m.c0 | 1 => m.c1 | _ => m.c2
/-- row i as a vector -/
def row (m : M3) (i : Nat) : V3 := ⟨m.c0.get i, m.c1.get i, m.c2.get i⟩
def ofRows (r0 r1 r2 : V3) : M3 := ⟨⟨r0.x, r1.x, r2.x⟩, ⟨r0.y, r1.y, r2.y⟩, ⟨r0.z, r1.z, r2.z⟩⟩
def det (m : M3) : Rat := m.c0.dot (m.c1.cross m.c2)
/-- adjugate / determinant (rows of the inverse are the cross products of the columns) -/
def inv (m : M3) : Except ErrKind M3 :=
  let d := m.det
  if d = 0 then .error .other   -- numpy.linalg.LinAlgError: singular matrix
  else .ok (ofRows (V3.smul (1 / d) (m.c1.cross m.c2)) (V3.smul (1 / d) (m.c2.cross m.c0))
                   (V3.smul (1 / d) (m.c0.cross m.c1)))
end M3

namespace Aff
def apply (a : Aff) (v : V3) : V3 := (a.m.mulVec v).add a.t
/-- 4×4 matrix product `a @ b` -/
def comp (a b : Aff) : Aff := ⟨a.m.mul b.m, (a.m.mulVec b.t).add a.t⟩
/-- pure translation (the half-pixel "correction" matrices of the image transformers) -/
def shift (t : V3) : Aff := ⟨M3.id, t⟩
end Aff

/-! ## index conventions, handedness

Index directions are the letters of `enum.PixelIndexDirections` (`Gen.pixelIndexDirections`); what a
letter means (which cosine vector, which sign, which spacing) is read from the tables translated from
the if/elif chains of `create_rotation_matrix` and `get_normal_vector`. -/

/-- `_normalize_pixel_index_convention`: length 2, enum members, exactly one of L/R and one of U/D. -/
def normConvention (c : List Char) : Except ErrKind (Char × Char) :=
  match c with
  | [a, b] =>
    if Gen.pixelIndexDirections.contains a && Gen.pixelIndexDirections.contains b then
      if (c.contains 'L' != c.contains 'R') && (c.contains 'U' != c.contains 'D') then .ok (a, b)
      else .error .value
    else .error .value
  | _ => .error .value

/-- the eight conventions `_normalize_pixel_index_convention` accepts -/
def validConventions : List (Char × Char) :=
  [('R', 'D'), ('D', 'R'), ('L', 'D'), ('D', 'L'), ('R', 'U'), ('U', 'R'), ('L', 'U'), ('U', 'L')]

/-- image orientation: row cosines (direction of increasing column index) and column cosines. -/
structure Ori where
  row : V3
  col : V3
  deriving DecidableEq, Repr, Inhabited

def Ori.ofList : List Rat → Option Ori
  | [a, b, c, d, e, f] => some ⟨⟨a, b, c⟩, ⟨d, e, f⟩⟩
  | _ => none

/-- the axis vector and the pixel spacing that belong to one index direction
(`create_rotation_matrix`, loop over `index_convention_`; table `Gen.rotationAxisTable`). -/
def axisOf (o : Ori) (spacingRows spacingCols : Rat) (d : Char) : Except ErrKind (V3 × Rat) :=
  match Gen.rotationAxisTable.lookup d with
  | some (sign, usesRow, usesColSpacing) =>
    .ok (V3.smul (sign : Rat) (if usesRow then o.row else o.col),
         if usesColSpacing then spacingCols else spacingRows)
  | none => .error .index    -- nothing appended: `rotation_columns[1]` fails

/-- the same for `get_normal_vector` (table `Gen.normalAxisTable`). -/
def normalAxisOf (o : Ori) (d : Char) : Except ErrKind V3 :=
  match Gen.normalAxisTable.lookup d with
  | some (sign, usesRow) => .ok (V3.smul (sign : Rat) (if usesRow then o.row else o.col))
  | none => .error .index

/-- `np.cross(rotation_columns[i], rotation_columns[j])` with the operand order of the source. -/
def crossOrdered (order : (Nat × Nat) × (Nat × Nat)) (rightHanded : Bool) (v0 v1 : V3) : V3 :=
  let ij := if rightHanded then order.1 else order.2
  let pick := fun (k : Nat) => if k = 0 then v0 else v1
  (pick ij.1).cross (pick ij.2)

/-- `get_normal_vector` for a normalised convention. -/
def normalVector (o : Ori) (conv : Char × Char) (rightHanded : Bool) : Except ErrKind V3 := do
  let v0 ← normalAxisOf o conv.1
  let v1 ← normalAxisOf o conv.2
  pure (crossOrdered Gen.normalCrossOrder rightHanded v0 v1)

/-- `pixel_spacing` argument: a single number or a sequence. -/
inductive Spacing
  | scalar (s : Rat)
  | seq (l : List Rat)
  deriving Repr, Inhabited

/-- `create_rotation_matrix` (after the length-6 test of the orientation, which `Ori` carries). -/
def createRotation (o : Ori) (conv : List Char) (slicesFirst rightHanded : Bool)
    (ps : Spacing) (sbs : Rat) : Except ErrKind M3 := do
  let cv ← normConvention conv
  let (sr, sc) ← (match ps with
    | .scalar s => pure (s, s)
    | .seq [a, b] => pure (a, b)
    | .seq _ => .error .value : Except ErrKind (Rat × Rat))
  if sr ≤ 0 ∨ sc ≤ 0 then .error .value
  else do
    let (v0, s0) ← axisOf o sr sc cv.1
    let (v1, s1) ← axisOf o sr sc cv.2
    let n := crossOrdered Gen.rotationCrossOrder rightHanded v0 v1
    if slicesFirst == Gen.slicesFirstPutsNormalFirst then .ok ⟨V3.smul sbs n, V3.smul s0 v0, V3.smul s1 v1⟩
    else .ok ⟨V3.smul s0 v0, V3.smul s1 v1, V3.smul sbs n⟩

/-- `create_affine_matrix_from_attributes`.  `pos`/`ori` arrive as lists so that wrong lengths are
refused as in the code; a scalar `pixel_spacing` is a TypeError here (the code insists on a sequence). -/
def affineFromAttributes (pos : List Rat) (ori : List Rat) (ps : Spacing) (sbs : Rat)
    (conv : List Char) (slicesFirst rightHanded : Bool) : Except ErrKind Aff := do
  let p ← (match V3.ofList pos with | some p => pure p | none => .error .value : Except ErrKind V3)
  let o ← (match Ori.ofList ori with | some o => pure o | none => .error .value : Except ErrKind Ori)
  match ps with
  | .scalar _ => .error .type
  | .seq l =>
    if l.length ≠ 2 then .error .value
    else do
      let cv ← normConvention conv
      if cv.1 = 'L' ∨ cv.1 = 'U' ∨ cv.2 = 'L' ∨ cv.2 = 'U' then .error .value
      else do
        let r ← createRotation o conv slicesFirst rightHanded ps sbs
        pure ⟨r, p⟩

/-- `_create_inv_affine_matrix_from_attributes` (default convention RD, right-handed, slices last). -/
def invAffineFromAttributes (pos : List Rat) (ori : List Rat) (ps : Spacing) (sbs : Rat) :
    Except ErrKind Aff := do
  let p ← (match V3.ofList pos with | some p => pure p | none => .error .value : Except ErrKind V3)
  let o ← (match Ori.ofList ori with | some o => pure o | none => .error .value : Except ErrKind Ori)
  match ps with
  | .scalar _ => .error .type
  | .seq l =>
    if l.length ≠ 2 then .error .value
    else do
      let r ← createRotation o ['R', 'D'] false true ps sbs
      let ri ← r.inv
      pure ⟨ri, (ri.mulVec p).neg⟩

/-! ## tolerances -/

/-- `_DEFAULT_EQUALITY_TOLERANCE` (translated constant) -/
def eqTol : Rat := Gen.equalityTolerance
/-- numpy's default `rtol` of `allclose` / `isclose` -/
def npRtol : Rat := 1 / 100000

def rabs (x : Rat) : Rat := if x < 0 then -x else x

/-- `np.isclose(a, b, rtol, atol)` : `|a - b| <= atol + rtol * |b|` -/
def isClose (a b rtol atol : Rat) : Bool := decide (rabs (a - b) ≤ atol + rtol * rabs b)

/-- `_is_matrix_orthogonal` for a 3×3 matrix: `allclose(m.T @ m, diag(norm²), atol = tol)` and, with
`require_unit`, `allclose(norm², 1, atol = tol)`. -/
def isOrthogonal (m : M3) (requireUnit : Bool) : Bool :=
  let n0 := m.c0.dot m.c0
  let n1 := m.c1.dot m.c1
  let n2 := m.c2.dot m.c2
  (!requireUnit || (isClose n0 1 npRtol eqTol && isClose n1 1 npRtol eqTol && isClose n2 1 npRtol eqTol))
  && isClose (m.c0.dot m.c1) 0 npRtol eqTol && isClose (m.c0.dot m.c2) 0 npRtol eqTol
  && isClose (m.c1.dot m.c2) 0 npRtol eqTol

/-- `_are_images_coplanar` with the default tolerance. -/
def areCoplanar (posA : V3) (oriA : Ori) (posB : V3) (oriB : Ori) : Except ErrKind Bool := do
  let na ← normalVector oriA ('R', 'D') true
  let nb ← normalVector oriB ('R', 'D') true
  if 1 - rabs (na.dot nb) > eqTol then pure false
  else
    -- which position / normal each plane distance uses, and whether abs() is applied, is read from the source
    let dist := fun (spec : Bool × Char × Char) =>
      let d := (if spec.2.1 = 'a' then posA else posB).dot (if spec.2.2 = 'a' then na else nb)
      if spec.1 then rabs d else d
    pure (decide (rabs (dist Gen.coplanarDistance.1 - dist Gen.coplanarDistance.2) < eqTol))

/-! ## patient orientations (letters) -/

/-- `_normalize_patient_orientation`: three letters of the enum, exactly one of each opposite pair.
The pairs are read from the translated table `Gen.orientationOpposites`; the enum members from
`Gen.bipedValues`. -/
def normOrientation (c : List Char) : Except ErrKind (List Char) :=
  match c with
  | [_, _, _] =>
    if c.all (fun d => Gen.bipedValues.contains d) then
      if (c.contains 'L' != c.contains 'R') && (c.contains 'A' != c.contains 'P')
          && (c.contains 'F' != c.contains 'H') then .ok c else .error .value
    else .error .value
  | _ => .error .value

def vecOfInts (t : Int × Int × Int) : V3 := ⟨(t.1 : Rat), (t.2.1 : Rat), (t.2.2 : Rat)⟩

/-- `direction_to_vector_mapping[d]` (translated table). -/
def dirVector (d : Char) : Except ErrKind V3 :=
  match Gen.directionToVector.lookup d with
  | some t => .ok (vecOfInts t)
  | none => .error .key

/-- `rotation_for_patient_orientation` with per-axis spacing `s` (a float spacing is tripled). -/
def rotationForOrientation (c : List Char) (s : V3) : Except ErrKind M3 := do
  let n ← normOrientation c
  match n with
  | [a, b, d] => do
    let va ← dirVector a
    let vb ← dirVector b
    let vd ← dirVector d
    pure ⟨V3.smul s.x va, V3.smul s.y vb, V3.smul s.z vd⟩
  | _ => .error .value

/-- stable insertion of `(index, key)` into a list sorted by ascending key (what `np.argsort` does on
these 3-element columns: insertion sort, ties keep the lower index first; elements are inserted from
the last to the first, so an element goes in front of equal keys). -/
def insertByKey (p : Nat × Rat) : List (Nat × Rat) → List (Nat × Rat)
  | [] => [p]
  | q :: qs => if p.2 ≤ q.2 then p :: q :: qs else q :: insertByKey p qs

def argsortKeys (l : List (Nat × Rat)) : List Nat :=
  (l.foldr insertByKey []).map (·.1)

/-- one step of the loop of `get_closest_patient_orientation`: axis `d` of the array with column
`colv`; `used` are the reference axes already taken. Returns the chosen reference axis. -/
def chooseAxis (colv : V3) (used : List Nat) : Nat :=
  let order := argsortKeys [(0, -rabs colv.x), (1, -rabs colv.y), (2, -rabs colv.z)]
  match order.filter (fun i => !used.contains i) with
  | i :: _ => i
  | [] => 2   -- cannot happen for fewer than three used axes; the code would keep the last index

def letterFor (colv : V3) (i : Nat) : Except ErrKind Char :=
  match (if colv.get i > 0 then Gen.posDirections else Gen.negDirections)[i]? with
  | some c => .ok c
  | none => .error .index

/-- `get_closest_patient_orientation` on the 3×3 part of an affine. -/
def closestOrientation (m : M3) : Except ErrKind (List Char) :=
  if !isOrthogonal m false then .error .value
  else do
    let i0 := chooseAxis m.c0 []
    let i1 := chooseAxis m.c1 [i0]
    let i2 := chooseAxis m.c2 [i0, i1]
    let l0 ← letterFor m.c0 i0
    let l1 ← letterFor m.c1 i1
    let l2 ← letterFor m.c2 i2
    pure [l0, l1, l2]

def opposite (d : Char) : Except ErrKind Char :=
  match Gen.orientationOpposites.lookup d with
  | some c => .ok c
  | none => .error .key

def indexOf (l : List Char) (d : Char) : Except ErrKind Nat :=
  match l.idxOf? d with
  | some i => .ok i
  | none => .error .value   -- tuple.index raises ValueError

def flipSign (b : Bool) : Rat := if b then -1 else 1

/-- the decision part of `_transform_affine_to_convention`: `flip_reference` (one flag per SOURCE
axis: its letter is absent from the target) and `permute_reference` (for each TARGET letter the source
axis carrying it or its opposite). -/
def conventionPlan (fromC toC : List Char) : Except ErrKind (List Bool × List Nat) := do
  let f ← normOrientation fromC
  let t ← normOrientation toC
  let flips := f.map (fun d => !t.contains d)
  let perm ← t.mapM (fun d => do
    if f.contains d then indexOf f d
    else do
      let d' ← opposite d
      indexOf f d')
  pure (flips, perm)

/-- the arithmetic part (`_transform_affine_matrix` with `flip_reference`, `permute_reference`): negate
the flagged rows of the 3×4 matrix (translation included), then take the rows in the permuted order. -/
def applyPlan (a : Aff) (flips : List Bool) (perm : List Nat) : Except ErrKind Aff :=
  match flips, perm with
  | [f0, f1, f2], [p0, p1, p2] =>
    let fl := fun (i : Nat) => flipSign (match i with | 0 => f0 | 1 => f1 | _ => f2)
    let rowOf := fun (i : Nat) => V3.smul (fl i) (a.m.row i)
    let tOf := fun (i : Nat) => fl i * a.t.get i
    pure ⟨M3.ofRows (rowOf p0) (rowOf p1) (rowOf p2), ⟨tOf p0, tOf p1, tOf p2⟩⟩
  | _, _ => .error .value

/-- `_transform_affine_to_convention` -/
def transformToConvention (a : Aff) (fromC toC : List Char) : Except ErrKind Aff := do
  let (flips, perm) ← conventionPlan fromC toC
  applyPlan a flips perm

/-! ## affine from components -/

/-- `create_affine_matrix_from_components`.  `direction` is the flattened 3×3 matrix (row major, as
the code reshapes a 9-vector), `orient` the letters; exactly one of each pair must be given. -/
def affineFromComponents (spacing : Spacing) (position center : Option (List Rat))
    (direction : Option (List Rat)) (orient : Option (List Char)) (shape : Option (List Int)) :
    Except ErrKind Aff := do
  if direction.isNone == orient.isNone then .error .type
  else if position.isNone == center.isNone then .error .type
  else do
    let s ← (match spacing with
      | .scalar s => pure (⟨s, s, s⟩ : V3)
      | .seq [a, b, c] => pure ⟨a, b, c⟩
      | .seq _ => .error .value : Except ErrKind V3)
    if s.x ≤ 0 ∨ s.y ≤ 0 ∨ s.z ≤ 0 then .error .value
    else do
      let dir ← (match direction, orient with
        | some [a, b, c, d, e, f, g, h, i], _ =>
          let m := M3.ofRows ⟨a, b, c⟩ ⟨d, e, f⟩ ⟨g, h, i⟩
          if isOrthogonal m true then pure m else .error .value
        | some _, _ => .error .value
        | none, some o => rotationForOrientation o ⟨1, 1, 1⟩
        | none, none => .error .type : Except ErrKind M3)
      let scaled : M3 := ⟨V3.smul s.x dir.c0, V3.smul s.y dir.c1, V3.smul s.z dir.c2⟩
      match position, center with
      | some p, _ =>
        match V3.ofList p with
        | some pv => pure ⟨scaled, pv⟩
        | none => .error .value
      | none, some c =>
        match shape with
        | none => .error .type
        | some [n0, n1, n2] =>
          match V3.ofList c with
          | some cv =>
            let ci : V3 := ⟨((n0 : Rat) - 1) / 2, ((n1 : Rat) - 1) / 2, ((n2 : Rat) - 1) / 2⟩
            pure ⟨scaled, cv.sub (scaled.mulVec ci)⟩
          | none => .error .value
        | some _ => .error .value
      | none, none => .error .type

/-! ## transformers -/

/-- `np.around` / Python `round`: round half to even. -/
def roundHalfEven (x : Rat) : Int :=
  let f := x.floor
  let d := x - (f : Rat)
  if d < 1 / 2 then f
  else if 1 / 2 < d then f + 1
  else if f % 2 = 0 then f else f + 1

def vecOfTriple (t : Rat × Rat × Rat) : V3 := ⟨t.1, t.2.1, t.2.2⟩

/-- `PixelToReferenceTransformer(...)._affine` -/
def pixToRefAffine (pos ori : List Rat) (ps : Spacing) : Except ErrKind Aff :=
  affineFromAttributes pos ori ps 1 ['R', 'D'] false true

/-- `PixelToReferenceTransformer(...)(indices)` for one (column, row) index pair. -/
def pixToRef (pos ori : List Rat) (ps : Spacing) (c r : Int) : Except ErrKind V3 := do
  let a ← pixToRefAffine pos ori ps
  pure (a.apply ⟨(c : Rat), (r : Rat), 0⟩)

/-- `ReferenceToPixelTransformer(..., round_output=False)(coordinates)` for one point: the
un-rounded (column, row, slice) indices. -/
def refToPix (pos ori : List Rat) (ps : Spacing) (sbs : Rat) (v : V3) : Except ErrKind V3 := do
  let a ← invAffineFromAttributes pos ori ps sbs
  pure (a.apply v)

/-- the same with `drop_slice_index=True`: refuses points more than half a slice off the plane. -/
def refToPixDrop (pos ori : List Rat) (ps : Spacing) (sbs : Rat) (v : V3) : Except ErrKind (Rat × Rat) := do
  let p ← refToPix pos ori ps sbs v
  if rabs p.z > 1 / 2 then .error .runtime else pure (p.x, p.y)

/-- `round_output=True` -/
def refToPixRounded (pos ori : List Rat) (ps : Spacing) (sbs : Rat) (v : V3) : Except ErrKind (Int × Int × Int) := do
  let p ← refToPix pos ori ps sbs v
  pure (roundHalfEven p.x, roundHalfEven p.y, roundHalfEven p.z)

/-- `PixelToPixelTransformer(...)._affine = ref_to_pix @ pix_to_ref` after the coplanarity test. -/
def pixToPixAffine (posF oriF : List Rat) (psF : Spacing) (posT oriT : List Rat) (psT : Spacing) :
    Except ErrKind Aff := do
  let pf ← (match V3.ofList posF with | some p => pure p | none => .error .value : Except ErrKind V3)
  let pt ← (match V3.ofList posT with | some p => pure p | none => .error .value : Except ErrKind V3)
  let of' ← (match Ori.ofList oriF with | some o => pure o | none => .error .value : Except ErrKind Ori)
  let ot ← (match Ori.ofList oriT with | some o => pure o | none => .error .value : Except ErrKind Ori)
  let cop ← areCoplanar pf of' pt ot
  if !cop then .error .value
  else do
    let p2r ← affineFromAttributes posF oriF psF 1 ['R', 'D'] false true
    let r2p ← invAffineFromAttributes posT oriT psT 1
    pure (r2p.comp p2r)

/-- `PixelToPixelTransformer(..., round_output=False)(indices)` for one index pair. -/
def pixToPix (posF oriF : List Rat) (psF : Spacing) (posT oriT : List Rat) (psT : Spacing) (c r : Int) :
    Except ErrKind (Rat × Rat) := do
  let a ← pixToPixAffine posF oriF psF posT oriT psT
  let p := a.apply ⟨(c : Rat), (r : Rat), 0⟩
  pure (p.x, p.y)

/-- `ImageToReferenceTransformer(...)._affine = affine @ correction` -/
def imgToRefAffine (pos ori : List Rat) (ps : Spacing) : Except ErrKind Aff := do
  let a ← affineFromAttributes pos ori ps 1 ['R', 'D'] false true
  pure (a.comp (Aff.shift (vecOfTriple Gen.imgToRefCorrection)))

def imgToRef (pos ori : List Rat) (ps : Spacing) (x y : Rat) : Except ErrKind V3 := do
  let a ← imgToRefAffine pos ori ps
  pure (a.apply ⟨x, y, 0⟩)

/-- `ReferenceToImageTransformer(...)._affine = correction @ inverse affine` -/
def refToImgAffine (pos ori : List Rat) (ps : Spacing) (sbs : Rat) : Except ErrKind Aff := do
  let a ← invAffineFromAttributes pos ori ps sbs
  pure ((Aff.shift (vecOfTriple Gen.refToImgCorrection)).comp a)

def refToImg (pos ori : List Rat) (ps : Spacing) (sbs : Rat) (v : V3) : Except ErrKind V3 := do
  let a ← refToImgAffine pos ori ps sbs
  pure (a.apply v)

/-- `ImageToImageTransformer(...)._affine = pix_to_im @ ref_to_pix @ pix_to_ref @ im_to_pix` -/
def imgToImgAffine (posF oriF : List Rat) (psF : Spacing) (posT oriT : List Rat) (psT : Spacing) :
    Except ErrKind Aff := do
  let pf ← (match V3.ofList posF with | some p => pure p | none => .error .value : Except ErrKind V3)
  let pt ← (match V3.ofList posT with | some p => pure p | none => .error .value : Except ErrKind V3)
  let of' ← (match Ori.ofList oriF with | some o => pure o | none => .error .value : Except ErrKind Ori)
  let ot ← (match Ori.ofList oriT with | some o => pure o | none => .error .value : Except ErrKind Ori)
  let cop ← areCoplanar pf of' pt ot
  if !cop then .error .value
  else do
    let r2p ← invAffineFromAttributes posT oriT psT 1
    let p2r ← affineFromAttributes posF oriF psF 1 ['R', 'D'] false true
    pure ((((Aff.shift (vecOfTriple Gen.pixToImCorrection)).comp r2p).comp p2r).comp (Aff.shift (vecOfTriple Gen.imToPixCorrection)))

def imgToImg (posF oriF : List Rat) (psF : Spacing) (posT oriT : List Rat) (psT : Spacing) (x y : Rat) :
    Except ErrKind (Rat × Rat) := do
  let a ← imgToImgAffine posF oriF psF posT oriT psT
  let p := a.apply ⟨x, y, 0⟩
  pure (p.x, p.y)

/-- `map_pixel_into_coordinate_system` -/
def mapPixelIntoCoordinateSystem (index : Int × Int) (pos ori : List Rat) (ps : Spacing) : Except ErrKind V3 :=
  pixToRef pos ori ps index.1 index.2

/-- `map_coordinate_into_pixel_matrix` (transformer with rounding, then Python `round`). -/
def mapCoordinateIntoPixelMatrix (v : V3) (pos ori : List Rat) (ps : Spacing) (sbs : Rat) :
    Except ErrKind (Int × Int × Int) :=
  refToPixRounded pos ori ps sbs v

/-! ## tiles of a TILED_FULL image -/

/-- `compute_tile_positions_per_frame`: the entry for the tile in tile-column `tc`, tile-row `tr`
(0-based): 1-based (column, row) offsets in the total pixel matrix and the position of its first
pixel, obtained by the pixel-to-reference transformer of the total pixel matrix. -/
def tilePosition (rows cols : Int) (totalPos ori : List Rat) (ps : Spacing) (tc tr : Int) :
    Except ErrKind ((Int × Int) × V3) := do
  let p ← pixToRef totalPos ori ps (tc * cols) (tr * rows)
  pure ((tc * cols + 1, tr * rows + 1), p)

end HdVerif.Affine
