import Lean.Data.Json
import HdVerif.Model.Basic
/-! JSON-lines driver plumbing shared by all `Drivers/Cnn.lean`. -/
namespace HdVerif.Drv
open Lean

abbrev Handler := Json → Except String Json

def getInt (j : Json) (k : String) : Except String Int := do
  let v ← j.getObjVal? k
  v.getInt?

def getNat (j : Json) (k : String) : Except String Nat := do
  let v ← j.getObjVal? k
  v.getNat?

def getBool (j : Json) (k : String) : Except String Bool := do
  let v ← j.getObjVal? k
  v.getBool?

def getStr (j : Json) (k : String) : Except String String := do
  let v ← j.getObjVal? k
  v.getStr?

def getOptInt (j : Json) (k : String) : Except String (Option Int) := do
  match j.getObjVal? k with
  | .error _ => pure none
  | .ok .null => pure none
  | .ok v => some <$> v.getInt?

def getArr (j : Json) (k : String) : Except String (Array Json) := do
  let v ← j.getObjVal? k
  v.getArr?

def getIntList (j : Json) (k : String) : Except String (List Int) := do
  let a ← getArr j k
  a.toList.mapM (·.getInt?)

def getNatList (j : Json) (k : String) : Except String (List Nat) := do
  let a ← getArr j k
  a.toList.mapM (·.getNat?)

def jsonToBool (v : Json) : Except String Bool :=
  match v with
  | .bool b => pure b
  | .num n => pure (n.mantissa != 0)
  | _ => throw "bool expected"

def getBoolList (j : Json) (k : String) : Except String (List Bool) := do
  let a ← getArr j k
  a.toList.mapM jsonToBool

/-- rationals travel as "p/q" strings or as integers -/
def parseRat (v : Json) : Except String Rat :=
  match v with
  | .num n => if n.exponent == 0 then pure (n.mantissa : Rat)
              else pure ((n.mantissa : Rat) / ((10 ^ n.exponent : Nat) : Rat))
  | .str s =>
    match s.splitOn "/" with
    | [p] => match p.toInt? with
      | some a => pure (a : Rat)
      | none => throw s!"bad rat {s}"
    | [p, q] => match p.toInt?, q.toInt? with
      | some a, some b => if b == 0 then throw "zero denominator" else pure ((a : Rat) / (b : Rat))
      | _, _ => throw s!"bad rat {s}"
    | _ => throw s!"bad rat {s}"
  | _ => throw "rat expected"

def getRat (j : Json) (k : String) : Except String Rat := do
  let v ← j.getObjVal? k
  parseRat v

def getRatList (j : Json) (k : String) : Except String (List Rat) := do
  let a ← getArr j k
  a.toList.mapM parseRat

def ratToJson (r : Rat) : Json :=
  if r.den == 1 then Json.str (toString r.num) else Json.str s!"{r.num}/{r.den}"

def intsToJson (l : List Int) : Json := Json.arr (l.map (fun (i : Int) => (i : Json))).toArray
def natsToJson (l : List Nat) : Json := Json.arr (l.map (fun (i : Nat) => (i : Json))).toArray
def boolsToJson (l : List Bool) : Json := Json.arr (l.map (fun b => Json.bool b)).toArray
def ratsToJson (l : List Rat) : Json := Json.arr (l.map ratToJson).toArray

def exceptToJson {α} (f : α → Json) : Except ErrKind α → Json
  | .ok a => Json.mkObj [("ok", f a)]
  | .error e => Json.mkObj [("err", Json.str e.toString)]

def okJson (j : Json) : Json := Json.mkObj [("ok", j)]

/-- one request line → one response line -/
def respond (handlers : List (String × Handler)) (line : String) : String :=
  match Json.parse line with
  | .error e => (Json.mkObj [("proto_err", Json.str e)]).compress
  | .ok j =>
    match j.getObjVal? "fn" >>= (·.getStr?) with
    | .error e => (Json.mkObj [("proto_err", Json.str e)]).compress
    | .ok fn =>
      match handlers.lookup fn with
      | none => (Json.mkObj [("proto_err", Json.str s!"unknown fn {fn}")]).compress
      | some h =>
        match h (j.getObjValD "args") with
        | .ok r => r.compress
        | .error e => (Json.mkObj [("proto_err", Json.str e)]).compress

partial def loop (handlers : List (String × Handler)) (hin : IO.FS.Stream) (hout : IO.FS.Stream) : IO Unit := do
  let line ← hin.getLine
  if line.isEmpty then return ()
  let t := line.trimAscii.toString
  if t.isEmpty then
    loop handlers hin hout
  else
    hout.putStrLn (respond handlers t)
    hout.flush
    loop handlers hin hout

def run (handlers : List (String × Handler)) : IO Unit := do
  loop handlers (← IO.getStdin) (← IO.getStdout)

end HdVerif.Drv
