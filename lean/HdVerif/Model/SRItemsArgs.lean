import HdVerif.Model.SRItems
import HdVerif.Generated.T13sa
/-! # C13, round 2: the ARGUMENT layer of the SR content item constructors

`Model/SRItems.lean` models the constructors on normalised arguments (a list of frame numbers, one `TArg`, a rational
and an "is a float" flag, …).  This file models what the real `__init__`s do BEFORE that point — on the arguments as a
caller may spell them — with every decision taken by a definition REGENERATED from the current source (`T13sa`):

* `TcoordContentItem`: three optional arguments, the first one given wins (`Gen.tcoordArgCheck`, the `if / elif / else`
  chain), an empty one is refused, none at all is refused;
* `ImageContentItem`: frame / segment numbers as a scalar or as a sequence (`np.ndim(x) > 0`, then `list(x)`), an empty
  sequence refused (`Gen.imageFramesCheck`, `Gen.imageSegmentsCheck`);
* `WaveformContentItem`: items that are not pairs and an empty list refused (`Gen.waveformChannelsCheck`);
* `NumContentItem`: `isinstance(value, (int, float))` (`Gen.numTypeGuard`, `Gen.numAcceptedTypes`) over the spellings a
  caller may use (Python int / float / bool, numpy float64 — a subclass of float — numpy ints and float32, Decimal, str);
* `ContainerContentItem`: `is_content_continuous` omitted = the regenerated default (`Gen.srDefaults`), the two strings
  from `Gen.containerContinuity`;
* the read side: `TcoordContentItem.value` tries the attributes in the regenerated order (`Gen.tcoordReadOrder`), the two
  IMAGE accessors take the regenerated list-or-bare-value branch (`Gen.imageFramesRead`, `Gen.imageSegmentsRead`).

`Proofs/SRItemsArgs.lean` proves that this layer ends in the constructors of `Model/SRItems.lean` (so every theorem
about `Built` items applies), what it refuses, and that the hand-written accessors agree with the regenerated read side. -/
namespace HdVerif.SRItemsArgs
open HdVerif HdVerif.SRItems

/-- a frame / segment number argument: a scalar (`np.ndim = 0`: int, numpy integer) or a sequence (list, tuple, range,
array: `np.ndim > 0`) -/
inductive Nums
  | scalar (x : Int)
  | seq (l : List Int)
  | fractional (isSeq : Bool) (n : Nat)   -- a number (or a sequence of n numbers) with a fractional part somewhere: 1.5, [1.5, 2.9]
  deriving DecidableEq, Repr

def Nums.nAxes : Nums → Int
  | .scalar _ => 0
  | .seq _ => 1
  | .fractional isSeq _ => if isSeq then 1 else 0

/-- `len(x)` (only evaluated for sequences) -/
def Nums.len : Nums → Int
  | .scalar _ => 1
  | .seq l => l.length
  | .fractional _ n => n

/-- `np.any(np.mod(np.asarray(x, dtype=float), 1) != 0)` -/
def Nums.isFractional : Nums → Bool
  | .fractional _ _ => true
  | _ => false

/-- the values as the data element holds them (`abstract` of the harness: a bare value is a one-item list) -/
def Nums.values : Nums → List Int
  | .scalar x => [x]
  | .seq l => l
  | .fractional _ _ => []

/-- one optional numbers argument through a regenerated guard: `none` = attribute not written -/
def numsArg (check : Bool → Int → Int → Bool → Except ErrKind Int) (a : Option Nums) : Except ErrKind (Option (List Int)) :=
  match a with
  | none =>
    match check false 0 0 false with
    | .error e => .error e
    | .ok r => if r == 0 then .ok none else .error .other
  | some x =>
    match check true x.nAxes x.len x.isFractional with
    | .error e => .error e
    | .ok r => if r == 1 then .ok (some x.values) else .error .other

/-- `ImageContentItem.__init__` on the arguments as spelled: `super().__init__` first (name, relationship type), then
the frame numbers, then the segment numbers -/
def mkImageA (name : Coded) (cls inst : String) (frames segments : Option Nums) (rel : Option String) : Except ErrKind Item :=
  match base .image name rel with
  | .error e => .error e
  | .ok _ =>
    match numsArg Gen.imageFramesCheck frames with
    | .error e => .error e
    | .ok f =>
      match numsArg Gen.imageSegmentsCheck segments with
      | .error e => .error e
      | .ok s => mkImage name cls inst f s rel

/-- every item of the channel argument as the list of its entries -/
def toPair : List Int → Option (Int × Int)
  | [a, b] => some (a, b)
  | _ => none

def allPairs : List (List Int) → Option (List (Int × Int))
  | [] => some []
  | p :: r => match toPair p, allPairs r with
    | some q, some qs => some (q :: qs)
    | _, _ => none

/-- `WaveformContentItem.__init__` on the argument as spelled (a sequence of sequences); `frac` = one of the entries has a
fractional part (the entries of `channels` are then their integer parts) -/
def mkWaveformAF (name : Coded) (cls inst : String) (channels : Option (List (List Int))) (frac : Bool) (rel : Option String) :
    Except ErrKind Item :=
  match base .waveform name rel with
  | .error e => .error e
  | .ok _ =>
    match channels with
    | none =>
      match Gen.waveformChannelsCheck false 0 false false with
      | .error e => .error e
      | .ok r => if r == 0 then mkWaveform name cls inst none rel else .error .other
    | some l =>
      match Gen.waveformChannelsCheck true l.length (l.any (fun p => p.length != 2)) frac with
      | .error e => .error e
      | .ok r =>
        if r == 1 then
          match allPairs l with
          | some ps => mkWaveform name cls inst (some ps) rel
          | none => .error .other
        else .error .other

/-- whole-number channel entries -/
def mkWaveformA (name : Coded) (cls inst : String) (channels : Option (List (List Int))) (rel : Option String) :
    Except ErrKind Item := mkWaveformAF name cls inst channels false rel

/-- `TcoordContentItem.__init__` with all three optional arguments; `posFrac` = a sample position has a fractional part -/
def mkTcoordAF (ds : Rat → Rat) (name : Coded) (rangeType : String) (pos : Option (List Int)) (posFrac : Bool) (off : Option (List Rat))
    (dts : Option (List String)) (rel : Option String) : Except ErrKind Item :=
  match base .tcoord name rel with
  | .error e => .error e
  | .ok _ =>
    if !(enumHas Gen.c13TemporalRangeTypes rangeType) then .error .value
    else
      let len {α} (o : Option (List α)) : Int := match o with | none => 0 | some l => l.length
      match Gen.tcoordArgCheck pos.isSome (len pos) off.isSome (len off) dts.isSome (len dts) posFrac with
      | .error e => .error e
      | .ok k =>
        match Gen.tcoordBranchKeywords[(k - 1).toNat]?, pos, off, dts with
        | some "ReferencedSamplePositions", some l, _, _ => mkTcoord ds name rangeType (some (.positions l)) rel
        | some "ReferencedTimeOffsets", _, some l, _ => mkTcoord ds name rangeType (some (.offsets l)) rel
        | some "ReferencedDateTime", _, _, some l => mkTcoord ds name rangeType (some (.datetimes l)) rel
        | _, _, _, _ => .error .other

/-- whole-number sample positions -/
def mkTcoordA (ds : Rat → Rat) (name : Coded) (rangeType : String) (pos : Option (List Int)) (off : Option (List Rat))
    (dts : Option (List String)) (rel : Option String) : Except ErrKind Item := mkTcoordAF ds name rangeType pos false off dts rel

/-- the spellings of the NUM value a caller may use -/
inductive NumSpelling
  | pyInt | pyFloat | pyBool | npFloat64 | npInt64 | npInt32 | npFloat32 | decimal | str
  deriving DecidableEq, Repr

/-- the Python class the spelling is an instance of among `int`, `float` (bool ⊂ int, numpy.float64 ⊂ float; numpy
integers, numpy.float32, Decimal and str are neither) -/
def NumSpelling.baseType : NumSpelling → Option String
  | .pyInt => some "int" | .pyBool => some "int"
  | .pyFloat => some "float" | .npFloat64 => some "float"
  | _ => none

def NumSpelling.isFloat (s : NumSpelling) : Bool := s.baseType == some "float"

/-- `NumContentItem.__init__` on a spelled value -/
def mkNumA (ds : Rat → Rat) (name : Coded) (value : Rat) (sp : NumSpelling) (unit : Coded) (qualifier : Option Coded)
    (rel : Option String) : Except ErrKind Item :=
  match base .num name rel with
  | .error e => .error e
  | .ok _ =>
    match Gen.numTypeGuard (match sp.baseType with | some t => Gen.numAcceptedTypes.contains t | none => false) with
    | .error e => .error e
    | .ok _ => mkNum ds name value sp.isFloat unit qualifier rel

/-- the default of an optional parameter as written in the source -/
def defaultOf (method param : String) : Option String :=
  (Gen.srDefaults.find? (fun r => r.1 == method && r.2.1 == param)).map (·.2.2)

def pyBool : String → Option Bool
  | "True" => some true
  | "False" => some false
  | _ => none

/-- `ContainerContentItem.__init__`, `is_content_continuous` given or left to its default -/
def mkContainerA (name : Coded) (continuous : Option Bool) (template : Option String) (rel : Option String) : Except ErrKind Item :=
  match (match continuous with
         | some c => some c
         | none => (defaultOf "ContainerContentItem.__init__" "is_content_continuous").bind pyBool) with
  | none => .error .other
  | some c => mkContainer name c template rel

/-! ## the read side over the regenerated branches -/

/-- the three time-point attributes of an item by keyword, as `TArg` with pydicom's bare single value undone -/
def tcoordField (it : Item) (k : String) : Option TArg :=
  match k, it.attrs.lookup k with
  | "ReferencedSamplePositions", some (.ints l) => some (.positions (asList (stored l)))
  | "ReferencedTimeOffsets", some (.rats l) => some (.offsets (asList (stored l)))
  | "ReferencedDateTime", some (.strs l) => some (.datetimes (asList (stored l)))
  | _, _ => none

/-- `TcoordContentItem.value`: the first attribute of the regenerated order that is present -/
def tcoordValueGen (it : Item) : Option TArg := Gen.tcoordReadOrder.findSome? (tcoordField it)

/-- an IMAGE accessor over its regenerated branch: `present`, `isinstance(val, (MultiValue, list))` -/
def numsReadGen (read : Bool → Bool → Except ErrKind Int) (v : Option (List Int)) : Except ErrKind (Option (List Int)) :=
  match v with
  | none =>
    match read false false with
    | .error e => .error e
    | .ok r => if r == 0 then .ok none else .error .other
  | some l =>
    match stored l with
    | .single x =>
      match read true false with
      | .error e => .error e
      | .ok r => if r == 1 then .ok (some [x]) else if r == 2 then .error .type else .error .other
    | .multi m =>
      match read true true with
      | .error e => .error e
      | .ok r => if r == 2 then .ok (some m) else if r == 1 then .error .type else .error .other

end HdVerif.SRItemsArgs
