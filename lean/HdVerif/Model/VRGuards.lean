import HdVerif.Model.VR
import HdVerif.Generated.T20vr
import HdVerif.Generated.T20pyd
/-! Dispatch from a value-representation name to the regenerated guard and to the PS3.5 validity predicate (C20). -/
namespace HdVerif.VR
open HdVerif.Gen

/-- does the guard for value representation `g` accept `s` -/
def guardAccepts (g : String) (s : List Char) : Bool :=
  if g = "CS" then decide (checkCodeString s = .ok ()) else
  if g = "SH" then decide (checkShortString s = .ok ()) else
  if g = "LO" then decide (checkLongString s = .ok ()) else
  if g = "ST" then decide (checkShortText s = .ok ()) else
  if g = "LT" then decide (checkLongText s = .ok ()) else false

/-- validity for the value representation `a` of an attribute (PS3.5 §6.2); `False` for one this file does not cover -/
def validFor (a : String) (s : List Char) : Prop :=
  if a = "CS" then validCS s else if a = "SH" then validSH s else if a = "LO" then validLO s else
  if a = "ST" then validST s else if a = "LT" then validLT s else False

/-! ## pydicom's own rules (what its validator lets through when a value is assigned / written under strict validation)

`pydicom.valuerep.validate_value(vr, value, RAISE)` dispatches on `VALIDATORS[vr]`; for the text VRs: `validate_type_and_length`
(`len(value) <= MAX_VALUE_LEN[vr]` when there is a limit) and `validate_length_and_type_and_regex` (the same and
`validate_regex`: an empty value passes, otherwise `re.match(VR_REGEXES[vr], value)` and the last character is not a newline).
The tables are regenerated from the installed pydicom (`Generated/T20pyd.lean`); these few lines are hand-written after
`validate_vr_length` / `validate_regex` (their shape is checked by the translator) and compared with the real `validate_value` on
every string of the guard stream (correspondence stream `pydicom_rule`). -/

def pydMax (vr : String) : Nat :=
  match pydMaxLen.find? (·.1 == vr) with
  | some p => p.2
  | none => 0

def pydLenOk (vr : String) (s : List Char) : Bool := pydMax vr == 0 || decide (s.length ≤ pydMax vr)

def pydRegexOk (re : Re) (s : List Char) : Bool := s.isEmpty || (reMatch re s && s.getLast? != some '\n')

/-- does pydicom's validator accept the text `s` for value representation `vr` (`false` for a VR this file does not model) -/
def pydAccepts (vr : String) (s : List Char) : Bool :=
  match pydValidators.find? (·.1 == vr) with
  | some p =>
    if p.2 = "validate_type_and_length" then pydLenOk vr s
    else if p.2 = "validate_length_and_type_and_regex" ∧ vr = "CS" then pydLenOk vr s && pydRegexOk pydRegexCS s
    else false
  | none => false

end HdVerif.VR
