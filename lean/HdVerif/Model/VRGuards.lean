import HdVerif.Model.VR
import HdVerif.Generated.T20vr
/-! Dispatch from a value-representation name to the regenerated guard and to the PS3.5 validity predicate (C20). -/
namespace HdVerif.VR
open HdVerif.Gen

/-- does the guard for value representation `g` accept `s` -/
def guardAccepts (g : String) (s : List Char) : Bool :=
  if g = "CS" then decide (checkCodeString s = .ok ()) else
  if g = "SH" then decide (checkShortString s = .ok ()) else
  if g = "LO" then decide (checkLongString s = .ok ()) else
  if g = "ST" then decide (checkShortText s = .ok ()) else
  if g = "LT" then decide (checkLongText s = .ok ()) else false

/-- validity for the value representation `a` of an attribute (PS3.5 §6.2); `False` for one this file does not cover -/
def validFor (a : String) (s : List Char) : Prop :=
  if a = "CS" then validCS s else if a = "SH" then validSH s else if a = "LO" then validLO s else
  if a = "ST" then validST s else if a = "LT" then validLT s else False

end HdVerif.VR
