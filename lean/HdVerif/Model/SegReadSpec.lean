import HdVerif.Model.SegRead
/-! C02: ONE abstract specification of a segmentation read, for all three segmentation types, all five entry points and all
options.  It speaks of the object only through `maskPlane st k s` — the values stored for segment `s` in the plane at stack
value `k` — and contains no loop of the implementation: the result is given pixel by pixel, the refusals as one list of
reasons.  `Proofs/SegReadSpec.lean` proves that `SegRead.read` (the model of the code) refines it. -/
namespace HdVerif.SegRead
open HdVerif

/-- **the mask of segment `s` at stack value `k`**: label map — 1 where the stored label is `s`; BINARY — the stored bit;
FRACTIONAL — the stored numerator (of MaximumFractionalValue); all zero when the object has no frame there -/
def maskPlane (st : Stored) (k s : Nat) : List Nat :=
  if st.type = .labelmap then (rawLabels st k).map fun v => if v = s then 1 else 0
  else segPlane st k s

/-- segment `s` is present at pixel `i` of the plane at `k` -/
def present (st : Stored) (k s i : Nat) : Bool := decide (0 < (maskPlane st k s).getD i 0)

/-- the requested segments present at a pixel, in request order -/
def presentAt (st : Stored) (segs : List Nat) (k i : Nat) : List Nat := segs.filter fun s => present st k s i

/-- **combined result at one pixel**: the label (`outVal`: own number, or 1-based position in the request under `relabel`) of
the requested segment present there — the largest such label when several are (only possible when the caller skipped the
overlap check), 0 when none is -/
def combinedSpec (st : Stored) (segs : List Nat) (relabel : Bool) (k i : Nat) : Int :=
  ((presentAt st segs k i).map (outVal segs relabel)).foldl max 0

/-- two different requested segments share a pixel of a requested plane -/
def overlaps (st : Stored) (segs keys : List Nat) : Bool :=
  keys.any fun k => (List.range st.npix).any fun i => decide (2 ≤ (presentAt st segs k i).length)

/-- a FRACTIONAL frame the read would use (requested plane, requested segment) holds a value other than 0 and
MaximumFractionalValue -/
def nonBinaryUsed (st : Stored) (keys segs : List Nat) : Bool :=
  st.type == .fractional &&
    st.frames.any fun f => keys.contains f.key && segs.contains f.seg && f.pix.any fun p => p != 0 && p != st.mfv

/-- every reason for which `_get_pixels_by_seg_frame` refuses a request on (the frames of) `st` -/
def coreRefuses (st : Stored) (rq : Req) : Bool :=
  !(rq.segs.all fun s => st.segNums.contains s)               -- a number the object does not describe
  || !(decide rq.segs.Nodup)                                   -- a number requested twice
  || decide (ceiling st rq > (chosenDtype st rq).maxVal)       -- the dtype cannot hold the largest output value
  || (st.type != .labelmap && (
        (willRescale st rq && !(chosenDtype st rq).isFloat)    -- rescaled fractions need a float dtype
        || (st.type == .fractional && rq.combine && !rq.rescale)  -- FRACTIONAL is combined only via rescale_fractional
        || (rq.combine && nonBinaryUsed st rq.keys rq.segs)    -- truly fractional values cannot be combined
        || (rq.combine && !rq.skipOverlap && overlaps st rq.segs rq.keys)))   -- overlap, unless the caller opted out

/-- every reason for which a read entry point refuses -/
def specRefuses (st : Stored) (mode : Mode) (a : Bool) (rq : Req) : Bool :=
  sourceIndexingRefused st mode rq.ignoreSpatial               -- by source, but the object does not support it
  || rq.segs.isEmpty || rq.keys.isEmpty
  || (st.type != .labelmap && !st.segIndexed)                  -- no segment dimension (see docs: open)
  || !framesUnique st                                          -- the stack values do not identify frames
  || zeroFrameRequested mode rq.keys                           -- frame number 0
  || (!a && missingRefused st mode rq.keys)                    -- unknown source / position, not asserted empty
  || coreRefuses (effective st mode) rq

/-- **the result**: `stacked[plane][channel k]` = the mask of the k-th requested segment (numerators over
MaximumFractionalValue for a rescaled FRACTIONAL read); `combined[plane][pixel]` = `combinedSpec` -/
def specOut (st : Stored) (rq : Req) : Out :=
  if rq.combine then
    .combined (rq.keys.map fun k => (List.range st.npix).map fun i => combinedSpec st rq.segs rq.relabel k i)
  else
    .stacked (if willRescale st rq then st.mfv else 1)
      (rq.keys.map fun k => rq.segs.map fun s => (maskPlane st k s).map Int.ofNat)

/-- a well-formed object of any of the three types -/
def WfObj (st : Stored) : Prop :=
  (WfLabel st ∧ (∀ s ∈ st.segNums, 0 < s) ∧ (∀ f ∈ st.frames, f.pix.length = st.npix)) ∨ WfStack st

end HdVerif.SegRead
