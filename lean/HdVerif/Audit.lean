import Lean
/-! `#audit NS` prints, as one JSON line, every theorem whose name lies under namespace `NS`
together with the axioms it depends on.  This is where `obligations` / `discharged` in the
evidence are measured. -/
open Lean Elab Command

elab "#audit " ns:ident : command => do
  let env ← getEnv
  let nsName := ns.getId
  let mut out : Array Json := #[]
  let mut names : Array Name := #[]
  for (n, ci) in env.constants.toList do
    if nsName.isPrefixOf n && !n.isInternal then
      match ci with
      | .thmInfo _ => names := names.push n
      | _ => pure ()
  let sorted := names.qsort (fun a b => a.toString < b.toString)
  for n in sorted do
    let axs ← liftCoreM (Lean.collectAxioms n)
    let axs := axs.qsort (fun a b => a.toString < b.toString)
    out := out.push (Json.mkObj [("theorem", Json.str n.toString),
      ("axioms", Json.arr (axs.map (fun a => Json.str a.toString)))])
  logInfo m!"AUDIT-JSON {(Json.arr out).compress}"
