import HdVerif.Proofs.Volume
/-! C08: `get_closest_patient_orientation` / `to_patient_orientation` on axis-aligned geometries. -/
namespace HdVerif.VolLemmas
open HdVerif HdVerif.Gen HdVerif.Vol

def allDirs : List Dir := [.L, .R, .P, .A, .H, .F]
/-- the 48 patient orientations -/
def allOrients : List Orient :=
  allDirs.flatMap fun a => allDirs.flatMap fun b => allDirs.filterMap fun c =>
    if a.row ≠ b.row ∧ a.row ≠ c.row ∧ b.row ≠ c.row then some (a, b, c) else none

def unitVec (d : Dir) : V3 :=
  match d with
  | .L => ⟨1, 0, 0⟩ | .R => ⟨-1, 0, 0⟩ | .P => ⟨0, 1, 0⟩ | .A => ⟨0, -1, 0⟩ | .H => ⟨0, 0, 1⟩ | .F => ⟨0, 0, -1⟩

/-- the vector points along direction `d` (any positive length) -/
def OnAxis (v : V3) (d : Dir) : Prop := ∃ s : Rat, 0 < s ∧ v = V3.smul s (unitVec d)

theorem absR_pos {x : Rat} (h : x ≠ 0) : 0 < absR x := by
  unfold absR
  split
  · linarith
  · rcases lt_or_gt_of_ne h with h' | h'
    · exact absurd h' (by assumption)
    · exact h'

theorem absR_zero : absR 0 = 0 := by simp [absR]

theorem onAxis_sort {v : V3} {d : Dir} (h : OnAxis v d) : (sortRows v).1 = d.row ∧ dirOf v d.row = d := by
  obtain ⟨s, hs, rfl⟩ := h
  have hne : s ≠ 0 := ne_of_gt hs
  have hp : 0 < absR s := absR_pos hne
  have hn : 0 < absR (-s) := absR_pos (by simpa using hne)
  have h1 : ¬ (absR s < 0) := by linarith
  have h2 : ¬ (absR (-s) < 0) := by linarith
  have h3 : ¬ ((0 : Rat) < 0) := lt_irrefl 0
  have hs' : ¬ (s ≤ 0) := by linarith
  have hs2 : 0 ≤ s := le_of_lt hs
  cases d <;>
    simp [sortRows, insertDesc, unitVec, V3.smul, absR_zero, hp, hn, h1, h2, h3, dirOf, V3.get, Dir.row, posDir, negDir, hs, hs', hs2]


theorem pickRow_first {o : Ax × Ax × Ax} {used : List Ax} (h : used.contains o.1 = false) : pickRow o used = o.1 := by
  simp only [pickRow, h, Bool.not_false, if_true]

/-- an axis-aligned geometry: `get_closest_patient_orientation` returns the directions of its axes -/
theorem closest_onAxis {g : Geom} {d0 d1 d2 : Dir} (h0 : OnAxis g.c0 d0) (h1 : OnAxis g.c1 d1) (h2 : OnAxis g.c2 d2)
    (hr : d0.row ≠ d1.row ∧ d0.row ≠ d2.row ∧ d1.row ≠ d2.row) : closest g = (d0, d1, d2) := by
  obtain ⟨a0, b0⟩ := onAxis_sort h0
  obtain ⟨a1, b1⟩ := onAxis_sort h1
  obtain ⟨a2, b2⟩ := onAxis_sort h2
  obtain ⟨r01, r02, r12⟩ := hr
  have p0 : pickRow (sortRows g.c0) [] = d0.row := by rw [pickRow_first (by simp), a0]
  have p1 : pickRow (sortRows g.c1) [d0.row] = d1.row := by
    rw [pickRow_first (by rw [a1]; simpa using fun h => r01 h.symm), a1]
  have p2 : pickRow (sortRows g.c2) [d0.row, d1.row] = d2.row := by
    rw [pickRow_first (by rw [a2]; simp; exact ⟨fun h => r02 h.symm, fun h => r12 h.symm⟩), a2]
  simp only [closest, p0, p1, p2, b0, b1, b2]

theorem onAxis_neg {v : V3} {d : Dir} (h : OnAxis v d) : OnAxis (V3.smul (-1) v) d.opp := by
  obtain ⟨s, hs, rfl⟩ := h
  refine ⟨s, hs, ?_⟩
  cases d <;> simp [unitVec, V3.smul, Dir.opp]

theorem smul_one (v : V3) : V3.smul 1 v = v := by simp [V3.smul]


def orientGet (o : Orient) : Ax → Dir
  | .a0 => o.1 | .a1 => o.2.1 | .a2 => o.2.2

def orientChars (o : Orient) : List Char := [o.1.toChar, o.2.1.toChar, o.2.2.toChar]

/-- Dir-level content of `to_patient_orientation`: the plan exists, its flips and permutation are valid, and flipping
then permuting the current directions gives the desired ones -/
def planOk (cur des : Orient) : Bool :=
  (match normOrient (orientChars des) with | .ok d => d == des | .error _ => false) &&
  match orientPlan cur des with
  | .error _ => false
  | .ok (perm, flips) =>
    (!(decide (flips.length > 3) || flips.any (fun a => !validAxis a))) &&
    match permOfList perm with
    | .error _ => false
    | .ok q =>
      let after (a : Ax) : Dir := if flips.contains a.toInt then (orientGet cur a).opp else orientGet cur a
      after q.1 == des.1 && after q.2.1 == des.2.1 && after q.2.2 == des.2.2

theorem plan_48x48 : allOrients.all (fun cur => allOrients.all (fun des => planOk cur des)) = true := by decide +kernel

theorem remap_col (sz : AxMap → Int) (g : Geom) (m0 m1 m2 : AxMap) (a : Ax) :
    (g.remap sz m0 m1 m2).col a = V3.smul ((match a with | .a0 => m0.step | .a1 => m1.step | .a2 => m2.step : Int) : Rat) (g.col a) := by
  cases a <;> rfl

theorem flipMap_step (b : Bool) (n : Int) : ((flipMap b n).step : Rat) = if b then -1 else 1 := by
  cases b <;> simp [flipMap]

theorem toOrientationG_result (sz : AxMap → Int) {g : Geom} (hp : g.Pos) {o : List Char} {des : Orient}
    {perm flips : List Int} {q : Perm}
    (hn : normOrient o = .ok des) (hpl : orientPlan (closest g) des = .ok (perm, flips))
    (hf : (decide (flips.length > 3) || flips.any (fun a => !validAxis a)) = false) (hq : permOfList perm = .ok q) :
    ∃ r, toOrientationG sz .patient g o = .ok r ∧
      r.1.c0 = V3.smul (if flips.contains q.1.toInt then -1 else 1) (g.col q.1) ∧
      r.1.c1 = V3.smul (if flips.contains q.2.1.toInt then -1 else 1) (g.col q.2.1) ∧
      r.1.c2 = V3.smul (if flips.contains q.2.2.toInt then -1 else 1) (g.col q.2.2) := by
  have hcoord : ¬ (Coord.patient ≠ Coord.patient) := by simp
  by_cases he : flips.isEmpty = true
  · have hfl : flips = [] := by simpa using he
    subst hfl
    refine ⟨(g.permute q, fun j => id (permSrc q j)), ?_, ?_, ?_, ?_⟩
    · simp only [toOrientationG, hcoord, if_false, hn, hpl, bind, Except.bind, pure, Except.pure, flipIfAny, List.isEmpty_nil,
        if_true, permuteG, hq]
    · simp [Geom.permute, smul_one]
    · simp [Geom.permute, smul_one]
    · simp [Geom.permute, smul_one]
  · have hspec := flipG_spec sz g flips hp hf
    refine ⟨((g.remap sz (flipMap (flips.contains 0) g.n0) (flipMap (flips.contains 1) g.n1)
      (flipMap (flips.contains 2) g.n2)).permute q,
      fun j => remapSrc (flipMap (flips.contains 0) g.n0) (flipMap (flips.contains 1) g.n1) (flipMap (flips.contains 2) g.n2)
        (permSrc q j)), ?_, ?_, ?_, ?_⟩
    · simp only [toOrientationG, hcoord, if_false, hn, hpl, bind, Except.bind, pure, Except.pure, flipIfAny, he, hspec,
        permuteG, hq, Bool.false_eq_true]
    · simp only [Geom.permute, remap_col]
      cases q.1 <;> simp [flipMap_step, Ax.toInt]
    · simp only [Geom.permute, remap_col]
      cases q.2.1 <;> simp [flipMap_step, Ax.toInt]
    · simp only [Geom.permute, remap_col]
      cases q.2.2 <;> simp [flipMap_step, Ax.toInt]


theorem allOrients_rows : allOrients.all (fun o => decide (o.1.row ≠ o.2.1.row ∧ o.1.row ≠ o.2.2.row ∧ o.2.1.row ≠ o.2.2.row)) = true := by
  decide

theorem col_onAxis {g : Geom} {cur : Orient} (h0 : OnAxis g.c0 cur.1) (h1 : OnAxis g.c1 cur.2.1) (h2 : OnAxis g.c2 cur.2.2)
    (a : Ax) : OnAxis (g.col a) (orientGet cur a) := by
  cases a <;> assumption

theorem onAxis_signed {v : V3} {d : Dir} (h : OnAxis v d) (b : Bool) :
    OnAxis (V3.smul (if b then -1 else 1) v) (if b then d.opp else d) := by
  cases b
  · simpa [smul_one] using h
  · simpa using onAxis_neg h

/-- **to_patient_orientation reaches the requested orientation** for every axis-aligned geometry (any positive
spacings, any position, any shape), every current and every requested orientation of the 48. -/
theorem toPatientOrientation_general (sz : AxMap → Int) {g : Geom} {cur des : Orient} (hc : cur ∈ allOrients)
    (hd : des ∈ allOrients) (hp : g.Pos)
    (h0 : OnAxis g.c0 cur.1) (h1 : OnAxis g.c1 cur.2.1) (h2 : OnAxis g.c2 cur.2.2) :
    closest g = cur ∧ ∃ r, toOrientationG sz .patient g (orientChars des) = .ok r ∧ closest r.1 = des := by
  have rc := List.all_eq_true.mp allOrients_rows cur hc
  have rd := List.all_eq_true.mp allOrients_rows des hd
  simp only [decide_eq_true_eq] at rc rd
  have hcl : closest g = cur := closest_onAxis h0 h1 h2 rc
  refine ⟨hcl, ?_⟩
  have hplan := List.all_eq_true.mp (List.all_eq_true.mp plan_48x48 cur hc) des hd
  unfold planOk at hplan
  simp only [Bool.and_eq_true] at hplan
  obtain ⟨hn, hrest⟩ := hplan
  split at hn
  · rename_i d hnd
    have hde : d = des := by simpa using hn
    subst hde
    split at hrest
    · cases hrest
    · rename_i perm flips hpl
      simp only [Bool.and_eq_true, Bool.not_eq_true'] at hrest
      obtain ⟨hf, hrest⟩ := hrest
      split at hrest
      · cases hrest
      · rename_i q hq
        simp only [Bool.and_eq_true, beq_iff_eq] at hrest
        obtain ⟨⟨e0, e1⟩, e2⟩ := hrest
        rw [← hcl] at hpl
        obtain ⟨r, hr, c0, c1, c2⟩ := toOrientationG_result sz hp hnd hpl hf hq
        refine ⟨r, hr, ?_⟩
        have k0 := onAxis_signed (col_onAxis h0 h1 h2 q.1) (flips.contains q.1.toInt)
        have k1 := onAxis_signed (col_onAxis h0 h1 h2 q.2.1) (flips.contains q.2.1.toInt)
        have k2 := onAxis_signed (col_onAxis h0 h1 h2 q.2.2) (flips.contains q.2.2.toInt)
        rw [← c0, e0] at k0
        rw [← c1, e1] at k1
        rw [← c2, e2] at k2
        exact closest_onAxis k0 k1 k2 rd
  · cases hn

end HdVerif.VolLemmas
