import HdVerif.Proofs.TilingHelpers
import HdVerif.Generated.T7g
import HdVerif.Generated.T7h
import HdVerif.Generated.T7i
/-! C12 bridges: the hand-written enumerations of `Model/Tiling.lean` use exactly the expressions of the current source
(regenerated on every run as `Generated/T7g.lean` — multipliers, 1-based shift and running order of
`compute_tile_positions_per_frame` —, `T7h.lean` — focal plane and channel ranges of `iter_tiled_full_frame_data` —,
`T7i.lean` — index ranges and yielded pair of `tile_pixel_matrix`). -/
namespace HdVerif.TilingLemmas
open HdVerif HdVerif.Gen HdVerif.Tiling

/-- Python `range(a, b)` -/
def pyRange1 (a b : Int) : List Int := (iota (b - a)).map (fun k => a + k)

/-- **offsets**: the model's offset list runs the slow range outside and the fast range inside and reports, for each pair, the
1-based pair of the regenerated `tileOffsetOf` (multipliers of `tile_indices * [columns, rows]`, shift of `pixel_indices += 1`) -/
theorem tileOffsets_uses_expr (tr tc R C : Int) (l : List (Int × Int)) (h : tileOffsets tr tc R C = .ok l) :
    ∃ nCol nRow nFast nSlow, tilesPerAxisFloor tr tc R C = .ok (nCol, nRow) ∧ tileGridRanges nCol nRow = .ok (nFast, nSlow) ∧
      l = (iota nSlow).flatMap (fun i => (iota nFast).filterMap (fun j =>
        match tileOffsetOf j i tr tc with
        | .ok (_, _, a, b) => some (a, b)
        | .error _ => none)) := by
  unfold tileOffsets at h
  split at h
  · cases h
  · cases hf : tilesPerAxisFloor tr tc R C with
    | error e => rw [hf] at h; cases h
    | ok v =>
      obtain ⟨nCol, nRow⟩ := v
      rw [hf] at h
      simp only at h
      split at h
      · cases h
      · simp only [Except.ok.injEq] at h
        refine ⟨nCol, nRow, nCol, nRow, rfl, rfl, ?_⟩
        rw [← h]
        congr 1
        funext i
        unfold tileOffsetOf
        simp only [List.filterMap_eq_map']

/-- … and the positions are the transform of the 0-based pair of the same regenerated expression -/
theorem tilePositions_uses_expr (tr tc R C : Int) (g : Geo) (l : List ((Int × Int) × (Rat × Rat × Rat)))
    (h : tilePositions tr tc R C g = .ok l) :
    ∃ nCol nRow nFast nSlow, tilesPerAxisFloor tr tc R C = .ok (nCol, nRow) ∧ tileGridRanges nCol nRow = .ok (nFast, nSlow) ∧
      l = (iota nSlow).flatMap (fun i => (iota nFast).filterMap (fun j =>
        match tileOffsetOf j i tr tc with
        | .ok (p0, p1, a, b) => some ((a, b), pixToRef g p0 p1)
        | .error _ => none)) := by
  unfold tilePositions at h
  split at h
  · cases h
  · cases hf : tilesPerAxisFloor tr tc R C with
    | error e => rw [hf] at h; cases h
    | ok v =>
      obtain ⟨nCol, nRow⟩ := v
      rw [hf] at h
      simp only at h
      split at h
      · cases h
      · simp only [Except.ok.injEq] at h
        refine ⟨nCol, nRow, nCol, nRow, rfl, rfl, ?_⟩
        rw [← h]
        congr 1
        funext i
        unfold tileOffsetOf
        simp only [List.filterMap_eq_map']

/-- **focal planes and channels**: the plane indices the model iterates over are the regenerated `range(1, planes + 1)`, the
channel numbers the regenerated `range(1, n + 1)` (optical paths and segments alike) -/
theorem plane_and_channel_ranges (planes n : Int) :
    (∃ a b, focalPlaneRange planes = .ok (a, b) ∧ (iota planes).map (fun p => p + 1) = pyRange1 a b) ∧
    (∃ a b, opticalPathRange n = .ok (a, b) ∧ channelNumbers n = (pyRange1 a b).map some) ∧
    (∃ a b, segmentRange n = .ok (a, b) ∧ channelNumbers n = (pyRange1 a b).map some) := by
  have e : ∀ m : Int, m + 1 - 1 = m := fun m => by omega
  refine ⟨⟨1, planes + 1, rfl, ?_⟩, ⟨1, n + 1, rfl, ?_⟩, ⟨1, n + 1, rfl, ?_⟩⟩
  · unfold pyRange1; rw [e]; apply List.map_congr_left; intro k _; omega
  · unfold pyRange1 channelNumbers; rw [e, List.map_map]; apply List.map_congr_left; intro k _; simp only [Function.comp]; congr 1; omega
  · unfold pyRange1 channelNumbers; rw [e, List.map_map]; apply List.map_congr_left; intro k _; simp only [Function.comp]; congr 1; omega

/-- the (channel, focal plane) pairs of the model's `iterTiledFull`, written with the regenerated plane range -/
theorem iterTiledFull_pairs_use_range (channels : List (Option Int)) (planes : Int) :
    ∃ a b, focalPlaneRange planes = .ok (a, b) ∧
      channels.flatMap (fun ch => (iota planes).map (fun p => (ch, p + 1))) =
        channels.flatMap (fun ch => (pyRange1 a b).map (fun p => (ch, p))) := by
  obtain ⟨⟨a, b, h1, h2⟩, _⟩ := plane_and_channel_ranges planes 0
  refine ⟨a, b, h1, ?_⟩
  congr 1
  funext ch
  rw [← h2, List.map_map]
  rfl

/-- **tile indices**: the model's enumeration runs the regenerated tile-row range outside and the tile-column range inside and
yields the regenerated pair `tileIndexElt r c` -/
theorem tileIndexEnum_uses_expr (R C tr tc : Int) (l : List (Int × Int)) (h : tileIndexEnum R C tr tc = .ok l) :
    ∃ tpc tpr a b c d, tilesPerAxisCeil R C tr tc = .ok (tpc, tpr) ∧ tileIndexRanges tpc tpr = .ok (a, b, c, d) ∧
      l = (pyRange1 a b).flatMap (fun r => (pyRange1 c d).filterMap (fun c' =>
        match tileIndexElt r c' with
        | .ok p => some p
        | .error _ => none)) := by
  unfold tileIndexEnum at h
  split at h
  · cases h
  · cases hc : tilesPerAxisCeil R C tr tc with
    | error e => rw [hc] at h; cases h
    | ok v =>
      obtain ⟨tpc, tpr⟩ := v
      rw [hc] at h
      simp only [Except.ok.injEq] at h
      refine ⟨tpc, tpr, 1, tpc + 1, 1, tpr + 1, rfl, rfl, ?_⟩
      rw [← h]
      unfold pyRange1 tileIndexElt
      have e : ∀ m : Int, m + 1 - 1 = m := fun m => by omega
      rw [e, e, List.flatMap_map]
      congr 1
      funext i
      simp only [List.filterMap_eq_map', Function.comp_def, List.map_map]
      apply List.map_congr_left
      intro j _
      simp only [Prod.mk.injEq]
      omega

end HdVerif.TilingLemmas
