import HdVerif.Proofs.Codec
import HdVerif.Generated.T13n
import HdVerif.Generated.T13d
/-! C07: the hand-written arms of `Model/Codec.encodeFrame` / `decodeFrame` use exactly the expressions the current source of
`frame.encode_frame` / `frame.decode_frame` contains (regenerated as `Generated/T13n.lean` and the tables of `T13a` on every run).
A change of the memory order in which the frame is flattened (before `pack_bits`, before `tobytes`), of the byte order of the
cells, of the shape the unpacked bits are given, or of the transfer-syntax sets breaks one of these statements. -/
namespace HdVerif.Codec
open HdVerif HdVerif.Bits HdVerif.Gen

/-! ### the values of a frame in a numpy memory order -/

/-- the values of an array of shape `(d0, d1, d2)` given in C order, re-listed in Fortran order (first index fastest) -/
def fortranOf (d0 d1 d2 : Nat) (c : List Int) : List Int :=
  (List.range d2).flatMap (fun k => (List.range d1).flatMap (fun j => (List.range d0).map (fun i =>
    c.getD ((i * d1 + j) * d2 + k) 0)))

/-- `array.flatten(order)` of the frame (`x.data` is the C order); the frame handed to `encode_frame` by the harness and the
    library is a fresh C-contiguous array or a view, for which `'A'` / `'K'` may differ from `'C'`: only `'C'` is the frame's own
    value order independent of its memory layout -/
def flattenIn (order : String) (x : Frame) : Option (List Int) :=
  if order = "C" then some x.data
  else if order = "F" then some (fortranOf x.rows x.cols x.spp x.data)
  else none   -- 'A' / 'K': depends on the memory layout, not a function of the frame's values

/-- the bytes of one cell in a numpy byte order -/
def cellBytesIn (order : String) (nbytes : Nat) (v : Int) : Option (List Nat) :=
  if order = "<" then some (leBytes nbytes (toUnsigned (8 * nbytes) v))
  else if order = ">" then some (leBytes nbytes (toUnsigned (8 * nbytes) v)).reverse
  else none   -- native / swapped: depends on the machine

/-- **bridge, native cells** (route 2): the bytes the model writes are the regenerated expression
    `array.flatten(cellsFlattenOrder).astype(array.dtype.newbyteorder(cellsByteOrder)).tobytes()` -/
theorem encodeCells_tie (x : Frame) :
    (flattenIn cellsFlattenOrder x).bind (fun vs => vs.mapM (cellBytesIn cellsByteOrder x.dtype.itemsize)) =
      some ((x.data.map (fun v => leBytes x.dtype.itemsize (toUnsigned (8 * x.dtype.itemsize) v)))) ∧
    encodeCells x.dtype.itemsize x.data =
      (x.data.map (fun v => leBytes x.dtype.itemsize (toUnsigned (8 * x.dtype.itemsize) v))).flatten := by
  constructor
  · have h1 : flattenIn cellsFlattenOrder x = some x.data := by simp [flattenIn, cellsFlattenOrder]
    rw [h1]
    simp only [Option.bind_some]
    have h2 : ∀ v, cellBytesIn cellsByteOrder x.dtype.itemsize v =
        some (leBytes x.dtype.itemsize (toUnsigned (8 * x.dtype.itemsize) v)) := by
      intro v; simp [cellBytesIn, cellsByteOrder]
    induction x.data with
    | nil => rfl
    | cons a as ih => simp [List.mapM_cons, h2, ih]
  · unfold encodeCells; rw [List.flatMap_def]

/-- **bridge, native bits** (route 1): the model packs the frame's values in the regenerated flatten order of
    `pack_bits(array.flatten(packBitsFlattenOrder))` -/
theorem packBits_tie (c : CodecImpl) (p : Params) (x : Frame) (v : Int × Int × Int × Int × Int × Int × Int)
    (h : encodeRouteFull p x = .ok v) (h1 : v.1 = 1) :
    flattenIn packBitsFlattenOrder x = some x.data ∧ encodeFrame c p x = packBits x.data := by
  refine ⟨by simp [flattenIn, packBitsFlattenOrder], ?_⟩
  unfold encodeFrame
  rw [h]
  simp [bind, Except.bind, h1]

/-- **bridge, native cells in `encodeFrame`** (route 2) -/
theorem encodeFrame_cells_tie (c : CodecImpl) (p : Params) (x : Frame) (v : Int × Int × Int × Int × Int × Int × Int)
    (h : encodeRouteFull p x = .ok v) (h2 : v.1 = 2) :
    encodeFrame c p x = .ok (x.data.map (fun v => leBytes x.dtype.itemsize (toUnsigned (8 * x.dtype.itemsize) v))).flatten := by
  unfold encodeFrame
  rw [h]
  simp only [bind, Except.bind, h2]
  rw [(encodeCells_tie x).2]
  rfl

/-- **bridge, 1-bit decode**: the number of bits the model's route 1 requires is the size of the regenerated shape
    `pixel_array.reshape(decodeOneBitShape rows columns samples)`, and that shape is `(rows, columns[, samples])` -/
theorem decodeOneBitShape_tie (rows cols samples : Nat) (hs : 1 ≤ samples) :
    (decodeOneBitShape rows cols samples).prod = rows * cols * samples ∧
    decodeOneBitShape rows cols samples = (if samples > 1 then [rows, cols, samples] else [rows, cols]) := by
  refine ⟨?_, rfl⟩
  unfold decodeOneBitShape
  by_cases h : samples > 1
  · simp [h, Nat.mul_assoc]
  · have : samples = 1 := by omega
    simp [this]

/-! ### the transfer-syntax sets -/

/-- **bridge, syntax tables**: the hand-written `nativeSyntaxes` is the regenerated `uncompressed_transfer_syntaxes`; every
    syntax of the regenerated `compressed_transfer_syntaxes` is encapsulated for the model, every uncompressed one is not; the
    lossless syntaxes of the model lie in the union -/
theorem syntax_tables_tie :
    (∀ ts, ts ∈ nativeSyntaxes ↔ ts ∈ encodeFrameUncompressedTransferSyntaxes) ∧
    (∀ ts ∈ encodeFrameUncompressedTransferSyntaxes, isEncapsulated ts = false) ∧
    (∀ ts ∈ encodeFrameCompressedTransferSyntaxes, isEncapsulated ts = true) ∧
    (∀ ts ∈ losslessSyntaxes, ts ∈ encodeFrameUncompressedTransferSyntaxes ∨ ts ∈ encodeFrameCompressedTransferSyntaxes) ∧
    (∀ ts, ts ∈ encodeFrameCompressedTransferSyntaxes ↔
      ts = jpegBaseline ∨ ts = jpegLs ∨ ts = jpegLsNear ∨ ts = j2kLossless ∨ ts = j2k ∨ ts = rle) := by
  refine ⟨?_, ?_, ?_, ?_, ?_⟩
  · intro ts; simp [nativeSyntaxes, encodeFrameUncompressedTransferSyntaxes]
  · intro ts h
    simp only [encodeFrameUncompressedTransferSyntaxes, List.mem_cons, List.not_mem_nil, or_false] at h
    rcases h with rfl | rfl <;> decide
  · intro ts h
    simp only [encodeFrameCompressedTransferSyntaxes, List.mem_cons, List.not_mem_nil, or_false] at h
    rcases h with rfl | rfl | rfl | rfl | rfl | rfl <;> decide
  · intro ts h
    simp only [losslessSyntaxes, nativeSyntaxes, rle, jpegLs, j2kLossless, List.cons_append, List.nil_append, List.mem_cons,
      List.not_mem_nil, or_false] at h
    simp only [encodeFrameUncompressedTransferSyntaxes, encodeFrameCompressedTransferSyntaxes, List.mem_cons, List.not_mem_nil,
      or_false]
    rcases h with rfl | rfl | rfl | rfl | rfl <;> simp
  · intro ts
    simp only [encodeFrameCompressedTransferSyntaxes, jpegBaseline, jpegLs, jpegLsNear, j2kLossless, j2k, rle, List.mem_cons,
      List.not_mem_nil, or_false]
    try (constructor <;> intro h <;> rcases h with h | h | h | h | h | h <;> simp [h])

/-! ### optional parameters -/

/-- **bridge, defaults**: a frame encoded with optional arguments left out is decoded with the same arguments left out, so every
    default the two functions share must agree; and they are the values the harness puts into the model's request for an omitted
    argument (pixel representation 0 = unsigned, no planar configuration, frame index 0) -/
theorem defaults_tie :
    (∀ k d1 d2, ("encode_frame", k, d1) ∈ frameDefaults → ("decode_frame", k, d2) ∈ frameDefaults → d1 = d2) ∧
    ("encode_frame", "pixel_representation", "0") ∈ frameDefaults ∧ ("decode_frame", "pixel_representation", "0") ∈ frameDefaults ∧
    ("encode_frame", "planar_configuration", "None") ∈ frameDefaults ∧ ("decode_frame", "planar_configuration", "None") ∈ frameDefaults ∧
    ("decode_frame", "index", "0") ∈ frameDefaults ∧ frameDefaults.length = 5 := by
  refine ⟨?_, by decide, by decide, by decide, by decide, by decide, by decide⟩
  intro k d1 d2 h1 h2
  simp only [frameDefaults, List.mem_cons, Prod.mk.injEq, List.not_mem_nil, or_false] at h1 h2
  rcases h1 with ⟨h, _⟩ | ⟨h, _⟩ | ⟨h, _⟩ | ⟨h, _⟩ | ⟨h, _⟩ <;> try (exact absurd h (by decide))
  all_goals
    rcases h2 with ⟨h', _⟩ | ⟨h', _⟩ | ⟨h', _⟩ | ⟨h', _⟩ | ⟨h', _⟩ <;> try (exact absurd h' (by decide))
  all_goals simp_all

end HdVerif.Codec
