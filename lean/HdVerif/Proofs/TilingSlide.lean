import HdVerif.Model.TilingSlide
import HdVerif.Proofs.TilingHelpers
import HdVerif.Proofs.TilingRegion
import HdVerif.Proofs.TilingStd
import Mathlib.Tactic.LinearCombination
import Mathlib.Tactic.Ring
/-! C12: the per-frame plane positions (`compute_plane_position_slide_per_frame`), the inverse of the frame numbering, and
injectivity of tile → physical position. -/
namespace HdVerif.TilingLemmas
open HdVerif HdVerif.Gen HdVerif.Tiling

/-- the wrapper is the per-frame data with the channel and slice index dropped, item by item, in order -/
theorem slidePerFrame_eq (channels : List (Option Int)) (planes tr tc R C : Int) (g : Geo) (sbs : Rat)
    (l : List (Option Int × Int × Int × Int × Rat × Rat × Rat)) (h : iterTiledFull channels planes tr tc R C g sbs = .ok l) :
    slidePerFrame channels planes tr tc R C g sbs = .ok (l.map (fun x => x.2.2)) := by
  unfold slidePerFrame
  rw [h]
  simp only
  rw [mapM_ok _ (fun x => x.2.2) (fun x => by simp [slidePerFrameItem])]

/-- the `n`-th plane position of the wrapper (0-based) and the position `_get_spatial_information(frame_number = n + 1)` reports are
the same point; its pixel matrix position is that of the `n`-th item of the per-frame data -/
theorem slidePerFrame_framePosition (channels : List (Option Int)) (planes tr tc R C : Int) (g : Geo) (sbs : Rat)
    (L : List (Int × Int × Rat × Rat × Rat)) (h : slidePerFrame channels planes tr tc R C g sbs = .ok L)
    (n : Nat) (cp rp : Int) (x y z : Rat) (hn : L[n]? = some (cp, rp, x, y, z)) :
    framePosition channels planes tr tc R C g sbs ((n : Int) + 1) = .ok (x, y, z) ∧
    ∃ l ch p, iterTiledFull channels planes tr tc R C g sbs = .ok l ∧ l[n]? = some (ch, p, cp, rp, x, y, z) := by
  cases hl : iterTiledFull channels planes tr tc R C g sbs with
  | error e =>
    unfold slidePerFrame at h
    rw [hl] at h
    simp at h
  | ok l =>
    rw [slidePerFrame_eq channels planes tr tc R C g sbs l hl] at h
    simp only [Except.ok.injEq] at h
    subst h
    rw [List.getElem?_map] at hn
    cases hx : l[n]? with
    | none => rw [hx] at hn; simp at hn
    | some item =>
      rw [hx] at hn
      simp only [Option.map_some, Option.some.injEq] at hn
      obtain ⟨ch, p, a, b, c, d, e⟩ := item
      simp only [Prod.mk.injEq] at hn
      obtain ⟨rfl, rfl, rfl, rfl, rfl⟩ := hn
      refine ⟨?_, l, ch, p, rfl, hx⟩
      unfold framePosition
      have hsl : tiledFullFrameSlice ((n : Int) + 1) = .ok ((n : Int), (n : Int) + 1) := by
        unfold tiledFullFrameSlice
        simp only [Except.ok.injEq, Prod.mk.injEq, and_true]
        omega
      rw [hsl]
      simp only
      rw [if_neg (by omega), hl]
      simp only
      rw [if_neg (by omega), Int.toNat_natCast, hx]

/-- **inverse of the frame numbering**: frame `k` (`1 ≤ k ≤ channels · planes · ⌈R/tr⌉ · ⌈C/tc⌉`) is tile column
`(k-1) mod nc`, tile row `((k-1) div nc) mod nr`, focal plane `((k-1) div (nc·nr)) mod planes`, channel `(k-1) div (nc·nr·planes)` -/
theorem framePosition_inverse (channels : List (Option Int)) (planes tr tc R C : Int) (g : Geo) (sbs : Rat)
    (hr : 1 ≤ tr) (hc : 1 ≤ tc) (hR : 1 ≤ R) (hC : 1 ≤ C) (hP : 1 ≤ planes) (n : Nat)
    (hn : n < channels.length * planes.toNat * ((nTiles R tr).toNat * (nTiles C tc).toNat)) :
    n / (nTiles C tc).toNat / (nTiles R tr).toNat / planes.toNat < channels.length ∧
    framePosition channels planes tr tc R C g sbs ((n : Int) + 1) =
      .ok (pixToRef { g with oz := g.oz + ((n / (nTiles C tc).toNat / (nTiles R tr).toNat % planes.toNat : Nat) : Rat) * sbs }
        (((n % (nTiles C tc).toNat : Nat) : Int) * tc) (((n / (nTiles C tc).toNat % (nTiles R tr).toNat : Nat) : Int) * tr)) := by
  have hNRpos := nTiles_pos R tr hR hr
  have hNCpos := nTiles_pos C tc hC hc
  generalize hNC : (nTiles C tc).toNat = NC at *
  generalize hNR : (nTiles R tr).toNat = NR at *
  generalize hPP : planes.toNat = P at *
  have hNC0 : 0 < NC := by omega
  have hNR0 : 0 < NR := by omega
  have hP0 : 0 < P := by omega
  have hc' : n / NC / NR / P < channels.length := by
    rw [Nat.div_lt_iff_lt_mul hP0, Nat.div_lt_iff_lt_mul hNR0, Nat.div_lt_iff_lt_mul hNC0]
    calc n < channels.length * P * (NR * NC) := hn
      _ = channels.length * P * NR * NC := by rw [Nat.mul_assoc (channels.length * P)]
  refine ⟨hc', ?_⟩
  obtain ⟨ch, hch⟩ : ∃ ch, channels[n / NC / NR / P]? = some ch := ⟨_, List.getElem?_eq_getElem hc'⟩
  have key := framePosition_row_major channels planes tr tc R C g sbs hr hc hR hC (n / NC / NR / P) (n / NC / NR % P) (n / NC % NR) (n % NC)
    ch hch (by have := Nat.mod_lt (n / NC / NR) hP0; omega) (by have := Nat.mod_lt (n / NC) hNR0; omega) (by have := Nat.mod_lt n hNC0; omega)
  rw [hNC, hNR, hPP] at key
  have hidx : ((n / NC / NR / P * P + n / NC / NR % P) * NR + n / NC % NR) * NC + n % NC = n := by
    have h1 := Nat.div_add_mod n NC
    have h2 := Nat.div_add_mod (n / NC) NR
    have h3 := Nat.div_add_mod (n / NC / NR) P
    have e3 : n / NC / NR / P * P + n / NC / NR % P = n / NC / NR := by rw [Nat.mul_comm]; exact h3
    have e2 : n / NC / NR * NR + n / NC % NR = n / NC := by rw [Nat.mul_comm]; exact h2
    have e1 : n / NC * NC + n % NC = n := by rw [Nat.mul_comm]; exact h1
    rw [e3, e2, e1]
  rw [hidx] at key
  have : (n : Int) + 1 = 1 + (n : Int) := by omega
  rw [this]
  exact key

/-- **tile → physical position is injective** for a non-degenerate geometry (row and column direction not parallel, spacings ≠ 0) -/
theorem pixToRef_injective (g : Geo) (hg : g.nondegenerate) (c r c' r' : Int) (h : pixToRef g c r = pixToRef g c' r') :
    c = c' ∧ r = r' := by
  obtain ⟨hsr, hsc, hcross⟩ := hg
  unfold pixToRef at h
  simp only [Prod.mk.injEq] at h
  obtain ⟨h1, h2, h3⟩ := h
  -- a = sc · (c - c'), b = sr · (r - r'):  a · row + b · col = 0
  have e1 : g.rx * (g.sc * ((c : Rat) - c')) + g.cx * (g.sr * ((r : Rat) - r')) = 0 := by linear_combination h1
  have e2 : g.ry * (g.sc * ((c : Rat) - c')) + g.cy * (g.sr * ((r : Rat) - r')) = 0 := by linear_combination h2
  have e3 : g.rz * (g.sc * ((c : Rat) - c')) + g.cz * (g.sr * ((r : Rat) - r')) = 0 := by linear_combination h3
  have ha : g.sc * ((c : Rat) - c') = 0 ∧ g.sr * ((r : Rat) - r') = 0 := by
    rcases hcross with hm | hm | hm
    · have a0 : (g.rx * g.cy - g.ry * g.cx) * (g.sc * ((c : Rat) - c')) = 0 := by linear_combination g.cy * e1 - g.cx * e2
      have b0 : (g.rx * g.cy - g.ry * g.cx) * (g.sr * ((r : Rat) - r')) = 0 := by linear_combination g.rx * e2 - g.ry * e1
      exact ⟨(mul_eq_zero.mp a0).resolve_left hm, (mul_eq_zero.mp b0).resolve_left hm⟩
    · have a0 : (g.rx * g.cz - g.rz * g.cx) * (g.sc * ((c : Rat) - c')) = 0 := by linear_combination g.cz * e1 - g.cx * e3
      have b0 : (g.rx * g.cz - g.rz * g.cx) * (g.sr * ((r : Rat) - r')) = 0 := by linear_combination g.rx * e3 - g.rz * e1
      exact ⟨(mul_eq_zero.mp a0).resolve_left hm, (mul_eq_zero.mp b0).resolve_left hm⟩
    · have a0 : (g.ry * g.cz - g.rz * g.cy) * (g.sc * ((c : Rat) - c')) = 0 := by linear_combination g.cz * e2 - g.cy * e3
      have b0 : (g.ry * g.cz - g.rz * g.cy) * (g.sr * ((r : Rat) - r')) = 0 := by linear_combination g.ry * e3 - g.rz * e2
      exact ⟨(mul_eq_zero.mp a0).resolve_left hm, (mul_eq_zero.mp b0).resolve_left hm⟩
  obtain ⟨a0, b0⟩ := ha
  have hc : (c : Rat) - c' = 0 := (mul_eq_zero.mp a0).resolve_left hsc
  have hr : (r : Rat) - r' = 0 := (mul_eq_zero.mp b0).resolve_left hsr
  constructor
  · have : (c : Rat) = c' := by linear_combination hc
    exact_mod_cast this
  · have : (r : Rat) = r' := by linear_combination hr
    exact_mod_cast this

/-- the regenerated z logic of `compute_plane_position_tiled_full`: both given, neither given, exactly one given -/
theorem planePositionZ_eq (si : Int) (sbs : Rat) :
    planePositionZ (some si) (some sbs) = .ok (((si - 1 : Int) : Rat) * sbs) ∧ planePositionZ none none = .ok 0 ∧
    planePositionZ (some si) none = .error .type ∧ planePositionZ none (some sbs) = .error .type := by
  refine ⟨?_, ?_, ?_, ?_⟩ <;> simp [planePositionZ]

/-- the model of `compute_plane_position_tiled_full` computes its z origin with the regenerated expression -/
theorem planePositionTiledFull_uses_z (ri ci tr tc : Int) (g : Geo) (z3d : Option (Int × Rat)) :
    planePositionTiledFull ri ci tr tc g z3d =
      (match planePositionOffsets ri ci tr tc with
       | .error e => .error e
       | .ok (cIdx, rIdx, cPos, rPos) =>
         match planePositionZ (z3d.map Prod.fst) (z3d.map Prod.snd) with
         | .error e => .error e
         | .ok zoff =>
           let p := pixToRef { g with oz := zoff } cIdx rIdx
           .ok (cPos, rPos, p.1, p.2.1, p.2.2)) := by
  unfold planePositionTiledFull
  cases planePositionOffsets ri ci tr tc with
  | error e => rfl
  | ok v =>
    obtain ⟨cIdx, rIdx, cPos, rPos⟩ := v
    cases z3d with
    | none => simp [(planePositionZ_eq 0 0).2.1]
    | some z =>
      obtain ⟨si, sbs⟩ := z
      simp [(planePositionZ_eq si sbs).1]


/-! ## The reader's frame table and the wrapper describe the same frames -/

/-- (channel, column position, row position) of every item of the per-frame data do not depend on the geometry, the spacing
between slices or the z origin: channels outermost, focal planes next, the row-major grid innermost -/
theorem iterTiledFull_offsets (channels : List (Option Int)) (planes tr tc R C : Int) (g : Geo) (sbs : Rat)
    (hr : 1 ≤ tr) (hc : 1 ≤ tc) (hR : 1 ≤ R) (hC : 1 ≤ C) :
    ∃ l, iterTiledFull channels planes tr tc R C g sbs = .ok l ∧
      l.map (fun x => (x.1, x.2.2.1, x.2.2.2.1)) =
        (channels.flatMap (fun ch => (iota planes).map (fun p => (ch, p + 1)))).flatMap (fun chp =>
          (gridPos R C tr tc).map (fun p => (chp.1, p.2, p.1))) := by
  refine ⟨_, iterTiledFull_eq channels planes tr tc R C g sbs hr hc hR hC, ?_⟩
  rw [List.map_flatMap]
  congr 1
  funext chp
  unfold iterChunk
  rw [List.map_map]
  have h := tpOf_fst tr tc R C { g with oz := g.oz + ((chp.2 - 1 : Int) : Rat) * sbs }
  have : (tpOf tr tc R C { g with oz := g.oz + ((chp.2 - 1 : Int) : Rat) * sbs }).map
      ((fun x : Option Int × Int × Int × Int × Rat × Rat × Rat => (x.1, x.2.2.1, x.2.2.2.1)) ∘
        (fun p : (Int × Int) × (Rat × Rat × Rat) => (chp.1, chp.2, p.1.1, p.1.2, p.2.1, p.2.2.1, p.2.2.2))) =
      ((tpOf tr tc R C { g with oz := g.oz + ((chp.2 - 1 : Int) : Rat) * sbs }).map Prod.fst).map (fun o => (chp.1, o.1, o.2)) := by
    rw [List.map_map]; rfl
  rw [this, h, List.map_map]
  rfl

/-- **frame table ↔ wrapper**: row `n` of the table a reader derives for a TILED_FULL image (`_Image`'s own position look-up,
any number of channels and focal planes) and the `n`-th plane position of `compute_plane_position_slide_per_frame` (any geometry)
carry the same pixel matrix position; the row's frame index is `n`. -/
theorem tiledFullLut_agrees_with_slidePerFrame (channels : List (Option Int)) (planes tr tc R C : Int) (g : Geo) (sbs : Rat)
    (hr : 1 ≤ tr) (hc : 1 ≤ tc) (hR : 1 ≤ R) (hC : 1 ≤ C) :
    ∃ lut L, tiledFullLut channels planes tr tc R C = .ok lut ∧ slidePerFrame channels planes tr tc R C g sbs = .ok L ∧
      lut.length = L.length ∧
      ∀ (n : Nat) (row : LutRow) (cp rp : Int) (x y z : Rat), lut[n]? = some row → L[n]? = some (cp, rp, x, y, z) →
        row.rp = rp ∧ row.cp = cp ∧ row.fi = n := by
  obtain ⟨l0, h0, e0⟩ := iterTiledFull_offsets channels planes tr tc R C ⟨0, 0, 0, 1, 0, 0, 0, 1, 0, 1, 1⟩ 1 hr hc hR hC
  obtain ⟨l, h1, e1⟩ := iterTiledFull_offsets channels planes tr tc R C g sbs hr hc hR hC
  have hmap : l0.map (fun x => (x.1, x.2.2.1, x.2.2.2.1)) = l.map (fun x => (x.1, x.2.2.1, x.2.2.2.1)) := by rw [e0, e1]
  have hlen : l0.length = l.length := by
    have := congrArg List.length hmap
    simpa using this
  refine ⟨_, _, by unfold tiledFullLut; rw [h0], slidePerFrame_eq channels planes tr tc R C g sbs l h1, by simp [hlen], ?_⟩
  intro n row cp rp x y z hrow hL
  rw [List.getElem?_map, List.getElem?_zipIdx] at hrow
  rw [List.getElem?_map] at hL
  cases hx0 : l0[n]? with
  | none => rw [hx0] at hrow; simp at hrow
  | some it0 =>
    cases hx : l[n]? with
    | none => rw [hx] at hL; simp at hL
    | some it =>
      rw [hx0] at hrow
      rw [hx] at hL
      simp only [Option.map_some, Option.some.injEq] at hrow hL
      have hn := congrArg (fun m => m[n]?) hmap
      simp only [List.getElem?_map, hx0, hx, Option.map_some, Option.some.injEq, Prod.mk.injEq] at hn
      obtain ⟨ch, p, a, b, c, d, e⟩ := it
      simp only [Prod.mk.injEq] at hL
      obtain ⟨rfl, rfl, _⟩ := hL
      subst hrow
      simp only at hn ⊢
      exact ⟨hn.2.2, hn.2.1, by omega⟩


/-! ## A tile cut with `get_tile_array` is the region read at the tile's place -/

/-- For a tile position inside the matrix, the array `get_tile_array` cuts there (without its zero padding) and the region
`[ro, min(ro + tr, R + 1)) × [co, min(co + tc, C + 1))` read back through the frame table of ANY complete tiling of the same
matrix (any tile size `th × tw`, any frame order) are the same pixels. -/
theorem tile_equals_region {α} (z : α) (M : Img α) (lut : List LutRow) (frames : List (Img α)) (R C th tw tr tc ro co : Int)
    (ht : 1 ≤ th) (hw : 1 ≤ tw) (hr : 1 ≤ tr) (hc : 1 ≤ tc)
    (hg : IsGridTable R C th tw lut) (hcut : TableCutFrom M R C th tw lut frames)
    (h1 : 1 ≤ ro) (h2 : ro ≤ R) (h3 : 1 ≤ co) (h4 : co ≤ C) (full am : Bool) :
    ∃ fr out, getTileArray z M R C ro co tr tc = .ok fr ∧
      readRegion z lut frames R C th tw none (some ro) (some (min (ro + tr) (R + 1))) (some co) (some (min (co + tc) (C + 1)))
        false full am = .ok (min (ro + tr) (R + 1) - ro, min (co + tc) (C + 1) - co, out) ∧
      ∀ a b, 0 ≤ a → a < min (ro + tr) (R + 1) - ro → 0 ≤ b → b < min (co + tc) (C + 1) - co → out a b = fr a b := by
  obtain ⟨fr, hfr, hspec⟩ := getTileArray_spec z M R C ro co tr tc hr hc h1 h2 h3 h4
  have hstd : stdRowColIndices (some ro) (some (min (ro + tr) (R + 1))) (some co) (some (min (co + tc) (C + 1))) R C false false =
      .ok (ro, min (ro + tr) (R + 1), co, min (co + tc) (C + 1)) := by
    rw [stdRowCol_ok_iff]
    have e0 : outShift false = 0 := rfl
    rw [e0]
    refine ⟨?_, ?_, ?_, ?_⟩
    · unfold normStart; simp only; grind
    · unfold normEnd; simp only; grind
    · unfold normStart; simp only; grind
    · unfold normEnd; simp only; grind
  obtain ⟨out, hout, hpix⟩ := readRegion_grid z M lut frames R C th tw ht hw hg hcut _ _ _ _ false full am _ _ _ _ hstd (by omega) (by omega)
  refine ⟨fr, out, hfr, hout, ?_⟩
  intro a b ha0 ha1 hb0 hb1
  rw [hpix a b ha0 ha1 hb0 hb1, hspec a b ha0 (by omega) hb0 (by omega), if_pos (by omega)]


/-! ## "Is this image TILED_FULL?" — four decisions in two modules -/

theorem tiledFull_decisions (org : Option String) :
    (isTiledFullLut org = true ↔ org = some "TILED_FULL") ∧ isTiledFullRegionRead org = isTiledFullLut org ∧
    isTiledFullIter org = isTiledFullLut org ∧ isTiledFullSpatialInfo org = isTiledFullLut org := by
  cases org with
  | none => simp [isTiledFullLut, isTiledFullRegionRead, isTiledFullIter, isTiledFullSpatialInfo]
  | some v =>
    by_cases h : v = "TILED_FULL"
    · simp [isTiledFullLut, isTiledFullRegionRead, isTiledFullIter, isTiledFullSpatialInfo, h]
    · simp [isTiledFullLut, isTiledFullRegionRead, isTiledFullIter, isTiledFullSpatialInfo, h]


end HdVerif.TilingLemmas
