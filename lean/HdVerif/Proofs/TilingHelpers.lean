import HdVerif.Proofs.TilingFull
/-! The tiling helpers of `spatial.py` / `utils.py` against the row-major grid (C12): tile counts, enumerations,
positions, the full-tiling test, cut and paste. -/
namespace HdVerif.TilingLemmas
open HdVerif HdVerif.Gen HdVerif.Tiling

/-! ## Tile counts: `int(np.ceil(n / t))` and `(n - 1) // t + 1` are the same number -/

theorem neg_ediv_pos (a b : Int) (hb : 0 < b) : (-a) / b = -((a - 1) / b) - 1 := by
  have h1 : b * ((a - 1) / b) ≤ a - 1 := Int.mul_ediv_self_le (Int.ne_of_gt hb)
  have h2 : a - 1 < b * ((a - 1) / b) + b := Int.lt_mul_ediv_self_add hb
  apply Int.le_antisymm
  · have : (-a) / b < -((a - 1) / b) := by
      rw [Int.ediv_lt_iff_lt_mul hb]
      have e : -((a - 1) / b) * b = -(b * ((a - 1) / b)) := by ring
      rw [e]; omega
    omega
  · rw [Int.le_ediv_iff_mul_le hb]
    have e : (-((a - 1) / b) - 1) * b = -(b * ((a - 1) / b)) - b := by ring
    rw [e]; omega

/-- `⌈a / b⌉ = (a - 1) / b + 1` for positive `b` -/
theorem rat_ceil_div (a b : Int) (hb : 0 < b) : Rat.ceil ((a : Rat) / (b : Rat)) = (a - 1) / b + 1 := by
  rw [Rat.ceil_eq_neg_floor_neg]
  have : -((a : Rat) / (b : Rat)) = ((-a : Int) : Rat) / (b : Rat) := by push_cast; ring
  rw [this, rat_floor_div (-a) b hb, neg_ediv_pos a b hb]
  omega

theorem tilesPerAxisCeil_eq (R C tr tc : Int) (hr : 1 ≤ tr) (hc : 1 ≤ tc) (hR : 1 ≤ R) (hC : 1 ≤ C) :
    tilesPerAxisCeil R C tr tc = .ok (nTiles R tr, nTiles C tc) := by
  unfold tilesPerAxisCeil nTiles
  simp only [rat_ceil_div R tr (by omega), rat_ceil_div C tc (by omega)]
  have h1 : 0 ≤ (R - 1) / tr := Int.ediv_nonneg (by omega) (by omega)
  have h2 : 0 ≤ (C - 1) / tc := Int.ediv_nonneg (by omega) (by omega)
  have n1 : ¬ ((((R - 1) / tr + 1 : Int) : Rat) < 0) := by
    have : (0 : Rat) ≤ (((R - 1) / tr + 1 : Int) : Rat) := by exact_mod_cast (by omega : (0 : Int) ≤ (R - 1) / tr + 1)
    exact not_lt.mpr this
  have n2 : ¬ ((((C - 1) / tc + 1 : Int) : Rat) < 0) := by
    have : (0 : Rat) ≤ (((C - 1) / tc + 1 : Int) : Rat) := by exact_mod_cast (by omega : (0 : Int) ≤ (C - 1) / tc + 1)
    exact not_lt.mpr this
  rw [if_neg n1, if_neg n2, Rat.floor_intCast, Rat.floor_intCast]

/-- the two tile counts in the code base agree (and with them the two enumerations' lengths) -/
theorem ceil_count_eq_floor_count (R C tr tc : Int) (hr : 1 ≤ tr) (hc : 1 ≤ tc) (hR : 1 ≤ R) (hC : 1 ≤ C) :
    ∃ a b, tilesPerAxisCeil R C tr tc = .ok (a, b) ∧ tilesPerAxisFloor tr tc R C = .ok (b, a) :=
  ⟨_, _, tilesPerAxisCeil_eq R C tr tc hr hc hR hC, tilesPerAxisFloor_eq tr tc R C hr hc⟩

/-- closed form of `tile_pixel_matrix` -/
theorem tileIndexEnum_eq (R C tr tc : Int) (hr : 1 ≤ tr) (hc : 1 ≤ tc) (hR : 1 ≤ R) (hC : 1 ≤ C) :
    tileIndexEnum R C tr tc = .ok ((iota (nTiles R tr)).flatMap (fun i => (iota (nTiles C tc)).map (fun j => (j + 1, i + 1)))) := by
  unfold tileIndexEnum
  rw [if_neg (by omega), tilesPerAxisCeil_eq R C tr tc hr hc hR hC]

/-- **index enumeration and offsets describe the same tiles in the same order**: the `k`-th offset pair is
`((c - 1) * tile columns + 1, (r - 1) * tile rows + 1)` for the `k`-th index pair `(c, r)` -/
theorem offsets_of_indices (R C tr tc : Int) (hr : 1 ≤ tr) (hc : 1 ≤ tc) (hR : 1 ≤ R) (hC : 1 ≤ C) :
    ∃ idx, tileIndexEnum R C tr tc = .ok idx ∧
      tileOffsets tr tc R C = .ok (idx.map (fun p => ((p.1 - 1) * tc + 1, (p.2 - 1) * tr + 1))) := by
  refine ⟨_, tileIndexEnum_eq R C tr tc hr hc hR hC, ?_⟩
  rw [tileOffsets_eq tr tc R C hr hc hR hC]
  unfold gridPos
  simp only [List.map_flatMap, List.map_map]
  congr 2
  funext i
  apply List.map_congr_left
  intro j _
  simp only [Function.comp]
  have e1 : j + 1 - 1 = j := by omega
  have e2 : i + 1 - 1 = i := by omega
  rw [e1, e2, Int.mul_comm j tc, Int.mul_comm i tr, Int.add_comm (tc * j) 1, Int.add_comm (tr * i) 1]

/-- **tile count**: `⌈R / tile rows⌉ · ⌈C / tile columns⌉` tiles -/
theorem gridPos_length (R C tr tc : Int) (hr : 1 ≤ tr) (hc : 1 ≤ tc) (hR : 1 ≤ R) (hC : 1 ≤ C) :
    ((gridPos R C tr tc).length : Int) = nTiles R tr * nTiles C tc := by
  unfold gridPos
  rw [flatMap_const_length _ _ (iota (nTiles C tc)).length (fun x _ => by simp)]
  push_cast
  rw [iota_length, iota_length]
  have := nTiles_pos R tr hR hr
  have := nTiles_pos C tc hC hc
  rw [max_eq_left (by omega), max_eq_left (by omega)]

/-- the translated z origin of a focal plane (T7e): origin z + `(slice_index - 1) · spacing between slices` -/
theorem tiledFullZOffset_eq (si : Int) (sbs z0 : Rat) : tiledFullZOffset si sbs z0 = .ok (z0 + ((si - 1 : Int) : Rat) * sbs) := by
  unfold tiledFullZOffset
  rfl

/-- closed form of `iter_tiled_full_frame_data` with the translated z origins -/
theorem iterTiledFull_eq (channels : List (Option Int)) (planes tr tc R C : Int) (g : Geo) (sbs : Rat)
    (hr : 1 ≤ tr) (hc : 1 ≤ tc) (hR : 1 ≤ R) (hC : 1 ≤ C) :
    iterTiledFull channels planes tr tc R C g sbs =
      .ok ((channels.flatMap (fun ch => (iota planes).map (fun p => (ch, p + 1)))).flatMap
        (iterChunk tr tc R C g (fun si => g.oz + ((si - 1 : Int) : Rat) * sbs))) :=
  iterTiledFull_eq_of channels planes tr tc R C g sbs _ (fun si => tiledFullZOffset_eq si sbs g.oz) hr hc hR hC

/-- **tile count per channel and focal plane**: `iter_tiled_full_frame_data` yields
`channels · focal planes · ⌈R / tile rows⌉ · ⌈C / tile columns⌉` frames -/
theorem iterTiledFull_length (channels : List (Option Int)) (planes tr tc R C : Int) (g : Geo) (sbs : Rat)
    (hr : 1 ≤ tr) (hc : 1 ≤ tc) (hR : 1 ≤ R) (hC : 1 ≤ C) (hp : 0 ≤ planes) :
    ∃ l, iterTiledFull channels planes tr tc R C g sbs = .ok l ∧
      (l.length : Int) = channels.length * planes * (nTiles R tr * nTiles C tc) := by
  refine ⟨_, iterTiledFull_eq channels planes tr tc R C g sbs hr hc hR hC, ?_⟩
  rw [flatMap_const_length _ _ (gridPos R C tr tc).length (fun x _ => by rw [chunk_length, List.length_map])]
  rw [flatMap_const_length _ _ (iota planes).length (fun x _ => by simp)]
  push_cast
  rw [gridPos_length R C tr tc hr hc hR hC, iota_length, max_eq_left hp]

/-- **`position_is_transform_of_offset`**: every tile's reported position is the pixel-to-reference transform of its
(1-based) offset taken 0-based -/
theorem tilePositions_transform (tr tc R C : Int) (g : Geo) (x : (Int × Int) × (Rat × Rat × Rat)) (hx : x ∈ tpOf tr tc R C g) :
    x.2 = pixToRef g (x.1.1 - 1) (x.1.2 - 1) := by
  unfold tpOf at hx
  simp only [List.mem_flatMap, List.mem_map] at hx
  obtain ⟨i, _, j, _, rfl⟩ := hx
  simp only
  congr 1 <;> omega

/-- the offsets in `tilePositions` are the grid -/
theorem mem_tpOf (tr tc R C : Int) (g : Geo) (x : (Int × Int) × (Rat × Rat × Rat)) :
    x ∈ tpOf tr tc R C g ↔ (x.1.2, x.1.1) ∈ gridPos R C tr tc ∧ x.2 = pixToRef g (x.1.1 - 1) (x.1.2 - 1) := by
  constructor
  · intro hx
    refine ⟨?_, tilePositions_transform tr tc R C g x hx⟩
    have : x.1 ∈ (tpOf tr tc R C g).map Prod.fst := List.mem_map_of_mem hx
    rw [tpOf_fst] at this
    obtain ⟨p, hp, hpe⟩ := List.mem_map.mp this
    rw [← hpe]
    exact hp
  · rintro ⟨hg, hp⟩
    obtain ⟨⟨co, ro⟩, pp⟩ := x
    simp only at hg hp
    rw [mem_gridPos] at hg
    obtain ⟨k, l, hk0, hk1, hl0, hl1, e1, e2⟩ := hg
    unfold tpOf
    simp only [List.mem_flatMap, List.mem_map, mem_iota]
    refine ⟨k, ⟨hk0, hk1⟩, l, ⟨hl0, hl1⟩, ?_⟩
    rw [hp, e1, e2]
    have a1 : l * tc + 1 = 1 + tc * l := by rw [Int.mul_comm]; omega
    have a2 : k * tr + 1 = 1 + tr * k := by rw [Int.mul_comm]; omega
    have a3 : 1 + tc * l - 1 = l * tc := by rw [Int.mul_comm]; omega
    have a4 : 1 + tr * k - 1 = k * tr := by rw [Int.mul_comm]; omega
    rw [a1, a2, a3, a4]

/-- **`compute_plane_position_tiled_full` agrees with the per-frame list**: for tile indices inside the grid it returns
exactly one of the entries `compute_tile_positions_per_frame` lists (same offsets, same position), namely the one at
`(1 + (row_index - 1) · tile rows, 1 + (column_index - 1) · tile columns)` -/
theorem planePosition_in_list (ri ci tr tc R C : Int) (g : Geo) (z3d : Option (Int × Rat))
    (h1 : 1 ≤ ri) (h2 : ri ≤ nTiles R tr) (h3 : 1 ≤ ci) (h4 : ci ≤ nTiles C tc) :
    ∃ cp rp x y z, planePositionTiledFull ri ci tr tc g z3d = .ok (cp, rp, x, y, z) ∧
      rp = 1 + tr * (ri - 1) ∧ cp = 1 + tc * (ci - 1) ∧
      ((cp, rp), (x, y, z)) ∈ tpOf tr tc R C { g with oz := match z3d with | some (si, sbs) => ((si - 1 : Int) : Rat) * sbs | none => 0 } := by
  unfold planePositionTiledFull
  have hoff : planePositionOffsets ri ci tr tc = .ok ((ci - 1) * tc, (ri - 1) * tr, (ci - 1) * tc + 1, (ri - 1) * tr + 1) := by
    unfold planePositionOffsets
    grind
  rw [hoff]
  simp only
  refine ⟨_, _, _, _, _, rfl, by rw [Int.mul_comm]; omega, by rw [Int.mul_comm]; omega, ?_⟩
  rw [mem_tpOf]
  simp only
  refine ⟨?_, ?_⟩
  · rw [mem_gridPos]
    exact ⟨ri - 1, ci - 1, by omega, by omega, by omega, by omega, by rw [Int.mul_comm]; omega, by rw [Int.mul_comm]; omega⟩
  · have e1 : (ci - 1) * tc + 1 - 1 = (ci - 1) * tc := by omega
    have e2 : (ri - 1) * tr + 1 - 1 = (ri - 1) * tr := by omega
    rw [e1, e2]
    rfl

/-- tile indices below 1 are refused -/
theorem planePosition_refused (ri ci tr tc : Int) (g : Geo) (z3d : Option (Int × Rat)) (h : ri < 1 ∨ ci < 1) :
    planePositionTiledFull ri ci tr tc g z3d = .error .value := by
  unfold planePositionTiledFull
  have : planePositionOffsets ri ci tr tc = .error .value := by
    unfold planePositionOffsets
    grind
  rw [this]


/-! ## The full-tiling test -/

/-- the row-major list of tile positions of a grid with `nr × nc` tiles -/
def gridList (nr nc tr tc : Int) : List (Int × Int) :=
  (iota nr).flatMap (fun a => (iota nc).map (fun b => (1 + tr * a, 1 + tc * b)))

theorem gridPos_eq_gridList (R C tr tc : Int) : gridPos R C tr tc = gridList (nTiles R tr) (nTiles C tc) tr tc := rfl

theorem tfMax_eq (ps : List (Int × Int)) : ∀ (a b : Int),
    tfMax ps (a, b) = .ok (ps.foldl (fun m p => max m p.1) a, ps.foldl (fun m p => max m p.2) b) := by
  induction ps with
  | nil => intro a b; rfl
  | cons p ps ih =>
    intro a b
    obtain ⟨r, c⟩ := p
    unfold tfMax
    have : tfMaxStep a b r c = .ok (max a r, max b c) := by
      unfold tfMaxStep
      simp only [Except.ok.injEq, Prod.mk.injEq]
      constructor <;> (simp only [gt_iff_lt, decide_eq_true_eq]; split <;> omega)
    rw [this]
    simp only
    rw [ih]
    rfl

theorem foldl_max_ge_init {β} (f : β → Int) (l : List β) : ∀ a, a ≤ l.foldl (fun m p => max m (f p)) a := by
  induction l with
  | nil => intro a; exact Int.le_refl a
  | cons x l ih => intro a; rw [List.foldl_cons]; exact Int.le_trans (by omega) (ih _)

theorem foldl_max_ge_mem {β} (f : β → Int) (l : List β) : ∀ a, ∀ x ∈ l, f x ≤ l.foldl (fun m p => max m (f p)) a := by
  induction l with
  | nil => intro a x hx; simp at hx
  | cons y l ih =>
    intro a x hx
    rw [List.foldl_cons]
    rcases List.mem_cons.mp hx with rfl | h
    · exact Int.le_trans (by omega) (foldl_max_ge_init f l _)
    · exact ih _ x h

theorem foldl_max_le {β} (f : β → Int) (l : List β) (m : Int) (h : ∀ x ∈ l, f x ≤ m) : ∀ a, a ≤ m → l.foldl (fun m p => max m (f p)) a ≤ m := by
  induction l with
  | nil => intro a ha; exact ha
  | cons y l ih =>
    intro a ha
    rw [List.foldl_cons]
    apply ih (fun x hx => h x (by simp [hx]))
    have := h y (by simp)
    omega

theorem foldl_max_eq {β} (f : β → Int) (l : List β) (m a : Int) (h : ∀ x ∈ l, f x ≤ m) (ha : a ≤ m) (hex : ∃ x ∈ l, f x = m) :
    l.foldl (fun m p => max m (f p)) a = m := by
  obtain ⟨x, hx, hfx⟩ := hex
  have h1 := foldl_max_le f l m h a ha
  have h2 := foldl_max_ge_mem f l a x hx
  omega

theorem pyRange_eq (stop step : Int) (hs : 1 ≤ step) :
    pyRange 1 stop step = .ok ((iota ((stop - 1 + step - 1) / step)).map (fun k => 1 + step * k)) := by
  unfold pyRange
  rw [if_neg (by omega), if_neg (by omega)]

theorem tfMatch_eq (es : List (Int × Int)) : ∀ (ps : List (Int × Int)), es.length = ps.length →
    tfMatch es ps = .ok (decide (es = ps)) := by
  induction es with
  | nil =>
    intro ps hl
    cases ps with
    | nil => simp [tfMatch]
    | cons p ps => simp at hl
  | cons e es ih =>
    intro ps hl
    cases ps with
    | nil => simp at hl
    | cons p ps =>
      obtain ⟨re, ce⟩ := e
      obtain ⟨r, c⟩ := p
      unfold tfMatch
      have hstep : tfMatchStep re ce r c = .ok (decide (r = re ∧ c = ce)) := by
        unfold tfMatchStep
        by_cases h : r = re ∧ c = ce
        · obtain ⟨rfl, rfl⟩ := h; simp
        · simp only [h, decide_false]
          have : ((r != re) || (c != ce)) = true := by
            simp only [Bool.or_eq_true, bne_iff_ne, ne_eq]
            by_contra hc
            simp only [not_or, not_not] at hc
            exact h hc
          simp [this]
      rw [hstep]
      by_cases h : r = re ∧ c = ce
      · obtain ⟨rfl, rfl⟩ := h
        simp only [and_self, decide_true]
        rw [ih ps (by simpa using hl)]
        simp
      · simp only [h, decide_false]
        congr 1
        symm
        simp only [decide_eq_false_iff_not, List.cons.injEq, Prod.mk.injEq, not_and]
        intro hh
        exact absurd ⟨hh.1.symm, hh.2.symm⟩ h

/-- **closed form of `are_plane_positions_tiled_full`**: the list is compared with the row-major grid whose numbers of
tile rows / columns are derived from the largest row / column position in the list -/
theorem arePlanePositionsTiledFull_eq (ps : List (Int × Int)) (tr tc : Int) (hr : 1 ≤ tr) (hc : 1 ≤ tc) :
    arePlanePositionsTiledFull ps tr tc =
      .ok (decide (ps = gridList ((ps.foldl (fun m p => max m p.1) (-1) + tr - 1) / tr) ((ps.foldl (fun m p => max m p.2) (-1) + tc - 1) / tc) tr tc)) := by
  unfold arePlanePositionsTiledFull
  have hinit : tfInit = .ok (-1, -1) := by unfold tfInit; rfl
  rw [hinit]
  simp only
  rw [tfMax_eq]
  simp only
  have hrg : tfRanges (ps.foldl (fun m p => max m p.1) (-1)) (ps.foldl (fun m p => max m p.2) (-1)) tr tc =
      .ok (1, ps.foldl (fun m p => max m p.1) (-1) + 1, tr, 1, ps.foldl (fun m p => max m p.2) (-1) + 1, tc) := by
    unfold tfRanges; rfl
  rw [hrg]
  simp only
  rw [pyRange_eq _ tr hr, pyRange_eq _ tc hc]
  simp only
  have hexp : ((iota ((ps.foldl (fun m p => max m p.1) (-1) + 1 - 1 + tr - 1) / tr)).map (fun k => 1 + tr * k)).flatMap
      (fun r => ((iota ((ps.foldl (fun m p => max m p.2) (-1) + 1 - 1 + tc - 1) / tc)).map (fun k => 1 + tc * k)).map (fun c => (r, c))) =
      gridList ((ps.foldl (fun m p => max m p.1) (-1) + tr - 1) / tr) ((ps.foldl (fun m p => max m p.2) (-1) + tc - 1) / tc) tr tc := by
    unfold gridList
    have e1 : ps.foldl (fun m p => max m p.1) (-1) + 1 - 1 + tr - 1 = ps.foldl (fun m p => max m p.1) (-1) + tr - 1 := by omega
    have e2 : ps.foldl (fun m p => max m p.2) (-1) + 1 - 1 + tc - 1 = ps.foldl (fun m p => max m p.2) (-1) + tc - 1 := by omega
    rw [e1, e2, List.flatMap_map]
    congr 1
    funext a
    rw [List.map_map]
    rfl
  rw [hexp]
  split
  · rename_i hne
    congr 1
    symm
    rw [decide_eq_false_iff_not]
    intro he
    apply hne
    rw [← he]
  · rename_i heq
    rw [tfMatch_eq _ _ (by simpa using heq)]
    congr 1
    rw [Bool.eq_iff_iff]
    simp only [decide_eq_true_eq]
    exact eq_comm


theorem mem_gridList (nr nc tr tc a b : Int) :
    (a, b) ∈ gridList nr nc tr tc ↔ ∃ k l, 0 ≤ k ∧ k < nr ∧ 0 ≤ l ∧ l < nc ∧ a = 1 + tr * k ∧ b = 1 + tc * l := by
  unfold gridList
  simp only [List.mem_flatMap, List.mem_map, mem_iota, Prod.mk.injEq]
  constructor
  · rintro ⟨k, ⟨hk0, hk1⟩, l, ⟨hl0, hl1⟩, h1, h2⟩
    exact ⟨k, l, hk0, hk1, hl0, hl1, h1.symm, h2.symm⟩
  · rintro ⟨k, l, hk0, hk1, hl0, hl1, h1, h2⟩
    exact ⟨k, ⟨hk0, hk1⟩, l, ⟨hl0, hl1⟩, h1.symm, h2.symm⟩

theorem iota_nonpos (n : Int) (h : n ≤ 0) : iota n = [] := by
  unfold iota
  have : n.toNat = 0 := by omega
  rw [this]; rfl

theorem gridList_nil (nr nc tr tc : Int) (h : nr ≤ 0 ∨ nc ≤ 0) : gridList nr nc tr tc = [] := by
  unfold gridList
  rcases h with h | h
  · rw [iota_nonpos nr h]; rfl
  · rw [iota_nonpos nc h]; simp

/-- the largest row / column position of a non-empty grid list -/
theorem gridList_max (nr nc tr tc : Int) (hr : 1 ≤ tr) (hc : 1 ≤ tc) (h1 : 1 ≤ nr) (h2 : 1 ≤ nc) :
    (gridList nr nc tr tc).foldl (fun m p => max m p.1) (-1) = 1 + tr * (nr - 1) ∧
    (gridList nr nc tr tc).foldl (fun m p => max m p.2) (-1) = 1 + tc * (nc - 1) := by
  have p1 := Int.mul_nonneg (show 0 ≤ tr by omega) (show 0 ≤ nr - 1 by omega)
  have p2 := Int.mul_nonneg (show 0 ≤ tc by omega) (show 0 ≤ nc - 1 by omega)
  constructor
  · apply foldl_max_eq (fun p : Int × Int => p.1)
    · rintro ⟨a, b⟩ hx
      rw [mem_gridList] at hx
      obtain ⟨k, l, _, hk, _, _, rfl, _⟩ := hx
      have := Int.mul_le_mul_of_nonneg_left (show k ≤ nr - 1 by omega) (show 0 ≤ tr by omega)
      simp only; omega
    · omega
    · exact ⟨(1 + tr * (nr - 1), 1 + tc * 0), (mem_gridList _ _ _ _ _ _).mpr ⟨nr - 1, 0, by omega, by omega, by omega, by omega, rfl, rfl⟩, rfl⟩
  · apply foldl_max_eq (fun p : Int × Int => p.2)
    · rintro ⟨a, b⟩ hx
      rw [mem_gridList] at hx
      obtain ⟨k, l, _, _, _, hl, _, rfl⟩ := hx
      have := Int.mul_le_mul_of_nonneg_left (show l ≤ nc - 1 by omega) (show 0 ≤ tc by omega)
      simp only; omega
    · omega
    · exact ⟨(1 + tr * 0, 1 + tc * (nc - 1)), (mem_gridList _ _ _ _ _ _).mpr ⟨0, nc - 1, by omega, by omega, by omega, by omega, rfl, rfl⟩, rfl⟩

theorem count_from_max (t n : Int) (ht : 1 ≤ t) : (1 + t * (n - 1) + t - 1) / t = n := by
  have : 1 + t * (n - 1) + t - 1 = t * n := by
    have : t * (n - 1) = t * n - t := by rw [Int.mul_sub, Int.mul_one]
    omega
  rw [this, Int.mul_ediv_cancel_left _ (by omega)]

theorem count_from_empty (t : Int) (ht : 1 ≤ t) : (-1 + t - 1) / t ≤ 0 := by
  have : (-1 + t - 1) / t < 1 := by
    rw [Int.ediv_lt_iff_lt_mul (by omega)]; omega
  omega

/-- **`tiled_full_predicate_iff`**: `are_plane_positions_tiled_full` answers True iff the list of (row position, column
position) pairs is the row-major grid of *some* number of tile rows and tile columns — every permuted, incomplete or
repeated list that is not itself such a grid is rejected, and the empty list is accepted -/
theorem predicate_iff (ps : List (Int × Int)) (tr tc : Int) (hr : 1 ≤ tr) (hc : 1 ≤ tc) :
    arePlanePositionsTiledFull ps tr tc = .ok true ↔ ∃ nr nc, ps = gridList nr nc tr tc := by
  rw [arePlanePositionsTiledFull_eq ps tr tc hr hc]
  simp only [Except.ok.injEq, decide_eq_true_eq]
  constructor
  · intro h; exact ⟨_, _, h⟩
  · rintro ⟨nr, nc, rfl⟩
    by_cases hne : 1 ≤ nr ∧ 1 ≤ nc
    · obtain ⟨m1, m2⟩ := gridList_max nr nc tr tc hr hc hne.1 hne.2
      rw [m1, m2, count_from_max tr nr hr, count_from_max tc nc hc]
    · have hnil : gridList nr nc tr tc = [] := gridList_nil nr nc tr tc (by omega)
      rw [hnil]
      simp only [List.foldl_nil]
      rw [gridList_nil _ _ tr tc (Or.inl (count_from_empty tr hr))]

/-- the test relative to a given matrix: for a list that contains the last tile of the `R × C` matrix and nothing beyond it,
the answer is True iff the list is the complete row-major grid of that matrix -/
theorem predicate_for_matrix (ps : List (Int × Int)) (R C tr tc : Int) (hr : 1 ≤ tr) (hc : 1 ≤ tc) (hR : 1 ≤ R) (hC : 1 ≤ C)
    (hlast : (1 + tr * (nTiles R tr - 1), 1 + tc * (nTiles C tc - 1)) ∈ ps)
    (hin : ∀ p ∈ ps, p.1 ≤ 1 + tr * (nTiles R tr - 1) ∧ p.2 ≤ 1 + tc * (nTiles C tc - 1)) :
    arePlanePositionsTiledFull ps tr tc = .ok true ↔ ps = gridPos R C tr tc := by
  rw [arePlanePositionsTiledFull_eq ps tr tc hr hc]
  have n1 := nTiles_pos R tr hR hr
  have n2 := nTiles_pos C tc hC hc
  have p1 := Int.mul_nonneg (show 0 ≤ tr by omega) (show 0 ≤ nTiles R tr - 1 by omega)
  have p2 := Int.mul_nonneg (show 0 ≤ tc by omega) (show 0 ≤ nTiles C tc - 1 by omega)
  have m1 : ps.foldl (fun m p => max m p.1) (-1) = 1 + tr * (nTiles R tr - 1) :=
    foldl_max_eq (fun p : Int × Int => p.1) ps _ _ (fun p hp => (hin p hp).1) (by omega) ⟨_, hlast, rfl⟩
  have m2 : ps.foldl (fun m p => max m p.2) (-1) = 1 + tc * (nTiles C tc - 1) :=
    foldl_max_eq (fun p : Int × Int => p.2) ps _ _ (fun p hp => (hin p hp).2) (by omega) ⟨_, hlast, rfl⟩
  rw [m1, m2, count_from_max tr _ hr, count_from_max tc _ hc, ← gridPos_eq_gridList]
  simp only [Except.ok.injEq, decide_eq_true_eq]

/-- never an error for positive tile sizes -/
theorem predicate_total (ps : List (Int × Int)) (tr tc : Int) (hr : 1 ≤ tr) (hc : 1 ≤ tc) :
    ∃ b, arePlanePositionsTiledFull ps tr tc = .ok b := ⟨_, arePlanePositionsTiledFull_eq ps tr tc hr hc⟩

/-- a permutation of a grid passes the test only if it is the grid itself -/
theorem predicate_perm (ps : List (Int × Int)) (nr nc tr tc : Int) (hr : 1 ≤ tr) (hc : 1 ≤ tc)
    (hp : ps.Perm (gridList nr nc tr tc)) (h : arePlanePositionsTiledFull ps tr tc = .ok true) : ps = gridList nr nc tr tc := by
  rw [arePlanePositionsTiledFull_eq ps tr tc hr hc] at h
  simp only [Except.ok.injEq, decide_eq_true_eq] at h
  -- the maxima only depend on the elements
  have hmax : ∀ (f : Int × Int → Int), ps.foldl (fun m p => max m (f p)) (-1) = (gridList nr nc tr tc).foldl (fun m p => max m (f p)) (-1) := by
    intro f
    apply hp.foldl_eq'
    intro x _ y _ z
    omega
  have e1 := hmax Prod.fst
  have e2 := hmax Prod.snd
  rw [e1, e2] at h
  by_cases hne : 1 ≤ nr ∧ 1 ≤ nc
  · obtain ⟨m1, m2⟩ := gridList_max nr nc tr tc hr hc hne.1 hne.2
    rw [m1, m2, count_from_max tr nr hr, count_from_max tc nc hc] at h
    exact h
  · have hnil : gridList nr nc tr tc = [] := gridList_nil nr nc tr tc (by omega)
    rw [hnil] at hp ⊢
    exact List.Perm.eq_nil hp


/-- pasting tiles cut at valid offsets: covered pixels hold the zero-padded matrix, the others keep their value -/
theorem pasteFold_spec {α} (z : α) (M : Img α) (R C tr tc : Int) (hr : 1 ≤ tr) (hc : 1 ≤ tc) (offs : List (Int × Int))
    (hv : ∀ o ∈ offs, 1 ≤ o.2 ∧ o.2 ≤ R ∧ 1 ≤ o.1 ∧ o.1 ≤ C) : ∀ (out0 : Img α),
    ∃ out, offs.foldl (pasteStep z M R C tr tc) (.ok out0) = .ok out ∧
      ∀ i j, ((∃ o ∈ offs, o.2 - 1 ≤ i ∧ i < o.2 - 1 + tr ∧ o.1 - 1 ≤ j ∧ j < o.1 - 1 + tc) →
                out i j = if i < R ∧ j < C then M i j else z) ∧
             ((¬ ∃ o ∈ offs, o.2 - 1 ≤ i ∧ i < o.2 - 1 + tr ∧ o.1 - 1 ≤ j ∧ j < o.1 - 1 + tc) → out i j = out0 i j) := by
  induction offs with
  | nil => intro out0; exact ⟨out0, rfl, fun i j => ⟨by simp, fun _ => rfl⟩⟩
  | cons o offs ih =>
    intro out0
    obtain ⟨v1, v2, v3, v4⟩ := hv o (by simp)
    obtain ⟨t, ht, hspec⟩ := getTileArray_spec z M R C o.2 o.1 tr tc hr hc v1 v2 v3 v4
    obtain ⟨out, hout, hp⟩ := ih (fun x hx => hv x (by simp [hx]))
      (fun i j => if o.2 - 1 ≤ i ∧ i < o.2 - 1 + tr ∧ o.1 - 1 ≤ j ∧ j < o.1 - 1 + tc then t (i - (o.2 - 1)) (j - (o.1 - 1)) else out0 i j)
    refine ⟨out, ?_, ?_⟩
    · rw [List.foldl_cons]
      have : pasteStep z M R C tr tc (.ok out0) o = .ok (fun i j => if o.2 - 1 ≤ i ∧ i < o.2 - 1 + tr ∧ o.1 - 1 ≤ j ∧ j < o.1 - 1 + tc
          then t (i - (o.2 - 1)) (j - (o.1 - 1)) else out0 i j) := by
        unfold pasteStep
        simp only [ht]
        rw [if_neg (by rw [getTileShape_spec R C o.2 o.1 tr tc hr hc v1 v2 v3 v4]; simp)]
      rw [this]
      exact hout
    · intro i j
      obtain ⟨p1, p2⟩ := hp i j
      constructor
      · rintro ⟨x, hx, hcov⟩
        by_cases hrest : ∃ o' ∈ offs, o'.2 - 1 ≤ i ∧ i < o'.2 - 1 + tr ∧ o'.1 - 1 ≤ j ∧ j < o'.1 - 1 + tc
        · exact p1 hrest
        · rw [p2 hrest]
          have hxo : x = o := by
            rcases List.mem_cons.mp hx with h | h
            · exact h
            · exact absurd ⟨x, h, hcov⟩ hrest
          subst hxo
          rw [if_pos hcov, hspec _ _ (by omega) (by omega) (by omega) (by omega)]
          have e1 : x.2 - 1 + (i - (x.2 - 1)) = i := by omega
          have e2 : x.1 - 1 + (j - (x.1 - 1)) = j := by omega
          rw [e1, e2]
      · intro hno
        have hrest : ¬ ∃ o' ∈ offs, o'.2 - 1 ≤ i ∧ i < o'.2 - 1 + tr ∧ o'.1 - 1 ≤ j ∧ j < o'.1 - 1 + tc := by
          rintro ⟨x, hx, hcov⟩
          exact hno ⟨x, by simp [hx], hcov⟩
        rw [p2 hrest, if_neg]
        intro hcov
        exact hno ⟨o, by simp, hcov⟩

/-- **`cut_paste_identity`**: cutting a matrix into tiles at the computed offsets and pasting them back reproduces the
matrix, with zeros in the part of the padded array that lies outside the matrix — for every matrix and tile size -/
theorem cutPaste_spec {α} (z : α) (M : Img α) (R C tr tc : Int) (hr : 1 ≤ tr) (hc : 1 ≤ tc) (hR : 1 ≤ R) (hC : 1 ≤ C) :
    ∃ out, cutPaste z M R C tr tc = .ok (nTiles R tr * tr, nTiles C tc * tc, out) ∧
      ∀ i j, 0 ≤ i → i < nTiles R tr * tr → 0 ≤ j → j < nTiles C tc * tc → out i j = if i < R ∧ j < C then M i j else z := by
  have hv : ∀ o ∈ (gridPos R C tr tc).map (fun p => (p.2, p.1)), 1 ≤ o.2 ∧ o.2 ≤ R ∧ 1 ≤ o.1 ∧ o.1 ≤ C := by
    intro o ho
    obtain ⟨p, hp, rfl⟩ := List.mem_map.mp ho
    exact gridPos_in_matrix R C tr tc hr hc p hp
  obtain ⟨out, hout, hp⟩ := pasteFold_spec z M R C tr tc hr hc _ hv (fun _ _ => z)
  refine ⟨out, ?_, ?_⟩
  · unfold cutPaste
    rw [tileOffsets_eq tr tc R C hr hc hR hC, tilesPerAxisFloor_eq tr tc R C hr hc]
    simp only [hout]
  · intro i j hi0 hi1 hj0 hj1
    apply (hp i j).1
    -- the tile with index (i / tr, j / tc)
    have hk : i / tr < nTiles R tr := by
      rw [Int.ediv_lt_iff_lt_mul (by omega)]; exact hi1
    have hl : j / tc < nTiles C tc := by
      rw [Int.ediv_lt_iff_lt_mul (by omega)]; exact hj1
    have a1 := Int.mul_ediv_self_le (x := i) (k := tr) (by omega)
    have a2 := Int.lt_mul_ediv_self_add (x := i) (k := tr) (by omega)
    have b1 := Int.mul_ediv_self_le (x := j) (k := tc) (by omega)
    have b2 := Int.lt_mul_ediv_self_add (x := j) (k := tc) (by omega)
    refine ⟨(1 + tc * (j / tc), 1 + tr * (i / tr)), ?_, by simp only; omega⟩
    apply List.mem_map.mpr
    exact ⟨(1 + tr * (i / tr), 1 + tc * (j / tc)), (mem_gridPos _ _ _ _ _ _).mpr
      ⟨_, _, Int.ediv_nonneg hi0 (by omega), hk, Int.ediv_nonneg hj0 (by omega), hl, rfl, rfl⟩, rfl⟩

/-- **`tiles_cover_exactly_once`**: of the offsets `compute_tile_positions_per_frame` lists, exactly one tile contains a
given pixel of the matrix (1-based `(gr, gc)`) -/
theorem offsets_cover_once (R C tr tc : Int) (hr : 1 ≤ tr) (hc : 1 ≤ tc) (hR : 1 ≤ R) (hC : 1 ≤ C)
    (gr gc : Int) (h1 : 1 ≤ gr) (h2 : gr ≤ R) (h3 : 1 ≤ gc) (h4 : gc ≤ C) :
    ∃ offs, tileOffsets tr tc R C = .ok offs ∧
      (offs.filter (fun o => decide (o.2 ≤ gr ∧ gr < o.2 + tr ∧ o.1 ≤ gc ∧ gc < o.1 + tc))).length = 1 := by
  refine ⟨_, tileOffsets_eq tr tc R C hr hc hR hC, ?_⟩
  have hg : IsGridTable R C tr tc ((gridPos R C tr tc).map (fun p => (⟨p.1, p.2, 0, 0⟩ : LutRow))) := by
    unfold IsGridTable
    rw [List.map_map]
    have : (pos ∘ fun p : Int × Int => (⟨p.1, p.2, 0, 0⟩ : LutRow)) = id := by funext p; rfl
    rw [this, List.map_id]
  have := grid_exactly_one R C tr tc hr hc _ hg gr gc h1 h2 h3 h4
  rw [List.filter_map, List.length_map] at this ⊢
  exact this


/-! ## Frame number of a TILED_FULL image ↔ tile -/

/-- **frame number ↔ (channel, focal plane, tile row, tile column)**: the position `_get_spatial_information` (hence every
`*Transformer.for_image(image, frame_number=k)`) reports for frame
`k = 1 + ((c · planes + p) · ⌈R/tr⌉ + i) · ⌈C/tc⌉ + j` of a TILED_FULL image is the pixel-to-reference transform of the
offset of tile `(i, j)` in focal plane `p` — the row-major enumeration of every other helper, channels outermost. -/
theorem framePosition_row_major (channels : List (Option Int)) (planes tr tc R C : Int) (g : Geo) (sbs : Rat)
    (hr : 1 ≤ tr) (hc : 1 ≤ tc) (hR : 1 ≤ R) (hC : 1 ≤ C)
    (c p i j : Nat) (ch : Option Int) (hch : channels[c]? = some ch) (hp : (p : Int) < planes)
    (hi : (i : Int) < nTiles R tr) (hj : (j : Int) < nTiles C tc) :
    framePosition channels planes tr tc R C g sbs
        (1 + ((((c * planes.toNat + p) * (nTiles R tr).toNat + i) * (nTiles C tc).toNat + j : Nat) : Int)) =
      .ok (pixToRef { g with oz := g.oz + (p : Rat) * sbs } ((j : Int) * tc) ((i : Int) * tr)) := by
  unfold framePosition
  have hsl : tiledFullFrameSlice (1 + ((((c * planes.toNat + p) * (nTiles R tr).toNat + i) * (nTiles C tc).toNat + j : Nat) : Int)) =
      .ok (((((c * planes.toNat + p) * (nTiles R tr).toNat + i) * (nTiles C tc).toNat + j : Nat) : Int),
        1 + ((((c * planes.toNat + p) * (nTiles R tr).toNat + i) * (nTiles C tc).toNat + j : Nat) : Int)) := by
    unfold tiledFullFrameSlice
    simp only [Except.ok.injEq, Prod.mk.injEq, and_true]
    omega
  rw [hsl]
  simp only
  rw [if_neg (by omega), iterTiledFull_eq channels planes tr tc R C g sbs hr hc hR hC]
  simp only
  rw [if_neg (by omega), Int.toNat_natCast]
  -- index arithmetic: ((c·P + p)·NR + i)·NC + j = (c·P + p)·(NR·NC) + (i·NC + j)
  have hidx : ((c * planes.toNat + p) * (nTiles R tr).toNat + i) * (nTiles C tc).toNat + j =
      (c * planes.toNat + p) * ((nTiles R tr).toNat * (nTiles C tc).toNat) + (i * (nTiles C tc).toNat + j) := by
    rw [Nat.add_mul, Nat.mul_assoc]; omega
  rw [hidx]
  have hNR : (i : Nat) < (nTiles R tr).toNat := by omega
  have hNC : (j : Nat) < (nTiles C tc).toNat := by omega
  have hP : p < planes.toNat := by omega
  have hinner : i * (nTiles C tc).toNat + j < (nTiles R tr).toNat * (nTiles C tc).toNat := by
    have : (i + 1) * (nTiles C tc).toNat ≤ (nTiles R tr).toNat * (nTiles C tc).toNat := Nat.mul_le_mul_right _ hNR
    rw [Nat.succ_mul] at this
    omega
  -- the (channel, plane) pair at c·P + p
  have hchp : (channels.flatMap (fun ch => (iota planes).map (fun p => (ch, p + 1))))[c * planes.toNat + p]? = some (ch, (p : Int) + 1) := by
    rw [flatMap_getElem_const _ planes.toNat channels c p ch (fun y _ => by rw [List.length_map, iota_length_nat]) hP hch]
    rw [List.getElem?_map, iota_getElem planes p hp]
    rfl
  have hlenchunk : ∀ y ∈ (channels.flatMap (fun ch => (iota planes).map (fun p => (ch, p + 1)))),
      (iterChunk tr tc R C g (fun si => g.oz + ((si - 1 : Int) : Rat) * sbs) y).length = (nTiles R tr).toNat * (nTiles C tc).toNat := by
    intro y _
    rw [chunk_length, List.length_map]
    unfold gridPos
    rw [flatMap_const_length _ _ (nTiles C tc).toNat (fun x _ => by rw [List.length_map, iota_length_nat]), iota_length_nat]
  rw [flatMap_getElem_const _ _ _ _ _ _ hlenchunk hinner hchp]
  -- inside the chunk: tile (i, j)
  unfold iterChunk tpOf
  rw [List.getElem?_map]
  rw [flatMap_getElem_const _ (nTiles C tc).toNat (iota (nTiles R tr)) i j (i : Int)
    (fun y _ => by rw [List.length_map, iota_length_nat]) hNC (iota_getElem _ i hi)]
  rw [List.getElem?_map, iota_getElem _ j hj]
  have hz : g.oz + ((((p : Int) + 1 - 1 : Int) : Int) : Rat) * sbs = g.oz + (p : Rat) * sbs := by
    have : ((p : Int) + 1 - 1 : Int) = (p : Int) := by omega
    rw [this]; push_cast; rfl
  simp only [Option.map_some, hz]


/-- frame numbers outside `1 .. number of frames` are refused -/
theorem framePosition_out_of_range (channels : List (Option Int)) (planes tr tc R C : Int) (g : Geo) (sbs : Rat)
    (hr : 1 ≤ tr) (hc : 1 ≤ tc) (hR : 1 ≤ R) (hC : 1 ≤ C) (hp : 0 ≤ planes) (k : Int)
    (hk : k < 1 ∨ (channels.length : Int) * planes * (nTiles R tr * nTiles C tc) < k) :
    ∃ e, framePosition channels planes tr tc R C g sbs k = .error e := by
  unfold framePosition
  have hsl : tiledFullFrameSlice k = .ok (k - 1, k) := by unfold tiledFullFrameSlice; rfl
  rw [hsl]
  simp only
  by_cases h0 : k - 1 < 0 ∨ k < 0
  · rw [if_pos h0]; exact ⟨_, rfl⟩
  · rw [if_neg h0]
    obtain ⟨l, hl, hlen⟩ := iterTiledFull_length channels planes tr tc R C g sbs hr hc hR hC hp
    rw [hl]
    simp only
    rw [if_neg (by omega)]
    have : l[(k - 1).toNat]? = none := by
      rw [List.getElem?_eq_none_iff]
      omega
    rw [this]
    exact ⟨_, rfl⟩

end HdVerif.TilingLemmas
