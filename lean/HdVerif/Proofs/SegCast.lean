import HdVerif.Proofs.SegEncode
/-! C01 helper lemmas, part 2: what `_check_segment_numbers` / `_check_and_cast_pixel_array` guarantee and what
`_get_segment_pixel_array` computes on the cast array. -/
namespace HdVerif.SegEncodeLemmas
open HdVerif HdVerif.Bits HdVerif.Gen HdVerif.FrameAccess HdVerif.SegEncode

/-! ## the same computations without the `astype` casts

The model (`segPlane`, `labelPlane`, `stretch`) has a wrap-around cast wherever the source has `astype(dtype)`.
The lemmas of this file are proved about the cast-free versions below; `cellE_eq_U` then shows that on everything
`castMask` lets through no cast ever wraps (which is exactly what would fail if a cast were moved in front of the
comparison with the segment number). -/

def stretchU (t : SegType) (mfv : Nat) (b : List Nat) : List Nat :=
  if t = .fractional ∧ mfv ≠ 1 then b.map (· * mfv) else b

def segPlaneU (segs : List Nat) (t : SegType) (mfv : Nat) (s : Nat) : Plane → Except ErrKind (List Nat)
  | .fltStack px => do
      let a ← channel (s - 1) px
      pure (a.map (quantise mfv))
  | .fltLabel px => .ok (px.map (quantise mfv))
  | .intLabel px =>
      let b := if segs = [1] then px else px.map (fun v => if v = s then 1 else 0)
      .ok (stretchU t mfv b)
  | .intStack px => do
      let b ← channel (s - 1) px
      pure (stretchU t mfv b)

def labelPlaneU : Plane → Except ErrKind (List Nat)
  | .intLabel px => .ok px
  | _ => .error .other

def cellEU (arr : Mask) (segs : List Nat) (t : SegType) (mfv : Nat) (sg : Option Nat) (p : Nat) :
    Except ErrKind (List Nat) :=
  match arr.plane? p with
  | none => .error .index
  | some pl => match sg with
    | none => labelPlaneU pl
    | some s => segPlaneU segs t mfv s pl

/-! ## small list facts -/

theorem foldl_max_ge (l : List Nat) (a : Nat) : a ≤ l.foldl max a := by
  induction l generalizing a with
  | nil => simp
  | cons b t ih => simp only [List.foldl_cons]; exact Nat.le_trans (Nat.le_max_left a b) (ih _)

theorem foldl_max_mem (l : List Nat) (a v : Nat) (hv : v ∈ l) : v ≤ l.foldl max a := by
  induction l generalizing a with
  | nil => simp at hv
  | cons b t ih =>
    simp only [List.foldl_cons]
    rcases List.mem_cons.mp hv with rfl | h
    · exact Nat.le_trans (Nat.le_max_right a v) (foldl_max_ge t _)
    · exact ih _ h

theorem le_listMax (l : List Nat) (v : Nat) (hv : v ∈ l) : v ≤ listMax l := foldl_max_mem l 0 v hv

theorem foldl_max_le (l : List Nat) (a M : Nat) (ha : a ≤ M) (h : ∀ v ∈ l, v ≤ M) : l.foldl max a ≤ M := by
  induction l generalizing a with
  | nil => simpa
  | cons b t ih =>
    simp only [List.foldl_cons]
    exact ih _ (Nat.max_le.mpr ⟨ha, h b (by simp)⟩) (fun v hv => h v (by simp [hv]))

theorem listMax_le (l : List Nat) (M : Nat) (h : ∀ v ∈ l, v ≤ M) : listMax l ≤ M := foldl_max_le l 0 M (Nat.zero_le _) h

/-! ## `_check_segment_numbers` -/

/-- what the constructor knows about the described segment numbers once `checkSegs` passed -/
structure SegsOK (t : SegType) (segs : List Nat) : Prop where
  ne : segs ≠ []
  pos : ∀ s ∈ segs, 1 ≤ s
  nodup : segs.Nodup
  consec : t ≠ .labelmap → segs = List.range' 1 segs.length
  small : t = .labelmap → ∀ s ∈ segs, s ≤ 65535

theorem consecutiveFrom_eq (k : Nat) (l : List Nat) (h : consecutiveFrom k l = true) : l = List.range' k l.length := by
  induction l generalizing k with
  | nil => rfl
  | cons a t ih =>
    simp only [consecutiveFrom, Bool.and_eq_true, beq_iff_eq] at h
    obtain ⟨rfl, h2⟩ := h
    simp only [List.length_cons, List.range'_succ]
    rw [← ih _ h2]

theorem checkSegs_ok (t : SegType) (segs : List Nat) (h : checkSegs t segs = .ok ()) : SegsOK t segs := by
  unfold checkSegs at h
  split at h
  · simp at h
  · rename_i hne
    cases t with
    | labelmap =>
      simp only at h
      split at h
      · simp at h
      · rename_i h1
        split at h
        · simp at h
        · rename_i h2
          split at h
          · simp at h
          · rename_i h3
            split at h
            · simp at h
            · refine ⟨hne, ?_, by simpa using h3, by simp, ?_⟩
              · intro s hs
                have : ¬ (s == 0) = true := by
                  intro hc; apply h2; exact List.any_eq_true.mpr ⟨s, hs, hc⟩
                simp at this; omega
              · intro _ s hs
                have : ¬ (decide (s > 65535)) = true := by
                  intro hc; apply h1; exact List.any_eq_true.mpr ⟨s, hs, hc⟩
                simp at this; omega
    | binary =>
      simp only at h
      split at h
      · rename_i hc
        have e := consecutiveFrom_eq 1 segs hc
        refine ⟨hne, ?_, ?_, fun _ => e, by simp⟩
        · intro s hs; rw [e] at hs; simp [List.mem_range'] at hs; omega
        · rw [e]; exact List.nodup_range'
      · simp at h
    | fractional =>
      simp only at h
      split at h
      · rename_i hc
        have e := consecutiveFrom_eq 1 segs hc
        refine ⟨hne, ?_, ?_, fun _ => e, by simp⟩
        · intro s hs; rw [e] at hs; simp [List.mem_range'] at hs; omega
        · rw [e]; exact List.nodup_range'
      · simp at h

/-! ## channels -/

theorem mapE_ok_iff_mapO {α β ε} (f : α → Except ε β) (g : α → Option β)
    (hfg : ∀ a b, f a = .ok b ↔ g a = some b) (l : List α) (r : List β) :
    mapE f l = .ok r ↔ mapO g l = some r := by
  induction l generalizing r with
  | nil => simp [mapE, mapO, eq_comm]
  | cons a t ih =>
    simp only [mapE, mapO]
    cases hfa : f a with
    | error e =>
      have : g a = none := by
        cases hg : g a with
        | none => rfl
        | some b => have := (hfg a b).mpr hg; rw [hfa] at this; simp at this
      simp [this]
    | ok b =>
      have hga : g a = some b := (hfg a b).mp hfa
      simp only [hga]
      cases hm : mapE f t with
      | error e =>
        have : mapO g t = none := by
          cases ho : mapO g t with
          | none => rfl
          | some bs => have := (ih bs).mpr ho; rw [hm] at this; simp at this
        simp [this]
      | ok bs =>
        have := (ih bs).mp hm
        simp [this, eq_comm]

theorem channel_ok_iff {α} (k : Nat) (px : List (List α)) (a : List α) :
    channel k px = .ok a ↔ chanO k px = some a := by
  unfold channel chanO
  apply mapE_ok_iff_mapO
  intro ch b
  cases ch[k]? <;> simp

theorem chanO_some_of_lengths {α} (k : Nat) (px : List (List α)) (n : Nat) (hk : k < n)
    (h : ∀ ch ∈ px, ch.length = n) : ∃ a, chanO k px = some a ∧ a.length = px.length ∧
      ∀ i (hi : i < px.length) (ha : i < a.length), px[i][k]? = some a[i] := by
  unfold chanO
  induction px with
  | nil => exact ⟨[], rfl, rfl, by simp⟩
  | cons ch t ih =>
    obtain ⟨a, ha, hl, hall⟩ := ih (fun c hc => h c (by simp [hc]))
    have hch : k < ch.length := by rw [h ch (by simp)]; exact hk
    refine ⟨ch[k] :: a, ?_, by simp [hl], ?_⟩
    · simp [mapO, ha, List.getElem?_eq_getElem hch]
    · intro i hi hai
      cases i with
      | zero => simp [List.getElem?_eq_getElem hch]
      | succ i => simpa using hall i (by simpa using hi) (by simpa using hai)

theorem chanO_map {α β} (f : α → β) (k : Nat) (px : List (List α)) :
    chanO k (px.map (·.map f)) = (chanO k px).map (·.map f) := by
  unfold chanO
  induction px with
  | nil => simp [mapO]
  | cons ch t ih =>
    simp only [List.map_cons, mapO, ih, List.getElem?_map]
    cases ch[k]? <;> cases mapO (fun x => x[k]?) t <;> simp

/-! ## quantisation -/

theorem quantise_le (mfv : Nat) (x : Rat) (_h0 : 0 ≤ x) (h1 : x ≤ 1) : quantise mfv x ≤ mfv := by
  unfold quantise
  have hm : (0 : Rat) ≤ (mfv : Rat) := by positivity
  have h : x * (mfv : Rat) ≤ ((mfv : Int) : Rat) := by
    have : x * (mfv : Rat) ≤ 1 * (mfv : Rat) := mul_le_mul_of_nonneg_right h1 hm
    simpa using this
  have := rhe_le _ _ h
  omega

theorem quantise_zero (mfv : Nat) : quantise mfv 0 = 0 := by
  unfold quantise
  simp [rhe_zero]

/-! ## the cast array: invariant and consequences for every cell of the loop -/

/-- shape/range invariant of the array `castMask` hands to the frame loop (`n` pixels per plane) -/
def ArrOK (segs : List Nat) (t : SegType) (n : Nat) : Mask → Prop
  | .intLabel ps => ∀ pl ∈ ps, pl.length = n ∧ ∀ v ∈ pl, v ≤ listMax segs
  | .intStack ps => t ≠ .labelmap ∧ ∀ pl ∈ ps, pl.length = n ∧ ∀ ch ∈ pl, ch.length = segs.length ∧ ∀ v ∈ ch, v ≤ 1
  | .fltLabel ps => t = .fractional ∧ ∀ pl ∈ ps, pl.length = n ∧ ∀ x ∈ pl, 0 ≤ x ∧ x ≤ 1
  | .fltStack ps => t = .fractional ∧
      ∀ pl ∈ ps, pl.length = n ∧ ∀ ch ∈ pl, ch.length = segs.length ∧ ∀ x ∈ ch, 0 ≤ x ∧ x ≤ 1

theorem stretch_length (t : SegType) (mfv : Nat) (b : List Nat) : (stretchU t mfv b).length = b.length := by
  unfold stretchU; split <;> simp

theorem stretch_bound (t : SegType) (mfv : Nat) (b : List Nat) (hb : ∀ v ∈ b, v ≤ 1) (v : Nat)
    (hv : v ∈ stretchU t mfv b) : v ≤ 1 ∨ (t = .fractional ∧ v ≤ mfv) := by
  unfold stretchU at hv
  split at hv
  · rename_i h
    obtain ⟨w, hw, rfl⟩ := List.mem_map.mp hv
    right; refine ⟨h.1, ?_⟩
    have := hb w hw
    rcases (by omega : w = 0 ∨ w = 1) with rfl | rfl <;> simp
  · left; exact hb v hv

theorem stretch_zero (t : SegType) (mfv : Nat) (b : List Nat) (hb : b.any (· != 0) = false) :
    (stretchU t mfv b).any (· != 0) = false := by
  unfold stretchU
  split
  · rw [List.any_eq_false] at hb ⊢
    intro v hv
    obtain ⟨w, hw, rfl⟩ := List.mem_map.mp hv
    have := hb w hw
    simp at this; subst this; simp
  · exact hb

theorem unsignedDtype_spec (n : Nat) (b : Int) (h : unsignedDtype (n : Int) = .ok b) :
    (b = 8 ∧ n < 256) ∨ (b = 16 ∧ n < 65536) ∨ b = 32 := by
  unfold unsignedDtype at h
  grind (splits := 40)

theorem bits_bound (t : SegType) (segs : List Nat) (bits : Nat) (hbits : bitsFor t segs = .ok bits) :
    (bits = 1 ∨ bits = 8 ∨ bits = 16) ∧ (t = .binary → bits = 1) ∧ (t = .fractional → bits = 8) ∧
    (t = .labelmap → listMax segs < 2 ^ bits) := by
  unfold bitsFor at hbits
  cases t with
  | binary => simp at hbits; subst hbits; simp
  | fractional => simp at hbits; subst hbits; simp
  | labelmap =>
    simp only at hbits
    split at hbits
    · cases hbits
    · rename_i b hb
      split at hbits
      · cases hbits
      · rename_i h32
        split at hbits
        · cases hbits
        · simp only [Except.ok.injEq] at hbits
          rcases unsignedDtype_spec (listMax segs) b hb with ⟨rfl, hn⟩ | ⟨rfl, hn⟩ | rfl
          · simp at hbits; subst hbits; simp; omega
          · simp at hbits; subst hbits; simp; omega
          · exact absurd rfl h32

theorem mem_segmentsIterable (t : SegType) (segs : List Nat) (sg : Option Nat) :
    sg ∈ segmentsIterable t segs ↔ (t = .labelmap ∧ sg = none) ∨ (t ≠ .labelmap ∧ ∃ s ∈ segs, sg = some s) := by
  unfold segmentsIterable
  by_cases h : t = .labelmap
  · simp [h]
  · simp only [h, ↓reduceIte, List.mem_map, false_and, ne_eq, not_false_eq_true, true_and, false_or]
    constructor
    · rintro ⟨s, hs, rfl⟩; exact ⟨s, hs, rfl⟩
    · rintro ⟨s, hs, rfl⟩; exact ⟨s, hs, rfl⟩

/-- every cell the loop can visit: it is computed without error, has `n` pixels, fits the pixel depth, and is all
    zero when the whole plane is empty -/
theorem cell_factsU (segs : List Nat) (t : SegType) (mfv n : Nat) (arr : Mask) (hs : SegsOK t segs)
    (ha : ArrOK segs t n arr) (hmfv : t = .fractional → mfv ≤ 255) (bits : Nat) (hbits : bitsFor t segs = .ok bits)
    (sg : Option Nat) (hsg : sg ∈ segmentsIterable t segs) (p : Nat) (pl : Plane) (hp : arr.plane? p = some pl) :
    ∃ px, cellEU arr segs t mfv sg p = .ok px ∧ px.length = n ∧ (∀ v ∈ px, v < 2 ^ bits) ∧
      (pl.any mfv = false → px.any (· != 0) = false) := by
  obtain ⟨hb3, hb1, hb8, hbl⟩ := bits_bound t segs bits hbits
  unfold cellEU
  rw [hp]
  rcases (mem_segmentsIterable t segs sg).mp hsg with ⟨ht, rfl⟩ | ⟨ht, s, hsmem, rfl⟩
  · -- LABELMAP: the plane itself
    cases arr with
    | intLabel ps =>
      simp only [Mask.plane?] at hp
      cases hq : ps[p]? with
      | none => rw [hq] at hp; simp at hp
      | some px =>
        rw [hq] at hp; simp at hp; subst hp
        have hmem : px ∈ ps := List.mem_of_getElem? hq
        obtain ⟨hl, hv⟩ := ha px hmem
        refine ⟨px, rfl, hl, ?_, fun h => h⟩
        intro v hvm
        exact Nat.lt_of_le_of_lt (hv v hvm) (hbl ht)
    | intStack ps => exact absurd ht ha.1
    | fltLabel ps => have := ha.1; rw [ht] at this; cases this
    | fltStack ps => have := ha.1; rw [ht] at this; cases this
  · -- one segment of a BINARY / FRACTIONAL segmentation
    have hs1 : 1 ≤ s := hs.pos s hsmem
    have hsk : s - 1 < segs.length := by
      have := hs.consec ht
      rw [this] at hsmem
      simp [List.mem_range'] at hsmem
      omega
    have hbv : ∀ v, (v ≤ 1 ∨ (t = .fractional ∧ v ≤ mfv)) → v < 2 ^ bits := by
      intro v hv
      rcases hv with h | ⟨h1, h2⟩
      · rcases hb3 with rfl | rfl | rfl <;> omega
      · rw [hb8 h1]; have := hmfv h1; omega
    cases arr with
    | intLabel ps =>
      simp only [Mask.plane?] at hp
      cases hq : ps[p]? with
      | none => rw [hq] at hp; simp at hp
      | some px =>
        rw [hq] at hp; simp at hp; subst hp
        obtain ⟨hl, hv⟩ := ha px (List.mem_of_getElem? hq)
        simp only [segPlaneU]
        have hb : ∀ v ∈ (if segs = [1] then px else px.map (fun v => if v = s then 1 else 0)), v ≤ 1 := by
          intro v hvm
          split at hvm
          · rename_i h1; have := hv v hvm; rw [h1] at this; simpa [listMax] using this
          · obtain ⟨w, _, rfl⟩ := List.mem_map.mp hvm; split <;> omega
        refine ⟨_, rfl, ?_, fun v hvm => hbv v (stretch_bound t mfv _ hb v hvm), ?_⟩
        · rw [stretch_length]; split <;> simp [hl]
        · intro hany
          apply stretch_zero
          simp only [Plane.any] at hany
          split
          · exact hany
          · rw [List.any_eq_false] at hany ⊢
            intro v hvm
            obtain ⟨w, hw, rfl⟩ := List.mem_map.mp hvm
            have := hany w hw
            simp at this; subst this
            have : ¬ (0 = s) := by omega
            simp [this]
    | intStack ps =>
      simp only [Mask.plane?] at hp
      cases hq : ps[p]? with
      | none => rw [hq] at hp; simp at hp
      | some px =>
        rw [hq] at hp; simp at hp; subst hp
        obtain ⟨hl, hch⟩ := ha.2 px (List.mem_of_getElem? hq)
        obtain ⟨a, hao, hal, haa⟩ := chanO_some_of_lengths (s - 1) px segs.length hsk (fun ch hc => (hch ch hc).1)
        have hac := (channel_ok_iff (s - 1) px a).mpr hao
        simp only [segPlaneU, hac, bind, Except.bind, pure, Except.pure]
        have hb : ∀ v ∈ a, v ≤ 1 := by
          intro v hvm
          obtain ⟨i, hi, rfl⟩ := List.getElem_of_mem hvm
          have h1 := haa i (by omega) hi
          have hmem : a[i] ∈ px[i]'(by omega) := List.mem_of_getElem? h1
          exact (hch _ (List.getElem_mem _)).2 _ hmem
        refine ⟨_, rfl, by rw [stretch_length, hal, hl], fun v hvm => hbv v (stretch_bound t mfv _ hb v hvm), ?_⟩
        intro hany
        apply stretch_zero
        simp only [Plane.any] at hany
        rw [List.any_eq_false] at hany ⊢
        intro v hvm
        obtain ⟨i, hi, rfl⟩ := List.getElem_of_mem hvm
        have h1 := haa i (by omega) hi
        have hmem : a[i] ∈ px[i]'(by omega) := List.mem_of_getElem? h1
        have h2 := hany _ (List.getElem_mem (by omega : i < px.length))
        intro hc
        exact h2 (List.any_eq_true.mpr ⟨_, hmem, hc⟩)
    | fltLabel ps =>
      have htf := ha.1
      simp only [Mask.plane?] at hp
      cases hq : ps[p]? with
      | none => rw [hq] at hp; simp at hp
      | some px =>
        rw [hq] at hp; simp at hp; subst hp
        obtain ⟨hl, hx⟩ := ha.2 px (List.mem_of_getElem? hq)
        simp only [segPlaneU]
        refine ⟨_, rfl, by simp [hl], ?_, ?_⟩
        · intro v hvm
          obtain ⟨x, hxm, rfl⟩ := List.mem_map.mp hvm
          exact hbv _ (Or.inr ⟨htf, quantise_le mfv x (hx x hxm).1 (hx x hxm).2⟩)
        · intro hany
          simp only [Plane.any] at hany
          rw [List.any_eq_false] at hany ⊢
          intro v hvm
          obtain ⟨x, hxm, rfl⟩ := List.mem_map.mp hvm
          exact hany x hxm
    | fltStack ps =>
      have htf := ha.1
      simp only [Mask.plane?] at hp
      cases hq : ps[p]? with
      | none => rw [hq] at hp; simp at hp
      | some px =>
        rw [hq] at hp; simp at hp; subst hp
        obtain ⟨hl, hch⟩ := ha.2 px (List.mem_of_getElem? hq)
        obtain ⟨a, hao, hal, haa⟩ := chanO_some_of_lengths (s - 1) px segs.length hsk (fun ch hc => (hch ch hc).1)
        have hac := (channel_ok_iff (s - 1) px a).mpr hao
        simp only [segPlaneU, hac, bind, Except.bind, pure, Except.pure]
        refine ⟨_, rfl, by simp [hal, hl], ?_, ?_⟩
        · intro v hvm
          obtain ⟨x, hxm, rfl⟩ := List.mem_map.mp hvm
          obtain ⟨i, hi, rfl⟩ := List.getElem_of_mem hxm
          have h1 := haa i (by omega) hi
          have hmem : a[i] ∈ px[i]'(by omega) := List.mem_of_getElem? h1
          have := (hch _ (List.getElem_mem _)).2 _ hmem
          exact hbv _ (Or.inr ⟨htf, quantise_le mfv _ this.1 this.2⟩)
        · intro hany
          simp only [Plane.any] at hany
          rw [List.any_eq_false] at hany ⊢
          intro v hvm
          obtain ⟨x, hxm, rfl⟩ := List.mem_map.mp hvm
          obtain ⟨i, hi, rfl⟩ := List.getElem_of_mem hxm
          have h1 := haa i (by omega) hi
          have hmem : a[i] ∈ px[i]'(by omega) := List.mem_of_getElem? h1
          have h2 := hany _ (List.getElem_mem (by omega : i < px.length))
          intro hc
          exact h2 (List.any_eq_true.mpr ⟨_, hmem, hc⟩)

/-! ## combining stacked segments into a label map -/

theorem sumNat_eq (l : List Nat) : sumNat l = l.sum := by
  unfold sumNat
  have : ∀ a, l.foldl (· + ·) a = a + l.sum := by
    induction l with
    | nil => simp
    | cons b t ih => intro a; simp only [List.foldl_cons, List.sum_cons, ih]; omega
  simpa using this 0

theorem listMax_zero (l : List Nat) (h : ∀ v ∈ l, v = 0) : listMax l = 0 := by
  have := listMax_le l 0 (fun v hv => Nat.le_of_eq (h v hv))
  omega

theorem listMax_cons (a : Nat) (t : List Nat) : listMax (a :: t) = max a (listMax t) := by
  unfold listMax
  simp only [List.foldl_cons]
  have : ∀ (l : List Nat) (x y : Nat), l.foldl max (max x y) = max x (l.foldl max y) := by
    intro l
    induction l with
    | nil => simp
    | cons b r ih => intro x y; simp only [List.foldl_cons]; rw [Nat.max_assoc]; exact ih x (max y b)
  simpa using this t a 0

theorem mem_le_sum (l : List Nat) (v : Nat) (hv : v ∈ l) : v ≤ l.sum := by
  induction l with
  | nil => simp at hv
  | cons b t ih =>
    simp only [List.sum_cons]
    rcases List.mem_cons.mp hv with rfl | h
    · omega
    · have := ih h; omega

/-- a 0/1 list with at most one 1 that is not all zero: where the 1 is, and what `argmax` finds -/
theorem one_hot (ch : List Nat) (h01 : ∀ v ∈ ch, v ≤ 1) (hsum : ch.sum ≤ 1) (hne : ¬ ∀ v ∈ ch, v = 0) :
    listMax ch = 1 ∧ ∃ a, ch.idxOf 1 = a ∧ ∃ ha : a < ch.length, ch[a] = 1 ∧
      ∀ j (hj : j < ch.length), j ≠ a → ch[j] = 0 := by
  induction ch with
  | nil => simp at hne
  | cons b t ih =>
    have hb := h01 b (by simp)
    simp only [List.sum_cons] at hsum
    rcases (by omega : b = 0 ∨ b = 1) with rfl | rfl
    · have hne' : ¬ ∀ v ∈ t, v = 0 := by
        intro hc; apply hne; intro v hv
        rcases List.mem_cons.mp hv with rfl | h
        · rfl
        · exact hc v h
      obtain ⟨hm, a, hia, hal, ha1, hrest⟩ := ih (fun v hv => h01 v (by simp [hv])) (by omega) hne'
      refine ⟨by rw [listMax_cons, hm]; simp, a + 1, ?_, by simpa using hal, by simpa using ha1, ?_⟩
      · rw [List.idxOf_cons]; simp [hia]
      · intro j hj hja
        cases j with
        | zero => simp
        | succ j => simpa using hrest j (by simpa using hj) (by omega)
    · have hz : ∀ v ∈ t, v = 0 := by
        intro v hv
        have : v ≤ t.sum := mem_le_sum t v hv
        omega
      refine ⟨by rw [listMax_cons, listMax_zero t hz]; rfl, 0, by simp, by simp, by simp, ?_⟩
      intro j hj hja
      cases j with
      | zero => exact absurd rfl hja
      | succ j => simpa using hz _ (List.getElem_mem (by simpa using hj))

theorem stackLabel_zero (ch : List Nat) (hz : ∀ v ∈ ch, v = 0) : stackLabel ch = 0 := by
  unfold stackLabel
  split
  · rename_i v; exact hz v (by simp)
  · rw [listMax_zero ch hz]; simp

theorem stackLabel_onehot (ch : List Nat) (a : Nat) (hm : listMax ch = 1) (hia : ch.idxOf 1 = a)
    (hal : a < ch.length) (ha1 : ch[a] = 1) : stackLabel ch = a + 1 := by
  match ch, hm, hia, hal, ha1 with
  | [v], _, _, hal, ha1 =>
    simp at hal; subst hal
    simp at ha1; subst ha1; rfl
  | [], _, _, hal, _ => simp at hal
  | b :: c :: r, hm, hia, _, _ =>
    unfold stackLabel argmax
    rw [hm, hia]; simp

theorem nodup_getElem_ne (l : List Nat) (hnd : l.Nodup) (i j : Nat) (hi : i < l.length) (hj : j < l.length)
    (hij : i ≠ j) : l[i] ≠ l[j] := by
  have hp := List.pairwise_iff_getElem.mp hnd
  rcases Nat.lt_or_gt_of_ne hij with h | h
  · exact hp i j hi hj h
  · exact fun hc => hp j i hj hi h hc.symm

/-- **stacked → label map**: for a pixel whose channels are 0/1 with at most one 1, the combined label is a
    described number (or background) and is the number of segment `j` exactly where channel `j` is set -/
theorem combinePixel_spec (segs : List Nat) (hpos : ∀ s ∈ segs, 1 ≤ s) (hnd : segs.Nodup) (ch : List Nat)
    (hlen : ch.length = segs.length) (h01 : ∀ v ∈ ch, v ≤ 1) (hsum : sumNat ch ≤ 1) :
    ∃ v, combinePixel segs ch = .ok v ∧ v ≤ listMax segs ∧
      ∀ j (hj : j < segs.length) (hj' : j < ch.length), (if v = segs[j] then 1 else 0) = ch[j] := by
  rw [sumNat_eq] at hsum
  by_cases hz : ∀ v ∈ ch, v = 0
  · -- background
    refine ⟨0, ?_, Nat.zero_le _, ?_⟩
    · unfold combinePixel; rw [stackLabel_zero ch hz]; rfl
    · intro j hj hj'
      have h1 := hpos segs[j] (List.getElem_mem hj)
      have h0 := hz ch[j] (List.getElem_mem hj')
      have : ¬ (0 = segs[j]) := by omega
      simp [this, h0]
  · obtain ⟨hm, a, hia, hal, ha1, hrest⟩ := one_hot ch h01 hsum hz
    have has : a < segs.length := by omega
    refine ⟨segs[a], ?_, le_listMax _ _ (List.getElem_mem has), ?_⟩
    · unfold combinePixel; rw [stackLabel_onehot ch a hm hia hal ha1]
      simp [List.getElem?_eq_getElem has]
    · intro j hj hj'
      by_cases hja : j = a
      · subst hja; simp [ha1]
      · have h0 := hrest j hj' hja
        have : ¬ (segs[a] = segs[j]) := nodup_getElem_ne segs hnd a j has hj (fun h => hja h.symm)
        simp [this, h0]

/-! ## what `castMask` returns, shape by shape -/

theorem label_max_le (ps : List (List Nat)) (M : Nat) (h : listMax (ps.map listMax) ≤ M) :
    ∀ pl ∈ ps, ∀ v ∈ pl, v ≤ M := by
  intro pl hpl v hv
  have h1 : listMax pl ≤ listMax (ps.map listMax) := le_listMax _ _ (List.mem_map.mpr ⟨pl, hpl, rfl⟩)
  have h2 := le_listMax pl v hv
  omega

theorem nested_max_le (ps : List (List (List Nat))) (M : Nat)
    (h : listMax (ps.map fun pl => listMax (pl.map listMax)) ≤ M) :
    ∀ pl ∈ ps, ∀ ch ∈ pl, ∀ v ∈ ch, v ≤ M := by
  intro pl hpl ch hch v hv
  have h1 : listMax (pl.map listMax) ≤ listMax (ps.map fun pl => listMax (pl.map listMax)) :=
    le_listMax _ _ (List.mem_map.mpr ⟨pl, hpl, rfl⟩)
  have h2 : listMax ch ≤ listMax (pl.map listMax) := le_listMax _ _ (List.mem_map.mpr ⟨ch, hch, rfl⟩)
  have h3 := le_listMax ch v hv
  omega

theorem overlap_sum (n : Nat) (ps : List (List (List Nat)))
    (hch : ∀ pl ∈ ps, ∀ ch ∈ pl, ch.length = n ∧ ∀ v ∈ ch, v ≤ 1) (hov : overlapOfStack n ps ≠ .yes) :
    ∀ pl ∈ ps, ∀ ch ∈ pl, sumNat ch ≤ 1 := by
  intro pl hpl ch hc
  unfold overlapOfStack at hov
  simp only [] at hov
  split at hov
  · rename_i h0
    have hz : ∀ v ∈ ch, v = 0 := by
      intro v hv
      have := nested_max_le ps 0 (Nat.le_of_eq h0) pl hpl ch hc v hv
      omega
    rw [sumNat_eq]
    have : ∀ l : List Nat, (∀ v ∈ l, v = 0) → l.sum = 0 := by
      intro l
      induction l with
      | nil => simp
      | cons b r ih => intro h; simp [h b (by simp), ih (fun v hv => h v (by simp [hv]))]
    rw [this ch hz]; omega
  · split at hov
    · rename_i h1
      obtain ⟨hl, hv⟩ := hch pl hpl ch hc
      rw [sumNat_eq]
      match ch, hl, hv with
      | [v], _, hv => have := hv v (by simp); simpa using this
      | [], hl, _ => simp
      | a :: b :: r, hl, _ => simp at hl; omega
    · split at hov
      · exact absurd rfl hov
      · rename_i hany
        by_contra hc2
        apply hany
        exact List.any_eq_true.mpr ⟨pl, hpl, List.any_eq_true.mpr ⟨ch, hc, by simpa using hc2⟩⟩

theorem ratToNat_zero : ratToNat 0 = 0 := by
  unfold ratToNat
  have : (0 : Rat).floor = 0 := by simpa using Rat.floor_intCast 0
  simp [this]

theorem ratToNat_one : ratToNat 1 = 1 := by
  unfold ratToNat
  have : (1 : Rat).floor = 1 := by simpa using Rat.floor_intCast 1
  simp [this]

theorem ratToNat_bin (x : Rat) (h : x = 0 ∨ x = 1) : ratToNat x = if x = 1 then 1 else 0 := by
  rcases h with rfl | rfl
  · simp [ratToNat_zero]
  · simp [ratToNat_one]

theorem float_binary (x : Rat) (h1 : ¬ (x < 0 ∨ 1 < x)) (h2 : ¬ (0 < x ∧ x < 1)) : x = 0 ∨ x = 1 := by
  have a : 0 ≤ x := by by_contra h; exact h1 (Or.inl (lt_of_not_ge h))
  have b : x ≤ 1 := by by_contra h; exact h1 (Or.inr (lt_of_not_ge h))
  by_cases h0 : x = 0
  · left; exact h0
  · right
    have : 0 < x := lt_of_le_of_ne a (Ne.symm h0)
    by_contra h
    exact h2 ⟨this, lt_of_le_of_ne b h⟩

/-- how the array handed to the frame loop (`arr`) relates to the user's mask (`m`) -/
inductive CastRel (segs : List Nat) (t : SegType) : Mask → Mask → Prop
  | intLabel (ps : List (List Nat)) (hv : ∀ pl ∈ ps, ∀ v ∈ pl, v ≤ listMax segs) :
      CastRel segs t (.intLabel ps) (.intLabel ps)
  | intStack (ps : List (List (List Nat))) (ht : t ≠ .labelmap)
      (hch : ∀ pl ∈ ps, ∀ ch ∈ pl, ch.length = segs.length ∧ ∀ v ∈ ch, v ≤ 1) :
      CastRel segs t (.intStack ps) (.intStack ps)
  | intStackLM (ps : List (List (List Nat))) (lab : List (List Nat)) (ht : t = .labelmap)
      (hch : ∀ pl ∈ ps, ∀ ch ∈ pl, ch.length = segs.length ∧ ∀ v ∈ ch, v ≤ 1)
      (hsum : ∀ pl ∈ ps, ∀ ch ∈ pl, sumNat ch ≤ 1)
      (hlab : mapE (fun pl => mapE (combinePixel segs) pl) ps = .ok lab) :
      CastRel segs t (.intStack ps) (.intLabel lab)
  | fltLabelF (ps : List (List Rat)) (ht : t = .fractional) (hr : ∀ pl ∈ ps, ∀ x ∈ pl, 0 ≤ x ∧ x ≤ 1)
      (hone : segs.length ≤ 1) :
      CastRel segs t (.fltLabel ps) (.fltLabel ps)
  | fltLabelB (ps : List (List Rat)) (ht : t ≠ .fractional) (hbin : ∀ pl ∈ ps, ∀ x ∈ pl, x = 0 ∨ x = 1)
      (hdesc : (∃ pl ∈ ps, ∃ x ∈ pl, x = 1) → 1 ∈ segs) :
      CastRel segs t (.fltLabel ps) (.intLabel (ps.map (·.map ratToNat)))
  | fltStackF (ps : List (List (List Rat))) (ht : t = .fractional)
      (hch : ∀ pl ∈ ps, ∀ ch ∈ pl, ch.length = segs.length ∧ ∀ x ∈ ch, 0 ≤ x ∧ x ≤ 1) :
      CastRel segs t (.fltStack ps) (.fltStack ps)
  | fltStackB (ps : List (List (List Rat))) (ht : t = .binary)
      (hch : ∀ pl ∈ ps, ∀ ch ∈ pl, ch.length = segs.length ∧ ∀ x ∈ ch, x = 0 ∨ x = 1) :
      CastRel segs t (.fltStack ps) (.intStack (ps.map (·.map (·.map ratToNat))))
  | fltStackLM (ps : List (List (List Rat))) (lab : List (List Nat)) (ht : t = .labelmap)
      (hch : ∀ pl ∈ ps, ∀ ch ∈ pl, ch.length = segs.length ∧ ∀ x ∈ ch, x = 0 ∨ x = 1)
      (hsum : ∀ pl ∈ ps.map (·.map (·.map ratToNat)), ∀ ch ∈ pl, sumNat ch ≤ 1)
      (hlab : mapE (fun pl => mapE (combinePixel segs) pl) (ps.map (·.map (·.map ratToNat))) = .ok lab) :
      CastRel segs t (.fltStack ps) (.intLabel lab)

theorem castLabelmap_stack (segs : List Nat) (t : SegType) (ps : List (List (List Nat))) (ov : Overlap)
    (arr : Mask) (ov' : Overlap) (h : castLabelmap segs t (.intStack ps, ov) = .ok (arr, ov')) :
    (t ≠ .labelmap ∧ arr = .intStack ps) ∨
    (t = .labelmap ∧ ov ≠ .yes ∧ ∃ lab, mapE (fun pl => mapE (combinePixel segs) pl) ps = .ok lab ∧ arr = .intLabel lab) := by
  unfold castLabelmap at h
  by_cases ht : t = .labelmap
  · simp only [ht, ↓reduceIte] at h
    split at h
    · cases h
    · rename_i hov
      right
      refine ⟨ht, hov, ?_⟩
      split at h
      · rename_i lab hlab
        simp at h
        exact ⟨lab, hlab, h.1.symm⟩
      · simp at h
  · simp only [ht, ↓reduceIte] at h
    simp at h
    left; exact ⟨ht, h.1.symm⟩

theorem castLabelmap_other (segs : List Nat) (t : SegType) (a : Mask) (hns : ∀ ps, a ≠ .intStack ps) (ov : Overlap)
    (arr : Mask) (ov' : Overlap) (h : castLabelmap segs t (a, ov) = .ok (arr, ov')) : arr = a := by
  unfold castLabelmap at h
  by_cases ht : t = .labelmap
  · simp only [ht, ↓reduceIte] at h
    by_cases hov : ov = .yes
    · simp only [hov, ↓reduceIte] at h; cases h
    · simp only [hov, ↓reduceIte] at h
      cases a with
      | intStack ps => exact absurd rfl (hns ps)
      | intLabel ps => simp at h; exact h.1.symm
      | fltLabel ps => simp at h; exact h.1.symm
      | fltStack ps => simp at h; exact h.1.symm
  · simp only [ht, ↓reduceIte] at h
    simp at h; exact h.1.symm

theorem chanOk_int (n : Nat) (ps : List (List (List Nat))) (h : chanOk n (.intStack ps) = true) :
    ∀ pl ∈ ps, ∀ ch ∈ pl, ch.length = n := by
  intro pl hpl ch hch
  simp only [chanOk, List.all_eq_true] at h
  simpa using h pl hpl ch hch

theorem chanOk_flt (n : Nat) (ps : List (List (List Rat))) (h : chanOk n (.fltStack ps) = true) :
    ∀ pl ∈ ps, ∀ ch ∈ pl, ch.length = n := by
  intro pl hpl ch hch
  simp only [chanOk, List.all_eq_true] at h
  simpa using h pl hpl ch hch

theorem not_any₂ {α} (ps : List (List α)) (q : α → Prop) [DecidablePred q]
    (h : ¬ (ps.any (fun pl => pl.any (fun x => decide (q x))) = true)) : ∀ pl ∈ ps, ∀ x ∈ pl, ¬ q x := by
  intro pl hpl x hx hq
  apply h
  exact List.any_eq_true.mpr ⟨pl, hpl, List.any_eq_true.mpr ⟨x, hx, by simpa using hq⟩⟩

theorem not_any₃ {α} (ps : List (List (List α))) (q : α → Prop) [DecidablePred q]
    (h : ¬ (ps.any (fun pl => pl.any (fun ch => ch.any (fun x => decide (q x)))) = true)) :
    ∀ pl ∈ ps, ∀ ch ∈ pl, ∀ x ∈ ch, ¬ q x := by
  intro pl hpl ch hch x hx hq
  apply h
  exact List.any_eq_true.mpr ⟨pl, hpl, List.any_eq_true.mpr ⟨ch, hch, List.any_eq_true.mpr ⟨x, hx, by simpa using hq⟩⟩⟩

theorem undescribed_false (segs : List Nat) (ps : List (List Nat)) (h : undescribed segs ps = false) :
    ∀ pl ∈ ps, ∀ v ∈ pl, v ≤ listMax segs := by
  intro pl hpl v hvm
  unfold undescribed at h
  simp only [] at h
  split at h
  · rename_i hcons
    have hund : listMax (ps.map listMax) ≤ segs.length := by simpa using h
    have hvn := label_max_le ps _ hund pl hpl v hvm
    rcases Nat.eq_zero_or_pos v with rfl | hpos
    · exact Nat.zero_le _
    · have hn : segs.length ∈ segs := by
        simp only [Bool.and_eq_true, List.all_eq_true] at hcons
        have := hcons.1 segs.length (List.mem_range'_1.mpr ⟨by omega, by omega⟩)
        simpa using this
      have := le_listMax segs _ hn
      omega
  · have : v ∈ 0 :: segs := by
      by_contra hc
      have : (ps.any fun pl => pl.any fun v => decide ¬ v ∈ 0 :: segs) = true :=
        List.any_eq_true.mpr ⟨pl, hpl, List.any_eq_true.mpr ⟨v, hvm, by simpa using hc⟩⟩
      rw [this] at h; cases h
    rcases List.mem_cons.mp this with rfl | hv2
    · exact Nat.zero_le _
    · exact le_listMax segs v hv2

/-- **what an accepted mask looks like**: `castMask` succeeding pins down the cast array shape by shape -/
theorem castMask_rel (segs : List Nat) (t : SegType) (m arr : Mask) (ov : Overlap) (hs : SegsOK t segs)
    (h : castMask segs t m = .ok (arr, ov)) :
    CastRel segs t m arr ∧ m.numPlanes ≠ 0 ∧ ∀ sz ∈ m.planeSizes, sz ≠ 0 := by
  unfold castMask at h
  split at h
  · cases h
  · rename_i hchan
    split at h
    · cases h
    · rename_i hempty
      have hne : m.numPlanes ≠ 0 ∧ ∀ sz ∈ m.planeSizes, sz ≠ 0 := by
        constructor
        · intro hc; exact hempty (Or.inl hc)
        · intro sz hsz hc
          apply hempty; right
          exact List.any_eq_true.mpr ⟨sz, hsz, by simp [hc]⟩
      refine ⟨?_, hne⟩
      have hchan' : chanOk segs.length m = true := by simpa using hchan
      cases hv : castValues segs t m with
      | error e => rw [hv] at h; cases h
      | ok r =>
        rw [hv] at h
        simp only at h
        obtain ⟨a, ov0⟩ := r
        cases m with
        | intLabel ps =>
          simp only [castValues] at hv
          split at hv
          · cases hv
          · rename_i hund
            simp only [Except.ok.injEq, Prod.mk.injEq] at hv
            obtain ⟨rfl, rfl⟩ := hv
            have := castLabelmap_other segs t _ (by intro ps' hc; cases hc) _ _ _ h
            subst this
            exact CastRel.intLabel ps (undescribed_false segs ps (by simpa using hund))
        | intStack ps =>
          simp only [castValues] at hv
          split at hv
          · cases hv
          · rename_i hmax
            simp only [Except.ok.injEq, Prod.mk.injEq] at hv
            obtain ⟨rfl, rfl⟩ := hv
            have hle := nested_max_le ps 1 (by omega)
            have hch : ∀ pl ∈ ps, ∀ ch ∈ pl, ch.length = segs.length ∧ ∀ v ∈ ch, v ≤ 1 :=
              fun pl hpl ch hc => ⟨chanOk_int _ ps hchan' pl hpl ch hc, hle pl hpl ch hc⟩
            rcases castLabelmap_stack segs t ps _ _ _ h with ⟨ht, rfl⟩ | ⟨ht, hov, lab, hlab, rfl⟩
            · exact CastRel.intStack ps ht hch
            · exact CastRel.intStackLM ps lab ht hch (overlap_sum _ ps hch hov) hlab
        | fltLabel ps =>
          simp only [castValues] at hv
          split at hv
          · cases hv
          · rename_i hrange
            have hr := not_any₂ ps (fun x => x < 0 ∨ 1 < x) hrange
            split at hv
            · rename_i ht
              split at hv
              · cases hv
              · rename_i hone
                simp only [Except.ok.injEq, Prod.mk.injEq] at hv
                obtain ⟨rfl, rfl⟩ := hv
                have := castLabelmap_other segs t _ (by intro ps' hc; cases hc) _ _ _ h
                subst this
                refine CastRel.fltLabelF ps ht ?_ (by omega)
                intro pl hpl x hx
                have := hr pl hpl x hx
                constructor
                · by_contra hc; exact this (Or.inl (lt_of_not_ge hc))
                · by_contra hc; exact this (Or.inr (lt_of_not_ge hc))
            · rename_i ht
              split at hv
              · cases hv
              · rename_i hbin
                have hb := not_any₂ ps (fun x => 0 < x ∧ x < 1) hbin
                split at hv
                · cases hv
                · rename_i hdesc
                  simp only [Except.ok.injEq, Prod.mk.injEq] at hv
                  obtain ⟨rfl, rfl⟩ := hv
                  have := castLabelmap_other segs t _ (by intro ps' hc; cases hc) _ _ _ h
                  subst this
                  refine CastRel.fltLabelB ps ht
                    (fun pl hpl x hx => float_binary x (hr pl hpl x hx) (hb pl hpl x hx)) ?_
                  rintro ⟨pl, hpl, x, hx, rfl⟩
                  by_contra hns
                  apply hdesc
                  exact ⟨List.any_eq_true.mpr ⟨pl, hpl, List.any_eq_true.mpr ⟨1, hx, by simp⟩⟩, hns⟩
        | fltStack ps =>
          simp only [castValues] at hv
          split at hv
          · cases hv
          · rename_i hrange
            have hr := not_any₃ ps (fun x => x < 0 ∨ 1 < x) hrange
            have hl := chanOk_flt _ ps hchan'
            split at hv
            · rename_i ht
              simp only [Except.ok.injEq, Prod.mk.injEq] at hv
              obtain ⟨rfl, rfl⟩ := hv
              have := castLabelmap_other segs t _ (by intro ps' hc; cases hc) _ _ _ h
              subst this
              apply CastRel.fltStackF ps ht
              intro pl hpl ch hc
              refine ⟨hl pl hpl ch hc, ?_⟩
              intro x hx
              have := hr pl hpl ch hc x hx
              constructor
              · by_contra hc2; exact this (Or.inl (lt_of_not_ge hc2))
              · by_contra hc2; exact this (Or.inr (lt_of_not_ge hc2))
            · rename_i ht
              split at hv
              · cases hv
              · rename_i hbin
                have hb := not_any₃ ps (fun x => 0 < x ∧ x < 1) hbin
                simp only [Except.ok.injEq, Prod.mk.injEq] at hv
                obtain ⟨rfl, rfl⟩ := hv
                have hch : ∀ pl ∈ ps, ∀ ch ∈ pl, ch.length = segs.length ∧ ∀ x ∈ ch, x = 0 ∨ x = 1 :=
                  fun pl hpl ch hc => ⟨hl pl hpl ch hc, fun x hx => float_binary x (hr pl hpl ch hc x hx) (hb pl hpl ch hc x hx)⟩
                have hchi : ∀ pl ∈ ps.map (·.map (·.map ratToNat)), ∀ ch ∈ pl, ch.length = segs.length ∧ ∀ v ∈ ch, v ≤ 1 := by
                  intro pl hpl ch hc
                  obtain ⟨pl0, hpl0, rfl⟩ := List.mem_map.mp hpl
                  obtain ⟨ch0, hch0, rfl⟩ := List.mem_map.mp hc
                  refine ⟨by simp [(hch pl0 hpl0 ch0 hch0).1], ?_⟩
                  intro v hvm
                  obtain ⟨x, hx, rfl⟩ := List.mem_map.mp hvm
                  rw [ratToNat_bin x ((hch pl0 hpl0 ch0 hch0).2 x hx)]
                  split <;> omega
                rcases castLabelmap_stack segs t _ _ _ _ h with ⟨ht2, rfl⟩ | ⟨ht2, hov, lab, hlab, rfl⟩
                · have htb : t = .binary := by
                    cases t with
                    | binary => rfl
                    | fractional => exact absurd rfl ht
                    | labelmap => exact absurd rfl ht2
                  exact CastRel.fltStackB ps htb hch
                · exact CastRel.fltStackLM ps lab ht2 hch (overlap_sum _ _ hchi hov) hlab

/-! ## every cell equals the property's own expectation -/

/-- the factor the property speaks of: `max_fractional_value` for FRACTIONAL, 1 otherwise -/
def scaleOf (t : SegType) (mfv : Nat) : Nat := if t = .fractional then mfv else 1

theorem stretch_scale (t : SegType) (mfv : Nat) (a : List Nat) :
    stretchU t mfv a = a.map (· * scaleOf t mfv) := by
  unfold stretchU scaleOf
  by_cases h : t = .fractional
  · by_cases h1 : mfv = 1
    · simp [h, h1]
    · simp [h, h1]
  · simp [h]

theorem stretch_indicator (t : SegType) (mfv : Nat) (s : Nat) (px : List Nat) :
    stretchU t mfv (px.map fun v => if v = s then 1 else 0) = px.map fun v => if v = s then scaleOf t mfv else 0 := by
  rw [stretch_scale, List.map_map]
  apply List.map_congr_left
  intro v _
  simp only [Function.comp]
  split <;> simp

theorem lab_facts (segs : List Nat) (t : SegType) (hs : SegsOK t segs) (ps : List (List (List Nat)))
    (lab : List (List Nat))
    (hch : ∀ pl ∈ ps, ∀ ch ∈ pl, ch.length = segs.length ∧ ∀ v ∈ ch, v ≤ 1)
    (hsum : ∀ pl ∈ ps, ∀ ch ∈ pl, sumNat ch ≤ 1)
    (hlab : mapE (fun pl => mapE (combinePixel segs) pl) ps = .ok lab) :
    lab.length = ps.length ∧ ∀ i (hi : i < ps.length) (hi' : i < lab.length),
      lab[i].length = ps[i].length ∧ ∀ k (hk : k < ps[i].length) (hk' : k < lab[i].length),
        lab[i][k] ≤ listMax segs ∧
        ∀ j (hj : j < segs.length) (hj' : j < ps[i][k].length), (if lab[i][k] = segs[j] then 1 else 0) = ps[i][k][j] := by
  obtain ⟨hl, hall⟩ := mapE_ok_inv _ _ _ hlab
  refine ⟨hl, ?_⟩
  intro i hi hi'
  obtain ⟨hl2, hall2⟩ := mapE_ok_inv _ _ _ (hall i hi hi')
  refine ⟨hl2, ?_⟩
  intro k hk hk'
  have hc := hall2 k hk hk'
  have hmem1 : ps[i] ∈ ps := List.getElem_mem hi
  have hmem2 : ps[i][k] ∈ ps[i] := List.getElem_mem hk
  obtain ⟨v, hv, hvle, hvj⟩ := combinePixel_spec segs hs.pos hs.nodup ps[i][k] (hch _ hmem1 _ hmem2).1
    (hch _ hmem1 _ hmem2).2 (hsum _ hmem1 _ hmem2)
  rw [hv] at hc
  simp only [Except.ok.injEq] at hc
  subst hc
  exact ⟨hvle, hvj⟩

theorem plane_intLabel (ps : List (List Nat)) (p : Nat) (pl : Plane) (h : (Mask.intLabel ps).plane? p = some pl) :
    ∃ px, ps[p]? = some px ∧ pl = .intLabel px := by
  simp only [Mask.plane?] at h
  cases hq : ps[p]? with
  | none => rw [hq] at h; simp at h
  | some px => rw [hq] at h; simp at h; exact ⟨px, rfl, h.symm⟩

theorem plane_intStack (ps : List (List (List Nat))) (p : Nat) (pl : Plane) (h : (Mask.intStack ps).plane? p = some pl) :
    ∃ px, ps[p]? = some px ∧ pl = .intStack px := by
  simp only [Mask.plane?] at h
  cases hq : ps[p]? with
  | none => rw [hq] at h; simp at h
  | some px => rw [hq] at h; simp at h; exact ⟨px, rfl, h.symm⟩

theorem plane_fltLabel (ps : List (List Rat)) (p : Nat) (pl : Plane) (h : (Mask.fltLabel ps).plane? p = some pl) :
    ∃ px, ps[p]? = some px ∧ pl = .fltLabel px := by
  simp only [Mask.plane?] at h
  cases hq : ps[p]? with
  | none => rw [hq] at h; simp at h
  | some px => rw [hq] at h; simp at h; exact ⟨px, rfl, h.symm⟩

theorem plane_fltStack (ps : List (List (List Rat))) (p : Nat) (pl : Plane) (h : (Mask.fltStack ps).plane? p = some pl) :
    ∃ px, ps[p]? = some px ∧ pl = .fltStack px := by
  simp only [Mask.plane?] at h
  cases hq : ps[p]? with
  | none => rw [hq] at h; simp at h
  | some px => rw [hq] at h; simp at h; exact ⟨px, rfl, h.symm⟩

theorem seg_index (t : SegType) (segs : List Nat) (hs : SegsOK t segs) (ht : t ≠ .labelmap) (j : Nat)
    (hj : j < segs.length) : segs[j] = j + 1 := by
  have e := hs.consec ht
  have : segs[j] = (List.range' 1 segs.length)[j]'(by simpa using hj) := by
    congr 1
  rw [this, List.getElem_range']; omega

/-- **per type, layout and dtype**: what the loop stores for segment `segs[j]` in plane `p` (and, for LABELMAP,
    what the one-hot expansion of the stored label plane gives) is the property's expectation computed from the
    user's mask -/
theorem cell_specU (segs : List Nat) (t : SegType) (mfv : Nat) (m arr : Mask) (hs : SegsOK t segs)
    (hrel : CastRel segs t m arr) (j : Nat) (hj : j < segs.length) (p : Nat) (mpl : Plane)
    (hmp : m.plane? p = some mpl) :
    ∃ e, expectedPlane t mfv j segs[j] mpl = some e ∧
      (t ≠ .labelmap → cellEU arr segs t mfv (some segs[j]) p = .ok e) ∧
      (t = .labelmap → ∃ lab, cellEU arr segs t mfv none p = .ok lab ∧
          lab.map (fun v => if v = segs[j] then 1 else 0) = e) := by
  have hs1 : 1 ≤ segs[j] := hs.pos _ (List.getElem_mem hj)
  cases hrel with
  | intLabel ps hv =>
    obtain ⟨px, hq, rfl⟩ := plane_intLabel ps p mpl hmp
    refine ⟨_, rfl, ?_, ?_⟩
    · intro ht
      simp only [cellEU, hmp, segPlaneU]
      congr 1
      by_cases h1 : segs = [1]
      · have hsj : segs[j] = 1 := by
          have : j = 0 := by rw [h1] at hj; simpa using hj
          subst this; simp [h1]
        simp only [h1, ↓reduceIte]
        have hpx : px = px.map (fun v => if v = 1 then 1 else 0) := by
          apply List.ext_getElem (by simp)
          intro i hi1 hi2
          have := hv px (List.mem_of_getElem? hq) px[i] (List.getElem_mem hi1)
          rw [h1] at this
          simp only [List.getElem_map]
          have : px[i] ≤ 1 := by simpa [listMax] using this
          rcases (by omega : px[i] = 0 ∨ px[i] = 1) with h | h <;> simp [h]
        have hsj' : ([1] : List Nat)[j]'(by rw [h1] at hj; exact hj) = 1 := by
          have : j = 0 := by rw [h1] at hj; simpa using hj
          subst this; rfl
        conv => lhs; rw [hpx]
        rw [stretch_indicator]
        simp only [hsj', scaleOf]
      · simp only [h1, ↓reduceIte]
        rw [stretch_indicator]; rfl
    · intro ht
      refine ⟨px, ?_, ?_⟩
      · simp only [cellEU, hmp, labelPlaneU]
      · simp [ht]
  | intStack ps ht hch =>
    obtain ⟨px, hq, rfl⟩ := plane_intStack ps p mpl hmp
    have hmem := List.mem_of_getElem? hq
    obtain ⟨a, hao, _, _⟩ := chanO_some_of_lengths j px segs.length hj (fun ch hc => (hch px hmem ch hc).1)
    refine ⟨a.map (· * scaleOf t mfv), ?_, ?_, fun h => absurd h ht⟩
    · simp only [expectedPlane, hao, Option.map_some, scaleOf]
    · intro _
      have hsj := seg_index t segs hs ht j hj
      have hac := (channel_ok_iff j px a).mpr hao
      simp only [cellEU, hmp, segPlaneU, hsj, Nat.add_sub_cancel, hac, bind, Except.bind, pure, Except.pure,
        stretch_scale]
  | intStackLM ps lab ht hch hsum hlab =>
    obtain ⟨px, hq, rfl⟩ := plane_intStack ps p mpl hmp
    have hmem := List.mem_of_getElem? hq
    obtain ⟨hp, hpx⟩ : ∃ hp : p < ps.length, ps[p] = px := List.getElem?_eq_some_iff.mp hq
    obtain ⟨a, hao, hal, haa⟩ := chanO_some_of_lengths j px segs.length hj (fun ch hc => (hch px hmem ch hc).1)
    obtain ⟨hl, hall⟩ := lab_facts segs t hs ps lab hch hsum hlab
    have hpl : p < lab.length := by omega
    obtain ⟨hl2, hall2⟩ := hall p hp hpl
    refine ⟨a.map (· * scaleOf t mfv), ?_, fun h => absurd ht h, ?_⟩
    · simp only [expectedPlane, hao, Option.map_some, scaleOf]
    · intro _
      refine ⟨lab[p], ?_, ?_⟩
      · simp only [cellEU, Mask.plane?, List.getElem?_eq_getElem hpl, Option.map_some, labelPlaneU]
      · apply List.ext_getElem
        · simp only [List.length_map, hl2, hal, hpx]
        · intro k hk1 hk2
          simp only [List.length_map] at hk1 hk2
          simp only [List.getElem_map, scaleOf, ht]
          have hkp : k < ps[p].length := by omega
          have hjk : j < ps[p][k].length := by
            rw [(hch ps[p] (List.getElem_mem hp) ps[p][k] (List.getElem_mem hkp)).1]; exact hj
          have h1 := (hall2 k hkp hk1).2 j hj hjk
          have h2 := haa k (by rw [← hpx]; exact hkp) hk2
          have h3 : px[k]'(by rw [← hpx]; exact hkp) = ps[p][k] := by simp [hpx]
          rw [h1]
          have : ps[p][k][j]? = some a[k] := by rw [← h3]; exact h2
          rw [List.getElem?_eq_getElem hjk] at this
          simp only [Option.some.injEq] at this
          rw [this]; simp
  | fltLabelF ps ht hr hone =>
    obtain ⟨px, hq, rfl⟩ := plane_fltLabel ps p mpl hmp
    have hsj : segs[j] = 1 := by
      have := seg_index t segs hs (by rw [ht]; intro h; cases h) j hj
      omega
    refine ⟨px.map (quantise mfv), by simp [expectedPlane, ht, hsj], ?_, fun h => by rw [ht] at h; cases h⟩
    intro _
    simp only [cellEU, hmp, segPlaneU]
  | fltLabelB ps ht hbin _ =>
    obtain ⟨px, hq, rfl⟩ := plane_fltLabel ps p mpl hmp
    have hmem := List.mem_of_getElem? hq
    have harr : (Mask.intLabel (ps.map (·.map ratToNat))).plane? p = some (.intLabel (px.map ratToNat)) := by
      simp [Mask.plane?, hq]
    have hpoint : ∀ x ∈ px, (if ratToNat x = segs[j] then 1 else 0) = (if x = 1 ∧ segs[j] = 1 then 1 else 0) := by
      intro x hx
      rw [ratToNat_bin x (hbin px hmem x hx)]
      rcases hbin px hmem x hx with rfl | rfl
      · have : ¬ (0 = segs[j]) := by omega
        simp [this]
      · by_cases h : segs[j] = 1
        · simp [h]
        · have : ¬ (1 = segs[j]) := fun hc => h hc.symm
          simp [h, this]
    refine ⟨px.map (fun x => if x = 1 ∧ segs[j] = 1 then 1 else 0), by simp [expectedPlane, ht], ?_, ?_⟩
    · intro htl
      have htb : t = .binary := by
        cases t with
        | binary => rfl
        | fractional => exact absurd rfl ht
        | labelmap => exact absurd rfl htl
      simp only [cellEU, harr, segPlaneU]
      congr 1
      have hst : ∀ b, stretchU t mfv b = b := by intro b; unfold stretchU; simp [htb]
      rw [hst]
      by_cases h1 : segs = [1]
      · have hsj : segs[j] = 1 := by
          have : j = 0 := by rw [h1] at hj; simpa using hj
          subst this; simp [h1]
        rw [if_pos h1]
        apply List.map_congr_left
        intro x hx
        rw [ratToNat_bin x (hbin px hmem x hx), hsj]
        simp
      · simp only [h1, ↓reduceIte, List.map_map]
        apply List.map_congr_left
        intro x hx
        exact hpoint x hx
    · intro htl
      refine ⟨px.map ratToNat, by simp only [cellEU, harr, labelPlaneU], ?_⟩
      rw [List.map_map]
      apply List.map_congr_left
      intro x hx
      exact hpoint x hx
  | fltStackF ps ht hch =>
    obtain ⟨px, hq, rfl⟩ := plane_fltStack ps p mpl hmp
    have hmem := List.mem_of_getElem? hq
    obtain ⟨a, hao, _, _⟩ := chanO_some_of_lengths j px segs.length hj (fun ch hc => (hch px hmem ch hc).1)
    have htl : t ≠ .labelmap := by rw [ht]; intro h; cases h
    refine ⟨a.map (quantise mfv), by simp [expectedPlane, ht, hao], ?_, fun h => absurd h htl⟩
    intro _
    have hsj := seg_index t segs hs htl j hj
    have hac := (channel_ok_iff j px a).mpr hao
    simp only [cellEU, hmp, segPlaneU, hsj, Nat.add_sub_cancel, hac, bind, Except.bind, pure, Except.pure]
  | fltStackB ps ht hch =>
    obtain ⟨px, hq, rfl⟩ := plane_fltStack ps p mpl hmp
    have hmem := List.mem_of_getElem? hq
    obtain ⟨a, hao, hal, haa⟩ := chanO_some_of_lengths j px segs.length hj (fun ch hc => (hch px hmem ch hc).1)
    have htl : t ≠ .labelmap := by rw [ht]; intro h; cases h
    have htf : t ≠ .fractional := by rw [ht]; intro h; cases h
    have harr : (Mask.intStack (ps.map (·.map (·.map ratToNat)))).plane? p = some (.intStack (px.map (·.map ratToNat))) := by
      simp [Mask.plane?, hq]
    refine ⟨a.map (fun x => if x = 1 then 1 else 0), by simp [expectedPlane, htf, hao], ?_, fun h => absurd h htl⟩
    intro _
    have hsj := seg_index t segs hs htl j hj
    have hc2 : channel j (px.map (·.map ratToNat)) = .ok (a.map ratToNat) := by
      rw [channel_ok_iff, chanO_map, hao]; rfl
    have hst : ∀ b, stretchU t mfv b = b := by intro b; unfold stretchU; simp [ht]
    simp only [cellEU, harr, segPlaneU, hsj, Nat.add_sub_cancel, hc2, bind, Except.bind, pure, Except.pure, hst]
    congr 1
    apply List.ext_getElem (by simp)
    intro k hk1 hk2
    simp only [List.getElem_map]
    have hk : k < px.length := by simp at hk1; omega
    have h2 := haa k hk (by simpa using hk1)
    have hx : a[k]'(by simpa using hk1) ∈ px[k] := List.mem_of_getElem? h2
    exact ratToNat_bin _ ((hch px hmem px[k] (List.getElem_mem hk)).2 _ hx)
  | fltStackLM ps lab ht hch hsum hlab =>
    obtain ⟨px, hq, rfl⟩ := plane_fltStack ps p mpl hmp
    have hmem := List.mem_of_getElem? hq
    obtain ⟨hp, hpx⟩ : ∃ hp : p < ps.length, ps[p] = px := List.getElem?_eq_some_iff.mp hq
    obtain ⟨a, hao, hal, haa⟩ := chanO_some_of_lengths j px segs.length hj (fun ch hc => (hch px hmem ch hc).1)
    have htf : t ≠ .fractional := by rw [ht]; intro h; cases h
    have hchi : ∀ pl ∈ ps.map (·.map (·.map ratToNat)), ∀ ch ∈ pl, ch.length = segs.length ∧ ∀ v ∈ ch, v ≤ 1 := by
      intro pl hpl ch hc
      obtain ⟨pl0, hpl0, rfl⟩ := List.mem_map.mp hpl
      obtain ⟨ch0, hch0, rfl⟩ := List.mem_map.mp hc
      refine ⟨by simp [(hch pl0 hpl0 ch0 hch0).1], ?_⟩
      intro v hvm
      obtain ⟨x, hx, rfl⟩ := List.mem_map.mp hvm
      rw [ratToNat_bin x ((hch pl0 hpl0 ch0 hch0).2 x hx)]
      split <;> omega
    obtain ⟨hl, hall⟩ := lab_facts segs t hs _ lab hchi hsum hlab
    have hp' : p < (ps.map (·.map (·.map ratToNat))).length := by simpa using hp
    have hpl : p < lab.length := by omega
    obtain ⟨hl2, hall2⟩ := hall p hp' hpl
    refine ⟨a.map (fun x => if x = 1 then 1 else 0), by simp [expectedPlane, htf, hao], fun h => absurd ht h, ?_⟩
    intro _
    refine ⟨lab[p], ?_, ?_⟩
    · simp only [cellEU, Mask.plane?, List.getElem?_eq_getElem hpl, Option.map_some, labelPlaneU]
    · apply List.ext_getElem
      · simp only [List.length_map, hl2, hal, List.getElem_map, hpx]
      · intro k hk1 hk2
        simp only [List.length_map] at hk1 hk2
        simp only [List.getElem_map]
        have hkp : k < px.length := by omega
        have hkp' : k < ((List.map (fun (pl : List (List Rat)) => List.map (fun (ch : List Rat) => List.map ratToNat ch) pl) ps)[p]).length := by simp [hpx, hkp]
        have hjk : j < (((List.map (fun (pl : List (List Rat)) => List.map (fun (ch : List Rat) => List.map ratToNat ch) pl) ps)[p])[k]).length := by
          simp only [List.getElem_map, List.length_map]
          rw [(hch ps[p] (List.getElem_mem hp) _ (List.getElem_mem (by rw [hpx]; exact hkp))).1]; exact hj
        have h1 := (hall2 k hkp' hk1).2 j hj hjk
        rw [h1]
        have h2 := haa k hkp hk2
        simp only [List.getElem_map]
        have hjk2 : j < (px[k]).length := by rw [(hch px hmem px[k] (List.getElem_mem hkp)).1]; exact hj
        rw [List.getElem?_eq_getElem hjk2] at h2
        simp only [Option.some.injEq] at h2
        have hx : px[k][j] ∈ px[k] := List.getElem_mem hjk2
        have e1 : ps[p][k]'(by rw [hpx]; exact hkp) = px[k] := by simp [hpx]
        simp only [e1, h2]
        rw [← h2]
        exact ratToNat_bin _ ((hch px hmem px[k] (List.getElem_mem hkp)).2 _ hx)

theorem one_le_listMax (t : SegType) (segs : List Nat) (hs : SegsOK t segs) : 1 ≤ listMax segs := by
  obtain ⟨s, hsm⟩ := List.exists_mem_of_ne_nil segs hs.ne
  have := hs.pos s hsm
  have := le_listMax segs s hsm
  omega

theorem lab_arrOK (segs : List Nat) (t : SegType) (hs : SegsOK t segs) (n : Nat) (ps : List (List (List Nat)))
    (lab : List (List Nat)) (hn : ∀ pl ∈ ps, pl.length = n)
    (hch : ∀ pl ∈ ps, ∀ ch ∈ pl, ch.length = segs.length ∧ ∀ v ∈ ch, v ≤ 1)
    (hsum : ∀ pl ∈ ps, ∀ ch ∈ pl, sumNat ch ≤ 1)
    (hlab : mapE (fun pl => mapE (combinePixel segs) pl) ps = .ok lab) :
    ArrOK segs t n (.intLabel lab) ∧ lab.length = ps.length := by
  obtain ⟨hl, hall⟩ := lab_facts segs t hs ps lab hch hsum hlab
  refine ⟨?_, hl⟩
  intro pl hpl
  obtain ⟨i, hi, rfl⟩ := List.getElem_of_mem hpl
  obtain ⟨hl2, hall2⟩ := hall i (by omega) hi
  refine ⟨by rw [hl2]; exact hn _ (List.getElem_mem _), ?_⟩
  intro v hv
  obtain ⟨k, hk, rfl⟩ := List.getElem_of_mem hv
  exact (hall2 k (by omega) hk).1

/-- the invariant the frame loop relies on follows from acceptance by `castMask` -/
theorem arrOK_of_castRel (segs : List Nat) (t : SegType) (n : Nat) (m arr : Mask) (hs : SegsOK t segs)
    (hrel : CastRel segs t m arr) (hn : ∀ sz ∈ m.planeSizes, sz = n) :
    ArrOK segs t n arr ∧ arr.numPlanes = m.numPlanes := by
  cases hrel with
  | intLabel ps hv =>
    refine ⟨?_, rfl⟩
    intro pl hpl
    exact ⟨hn _ (List.mem_map.mpr ⟨pl, hpl, rfl⟩), hv pl hpl⟩
  | intStack ps ht hch =>
    refine ⟨⟨ht, ?_⟩, rfl⟩
    intro pl hpl
    exact ⟨hn _ (List.mem_map.mpr ⟨pl, hpl, rfl⟩), hch pl hpl⟩
  | intStackLM ps lab ht hch hsum hlab =>
    have hn' : ∀ pl ∈ ps, pl.length = n := fun pl hpl => hn _ (List.mem_map.mpr ⟨pl, hpl, rfl⟩)
    obtain ⟨h1, h2⟩ := lab_arrOK segs t hs n ps lab hn' hch hsum hlab
    exact ⟨h1, by simpa [Mask.numPlanes] using h2⟩
  | fltLabelF ps ht hr _ =>
    refine ⟨⟨ht, ?_⟩, rfl⟩
    intro pl hpl
    exact ⟨hn _ (List.mem_map.mpr ⟨pl, hpl, rfl⟩), hr pl hpl⟩
  | fltLabelB ps ht hbin _ =>
    refine ⟨?_, by simp [Mask.numPlanes]⟩
    intro pl hpl
    obtain ⟨pl0, hpl0, rfl⟩ := List.mem_map.mp hpl
    refine ⟨by rw [List.length_map]; exact hn _ (List.mem_map.mpr ⟨pl0, hpl0, rfl⟩), ?_⟩
    intro v hv
    obtain ⟨x, hx, rfl⟩ := List.mem_map.mp hv
    rw [ratToNat_bin x (hbin pl0 hpl0 x hx)]
    have := one_le_listMax t segs hs
    split <;> omega
  | fltStackF ps ht hch =>
    refine ⟨⟨ht, ?_⟩, rfl⟩
    intro pl hpl
    exact ⟨hn _ (List.mem_map.mpr ⟨pl, hpl, rfl⟩), hch pl hpl⟩
  | fltStackB ps ht hch =>
    have htl : t ≠ .labelmap := by rw [ht]; intro h; cases h
    refine ⟨⟨htl, ?_⟩, by simp [Mask.numPlanes]⟩
    intro pl hpl
    obtain ⟨pl0, hpl0, rfl⟩ := List.mem_map.mp hpl
    refine ⟨by rw [List.length_map]; exact hn _ (List.mem_map.mpr ⟨pl0, hpl0, rfl⟩), ?_⟩
    intro ch hc
    obtain ⟨ch0, hch0, rfl⟩ := List.mem_map.mp hc
    refine ⟨by simp [(hch pl0 hpl0 ch0 hch0).1], ?_⟩
    intro v hvm
    obtain ⟨x, hx, rfl⟩ := List.mem_map.mp hvm
    rw [ratToNat_bin x ((hch pl0 hpl0 ch0 hch0).2 x hx)]
    split <;> omega
  | fltStackLM ps lab ht hch hsum hlab =>
    have hn' : ∀ pl ∈ ps.map (·.map (·.map ratToNat)), pl.length = n := by
      intro pl hpl
      obtain ⟨pl0, hpl0, rfl⟩ := List.mem_map.mp hpl
      rw [List.length_map]; exact hn _ (List.mem_map.mpr ⟨pl0, hpl0, rfl⟩)
    have hchi : ∀ pl ∈ ps.map (·.map (·.map ratToNat)), ∀ ch ∈ pl, ch.length = segs.length ∧ ∀ v ∈ ch, v ≤ 1 := by
      intro pl hpl ch hc
      obtain ⟨pl0, hpl0, rfl⟩ := List.mem_map.mp hpl
      obtain ⟨ch0, hch0, rfl⟩ := List.mem_map.mp hc
      refine ⟨by simp [(hch pl0 hpl0 ch0 hch0).1], ?_⟩
      intro v hvm
      obtain ⟨x, hx, rfl⟩ := List.mem_map.mp hvm
      rw [ratToNat_bin x ((hch pl0 hpl0 ch0 hch0).2 x hx)]
      split <;> omega
    obtain ⟨h1, h2⟩ := lab_arrOK segs t hs n _ lab hn' hchi hsum hlab
    exact ⟨h1, by simpa [Mask.numPlanes] using h2⟩

/-! ## no cast ever wraps: the model with casts equals the cast-free computation -/

theorem wrap_id (w v : Nat) (h : v < 2 ^ w) : wrap w v = v := Nat.mod_eq_of_lt h

theorem map_wrap_id (w : Nat) (l : List Nat) (h : ∀ v ∈ l, v < 2 ^ w) : l.map (wrap w) = l := by
  conv => rhs; rw [← List.map_id l]
  apply List.map_congr_left
  intro v hv
  simp [wrap_id w v (h v hv)]

theorem mapO_mem {α β} (f : α → Option β) (l : List α) (r : List β) (h : mapO f l = some r) :
    ∀ b ∈ r, ∃ a ∈ l, f a = some b := by
  induction l generalizing r with
  | nil => simp [mapO] at h; subst h; simp
  | cons a t ih =>
    simp only [mapO] at h
    cases hfa : f a with
    | none => rw [hfa] at h; simp at h
    | some b0 =>
      cases hm : mapO f t with
      | none => rw [hfa, hm] at h; simp at h
      | some bs =>
        rw [hfa, hm] at h
        simp only [Option.some.injEq] at h
        subst h
        intro b hb
        rcases List.mem_cons.mp hb with rfl | hb'
        · exact ⟨a, by simp, hfa⟩
        · obtain ⟨a', ha', hf'⟩ := ih bs hm b hb'
          exact ⟨a', by simp [ha'], hf'⟩

theorem channel_mem {α} (k : Nat) (px : List (List α)) (a : List α) (h : channel k px = .ok a) :
    ∀ v ∈ a, ∃ ch ∈ px, v ∈ ch := by
  have := (channel_ok_iff k px a).mp h
  unfold chanO at this
  intro v hv
  obtain ⟨ch, hch, hk⟩ := mapO_mem _ _ _ this v hv
  exact ⟨ch, hch, List.mem_of_getElem? hk⟩

theorem stretch_eq_U (t : SegType) (mfv w : Nat) (b : List Nat) (hb : ∀ v ∈ b, v ≤ 1)
    (hw : t = .fractional → mfv < 2 ^ w) : stretch t mfv w b = stretchU t mfv b := by
  unfold stretch stretchU
  split
  · rename_i h
    apply List.map_congr_left
    intro v hv
    apply wrap_id
    have h1 := hb v hv
    have h2 := hw h.1
    rcases (by omega : v = 0 ∨ v = 1) with rfl | rfl
    · rw [Nat.zero_mul]; exact Nat.pos_of_ne_zero (by positivity)
    · rw [Nat.one_mul]; exact h2
  · rfl

/-- **on every cell the loop can visit, the model with its `astype` casts computes the same as without them** -/
theorem cellE_eq_U (segs : List Nat) (t : SegType) (mfv n : Nat) (arr : Mask) (hs : SegsOK t segs)
    (ha : ArrOK segs t n arr) (hmfv : t = .fractional → mfv ≤ 255) (bits : Nat) (hbits : bitsFor t segs = .ok bits)
    (sg : Option Nat) (hsg : sg ∈ segmentsIterable t segs) (p : Nat) (pl : Plane) (hp : arr.plane? p = some pl) :
    cellE arr segs t mfv sg p = cellEU arr segs t mfv sg p := by
  obtain ⟨hb3, hb1, hb8, hbl⟩ := bits_bound t segs bits hbits
  unfold cellE cellEU
  rw [hp]
  rcases (mem_segmentsIterable t segs sg).mp hsg with ⟨ht, rfl⟩ | ⟨ht, s, hsmem, rfl⟩
  · -- LABELMAP
    subst ht
    cases arr with
    | intLabel ps =>
      obtain ⟨px, hq, rfl⟩ := plane_intLabel ps p pl hp
      obtain ⟨_, hv⟩ := ha px (List.mem_of_getElem? hq)
      have hob : outBits .labelmap segs = .ok bits := hbits
      show labelPlane segs (.intLabel px) = labelPlaneU (.intLabel px)
      unfold labelPlane labelPlaneU
      rw [hob]
      simp only [bind, Except.bind, pure, Except.pure]
      rw [map_wrap_id bits px (fun v hvm => Nat.lt_of_le_of_lt (hv v hvm) (hbl rfl))]
    | intStack ps => exact absurd rfl ha.1
    | fltLabel ps => have := ha.1; cases this
    | fltStack ps => have := ha.1; cases this
  · have hob : outBits t segs = .ok 8 := by
      cases t with
      | binary => rfl
      | fractional => rfl
      | labelmap => exact absurd rfl ht
    have hw : t = .fractional → mfv < 2 ^ 8 := fun h => by have := hmfv h; omega
    simp only [segPlane, hob, bind, Except.bind]
    cases arr with
    | intLabel ps =>
      obtain ⟨px, hq, rfl⟩ := plane_intLabel ps p pl hp
      obtain ⟨_, hv⟩ := ha px (List.mem_of_getElem? hq)
      simp only [segPlaneU, pure, Except.pure]
      congr 1
      by_cases h1 : segs = [1]
      · simp only [h1, ↓reduceIte]
        have hle : ∀ v ∈ px, v ≤ 1 := by
          intro v hvm; have := hv v hvm; rw [h1] at this; simpa [listMax] using this
        rw [map_wrap_id 8 px (fun v hvm => by have := hle v hvm; omega)]
        exact stretch_eq_U t mfv 8 px hle hw
      · simp only [h1, ↓reduceIte]
        have e : px.map (fun v => wrap 8 (if v = s then 1 else 0)) = px.map (fun v => if v = s then 1 else 0) := by
          apply List.map_congr_left
          intro v _
          apply wrap_id
          split <;> omega
        rw [e]
        apply stretch_eq_U t mfv 8 _ _ hw
        intro v hvm
        obtain ⟨u, _, rfl⟩ := List.mem_map.mp hvm
        split <;> omega
    | intStack ps =>
      obtain ⟨px, hq, rfl⟩ := plane_intStack ps p pl hp
      obtain ⟨_, hch⟩ := ha.2 px (List.mem_of_getElem? hq)
      simp only [segPlaneU, bind, Except.bind]
      cases hc : channel (s - 1) px with
      | error e => rfl
      | ok b =>
        have hle : ∀ v ∈ b, v ≤ 1 := by
          intro v hvm
          obtain ⟨ch, hcm, hvc⟩ := channel_mem _ _ _ hc v hvm
          exact (hch ch hcm).2 v hvc
        simp only [pure, Except.pure]
        congr 1
        rw [map_wrap_id 8 b (fun v hvm => by have := hle v hvm; omega)]
        exact stretch_eq_U t mfv 8 b hle hw
    | fltLabel ps =>
      have htf := ha.1
      obtain ⟨px, hq, rfl⟩ := plane_fltLabel ps p pl hp
      obtain ⟨_, hx⟩ := ha.2 px (List.mem_of_getElem? hq)
      simp only [segPlaneU, pure, Except.pure]
      congr 1
      apply List.map_congr_left
      intro x hxm
      apply wrap_id
      have := quantise_le mfv x (hx x hxm).1 (hx x hxm).2
      have := hw htf
      omega
    | fltStack ps =>
      have htf := ha.1
      obtain ⟨px, hq, rfl⟩ := plane_fltStack ps p pl hp
      obtain ⟨_, hch⟩ := ha.2 px (List.mem_of_getElem? hq)
      simp only [segPlaneU, bind, Except.bind]
      cases hc : channel (s - 1) px with
      | error e => rfl
      | ok a =>
        simp only [pure, Except.pure]
        congr 1
        apply List.map_congr_left
        intro x hxm
        apply wrap_id
        obtain ⟨ch, hcm, hxc⟩ := channel_mem _ _ _ hc x hxm
        have hr := (hch ch hcm).2 x hxc
        have := quantise_le mfv x hr.1 hr.2
        have := hw htf
        omega

/-- every cell the loop can visit (model with casts): computed without error, `n` pixels, fits the pixel depth,
    all zero when the whole plane is empty -/
theorem cell_facts (segs : List Nat) (t : SegType) (mfv n : Nat) (arr : Mask) (hs : SegsOK t segs)
    (ha : ArrOK segs t n arr) (hmfv : t = .fractional → mfv ≤ 255) (bits : Nat) (hbits : bitsFor t segs = .ok bits)
    (sg : Option Nat) (hsg : sg ∈ segmentsIterable t segs) (p : Nat) (pl : Plane) (hp : arr.plane? p = some pl) :
    ∃ px, cellE arr segs t mfv sg p = .ok px ∧ px.length = n ∧ (∀ v ∈ px, v < 2 ^ bits) ∧
      (pl.any mfv = false → px.any (· != 0) = false) := by
  rw [cellE_eq_U segs t mfv n arr hs ha hmfv bits hbits sg hsg p pl hp]
  exact cell_factsU segs t mfv n arr hs ha hmfv bits hbits sg hsg p pl hp

end HdVerif.SegEncodeLemmas
