import HdVerif.Model.AliasTables
import HdVerif.Proofs.C20Tables.Alias_content
import HdVerif.Proofs.C20Tables.Alias_seg_content
import HdVerif.Proofs.C20Tables.Alias_seg_sop
import HdVerif.Proofs.C20Tables.Alias_ann_content
import HdVerif.Proofs.C20Tables.Alias_ann_sop
import HdVerif.Proofs.C20Tables.Alias_ko_content
import HdVerif.Proofs.C20Tables.Alias_ko_sop
import HdVerif.Proofs.C20Tables.Alias_sr_coding
import HdVerif.Proofs.C20Tables.Alias_sr_content
import HdVerif.Proofs.C20Tables.Alias_sr_sop
import HdVerif.Proofs.C20Tables.Alias_sr_value_types
import HdVerif.Proofs.C20Tables.Alias_sr_templates
import HdVerif.Proofs.C20Tables.Alias_image
import HdVerif.Proofs.C20Tables.Ctor_base
import HdVerif.Proofs.C20Tables.Ctor_content
import HdVerif.Proofs.C20Tables.Ctor_seg_content
import HdVerif.Proofs.C20Tables.Ctor_seg_sop
import HdVerif.Proofs.C20Tables.Ctor_pm_content
import HdVerif.Proofs.C20Tables.Ctor_pm_sop
import HdVerif.Proofs.C20Tables.Ctor_sc_sop
import HdVerif.Proofs.C20Tables.Ctor_sr_coding
import HdVerif.Proofs.C20Tables.Ctor_sr_content
import HdVerif.Proofs.C20Tables.Ctor_sr_sop
import HdVerif.Proofs.C20Tables.Ctor_sr_value_types
import HdVerif.Proofs.C20Tables.Ctor_sr_templates
import HdVerif.Proofs.C20Tables.Ctor_ko_content
import HdVerif.Proofs.C20Tables.Ctor_ko_sop
import HdVerif.Proofs.C20Tables.Ctor_ann_content
import HdVerif.Proofs.C20Tables.Ctor_ann_sop
import HdVerif.Proofs.C20Tables.Ctor_pr_content
import HdVerif.Proofs.C20Tables.Ctor_pr_sop
import HdVerif.Proofs.C20Tables.Ctor_legacy_sop
import HdVerif.Proofs.C20Tables.Ctor_volume
import HdVerif.Proofs.C20Tables.Ctor_coding_schemes
import HdVerif.Proofs.C20Tables.Ctor_color
import HdVerif.Proofs.C20Tables.Ctor_image
import HdVerif.Proofs.C20Tables.Ctor_io
import HdVerif.Proofs.C20Tables.Ctor_spatial
import HdVerif.Proofs.C20Tables.Ctor_sr_utils
import HdVerif.Proofs.C20Tables.Ctor_uid
/-! C20: the per-file kernel evaluations (`Proofs/C20Tables/*.lean`, one small module per regenerated program file) collected
into statements about the whole tables.  Nothing is evaluated here; a new program file has to be added to `Model/AliasTables.lean`
(otherwise the bridge `tie_tables_cover_package` fails) and gets its own module here (otherwise these two proofs fail). -/
namespace HdVerif.C20Tables
open HdVerif.Aliasing HdVerif.Gen

private theorem both {p : Entry → Bool} {a b : List Entry} (ha : a.all p = true) (hb : b.all p = true) :
    (a ++ b).all p = true := by rw [List.all_append, ha, hb]; rfl

/-- every converter program of the package passes `converterOk` -/
theorem allEntries_ok : (allEntries.all converterOk) = true :=
  (both (both (both (both (both (both (both (both (both (both (both (both alias_content_ok alias_seg_content_ok) alias_seg_sop_ok) alias_ann_content_ok) alias_ann_sop_ok) alias_ko_content_ok) alias_ko_sop_ok) alias_sr_coding_ok) alias_sr_content_ok) alias_sr_sop_ok) alias_sr_value_types_ok) alias_sr_templates_ok) alias_image_ok)

/-- every constructor program of the package passes `constructorOk` -/
theorem allCtors_ok : (allCtors.all constructorOk) = true :=
  (both (both (both (both (both (both (both (both (both (both (both (both (both (both (both (both (both (both (both (both (both (both (both (both (both (both ctor_base_ok ctor_content_ok) ctor_seg_content_ok) ctor_seg_sop_ok) ctor_pm_content_ok) ctor_pm_sop_ok) ctor_sc_sop_ok) ctor_sr_coding_ok) ctor_sr_content_ok) ctor_sr_sop_ok) ctor_sr_value_types_ok) ctor_sr_templates_ok) ctor_ko_content_ok) ctor_ko_sop_ok) ctor_ann_content_ok) ctor_ann_sop_ok) ctor_pr_content_ok) ctor_pr_sop_ok) ctor_legacy_sop_ok) ctor_volume_ok) ctor_coding_schemes_ok) ctor_color_ok) ctor_image_ok) ctor_io_ok) ctor_spatial_ok) ctor_sr_utils_ok) ctor_uid_ok)

theorem entry_ok {e : Entry} (he : e ∈ allEntries) : converterOk e = true := List.all_eq_true.mp allEntries_ok e he

theorem ctor_ok {e : Entry} (he : e ∈ allCtors) : constructorOk e = true := List.all_eq_true.mp allCtors_ok e he

end HdVerif.C20Tables
