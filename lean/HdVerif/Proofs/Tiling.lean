import HdVerif.Model.Tiling
import HdVerif.Proofs.RatFloor
import HdVerif.Proofs.TilingStd
/-! Helper lemmas for C04 / C12 (tiled images).  The property theorems are in `Props/C04.lean`, `Props/C12.lean`. -/
namespace HdVerif.TilingLemmas
open HdVerif HdVerif.Gen HdVerif.Tiling

/-! ## The translated region arithmetic (T5) -/

theorem tiledRegion_total (rs re cs ce rp cp th tw : Int) : ∃ v, tiledRegion rs re cs ce rp cp th tw = .ok v := by
  unfold tiledRegion
  exact ⟨_, rfl⟩

theorem tiledRegion_spec {rs re cs ce rp cp th tw ros cos vf hf a0 a1 b0 b1 o0 o1 p0 p1 : Int}
    (h : tiledRegion rs re cs ce rp cp th tw = .ok (ros, cos, vf, hf, ((a0, a1), (b0, b1)), ((o0, o1), (p0, p1)))) :
    ros = rs - th + 1 ∧ cos = cs - tw + 1 ∧
    vf = Int.fdiv (re - 2) th - Int.fdiv (rs - 1) th + 1 ∧ hf = Int.fdiv (ce - 2) tw - Int.fdiv (cs - 1) tw + 1 ∧
    a0 = max (rs - rp) 0 ∧ a1 = min (re - rp) th ∧ b0 = max (cs - cp) 0 ∧ b1 = min (ce - cp) tw ∧
    o0 = max (rp - rs) 0 ∧ o1 = min (rp + th - rs) (re - rs) ∧ p0 = max (cp - cs) 0 ∧ p1 = min (cp + tw - cs) (ce - cs) := by
  unfold tiledRegion at h
  simp only [Except.ok.injEq, Prod.mk.injEq] at h
  omega

/-- the WHERE clause in closed form -/
theorem selected_iff (rs re cs ce th tw : Int) (r : LutRow) :
    selected rs re cs ce th tw r = true ↔ (rs - th + 1 ≤ r.rp ∧ r.rp < re ∧ cs - tw + 1 ≤ r.cp ∧ r.cp < ce) := by
  obtain ⟨⟨ros, cos, vf, hf, ⟨⟨a0, a1⟩, ⟨b0, b1⟩⟩, ⟨⟨o0, o1⟩, ⟨p0, p1⟩⟩⟩, hv⟩ := tiledRegion_total rs re cs ce r.rp r.cp th tw
  have hs := tiledRegion_spec hv
  unfold selected
  rw [hv]
  simp only [Bool.and_eq_true, decide_eq_true_eq]
  omega

theorem instrOf_eq (rs re cs ce th tw : Int) (r : LutRow) :
    instrOf rs re cs ce th tw r = .ok ⟨r.fi, max (rs - r.rp) 0, min (re - r.rp) th, max (cs - r.cp) 0, min (ce - r.cp) tw,
      max (r.rp - rs) 0, min (r.rp + th - rs) (re - rs), max (r.cp - cs) 0, min (r.cp + tw - cs) (ce - cs)⟩ := by
  obtain ⟨⟨ros, cos, vf, hf, ⟨⟨a0, a1⟩, ⟨b0, b1⟩⟩, ⟨⟨o0, o1⟩, ⟨p0, p1⟩⟩⟩, hv⟩ := tiledRegion_total rs re cs ce r.rp r.cp th tw
  have hs := tiledRegion_spec hv
  unfold instrOf
  rw [hv]
  obtain ⟨_, _, _, _, h1, h2, h3, h4, h5, h6, h7, h8⟩ := hs
  simp only [h1, h2, h3, h4, h5, h6, h7, h8]

theorem expectedCount_eq (rs re cs ce th tw : Int) :
    expectedCount rs re cs ce th tw =
      .ok ((Int.fdiv (re - 2) th - Int.fdiv (rs - 1) th + 1) * (Int.fdiv (ce - 2) tw - Int.fdiv (cs - 1) tw + 1)) := by
  obtain ⟨⟨ros, cos, vf, hf, ⟨⟨a0, a1⟩, ⟨b0, b1⟩⟩, ⟨⟨o0, o1⟩, ⟨p0, p1⟩⟩⟩, hv⟩ := tiledRegion_total rs re cs ce 0 0 th tw
  have hs := tiledRegion_spec hv
  unfold expectedCount
  rw [hv]
  obtain ⟨_, _, h1, h2, _⟩ := hs
  simp only [h1, h2]

/-! ## One axis: the slices of a selected tile -/

/-- For a region `[s, e)` (1-based), a tile of size `t` at 1-based position `p` that is selected
(`s - t + 1 ≤ p < e`): both slices are inside their arrays, have the same length, the output slice is
exactly the part of the region the tile covers, and corresponding indices address the same matrix line. -/
theorem axis_slices (s e p t : Int) (ht : 1 ≤ t) (hse : s ≤ e) (h1 : s - t + 1 ≤ p) (h2 : p < e) :
    0 ≤ max (s - p) 0 ∧ max (s - p) 0 ≤ min (e - p) t ∧ min (e - p) t ≤ t ∧
    0 ≤ max (p - s) 0 ∧ max (p - s) 0 ≤ min (p + t - s) (e - s) ∧ min (p + t - s) (e - s) ≤ e - s ∧
    min (e - p) t - max (s - p) 0 = min (p + t - s) (e - s) - max (p - s) 0 ∧
    (∀ i, (max (p - s) 0 ≤ i ∧ i < min (p + t - s) (e - s)) ↔ (0 ≤ i ∧ i < e - s ∧ p ≤ s + i ∧ s + i < p + t)) ∧
    (∀ i, max (s - p) 0 + (i - max (p - s) 0) = s + i - p) := by
  refine ⟨by omega, by omega, by omega, by omega, by omega, by omega, by omega, ?_, ?_⟩
  · intro i; omega
  · intro i; omega

theorem pyNorm_id (x n : Int) (h0 : 0 ≤ x) (h1 : x ≤ n) : pyNorm x n = x := by
  unfold pyNorm; omega

/-- the tile of table row `r` covers output pixel `(i, j)` of a region starting at 1-based `(r0, c0)` -/
def covers (r0 c0 th tw : Int) (r : LutRow) (i j : Int) : Prop :=
  r.rp ≤ r0 + i ∧ r0 + i < r.rp + th ∧ r.cp ≤ c0 + j ∧ c0 + j < r.cp + tw

instance (r0 c0 th tw : Int) (r : LutRow) (i j : Int) : Decidable (covers r0 c0 th tw r i j) := by
  unfold covers; infer_instance

/-- one copy instruction of a selected tile: succeeds, and writes exactly the covered part of the region -/
theorem assign_selected {α} (out fr : Img α) (r0 r1 c0 c1 th tw : Int) (ht : 1 ≤ th) (hw : 1 ≤ tw)
    (hr : r0 ≤ r1) (hc : c0 ≤ c1) (r : LutRow) (hsel : selected r0 r1 c0 c1 th tw r = true) :
    ∃ ins, instrOf r0 r1 c0 c1 th tw r = .ok ins ∧ ins.fi = r.fi ∧
      assignSlice out (r1 - r0) (c1 - c0) fr th tw ins = .ok (fun i j =>
        if 0 ≤ i ∧ i < r1 - r0 ∧ 0 ≤ j ∧ j < c1 - c0 ∧ covers r0 c0 th tw r i j
        then fr (r0 + i - r.rp) (c0 + j - r.cp) else out i j) := by
  rw [selected_iff] at hsel
  obtain ⟨s1, s2, s3, s4⟩ := hsel
  refine ⟨_, instrOf_eq r0 r1 c0 c1 th tw r, rfl, ?_⟩
  obtain ⟨ra1, ra2, ra3, ra4, ra5, ra6, ra7, ra8, ra9⟩ := axis_slices r0 r1 r.rp th ht hr s1 s2
  obtain ⟨ca1, ca2, ca3, ca4, ca5, ca6, ca7, ca8, ca9⟩ := axis_slices c0 c1 r.cp tw hw hc s3 s4
  unfold assignSlice
  simp only
  rw [pyNorm_id _ _ ra4 (by omega), pyNorm_id _ _ (by omega) ra6, pyNorm_id _ _ ca4 (by omega), pyNorm_id _ _ (by omega) ca6,
    pyNorm_id _ _ ra1 (by omega), pyNorm_id _ _ (by omega) ra3, pyNorm_id _ _ ca1 (by omega), pyNorm_id _ _ (by omega) ca3]
  rw [if_neg (by omega)]
  congr 1
  funext i j
  have e1 := ra8 i
  have e2 := ca8 j
  have e3 := ra9 i
  have e4 := ca9 j
  unfold covers
  by_cases hcov : (max (r.rp - r0) 0 ≤ i ∧ i < min (r.rp + th - r0) (r1 - r0) ∧ max (r.cp - c0) 0 ≤ j ∧ j < min (r.cp + tw - c0) (c1 - c0))
  · rw [if_pos hcov, if_pos (by omega), e3, e4]
  · rw [if_neg hcov, if_neg (by omega)]

/-! ## The copy loop -/

/-- The copy loop over any list of selected tiles whose frames agree with a matrix `M` (0-based) on the
pixels they cover inside the region: it succeeds; every covered output pixel holds the matrix value
(however many tiles cover it and in whatever order), every other pixel keeps its initial value. -/
theorem copyLoop_spec {α} (M : Img α) (frames : List (Img α)) (r0 r1 c0 c1 th tw : Int) (ht : 1 ≤ th) (hw : 1 ≤ tw)
    (hr : r0 ≤ r1) (hc : c0 ≤ c1) (sel : List LutRow)
    (hsel : ∀ r ∈ sel, selected r0 r1 c0 c1 th tw r = true)
    (hfr : ∀ r ∈ sel, ∃ fr, frames[r.fi]? = some fr ∧ ∀ i j, 0 ≤ i → i < r1 - r0 → 0 ≤ j → j < c1 - c0 →
      covers r0 c0 th tw r i j → fr (r0 + i - r.rp) (c0 + j - r.cp) = M (r0 + i - 1) (c0 + j - 1))
    (out0 : Img α) :
    ∃ out, copyLoop frames r0 r1 c0 c1 th tw (r1 - r0) (c1 - c0) sel out0 = .ok out ∧
      ∀ i j, 0 ≤ i → i < r1 - r0 → 0 ≤ j → j < c1 - c0 →
        ((∃ r ∈ sel, covers r0 c0 th tw r i j) → out i j = M (r0 + i - 1) (c0 + j - 1)) ∧
        ((¬ ∃ r ∈ sel, covers r0 c0 th tw r i j) → out i j = out0 i j) := by
  induction sel generalizing out0 with
  | nil =>
    refine ⟨out0, rfl, ?_⟩
    intro i j _ _ _ _
    simp
  | cons r rest ih =>
    obtain ⟨fr, hfr1, hfr2⟩ := hfr r (by simp)
    obtain ⟨ins, hins, hfi, hass⟩ := assign_selected out0 fr r0 r1 c0 c1 th tw ht hw hr hc r (hsel r (by simp))
    obtain ⟨out, hout, hspec⟩ := ih (fun x hx => hsel x (by simp [hx])) (fun x hx => hfr x (by simp [hx]))
      (fun i j => if 0 ≤ i ∧ i < r1 - r0 ∧ 0 ≤ j ∧ j < c1 - c0 ∧ covers r0 c0 th tw r i j
        then fr (r0 + i - r.rp) (c0 + j - r.cp) else out0 i j)
    refine ⟨out, ?_, ?_⟩
    · unfold copyLoop
      rw [hins]
      simp only [hfr1, hass]
      exact hout
    · intro i j hi0 hi1 hj0 hj1
      obtain ⟨hs1, hs2⟩ := hspec i j hi0 hi1 hj0 hj1
      constructor
      · rintro ⟨x, hx, hcov⟩
        by_cases hrest : ∃ r' ∈ rest, covers r0 c0 th tw r' i j
        · exact hs1 hrest
        · rw [hs2 hrest]
          have hxr : x = r := by
            rcases List.mem_cons.mp hx with h | h
            · exact h
            · exact absurd ⟨x, h, hcov⟩ hrest
          subst hxr
          rw [if_pos ⟨hi0, hi1, hj0, hj1, hcov⟩]
          exact hfr2 i j hi0 hi1 hj0 hj1 hcov
      · intro hno
        have hrest : ¬ ∃ r' ∈ rest, covers r0 c0 th tw r' i j := by
          rintro ⟨x, hx, hcov⟩
          exact hno ⟨x, by simp [hx], hcov⟩
        rw [hs2 hrest]
        have hnr : ¬ covers r0 c0 th tw r i j := fun h => hno ⟨r, by simp, h⟩
        rw [if_neg (by intro h; exact hnr h.2.2.2.2)]

/-! ## Region reads -/

/-- frame `fr` holds the part of the `R × C` matrix `M` (0-based) under the tile at 1-based `(rp, cp)`;
what lies outside the matrix (padding of edge tiles) is unconstrained -/
def FrameCutFrom {α} (M : Img α) (R C th tw : Int) (rp cp : Int) (fr : Img α) : Prop :=
  ∀ a b, 0 ≤ a → a < th → 0 ≤ b → b < tw → rp - 1 + a < R → cp - 1 + b < C → fr a b = M (rp - 1 + a) (cp - 1 + b)

/-- every row of the table points to a stored frame that was cut from `M` at the row's position -/
def TableCutFrom {α} (M : Img α) (R C th tw : Int) (lut : List LutRow) (frames : List (Img α)) : Prop :=
  ∀ r ∈ lut, ∃ fr, frames[r.fi]? = some fr ∧ FrameCutFrom M R C th tw r.rp r.cp fr

/-- a 1-based matrix pixel `(gr, gc)` lies in the tile of row `r` -/
def inTile (th tw : Int) (r : LutRow) (gr gc : Int) : Prop :=
  r.rp ≤ gr ∧ gr < r.rp + th ∧ r.cp ≤ gc ∧ gc < r.cp + tw

theorem mem_sel_iff (rows : List LutRow) (r0 r1 c0 c1 th tw : Int) (r : LutRow) :
    r ∈ (rows.filter (selected r0 r1 c0 c1 th tw)).mergeSort lutLe ↔ r ∈ rows ∧ selected r0 r1 c0 c1 th tw r = true := by
  rw [List.mem_mergeSort, List.mem_filter]

/-- **General region read.**  For a table whose frames were cut from `M`, any accepted request with
`start ≤ end` on both axes (numpy refuses negative shapes) and no missing-frame test
(`allow_missing_combinations`, TILED_FULL, or the count of selected frames is the expected one) is answered; the output has the requested shape; every pixel
covered by some tile of the channel holds the matrix value, every other pixel is zero. -/
theorem readRegion_general {α} (z : α) (M : Img α) (lut : List LutRow) (frames : List (Img α)) (R C th tw : Int)
    (chan : Option Int) (rs re cs ce : Option Int) (asIdx full allowMissing : Bool)
    (ht : 1 ≤ th) (hw : 1 ≤ tw)
    (hu : uniqueKey chan lut = true)
    (hcut : TableCutFrom M R C th tw (chanRows chan lut) frames)
    (r0 r1 c0 c1 : Int) (hstd : stdRowColIndices rs re cs ce R C asIdx false = .ok (r0, r1, c0, c1))
    (hmiss : allowMissing = true ∨ full = true ∨
      (((chanRows chan lut).filter (selected r0 r1 c0 c1 th tw)).length : Int) =
        (Int.fdiv (r1 - 2) th - Int.fdiv (r0 - 1) th + 1) * (Int.fdiv (c1 - 2) tw - Int.fdiv (c0 - 1) tw + 1))
    (hr : r0 ≤ r1) (hc : c0 ≤ c1) :
    ∃ out, readRegion z lut frames R C th tw chan rs re cs ce asIdx full allowMissing = .ok (r1 - r0, c1 - c0, out) ∧
      ∀ i j, 0 ≤ i → i < r1 - r0 → 0 ≤ j → j < c1 - c0 →
        ((∃ r ∈ chanRows chan lut, inTile th tw r (r0 + i) (c0 + j)) → out i j = M (r0 - 1 + i) (c0 - 1 + j)) ∧
        ((¬ ∃ r ∈ chanRows chan lut, inTile th tw r (r0 + i) (c0 + j)) → out i j = z) := by
  obtain ⟨g1, g2, g3, g4, g5, g6, g7, g8⟩ := stdRowCol_range_num hstd
  have hspec := copyLoop_spec M frames r0 r1 c0 c1 th tw ht hw hr hc
    (((chanRows chan lut).filter (selected r0 r1 c0 c1 th tw)).mergeSort lutLe)
    (fun r hrm => ((mem_sel_iff _ _ _ _ _ _ _ r).mp hrm).2)
    (fun r hrm => by
      obtain ⟨fr, hfr, hcf⟩ := hcut r ((mem_sel_iff _ _ _ _ _ _ _ r).mp hrm).1
      refine ⟨fr, hfr, ?_⟩
      intro i j hi0 hi1 hj0 hj1 hcov
      unfold covers at hcov
      have := hcf (r0 + i - r.rp) (c0 + j - r.cp) (by omega) (by omega) (by omega) (by omega) (by omega) (by omega)
      rw [this]
      congr 1 <;> omega)
    (fun _ _ => z)
  obtain ⟨out, hout, hpix⟩ := hspec
  refine ⟨out, ?_, ?_⟩
  · unfold readRegion
    rw [hu, hstd]
    simp only [Bool.not_true, Bool.false_eq_true, if_false, expectedCount_eq]
    have hm : (!allowMissing && !full && decide (((((chanRows chan lut).filter (selected r0 r1 c0 c1 th tw)).mergeSort lutLe).length : Int) ≠
        (Int.fdiv (r1 - 2) th - Int.fdiv (r0 - 1) th + 1) * (Int.fdiv (c1 - 2) tw - Int.fdiv (c0 - 1) tw + 1))) = false := by
      rcases hmiss with h | h | h
      · simp [h]
      · simp [h]
      · rw [List.length_mergeSort, h]; simp
    rw [hm]
    simp only [Bool.false_eq_true, if_false]
    rw [if_neg (by omega), hout]
  · intro i j hi0 hi1 hj0 hj1
    obtain ⟨h1, h2⟩ := hpix i j hi0 hi1 hj0 hj1
    constructor
    · rintro ⟨r, hrm, hin⟩
      unfold inTile at hin
      have hsel : selected r0 r1 c0 c1 th tw r = true := by
        rw [selected_iff]; omega
      have := h1 ⟨r, (mem_sel_iff _ _ _ _ _ _ _ r).mpr ⟨hrm, hsel⟩, by unfold covers; omega⟩
      rw [this]
      congr 1 <;> omega
    · intro hno
      apply h2
      rintro ⟨r, hrm, hcov⟩
      exact hno ⟨r, ((mem_sel_iff _ _ _ _ _ _ _ r).mp hrm).1, by unfold covers at hcov; unfold inTile; omega⟩

end HdVerif.TilingLemmas
