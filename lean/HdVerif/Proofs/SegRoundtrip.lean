import HdVerif.Proofs.SegCast
import Mathlib.Data.List.Nodup
/-! C01 helper lemmas, part 3: assembling construction and read-back. -/
namespace HdVerif.SegEncodeLemmas
open HdVerif HdVerif.Bits HdVerif.Gen HdVerif.FrameAccess HdVerif.SegEncode

theorem segMfvGuard_ok (mfv : Nat) (v : Int) (h : segMfvGuard (mfv : Int) = .ok v) : 1 ≤ mfv ∧ mfv ≤ 255 := by
  unfold segMfvGuard at h
  grind (splits := 40)

theorem segMfvGuard_reject (mfv : Nat) (h : mfv < 1 ∨ 255 < mfv) : segMfvGuard (mfv : Int) = .error .value := by
  unfold segMfvGuard
  grind (splits := 40)

theorem checkArgs_inv (codec : Option Codec) (t : SegType) (segs : List Nat) (mfv bits : Nat)
    (h : checkArgs codec t segs mfv = .ok bits) :
    checkSegs t segs = .ok () ∧ (t = .fractional → 1 ≤ mfv ∧ mfv ≤ 255) ∧ ¬ (refusedForBinary codec = true ∧ t = .binary) ∧
    bitsFor t segs = .ok bits := by
  unfold checkArgs at h
  split at h
  · cases h
  · rename_i u hcs
    split at h
    · cases h
    · rename_i v hm
      split at h
      · cases h
      · rename_i hcb
        refine ⟨hcs, ?_, hcb, h⟩
        intro ht
        simp only [ht, ↓reduceIte] at hm
        exact segMfvGuard_ok mfv v hm

theorem build_inv (codec : Option Codec) (rows cols : Nat) (t : SegType) (segs : List Nat) (mfv : Nat) (omt : Bool)
    (order : List Nat) (m : Mask) (o : SegObj) (hb : build codec rows cols t segs mfv omt order m = .ok o) :
    ∃ bits arr ov frames pd, checkArgs codec t segs mfv = .ok bits ∧ castMask segs t m = .ok (arr, ov) ∧
      m.numPlanes = order.length ∧ (∀ sz ∈ m.planeSizes, sz = rows * cols) ∧
      storedFrames arr segs t mfv omt order = .ok frames ∧
      encodePixelData codec rows cols bits (frames.map (·.px)) = .ok pd ∧
      o = { rows, cols, bits, t, mfv, segs, keys := frames.map (fun f => (f.seg, f.plane)), pd } := by
  unfold build at hb
  split at hb
  · cases hb
  · rename_i bits hca
    split at hb
    · cases hb
    · rename_i r hcm
      split at hb
      · cases hb
      · rename_i hnp
        split at hb
        · cases hb
        · rename_i hsz
          split at hb
          · cases hb
          · rename_i frames hsf
            split at hb
            · cases hb
            · rename_i pd hpd
              simp only [Except.ok.injEq] at hb
              refine ⟨bits, r.1, r.2, frames, pd, hca, hcm, by simpa using hnp, ?_, hsf, hpd, hb.symm⟩
              intro sz hszm
              by_contra hc
              apply hsz
              exact List.any_eq_true.mpr ⟨sz, hszm, by simpa using hc⟩

/-! ## which planes the loop visits -/

theorem plane?_of_lt (arr : Mask) (p : Nat) (h : p < arr.numPlanes) : ∃ pl, arr.plane? p = some pl := by
  cases arr with
  | intLabel ps =>
    have h' : p < ps.length := h
    exact ⟨.intLabel ps[p], by simp only [Mask.plane?, List.getElem?_eq_getElem h', Option.map_some]⟩
  | intStack ps =>
    have h' : p < ps.length := h
    exact ⟨.intStack ps[p], by simp only [Mask.plane?, List.getElem?_eq_getElem h', Option.map_some]⟩
  | fltLabel ps =>
    have h' : p < ps.length := h
    exact ⟨.fltLabel ps[p], by simp only [Mask.plane?, List.getElem?_eq_getElem h', Option.map_some]⟩
  | fltStack ps =>
    have h' : p < ps.length := h
    exact ⟨.fltStack ps[p], by simp only [Mask.plane?, List.getElem?_eq_getElem h', Option.map_some]⟩

theorem planOrder_sub (arr : Mask) (omt : Bool) (order : List Nat) :
    ∀ p ∈ (planOrder arr mfv omt order).2, p ∈ order := by
  intro p hp
  unfold planOrder at hp
  split at hp
  · simp only [] at hp
    split at hp
    · exact hp
    · exact (List.mem_filter.mp hp).1
  · exact hp

theorem planOrder_nodup (arr : Mask) (omt : Bool) (order : List Nat) (h : order.Nodup) :
    (planOrder arr mfv omt order).2.Nodup := by
  unfold planOrder
  split
  · simp only []
    split
    · exact h
    · exact h.filter _
  · exact h

/-- a plane of the supplied order that the loop does not visit is entirely empty -/
theorem planOrder_skipped (arr : Mask) (omt : Bool) (order : List Nat) (p : Nat) (hp : p ∈ order)
    (hlt : p < arr.numPlanes) (hnot : p ∉ (planOrder arr mfv omt order).2) (pl : Plane) (hpl : arr.plane? p = some pl) :
    pl.any mfv = false := by
  unfold planOrder at hnot
  split at hnot
  · simp only [] at hnot
    split at hnot
    · exact absurd hp hnot
    · rw [List.mem_filter] at hnot
      have : ¬ (p ∈ (List.range arr.numPlanes).filter (planeNonEmpty arr mfv)) := by
        intro hc; apply hnot; exact ⟨hp, by simpa using hc⟩
      rw [List.mem_filter] at this
      cases h : pl.any mfv
      · rfl
      · exfalso; apply this
        refine ⟨List.mem_range.mpr hlt, ?_⟩
        simp only [planeNonEmpty, hpl, h]
  · exact absurd hp hnot

/-! ## the (segment, plane) keys of the stored frames are distinct -/

theorem filterMap_key_sublist {α β} (g : α → Option β) (key : β → α) (hk : ∀ c f, g c = some f → key f = c)
    (cs : List α) : ((cs.filterMap g).map key).Sublist cs := by
  induction cs with
  | nil => simp
  | cons c t ih =>
    simp only [List.filterMap_cons]
    cases hg : g c with
    | none => exact List.Sublist.cons _ ih
    | some f =>
      simp only [List.map_cons, hk c f hg]
      exact List.Sublist.cons_cons _ ih

theorem cells_nodup (t : SegType) (segs ord : List Nat) (hs : segs.Nodup) (ho : ord.Nodup) :
    (cells t segs ord).Nodup := by
  unfold cells
  rw [List.nodup_flatMap]
  constructor
  · intro sg _
    exact ho.map (fun a b h => by simpa using h)
  · have hiter : (segmentsIterable t segs).Nodup := by
      unfold segmentsIterable
      split
      · simp
      · exact hs.map (fun a b h => by simpa using h)
    refine List.Pairwise.imp ?_ hiter
    intro a b hab
    simp only [Function.onFun]
    intro x hx1 hx2
    obtain ⟨p, _, rfl⟩ := List.mem_map.mp hx1
    obtain ⟨q, _, hq⟩ := List.mem_map.mp hx2
    simp only [Prod.mk.injEq] at hq
    exact hab hq.1.symm

theorem keys_nodup (arr : Mask) (segs : List Nat) (t : SegType) (mfv : Nat) (omt : Bool) (ord : List Nat)
    (hs : segs.Nodup) (ho : ord.Nodup) :
    (((cells t segs ord).filterMap (cellFrame arr segs t mfv omt)).map (fun f => (f.seg, f.plane))).Nodup :=
  (filterMap_key_sublist _ _ (fun c f h => cellFrame_key arr segs t mfv omt c f h) _).nodup
    (cells_nodup t segs ord hs ho)

theorem plane?_lt (m : Mask) (p : Nat) (pl : Plane) (h : m.plane? p = some pl) : p < m.numPlanes := by
  cases m with
  | intLabel ps => obtain ⟨px, hq, _⟩ := plane_intLabel ps p pl h; exact (List.getElem?_eq_some_iff.mp hq).1
  | intStack ps => obtain ⟨px, hq, _⟩ := plane_intStack ps p pl h; exact (List.getElem?_eq_some_iff.mp hq).1
  | fltLabel ps => obtain ⟨px, hq, _⟩ := plane_fltLabel ps p pl h; exact (List.getElem?_eq_some_iff.mp hq).1
  | fltStack ps => obtain ⟨px, hq, _⟩ := plane_fltStack ps p pl h; exact (List.getElem?_eq_some_iff.mp hq).1

/-- `cell_specU` for the model with its casts -/
theorem cell_spec (segs : List Nat) (t : SegType) (mfv n : Nat) (m arr : Mask) (hs : SegsOK t segs)
    (hrel : CastRel segs t m arr) (hn : ∀ sz ∈ m.planeSizes, sz = n) (hmfv : t = .fractional → mfv ≤ 255)
    (bits : Nat) (hbits : bitsFor t segs = .ok bits) (j : Nat) (hj : j < segs.length) (p : Nat) (mpl : Plane)
    (hmp : m.plane? p = some mpl) :
    ∃ e, expectedPlane t mfv j segs[j] mpl = some e ∧
      (t ≠ .labelmap → cellE arr segs t mfv (some segs[j]) p = .ok e) ∧
      (t = .labelmap → ∃ lab, cellE arr segs t mfv none p = .ok lab ∧
          lab.map (fun v => if v = segs[j] then 1 else 0) = e) := by
  obtain ⟨harr, hnum⟩ := arrOK_of_castRel segs t n m arr hs hrel hn
  obtain ⟨apl, hapl⟩ := plane?_of_lt arr p (by have := plane?_lt m p mpl hmp; omega)
  obtain ⟨e, he, h1, h2⟩ := cell_specU segs t mfv m arr hs hrel j hj p mpl hmp
  refine ⟨e, he, ?_, ?_⟩
  · intro ht
    have hiter : some segs[j] ∈ segmentsIterable t segs := by
      simp only [segmentsIterable, ht, ↓reduceIte]
      exact List.mem_map.mpr ⟨segs[j], List.getElem_mem hj, rfl⟩
    rw [cellE_eq_U segs t mfv n arr hs harr hmfv bits hbits _ hiter p apl hapl]
    exact h1 ht
  · intro ht
    have hiter : (none : Option Nat) ∈ segmentsIterable t segs := by simp [segmentsIterable, ht]
    rw [cellE_eq_U segs t mfv n arr hs harr hmfv bits hbits _ hiter p apl hapl]
    exact h2 ht

/-! ## assembling -/

theorem mapE_exists_idx {α β ε} (f : α → Except ε β) (l : List α) (P : (i : Nat) → i < l.length → β → Prop)
    (h : ∀ i (hi : i < l.length), ∃ b, f l[i] = .ok b ∧ P i hi b) :
    ∃ r, mapE f l = .ok r ∧ r.length = l.length ∧ ∀ i (hi : i < l.length) (hr : i < r.length), P i hi r[i] := by
  induction l with
  | nil => exact ⟨[], rfl, rfl, by simp⟩
  | cons a t ih =>
    obtain ⟨b, hb, hpb⟩ := h 0 (by simp)
    obtain ⟨r, hr, hl, hall⟩ := ih (fun i hi b => P (i + 1) (by simpa using hi) b) (fun i hi => by
      have := h (i + 1) (by simpa using hi)
      simpa using this)
    refine ⟨b :: r, ?_, by simp [hl], ?_⟩
    · simp only [List.getElem_cons_zero] at hb
      simp only [mapE, hb, hr]
    · intro i hi hri
      cases i with
      | zero => simpa using hpb
      | succ i => simpa using hall i (by simpa using hi) (by simpa using hri)

theorem cellFrame_px (arr : Mask) (segs : List Nat) (t : SegType) (mfv : Nat) (omt : Bool) (c : Option Nat × Nat)
    (f : Frame) (h : cellFrame arr segs t mfv omt c = some f) : cellE arr segs t mfv c.1 c.2 = .ok f.px := by
  unfold cellFrame at h
  split at h
  · rename_i px hpx
    split at h
    · simp only [Option.some.injEq] at h; subst h; exact hpx
    · cases h
  · cases h

theorem planeSizes_length (m : Mask) : m.planeSizes.length = m.numPlanes := by
  cases m <;> simp [Mask.planeSizes, Mask.numPlanes]

/-- **construction followed by read-back** (helper form of the round-trip theorem) -/
theorem roundtrip_main (codec : Option Codec) (hcodec : ∀ c, codec = some c → ∀ x, c.dec (c.enc x) = x)
    (rows cols : Nat) (t : SegType) (segs : List Nat) (mfv : Nat) (omt : Bool) (order : List Nat) (m : Mask)
    (hcover : ∀ p, p < m.numPlanes → p ∈ order) (hin : ∀ p ∈ order, p < m.numPlanes) (hnd : order.Nodup)
    (request : List Nat) (hreq : ∀ p ∈ request, p < m.numPlanes)
    (o : SegObj) (hb : build codec rows cols t segs mfv omt order m = .ok o) :
    ∃ out, readBySource codec o request .assertEmpty = .ok out ∧ out.length = request.length ∧
      ∀ i (hi : i < request.length) (ho : i < out.length),
        out[i].length = segs.length ∧
        ∀ j (hj : j < segs.length) (hj' : j < out[i].length),
          ∃ mpl, m.plane? request[i] = some mpl ∧ expectedPlane t mfv j segs[j] mpl = some out[i][j] := by
  obtain ⟨bits, arr, ov, frames, pd, hca, hcm, hnp, hsz, hsf, hpd, rfl⟩ := build_inv _ _ _ _ _ _ _ _ _ _ hb
  obtain ⟨hcs, hmfv, _, hbits⟩ := checkArgs_inv _ _ _ _ _ hca
  have hs := checkSegs_ok t segs hcs
  obtain ⟨hrel, hnp0, hsz0⟩ := castMask_rel segs t m arr ov hs hcm
  obtain ⟨harr, hnum⟩ := arrOK_of_castRel segs t (rows * cols) m arr hs hrel hsz
  have hn : 0 < rows * cols := by
    have hl := planeSizes_length m
    have : m.planeSizes ≠ [] := by
      intro hc; rw [hc] at hl; simp at hl; exact hnp0 hl.symm
    obtain ⟨sz, hszm⟩ := List.exists_mem_of_ne_nil _ this
    have h1 := hsz sz hszm
    have h2 := hsz0 sz hszm
    omega
  -- every cell of every plane
  have cellok : ∀ sg ∈ segmentsIterable t segs, ∀ p, p < m.numPlanes →
      ∃ pl px, arr.plane? p = some pl ∧ cellE arr segs t mfv sg p = .ok px ∧ px.length = rows * cols ∧
        (∀ v ∈ px, v < 2 ^ bits) ∧ (pl.any mfv = false → px.any (· != 0) = false) := by
    intro sg hsg p hp
    obtain ⟨pl, hpl⟩ := plane?_of_lt arr p (by omega)
    obtain ⟨px, h1, h2, h3, h4⟩ := cell_facts segs t mfv (rows * cols) arr hs harr (fun h => (hmfv h).2) bits hbits sg hsg p pl hpl
    exact ⟨pl, px, hpl, h1, h2, h3, h4⟩
  have hcell : ∀ c ∈ cells t segs (planOrder arr mfv omt order).2, ∃ px, cellE arr segs t mfv c.1 c.2 = .ok px := by
    intro c hc
    obtain ⟨h1, h2⟩ := (mem_cells t segs _ c).mp hc
    obtain ⟨_, px, _, hpx, _⟩ := cellok c.1 h1 c.2 (hin _ (planOrder_sub arr omt order _ h2))
    exact ⟨px, hpx⟩
  rw [storedFrames_eq arr segs t mfv omt order hcell] at hsf
  simp only [Except.ok.injEq] at hsf
  subst hsf
  -- frames are read back as encoded
  have hfr : ∀ f ∈ (cells t segs (planOrder arr mfv omt order).2).filterMap (cellFrame arr segs t mfv (planOrder arr mfv omt order).1),
      f.px.length = rows * cols ∧ ∀ v ∈ f.px, v < 2 ^ bits := by
    intro f hf
    obtain ⟨c, hc, hcf⟩ := List.mem_filterMap.mp hf
    obtain ⟨h1, h2⟩ := (mem_cells t segs _ c).mp hc
    obtain ⟨_, px, _, hpx, hl, hr, _⟩ := cellok c.1 h1 c.2 (hin _ (planOrder_sub arr omt order _ h2))
    have := cellFrame_px _ _ _ _ _ _ _ hcf
    rw [hpx] at this
    simp only [Except.ok.injEq] at this
    subst this
    exact ⟨hl, hr⟩
  obtain ⟨hb3, _, _, _⟩ := bits_bound t segs bits hbits
  have hread : ∀ i (hi : i < ((cells t segs (planOrder arr mfv omt order).2).filterMap
        (cellFrame arr segs t mfv (planOrder arr mfv omt order).1)).length),
      readFrame codec
        { rows := rows, cols := cols, bits := bits, t := t, mfv := mfv, segs := segs,
          keys := ((cells t segs (planOrder arr mfv omt order).2).filterMap
            (cellFrame arr segs t mfv (planOrder arr mfv omt order).1)).map (fun f => (f.seg, f.plane)), pd := pd } i
        = .ok (((cells t segs (planOrder arr mfv omt order).2).filterMap
            (cellFrame arr segs t mfv (planOrder arr mfv omt order).1))[i]).px := by
    intro i hi
    have := readFrame_spec codec hcodec
      { rows := rows, cols := cols, bits := bits, t := t, mfv := mfv, segs := segs,
        keys := ((cells t segs (planOrder arr mfv omt order).2).filterMap
          (cellFrame arr segs t mfv (planOrder arr mfv omt order).1)).map (fun f => (f.seg, f.plane)), pd := pd }
      (((cells t segs (planOrder arr mfv omt order).2).filterMap
          (cellFrame arr segs t mfv (planOrder arr mfv omt order).1)).map (·.px))
      hb3 hn
      (by intro f hf; obtain ⟨g, hg, rfl⟩ := List.mem_map.mp hf; exact (hfr g hg).1)
      (by intro f hf; obtain ⟨g, hg, rfl⟩ := List.mem_map.mp hf; exact (hfr g hg).2)
      (by simp) hpd i (by simpa using hi)
    simpa using this
  -- value delivered for a key
  have hkey : ∀ sg ∈ segmentsIterable t segs, ∀ p, p < m.numPlanes → ∀ px,
      cellE arr segs t mfv sg p = .ok px →
      readKey codec
        { rows := rows, cols := cols, bits := bits, t := t, mfv := mfv, segs := segs,
          keys := ((cells t segs (planOrder arr mfv omt order).2).filterMap
            (cellFrame arr segs t mfv (planOrder arr mfv omt order).1)).map (fun f => (f.seg, f.plane)), pd := pd } (sg, p)
        = .ok px := by
    intro sg hsg p hp px hpx
    obtain ⟨pl, px', hpl, hpx', hl, _, hz⟩ := cellok sg hsg p hp
    rw [hpx] at hpx'
    simp only [Except.ok.injEq] at hpx'
    subst hpx'
    apply readKey_spec codec _ arr segs t mfv (planOrder arr mfv omt order).1 (cells t segs (planOrder arr mfv omt order).2)
      rfl hread (sg, p) px hpx hl
    intro hnotin
    apply hz
    have hnot : p ∉ (planOrder arr mfv omt order).2 := by
      intro hc; apply hnotin; exact (mem_cells t segs _ (sg, p)).mpr ⟨hsg, hc⟩
    exact planOrder_skipped arr omt order p (hcover p hp) (by omega) hnot pl hpl
  -- the read
  unfold readBySource
  have hkn := keys_nodup arr segs t mfv (planOrder arr mfv omt order).1 (planOrder arr mfv omt order).2 hs.nodup
    (planOrder_nodup arr omt order hnd)
  simp only [hkn, not_true_eq_false, ↓reduceIte, missingRefusal]
  apply mapE_exists_idx _ request
    (fun i hi (row : List (List Nat)) => row.length = segs.length ∧ ∀ j (hj : j < segs.length) (hj' : j < row.length),
      ∃ mpl, m.plane? request[i] = some mpl ∧ expectedPlane t mfv j segs[j] mpl = some row[j])
  intro i hi
  have hp := hreq request[i] (List.getElem_mem hi)
  obtain ⟨mpl, hmpl⟩ := plane?_of_lt m request[i] hp
  unfold readRow
  by_cases ht : t = .labelmap
  · simp only [ht, ↓reduceIte]
    have hiter : (none : Option Nat) ∈ segmentsIterable t segs := by simp [segmentsIterable, ht]
    obtain ⟨_, lab, _, hlab, _, _, _⟩ := cellok none hiter request[i] hp
    have hk := hkey none hiter request[i] hp lab hlab
    subst ht
    simp only [hk]
    refine ⟨_, rfl, by simp, ?_⟩
    intro j hj hj'
    obtain ⟨e, he, _, h2⟩ := cell_spec segs .labelmap mfv (rows * cols) m arr hs hrel hsz (fun h => (hmfv h).2) bits hbits j hj request[i] mpl hmpl
    obtain ⟨lab', hlab', hmap⟩ := h2 rfl
    rw [hlab] at hlab'
    simp only [Except.ok.injEq] at hlab'
    subst hlab'
    refine ⟨mpl, hmpl, ?_⟩
    rw [he]
    simp only [List.getElem_map, hmap]
  · simp only [ht, ↓reduceIte]
    have := mapE_exists_idx (fun s => readKey codec
          { rows := rows, cols := cols, bits := bits, t := t, mfv := mfv, segs := segs,
            keys := ((cells t segs (planOrder arr mfv omt order).2).filterMap
              (cellFrame arr segs t mfv (planOrder arr mfv omt order).1)).map (fun f => (f.seg, f.plane)), pd := pd }
          (some s, request[i])) segs
      (fun j hj (b : List Nat) => expectedPlane t mfv j segs[j] mpl = some b)
      (by
        intro j hj
        obtain ⟨e, he, h1, _⟩ := cell_spec segs t mfv (rows * cols) m arr hs hrel hsz (fun h => (hmfv h).2) bits hbits j hj request[i] mpl hmpl
        have hiter : some segs[j] ∈ segmentsIterable t segs := by
          simp only [segmentsIterable, ht, ↓reduceIte]
          exact List.mem_map.mpr ⟨segs[j], List.getElem_mem hj, rfl⟩
        exact ⟨e, hkey (some segs[j]) hiter request[i] hp e (h1 ht), he⟩)
    obtain ⟨row, hrow, hl, hall⟩ := this
    refine ⟨row, hrow, hl, ?_⟩
    intro j hj hj'
    exact ⟨mpl, hmpl, hall j hj hj'⟩

/-! ## the constructor accepts what passes its checks (so the round-trip theorem is not vacuous) -/

theorem nativeBits_ok (rows cols : Nat) (frames : List (List Bool)) : ∃ b, nativeBits rows cols frames = .ok b :=
  ⟨_, nativeBits_eq_packLoop rows cols frames⟩

theorem encodePixelData_ok (codec : Option Codec) (rows cols bits : Nat) (F : List (List Nat)) :
    ∃ pd, encodePixelData codec rows cols bits F = .ok pd := by
  unfold encodePixelData
  cases codec with
  | some c => exact ⟨_, rfl⟩
  | none =>
    simp only [bind, Except.bind]
    by_cases h1 : bits = 1
    · simp only [h1, ↓reduceIte]
      obtain ⟨b, hb⟩ := nativeBits_ok rows cols (F.map (·.map (· != 0)))
      obtain ⟨x, hx⟩ := padEven_ok b
      exact ⟨.native (b ++ x), by simp only [hb, hx, pure, Except.pure]⟩
    · simp only [h1, ↓reduceIte, pure, Except.pure]
      obtain ⟨x, hx⟩ := padEven_ok (F.flatMap fun f => f.flatMap (leBytes bits))
      exact ⟨.native ((F.flatMap fun f => f.flatMap (leBytes bits)) ++ x), by simp only [hx]⟩

theorem build_total (codec : Option Codec) (rows cols : Nat) (t : SegType) (segs : List Nat) (mfv : Nat) (omt : Bool)
    (order : List Nat) (m : Mask) (bits : Nat) (arr : Mask) (ov : Overlap)
    (hca : checkArgs codec t segs mfv = .ok bits) (hcm : castMask segs t m = .ok (arr, ov))
    (hnp : m.numPlanes = order.length) (hsz : ∀ sz ∈ m.planeSizes, sz = rows * cols)
    (hin : ∀ p ∈ order, p < m.numPlanes) :
    ∃ o, build codec rows cols t segs mfv omt order m = .ok o := by
  obtain ⟨hcs, hmfv, _, hbits⟩ := checkArgs_inv _ _ _ _ _ hca
  have hs := checkSegs_ok t segs hcs
  obtain ⟨hrel, _, _⟩ := castMask_rel segs t m arr ov hs hcm
  obtain ⟨harr, hnum⟩ := arrOK_of_castRel segs t (rows * cols) m arr hs hrel hsz
  have hcell : ∀ c ∈ cells t segs (planOrder arr mfv omt order).2, ∃ px, cellE arr segs t mfv c.1 c.2 = .ok px := by
    intro c hc
    obtain ⟨h1, h2⟩ := (mem_cells t segs _ c).mp hc
    obtain ⟨pl, hpl⟩ := plane?_of_lt arr c.2 (by have := hin _ (planOrder_sub arr omt order _ h2); omega)
    obtain ⟨px, hpx, _⟩ := cell_facts segs t mfv (rows * cols) arr hs harr (fun h => (hmfv h).2) bits hbits c.1 h1 c.2 pl hpl
    exact ⟨px, hpx⟩
  have hsf := storedFrames_eq arr segs t mfv omt order hcell
  obtain ⟨pd, hpd⟩ := encodePixelData_ok codec rows cols bits
    (((cells t segs (planOrder arr mfv omt order).2).filterMap
      (cellFrame arr segs t mfv (planOrder arr mfv omt order).1)).map (·.px))
  unfold build
  simp only [hca, hcm]
  have h1 : ¬ (m.numPlanes ≠ order.length) := by simpa using hnp
  have h2 : ¬ ((m.planeSizes.any fun x => x != rows * cols) = true) := by
    intro hc
    obtain ⟨sz, hszm, hne⟩ := List.any_eq_true.mp hc
    have := hsz sz hszm
    simp [this] at hne
  simp only [h1, h2, ↓reduceIte, hsf, hpd]
  exact ⟨_, rfl⟩

/-! ## which frames exist -/

/-- the facts every statement about a successfully built object starts from -/
theorem build_frames (codec : Option Codec) (rows cols : Nat) (t : SegType) (segs : List Nat) (mfv : Nat) (omt : Bool)
    (order : List Nat) (m : Mask) (hin : ∀ p ∈ order, p < m.numPlanes)
    (o : SegObj) (hb : build codec rows cols t segs mfv omt order m = .ok o) :
    ∃ bits arr ov pd, castMask segs t m = .ok (arr, ov) ∧ SegsOK t segs ∧ ArrOK segs t (rows * cols) arr ∧
      arr.numPlanes = m.numPlanes ∧ (t = .fractional → 1 ≤ mfv ∧ mfv ≤ 255) ∧ bitsFor t segs = .ok bits ∧
      m.numPlanes = order.length ∧ m.numPlanes ≠ 0 ∧
      o = { rows := rows, cols := cols, bits := bits, t := t, mfv := mfv, segs := segs,
            keys := ((cells t segs (planOrder arr mfv omt order).2).filterMap
              (cellFrame arr segs t mfv (planOrder arr mfv omt order).1)).map (fun f => (f.seg, f.plane)), pd := pd } := by
  obtain ⟨bits, arr, ov, frames, pd, hca, hcm, hnp, hsz, hsf, hpd, rfl⟩ := build_inv _ _ _ _ _ _ _ _ _ _ hb
  obtain ⟨hcs, hmfv, _, hbits⟩ := checkArgs_inv _ _ _ _ _ hca
  have hs := checkSegs_ok t segs hcs
  obtain ⟨hrel, hnp0, hsz0⟩ := castMask_rel segs t m arr ov hs hcm
  obtain ⟨harr, hnum⟩ := arrOK_of_castRel segs t (rows * cols) m arr hs hrel hsz
  have hcell : ∀ c ∈ cells t segs (planOrder arr mfv omt order).2, ∃ px, cellE arr segs t mfv c.1 c.2 = .ok px := by
    intro c hc
    obtain ⟨h1, h2⟩ := (mem_cells t segs _ c).mp hc
    obtain ⟨pl, hpl⟩ := plane?_of_lt arr c.2 (by have := hin _ (planOrder_sub arr omt order _ h2); omega)
    obtain ⟨px, hpx, _⟩ := cell_facts segs t mfv (rows * cols) arr hs harr (fun h => (hmfv h).2) bits hbits c.1 h1 c.2 pl hpl
    exact ⟨px, hpx⟩
  rw [storedFrames_eq arr segs t mfv omt order hcell] at hsf
  simp only [Except.ok.injEq] at hsf
  subst hsf
  exact ⟨bits, arr, ov, pd, hcm, hs, harr, hnum, hmfv, hbits, hnp, hnp0, rfl⟩

theorem planOrder_mem (arr : Mask) (mfv : Nat) (omt : Bool) (order : List Nat) (p : Nat) (hp : p ∈ order)
    (hlt : p < arr.numPlanes) (pl : Plane) (hpl : arr.plane? p = some pl) (hany : pl.any mfv = true) :
    p ∈ (planOrder arr mfv omt order).2 := by
  by_contra hc
  have := planOrder_skipped arr omt order p hp hlt hc pl hpl
  rw [this] at hany; cases hany

/-- **every non-empty (segment, plane) pair has a frame** (and by `keys_nodup` exactly one) -/
theorem nonempty_cell_stored (codec : Option Codec) (rows cols : Nat) (t : SegType) (segs : List Nat) (mfv : Nat)
    (omt : Bool) (order : List Nat) (m : Mask) (hcover : ∀ p, p < m.numPlanes → p ∈ order)
    (hin : ∀ p ∈ order, p < m.numPlanes) (o : SegObj) (hb : build codec rows cols t segs mfv omt order m = .ok o)
    (arr : Mask) (ov : Overlap) (hcm : castMask segs t m = .ok (arr, ov))
    (sg : Option Nat) (hsg : sg ∈ segmentsIterable t segs) (p : Nat) (hp : p < m.numPlanes) (px : List Nat)
    (hpx : cellE arr segs t mfv sg p = .ok px) (hne : px.any (· != 0) = true) : (sg, p) ∈ o.keys := by
  obtain ⟨bits, arr', ov', pd, hcm', hs, harr, hnum, hmfv, hbits, _, _, rfl⟩ :=
    build_frames codec rows cols t segs mfv omt order m hin o hb
  rw [hcm] at hcm'
  simp only [Except.ok.injEq, Prod.mk.injEq] at hcm'
  obtain ⟨rfl, rfl⟩ := hcm'
  obtain ⟨pl, hpl⟩ := plane?_of_lt arr p (by omega)
  obtain ⟨px', hpx', _, _, hz⟩ := cell_facts segs t mfv (rows * cols) arr hs harr (fun h => (hmfv h).2) bits hbits sg hsg p pl hpl
  rw [hpx] at hpx'
  simp only [Except.ok.injEq] at hpx'
  subst hpx'
  have hany : pl.any mfv = true := by
    cases h : pl.any mfv
    · rw [hz h] at hne; cases hne
    · rfl
  have hord := planOrder_mem arr mfv omt order p (hcover p hp) (by omega) pl hpl hany
  have hcf : cellFrame arr segs t mfv (planOrder arr mfv omt order).1 (sg, p) = some ⟨sg, p, px⟩ := by
    rw [cellFrame_of_cell _ _ _ _ _ (sg, p) px hpx]
    have : keep (planOrder arr mfv omt order).1 sg px = true := by
      unfold keep; simp [hne]
    simp [this]
  simp only
  exact List.mem_map.mpr ⟨⟨sg, p, px⟩, List.mem_filterMap.mpr ⟨(sg, p), (mem_cells t segs _ (sg, p)).mpr ⟨hsg, hord⟩, hcf⟩, rfl⟩

/-- without `omit_empty_frames` every (segment, plane) pair has a frame -/
theorem all_cells_stored (codec : Option Codec) (rows cols : Nat) (t : SegType) (segs : List Nat) (mfv : Nat)
    (order : List Nat) (m : Mask) (hcover : ∀ p, p < m.numPlanes → p ∈ order)
    (hin : ∀ p ∈ order, p < m.numPlanes) (o : SegObj) (hb : build codec rows cols t segs mfv false order m = .ok o)
    (sg : Option Nat) (hsg : sg ∈ segmentsIterable t segs) (p : Nat) (hp : p < m.numPlanes) : (sg, p) ∈ o.keys := by
  obtain ⟨bits, arr, ov, pd, hcm, hs, harr, hnum, hmfv, hbits, _, _, rfl⟩ :=
    build_frames codec rows cols t segs mfv false order m hin o hb
  obtain ⟨pl, hpl⟩ := plane?_of_lt arr p (by omega)
  obtain ⟨px, hpx, _⟩ := cell_facts segs t mfv (rows * cols) arr hs harr (fun h => (hmfv h).2) bits hbits sg hsg p pl hpl
  have hpo : planOrder arr mfv false order = (false, order) := by simp [planOrder]
  have hcf : cellFrame arr segs t mfv false (sg, p) = some ⟨sg, p, px⟩ := by
    rw [cellFrame_of_cell _ _ _ _ _ (sg, p) px hpx]
    simp [keep]
  simp only [hpo]
  exact List.mem_map.mpr ⟨⟨sg, p, px⟩, List.mem_filterMap.mpr ⟨(sg, p), (mem_cells t segs _ (sg, p)).mpr ⟨hsg, hcover p hp⟩, hcf⟩, rfl⟩

theorem segmentsIterable_ne_nil (t : SegType) (segs : List Nat) (h : segs ≠ []) : segmentsIterable t segs ≠ [] := by
  unfold segmentsIterable
  split
  · simp
  · simpa using h

/-- a strict read that is not refused is the permissive read -/
theorem strict_eq (codec : Option Codec) (o : SegObj) (request : List Nat) (mode : ReadMode)
    (h : missingRefusal o request mode = none) :
    readBySource codec o request mode = readBySource codec o request .assertEmpty := by
  unfold readBySource
  split
  · rfl
  · rw [h]
    rfl

theorem byInstance_not_refused (o : SegObj) (request : List Nat) (nsrc : Nat) (h : ∀ p ∈ request, p < nsrc) :
    missingRefusal o request (.byInstance nsrc) = none := by
  unfold missingRefusal
  have : (request.any fun p => decide (nsrc ≤ p)) = false := by
    rw [List.any_eq_false]; intro p hp; have := h p hp; simp; omega
  simp [this]

theorem byFrame_not_refused (o : SegObj) (request : List Nat)
    (h : ∀ p ∈ request, ∃ k ∈ o.keys, p ≤ k.2) : missingRefusal o request .byFrame = none := by
  unfold missingRefusal
  have : (request.any fun p => decide (listMax (o.keys.map (·.2 + 1)) < p + 1)) = false := by
    rw [List.any_eq_false]
    intro p hp
    obtain ⟨k, hk, hle⟩ := h p hp
    have := le_listMax (o.keys.map (·.2 + 1)) (k.2 + 1) (List.mem_map.mpr ⟨k, hk, rfl⟩)
    simp; omega
  simp [this]

theorem stretchU_nonzero (t : SegType) (mfv : Nat) (hm : t = .fractional → 1 ≤ mfv) (b : List Nat)
    (hb : b.any (· != 0) = true) : (stretchU t mfv b).any (· != 0) = true := by
  unfold stretchU
  split
  · rename_i h
    obtain ⟨v, hv, hne⟩ := List.any_eq_true.mp hb
    have := hm h.1
    refine List.any_eq_true.mpr ⟨v * mfv, List.mem_map.mpr ⟨v, hv, rfl⟩, ?_⟩
    simp only [bne_iff_ne, ne_eq] at hne ⊢
    intro hc
    rcases Nat.mul_eq_zero.mp hc with h0 | h0
    · exact hne h0
    · omega
  · exact hb

/-- a non-empty plane has a non-empty frame for some described segment (BINARY / FRACTIONAL) -/
theorem cell_nonzero (segs : List Nat) (t : SegType) (mfv n : Nat) (arr : Mask) (hs : SegsOK t segs)
    (ha : ArrOK segs t n arr) (hm : t = .fractional → 1 ≤ mfv) (ht : t ≠ .labelmap) (p : Nat) (pl : Plane)
    (hp : arr.plane? p = some pl) (hany : pl.any mfv = true) :
    ∃ s ∈ segs, ∃ px, cellEU arr segs t mfv (some s) p = .ok px ∧ px.any (· != 0) = true := by
  have hcons := hs.consec ht
  obtain ⟨s0, hs0⟩ := List.exists_mem_of_ne_nil segs hs.ne
  unfold cellEU
  rw [hp]
  cases arr with
  | intLabel ps =>
    obtain ⟨px, hq, rfl⟩ := plane_intLabel ps p pl hp
    obtain ⟨_, hv⟩ := ha px (List.mem_of_getElem? hq)
    simp only [Plane.any] at hany
    obtain ⟨v, hvm, hne⟩ := List.any_eq_true.mp hany
    have hv0 : v ≠ 0 := by simpa using hne
    have hvs : v ∈ segs := by
      have h1 := hv v hvm
      have h2 : listMax segs ≤ segs.length := by
        apply listMax_le
        intro w hw
        rw [hcons] at hw
        have := List.mem_range'_1.mp hw
        omega
      rw [hcons]
      exact List.mem_range'_1.mpr ⟨by omega, by omega⟩
    refine ⟨v, hvs, _, rfl, ?_⟩
    apply stretchU_nonzero t mfv hm
    split
    · exact hany
    · exact List.any_eq_true.mpr ⟨1, List.mem_map.mpr ⟨v, hvm, by simp⟩, by simp⟩
  | intStack ps =>
    obtain ⟨px, hq, rfl⟩ := plane_intStack ps p pl hp
    obtain ⟨_, hch⟩ := ha.2 px (List.mem_of_getElem? hq)
    simp only [Plane.any] at hany
    obtain ⟨ch, hcm, hc2⟩ := List.any_eq_true.mp hany
    obtain ⟨v, hvm, hne⟩ := List.any_eq_true.mp hc2
    obtain ⟨k, hk, rfl⟩ := List.getElem_of_mem hvm
    obtain ⟨i, hi, rfl⟩ := List.getElem_of_mem hcm
    have hkn : k < segs.length := by rw [← (hch _ hcm).1]; exact hk
    have hsk : k + 1 ∈ segs := by rw [hcons]; exact List.mem_range'_1.mpr ⟨by omega, by omega⟩
    obtain ⟨a, hao, hal, haa⟩ := chanO_some_of_lengths k px segs.length hkn (fun c hc => (hch c hc).1)
    have hac := (channel_ok_iff k px a).mpr hao
    refine ⟨k + 1, hsk, stretchU t mfv a, ?_, ?_⟩
    · simp only [segPlaneU, Nat.add_sub_cancel, hac, bind, Except.bind, pure, Except.pure]
    · apply stretchU_nonzero t mfv hm
      have h1 := haa i hi (by omega)
      rw [List.getElem?_eq_getElem hk] at h1
      simp only [Option.some.injEq] at h1
      exact List.any_eq_true.mpr ⟨a[i]'(by omega), List.getElem_mem _, by rw [← h1]; exact hne⟩
  | fltLabel ps =>
    obtain ⟨px, hq, rfl⟩ := plane_fltLabel ps p pl hp
    simp only [Plane.any] at hany
    obtain ⟨x, hxm, hne⟩ := List.any_eq_true.mp hany
    exact ⟨s0, hs0, _, rfl, List.any_eq_true.mpr ⟨quantise mfv x, List.mem_map.mpr ⟨x, hxm, rfl⟩, hne⟩⟩
  | fltStack ps =>
    obtain ⟨px, hq, rfl⟩ := plane_fltStack ps p pl hp
    obtain ⟨_, hch⟩ := ha.2 px (List.mem_of_getElem? hq)
    simp only [Plane.any] at hany
    obtain ⟨ch, hcm, hc2⟩ := List.any_eq_true.mp hany
    obtain ⟨x, hxm, hne⟩ := List.any_eq_true.mp hc2
    obtain ⟨k, hk, rfl⟩ := List.getElem_of_mem hxm
    obtain ⟨i, hi, rfl⟩ := List.getElem_of_mem hcm
    have hkn : k < segs.length := by rw [← (hch _ hcm).1]; exact hk
    have hsk : k + 1 ∈ segs := by rw [hcons]; exact List.mem_range'_1.mpr ⟨by omega, by omega⟩
    obtain ⟨a, hao, hal, haa⟩ := chanO_some_of_lengths k px segs.length hkn (fun c hc => (hch c hc).1)
    have hac := (channel_ok_iff k px a).mpr hao
    refine ⟨k + 1, hsk, a.map (quantise mfv), ?_, ?_⟩
    · simp only [segPlaneU, Nat.add_sub_cancel, hac, bind, Except.bind, pure, Except.pure]
    · have h1 := haa i hi (by omega)
      rw [List.getElem?_eq_getElem hk] at h1
      simp only [Option.some.injEq] at h1
      exact List.any_eq_true.mpr ⟨quantise mfv (a[i]'(by omega)),
        List.mem_map.mpr ⟨a[i]'(by omega), List.getElem_mem _, rfl⟩, by rw [← h1]; exact hne⟩

theorem planOrder_cases (arr : Mask) (mfv : Nat) (omt : Bool) (order : List Nat) :
    ((planOrder arr mfv omt order).1 = false ∧ (planOrder arr mfv omt order).2 = order) ∨
    ((planOrder arr mfv omt order).1 = true ∧ ∃ p, p < arr.numPlanes ∧ planeNonEmpty arr mfv p = true) := by
  unfold planOrder
  split
  · simp only []
    split
    · left; exact ⟨rfl, rfl⟩
    · rename_i hne
      right
      refine ⟨rfl, ?_⟩
      obtain ⟨p, hp⟩ := List.exists_mem_of_ne_nil _ hne
      obtain ⟨h1, h2⟩ := List.mem_filter.mp hp
      exact ⟨p, List.mem_range.mp h1, h2⟩
  · left; exact ⟨rfl, rfl⟩

/-- **an accepted mask always yields at least one frame** (NumberOfFrames ≥ 1): with `omit_empty_frames` a plane
    that is non-empty after quantisation keeps a frame, and an entirely empty mask keeps all frames -/
theorem frames_nonempty (codec : Option Codec) (rows cols : Nat) (t : SegType) (segs : List Nat) (mfv : Nat)
    (omt : Bool) (order : List Nat) (m : Mask) (hcover : ∀ p, p < m.numPlanes → p ∈ order)
    (hin : ∀ p ∈ order, p < m.numPlanes) (o : SegObj) (hb : build codec rows cols t segs mfv omt order m = .ok o) :
    o.keys ≠ [] := by
  obtain ⟨bits, arr, ov, pd, hcm, hs, harr, hnum, hmfv, hbits, hnp, hnp0, rfl⟩ :=
    build_frames codec rows cols t segs mfv omt order m hin o hb
  simp only
  -- it suffices to exhibit one kept cell
  suffices h : ∃ c ∈ cells t segs (planOrder arr mfv omt order).2, ∃ f,
      cellFrame arr segs t mfv (planOrder arr mfv omt order).1 c = some f by
    obtain ⟨c, hc, f, hf⟩ := h
    intro hnil
    have : f ∈ (cells t segs (planOrder arr mfv omt order).2).filterMap
        (cellFrame arr segs t mfv (planOrder arr mfv omt order).1) := List.mem_filterMap.mpr ⟨c, hc, hf⟩
    have h2 : (f.seg, f.plane) ∈ ((cells t segs (planOrder arr mfv omt order).2).filterMap
        (cellFrame arr segs t mfv (planOrder arr mfv omt order).1)).map (fun f => (f.seg, f.plane)) :=
      List.mem_map.mpr ⟨f, this, rfl⟩
    rw [hnil] at h2; cases h2
  obtain ⟨sg0, hsg0⟩ := List.exists_mem_of_ne_nil _ (segmentsIterable_ne_nil t segs hs.ne)
  rcases planOrder_cases arr mfv omt order with ⟨h1, h2⟩ | ⟨h1, p, hp, hpne⟩
  · -- nothing is omitted
    have hone : order ≠ [] := by
      intro hc; rw [hc] at hnp; simp at hnp; exact hnp0 hnp
    obtain ⟨p, hpo⟩ := List.exists_mem_of_ne_nil _ hone
    obtain ⟨pl, hpl⟩ := plane?_of_lt arr p (by have := hin p hpo; omega)
    obtain ⟨px, hpx, _⟩ := cell_facts segs t mfv (rows * cols) arr hs harr (fun h => (hmfv h).2) bits hbits sg0 hsg0 p pl hpl
    refine ⟨(sg0, p), (mem_cells t segs _ (sg0, p)).mpr ⟨hsg0, by rw [h2]; exact hpo⟩, ⟨sg0, p, px⟩, ?_⟩
    rw [cellFrame_of_cell _ _ _ _ _ (sg0, p) px hpx, h1]
    simp [keep]
  · -- some plane is non-empty
    obtain ⟨pl, hpl⟩ := plane?_of_lt arr p hp
    have hany : pl.any mfv = true := by simpa [planeNonEmpty, hpl] using hpne
    have hord := planOrder_mem arr mfv omt order p (hcover p (by omega)) hp pl hpl hany
    by_cases ht : t = .labelmap
    · have hiter : (none : Option Nat) ∈ segmentsIterable t segs := by simp [segmentsIterable, ht]
      obtain ⟨px, hpx, _⟩ := cell_facts segs t mfv (rows * cols) arr hs harr (fun h => (hmfv h).2) bits hbits none hiter p pl hpl
      refine ⟨(none, p), (mem_cells t segs _ (none, p)).mpr ⟨hiter, hord⟩, ⟨none, p, px⟩, ?_⟩
      rw [cellFrame_of_cell _ _ _ _ _ (none, p) px hpx]
      simp [keep]
    · obtain ⟨s, hsm, px, hpx, hne⟩ := cell_nonzero segs t mfv (rows * cols) arr hs harr (fun h => (hmfv h).1) ht p pl hpl hany
      have hiter : some s ∈ segmentsIterable t segs := by
        simp only [segmentsIterable, ht, ↓reduceIte]
        exact List.mem_map.mpr ⟨s, hsm, rfl⟩
      rw [← cellE_eq_U segs t mfv (rows * cols) arr hs harr (fun h => (hmfv h).2) bits hbits (some s) hiter p pl hpl] at hpx
      refine ⟨(some s, p), (mem_cells t segs _ (some s, p)).mpr ⟨hiter, hord⟩, ⟨some s, p, px⟩, ?_⟩
      rw [cellFrame_of_cell _ _ _ _ _ (some s, p) px hpx]
      simp [keep, hne]

/-! ## quantisation error -/

theorem rhe_cases' (q : Rat) :
    (roundHalfEven q = q.floor ∧ q - (q.floor : Rat) ≤ 1 / 2) ∨
    (roundHalfEven q = q.floor + 1 ∧ (q.floor : Rat) + 1 / 2 ≤ q) := by
  unfold roundHalfEven
  simp only []
  split
  · left; exact ⟨rfl, by linarith⟩
  · rename_i h1
    split
    · right; refine ⟨rfl, ?_⟩; linarith
    · rename_i h2
      have : q - (q.floor : Rat) = 1 / 2 := by linarith
      split
      · left; exact ⟨rfl, by linarith⟩
      · right; refine ⟨rfl, ?_⟩; linarith

theorem lt_floor_add_one (q : Rat) : q < (q.floor : Rat) + 1 := by
  have : q.floor < q.floor + 1 := by omega
  have := Rat.floor_lt_iff.mp this
  push_cast at this; exact this

/-- rounding half to even moves a value by at most one half -/
theorem rhe_error (q : Rat) : |((roundHalfEven q : Int) : Rat) - q| ≤ 1 / 2 := by
  have h1 := floor_le_self q
  have h2 := lt_floor_add_one q
  rw [abs_le]
  rcases rhe_cases' q with ⟨he, hb⟩ | ⟨he, hb⟩
  · rw [he]; constructor <;> linarith
  · rw [he]; push_cast; constructor <;> linarith

/-- the integer strictly within one half of a value is what rounding delivers -/
theorem rhe_unique (q : Rat) (n : Int) (h : |q - (n : Rat)| < 1 / 2) : roundHalfEven q = n := by
  have he := rhe_error q
  rw [abs_le] at he
  rw [abs_lt] at h
  have h1 : ((roundHalfEven q : Int) : Rat) - (n : Rat) < 1 := by linarith [he.2, h.1]
  have h2 : -1 < ((roundHalfEven q : Int) : Rat) - (n : Rat) := by linarith [he.1, h.2]
  have h1' : roundHalfEven q - n < 1 := by exact_mod_cast h1
  have h2' : -1 < roundHalfEven q - n := by exact_mod_cast h2
  omega

/-- **float products**: a computed product `q'` within `ε` of the exact `q` rounds to the same integer, provided
    `q` is farther than `ε` from every tie `k + 1/2` -/
theorem rhe_stable (q q' ε : Rat) (hclose : |q' - q| ≤ ε)
    (hfar : ∀ k : Int, ε < |q - ((k : Rat) + 1 / 2)|) : roundHalfEven q' = roundHalfEven q := by
  apply rhe_unique
  have he := rhe_error q
  have hup := hfar (roundHalfEven q)
  have hlo := hfar (roundHalfEven q - 1)
  rw [abs_le] at he hclose
  push_cast at hlo
  -- q lies strictly inside (n - 1/2 + ε, n + 1/2 - ε)
  have h1 : q - ((roundHalfEven q : Int) : Rat) < 1 / 2 - ε := by
    rcases lt_or_ge (q - (((roundHalfEven q : Int) : Rat) + 1 / 2)) 0 with h | h
    · rw [abs_of_neg h] at hup; linarith
    · have : q - ((roundHalfEven q : Int) : Rat) = 1 / 2 := by linarith [he.1]
      rw [abs_of_nonneg h] at hup
      have hε : 0 ≤ ε := by linarith [hclose.1, hclose.2]
      linarith
  have h2 : -(1 / 2 - ε) < q - ((roundHalfEven q : Int) : Rat) := by
    rcases lt_or_ge 0 (q - (((roundHalfEven q : Int) : Rat) - 1 + 1 / 2)) with h | h
    · rw [abs_of_pos h] at hlo; linarith
    · have : q - ((roundHalfEven q : Int) : Rat) = -(1 / 2) := by linarith [he.2]
      rw [abs_of_nonpos h] at hlo
      have hε : 0 ≤ ε := by linarith [hclose.1, hclose.2]
      linarith
  rw [abs_lt]
  constructor <;> linarith [hclose.1, hclose.2]

/-- **"rounded to the stored quantisation"**: what reads back after rescaling, `quantise mfv x / mfv`, differs
    from the fraction `x` that was passed in by at most half a quantisation step -/
theorem quantise_error_bound (mfv : Nat) (hm : 1 ≤ mfv) (x : Rat) (h0 : 0 ≤ x) :
    |((quantise mfv x : Nat) : Rat) / (mfv : Rat) - x| ≤ 1 / (2 * (mfv : Rat)) := by
  have hmq : (0 : Rat) < (mfv : Rat) := by exact_mod_cast hm
  have hnn : 0 ≤ roundHalfEven (x * (mfv : Rat)) := rhe_nonneg _ (mul_nonneg h0 (le_of_lt hmq))
  have hq : ((quantise mfv x : Nat) : Rat) = ((roundHalfEven (x * (mfv : Rat)) : Int) : Rat) := by
    unfold quantise
    have : ((roundHalfEven (x * (mfv : Rat))).toNat : Int) = roundHalfEven (x * (mfv : Rat)) := Int.toNat_of_nonneg hnn
    exact_mod_cast congrArg (fun z : Int => (z : Rat)) this
  rw [hq]
  have he := rhe_error (x * (mfv : Rat))
  have : ((roundHalfEven (x * (mfv : Rat)) : Int) : Rat) / (mfv : Rat) - x
      = (((roundHalfEven (x * (mfv : Rat)) : Int) : Rat) - x * (mfv : Rat)) / (mfv : Rat) := by
    field_simp
  rw [this]
  have e : 1 / (2 * (mfv : Rat)) * (mfv : Rat) = 1 / 2 := by field_simp
  rw [abs_le] at he ⊢
  constructor
  · rw [le_div_iff₀ hmq]
    have : -(1 / (2 * (mfv : Rat))) * (mfv : Rat) = -(1 / 2) := by rw [neg_mul, e]
    rw [this]; exact he.1
  · rw [div_le_iff₀ hmq, e]; exact he.2

/-- `get_pixels_by_source_instance` without the flag refuses (KeyError) a request naming something that is not one of
    the object's source images -/
theorem byInstance_refuses (codec : Option Codec) (o : SegObj) (request : List Nat) (nsrc : Nat) (hnd : o.keys.Nodup)
    (p : Nat) (hp : p ∈ request) (hle : nsrc ≤ p) :
    readBySource codec o request (.byInstance nsrc) = .error .key := by
  unfold readBySource
  rw [if_neg (not_not.mpr hnd)]
  unfold missingRefusal
  have h : (request.any fun p => decide (nsrc ≤ p)) = true :=
    List.any_eq_true.mpr ⟨p, hp, by simpa using hle⟩
  simp only [h, ↓reduceIte]

/-- `get_pixels_by_source_frame` without the flag refuses (ValueError) a frame number above the highest frame
    number any stored frame references -/
theorem byFrame_refuses (codec : Option Codec) (o : SegObj) (request : List Nat) (hnd : o.keys.Nodup)
    (p : Nat) (hp : p ∈ request) (hgt : ∀ k ∈ o.keys, k.2 < p) :
    readBySource codec o request .byFrame = .error .value := by
  unfold readBySource
  rw [if_neg (not_not.mpr hnd)]
  unfold missingRefusal
  have hmax : listMax (o.keys.map (·.2 + 1)) < p + 1 := by
    have : listMax (o.keys.map (·.2 + 1)) ≤ p := by
      apply listMax_le
      intro v hv
      obtain ⟨k, hk, rfl⟩ := List.mem_map.mp hv
      have := hgt k hk
      omega
    omega
  have h : (request.any fun p => decide (listMax (o.keys.map (·.2 + 1)) < p + 1)) = true :=
    List.any_eq_true.mpr ⟨p, hp, by simpa using hmax⟩
  simp only [h, ↓reduceIte]

/-! ## refusals -//-! ## refusals -/

theorem castMask_error_of_values (segs : List Nat) (t : SegType) (m : Mask)
    (h : castValues segs t m = .error .value) : castMask segs t m = .error .value := by
  unfold castMask
  split
  · rfl
  · split
    · rfl
    · simp only [h]

theorem listMax_ge_of_mem₃ (ps : List (List (List Nat))) (pl : List (List Nat)) (ch : List Nat) (v : Nat)
    (hpl : pl ∈ ps) (hch : ch ∈ pl) (hv : v ∈ ch) : v ≤ listMax (ps.map fun pl => listMax (pl.map listMax)) := by
  have h1 : listMax (pl.map listMax) ≤ listMax (ps.map fun pl => listMax (pl.map listMax)) :=
    le_listMax _ _ (List.mem_map.mpr ⟨pl, hpl, rfl⟩)
  have h2 : listMax ch ≤ listMax (pl.map listMax) := le_listMax _ _ (List.mem_map.mpr ⟨ch, hch, rfl⟩)
  have h3 := le_listMax ch v hv
  omega

theorem reject_undescribed (segs : List Nat) (t : SegType) (ps : List (List Nat)) (pl : List Nat) (v : Nat)
    (hpl : pl ∈ ps) (hv : v ∈ pl) (hnot : v ∉ 0 :: segs) : castMask segs t (.intLabel ps) = .error .value := by
  apply castMask_error_of_values
  have hu : undescribed segs ps = true := by
    unfold undescribed
    simp only []
    split
    · rename_i hcons
      simp only [Bool.and_eq_true, List.all_eq_true] at hcons
      have hvn : segs.length < v := by
        by_contra hc
        apply hnot
        rcases Nat.eq_zero_or_pos v with rfl | hpos
        · simp
        · have := hcons.1 v (List.mem_range'_1.mpr ⟨by omega, by omega⟩)
          exact List.mem_cons_of_mem _ (by simpa using this)
      have h1 : listMax pl ≤ listMax (ps.map listMax) := le_listMax _ _ (List.mem_map.mpr ⟨pl, hpl, rfl⟩)
      have h2 := le_listMax pl v hv
      simp; omega
    · exact List.any_eq_true.mpr ⟨pl, hpl, List.any_eq_true.mpr ⟨v, hv, by simpa using hnot⟩⟩
  simp only [castValues, hu, ↓reduceIte]

theorem reject_nonbinary_stack (segs : List Nat) (t : SegType) (ps : List (List (List Nat))) (pl : List (List Nat))
    (ch : List Nat) (v : Nat) (hpl : pl ∈ ps) (hch : ch ∈ pl) (hv : v ∈ ch) (h2 : 1 < v) :
    castMask segs t (.intStack ps) = .error .value := by
  apply castMask_error_of_values
  have := listMax_ge_of_mem₃ ps pl ch v hpl hch hv
  have hgt : listMax (ps.map fun pl => listMax (pl.map listMax)) > 1 := by omega
  simp only [castValues, hgt, ↓reduceIte]

theorem reject_float_range_label (segs : List Nat) (t : SegType) (ps : List (List Rat)) (pl : List Rat) (x : Rat)
    (hpl : pl ∈ ps) (hx : x ∈ pl) (hr : x < 0 ∨ 1 < x) : castMask segs t (.fltLabel ps) = .error .value := by
  apply castMask_error_of_values
  have : (ps.any fun pl => pl.any fun x => decide (x < 0 ∨ 1 < x)) = true :=
    List.any_eq_true.mpr ⟨pl, hpl, List.any_eq_true.mpr ⟨x, hx, by simpa using hr⟩⟩
  simp only [castValues, this, ↓reduceIte]

theorem reject_float_range_stack (segs : List Nat) (t : SegType) (ps : List (List (List Rat))) (pl : List (List Rat))
    (ch : List Rat) (x : Rat) (hpl : pl ∈ ps) (hch : ch ∈ pl) (hx : x ∈ ch) (hr : x < 0 ∨ 1 < x) :
    castMask segs t (.fltStack ps) = .error .value := by
  apply castMask_error_of_values
  have : (ps.any fun pl => pl.any fun ch => ch.any fun x => decide (x < 0 ∨ 1 < x)) = true :=
    List.any_eq_true.mpr ⟨pl, hpl, List.any_eq_true.mpr ⟨ch, hch, List.any_eq_true.mpr ⟨x, hx, by simpa using hr⟩⟩⟩
  simp only [castValues, this, ↓reduceIte]

theorem reject_float_nonbinary_label (segs : List Nat) (t : SegType) (ht : t ≠ .fractional) (ps : List (List Rat))
    (pl : List Rat) (x : Rat) (hpl : pl ∈ ps) (hx : x ∈ pl) (hr : 0 < x ∧ x < 1) :
    castMask segs t (.fltLabel ps) = .error .value := by
  apply castMask_error_of_values
  have : (ps.any fun pl => pl.any fun x => decide (0 < x ∧ x < 1)) = true :=
    List.any_eq_true.mpr ⟨pl, hpl, List.any_eq_true.mpr ⟨x, hx, by simpa using hr⟩⟩
  simp only [castValues, ht, this, ↓reduceIte]
  split <;> rfl

/-- fix f08a76b: a binary 2-D/3-D float mask holding a 1 while segment number 1 is not described -/
theorem reject_undescribed_float (segs : List Nat) (t : SegType) (ht : t ≠ .fractional) (ps : List (List Rat))
    (pl : List Rat) (hpl : pl ∈ ps) (h1 : (1 : Rat) ∈ pl) (hnot : 1 ∉ segs) :
    castMask segs t (.fltLabel ps) = .error .value := by
  apply castMask_error_of_values
  have hany : (ps.any fun pl => pl.any fun x => decide (x = 1)) = true :=
    List.any_eq_true.mpr ⟨pl, hpl, List.any_eq_true.mpr ⟨1, h1, by simp⟩⟩
  simp only [castValues, ht, ↓reduceIte]
  split
  · rfl
  · split
    · rfl
    · rw [if_pos ⟨hany, hnot⟩]

/-- fix d437594: a 2-D/3-D array of fractions with more than one described segment -/
theorem reject_float_fraction_several (segs : List Nat) (ps : List (List Rat)) (h : 1 < segs.length) :
    castMask segs .fractional (.fltLabel ps) = .error .value := by
  apply castMask_error_of_values
  have h' : segs.length > 1 := h
  simp only [castValues, ↓reduceIte, h']
  split <;> rfl

theorem reject_float_nonbinary_stack (segs : List Nat) (t : SegType) (ht : t ≠ .fractional)
    (ps : List (List (List Rat))) (pl : List (List Rat)) (ch : List Rat) (x : Rat) (hpl : pl ∈ ps) (hch : ch ∈ pl)
    (hx : x ∈ ch) (hr : 0 < x ∧ x < 1) : castMask segs t (.fltStack ps) = .error .value := by
  apply castMask_error_of_values
  have : (ps.any fun pl => pl.any fun ch => ch.any fun x => decide (0 < x ∧ x < 1)) = true :=
    List.any_eq_true.mpr ⟨pl, hpl, List.any_eq_true.mpr ⟨ch, hch, List.any_eq_true.mpr ⟨x, hx, by simpa using hr⟩⟩⟩
  simp only [castValues, ht, this, ↓reduceIte]
  split <;> rfl

theorem reject_channels (segs : List Nat) (t : SegType) (ps : List (List (List Nat))) (pl : List (List Nat))
    (ch : List Nat) (hpl : pl ∈ ps) (hch : ch ∈ pl) (hne : ch.length ≠ segs.length) :
    castMask segs t (.intStack ps) = .error .value := by
  unfold castMask
  have : chanOk segs.length (.intStack ps) = false := by
    simp only [chanOk]
    rw [List.all_eq_false]
    exact ⟨pl, hpl, by rw [Bool.not_eq_true, List.all_eq_false]; exact ⟨ch, hch, by simpa using hne⟩⟩
  simp [this]

/-- a 0/1 list with two or more ones has at least two entries -/
theorem two_le_length_of_sum (ch : List Nat) (h01 : ∀ v ∈ ch, v ≤ 1) (hs : 1 < ch.sum) : 2 ≤ ch.length := by
  match ch, h01, hs with
  | [], _, hs => simp at hs
  | [a], h01, hs => have := h01 a (by simp); simp at hs; omega
  | a :: b :: r, _, _ => simp

theorem reject_overlap_labelmap (segs : List Nat) (ps : List (List (List Nat))) (pl : List (List Nat)) (ch : List Nat)
    (hpl : pl ∈ ps) (hch : ch ∈ pl)
    (hlen : ∀ pl ∈ ps, ∀ ch ∈ pl, ch.length = segs.length)
    (h01 : ∀ pl ∈ ps, ∀ ch ∈ pl, ∀ v ∈ ch, v ≤ 1)
    (hne : ∀ pl ∈ ps, pl ≠ []) (hps : ps ≠ [])
    (hsum : 1 < sumNat ch) : castMask segs .labelmap (.intStack ps) = .error .value := by
  unfold castMask
  have hc : chanOk segs.length (.intStack ps) = true := by
    simp only [chanOk, List.all_eq_true]
    intro pl hpl ch hch
    simpa using hlen pl hpl ch hch
  have hemp : ¬ ((Mask.intStack ps).numPlanes = 0 ∨ ((Mask.intStack ps).planeSizes.any (· == 0)) = true) := by
    rintro (h | h)
    · simp only [Mask.numPlanes, List.length_eq_zero_iff] at h; exact hps h
    · obtain ⟨sz, hsz, h0⟩ := List.any_eq_true.mp h
      simp only [Mask.planeSizes] at hsz
      obtain ⟨pl', hpl', rfl⟩ := List.mem_map.mp hsz
      simp only [beq_iff_eq, List.length_eq_zero_iff] at h0
      exact hne pl' hpl' h0
  simp only [hc, not_true_eq_false, ↓reduceIte, hemp]
  have hmax : ¬ (listMax (ps.map fun pl => listMax (pl.map listMax)) > 1) := by
    have : listMax (ps.map fun pl => listMax (pl.map listMax)) ≤ 1 := by
      apply listMax_le
      intro v hv
      obtain ⟨pl', hpl', rfl⟩ := List.mem_map.mp hv
      apply listMax_le
      intro w hw
      obtain ⟨ch', hch', rfl⟩ := List.mem_map.mp hw
      exact listMax_le _ _ (h01 pl' hpl' ch' hch')
    omega
  rw [sumNat_eq] at hsum
  have hov : overlapOfStack segs.length ps = .yes := by
    unfold overlapOfStack
    simp only []
    have hpos : ∃ v ∈ ch, 1 ≤ v := by
      by_contra hc2
      have hz : ∀ v ∈ ch, v = 0 := by
        intro v hv
        by_contra h0
        exact hc2 ⟨v, hv, by omega⟩
      have : ∀ l : List Nat, (∀ v ∈ l, v = 0) → l.sum = 0 := by
        intro l
        induction l with
        | nil => simp
        | cons b r ih => intro h; simp [h b (by simp), ih (fun v hv => h v (by simp [hv]))]
      rw [this ch hz] at hsum; omega
    obtain ⟨v, hv, hv1⟩ := hpos
    have hm := listMax_ge_of_mem₃ ps pl ch v hpl hch hv
    have h1 : ¬ (listMax (ps.map fun pl => listMax (pl.map listMax)) = 0) := by omega
    have h2 : ¬ (segs.length = 1) := by
      have := two_le_length_of_sum ch (h01 pl hpl ch hch) hsum
      rw [hlen pl hpl ch hch] at this; omega
    have h3 : (ps.any fun pl => pl.any fun ch => decide (sumNat ch > 1)) = true :=
      List.any_eq_true.mpr ⟨pl, hpl, List.any_eq_true.mpr ⟨ch, hch, by rw [sumNat_eq]; simpa using hsum⟩⟩
    simp only [h1, h2, ↓reduceIte, h3]
  simp only [castValues, hmax, ↓reduceIte, castLabelmap, hov]

theorem reject_mfv (codec : Option Codec) (rows cols : Nat) (segs : List Nat) (mfv : Nat) (omt : Bool)
    (order : List Nat) (m : Mask) (h : mfv < 1 ∨ 255 < mfv) :
    ∃ e, build codec rows cols .fractional segs mfv omt order m = .error e := by
  unfold build checkArgs
  cases checkSegs .fractional segs with
  | error e => exact ⟨e, rfl⟩
  | ok _ =>
    have := segMfvGuard_reject mfv h
    simp only [↓reduceIte, this]
    exact ⟨_, rfl⟩

theorem reject_encapsulated_binary (c : Codec) (hc : c.j2k = false) (rows cols : Nat) (segs : List Nat) (mfv : Nat)
    (omt : Bool) (order : List Nat) (m : Mask) :
    ∃ e, build (some c) rows cols .binary segs mfv omt order m = .error e := by
  unfold build checkArgs
  cases checkSegs .binary segs with
  | error e => exact ⟨e, rfl⟩
  | ok _ => simp [refusedForBinary, hc]

/-! ## worker pools: gathering results by position -/

theorem find_unique {β} (l : List (Nat × β)) (hnd : (l.map (·.1)).Nodup) (i : Nat) (b : β) (hm : (i, b) ∈ l) :
    l.find? (fun d => d.1 == i) = some (i, b) := by
  induction l with
  | nil => simp at hm
  | cons a t ih =>
    simp only [List.map_cons, List.nodup_cons] at hnd
    rcases List.mem_cons.mp hm with h | h
    · subst h; simp
    · have hne : a.1 ≠ i := by
        intro hc
        apply hnd.1
        rw [hc]
        exact List.mem_map.mpr ⟨(i, b), h, rfl⟩
      rw [List.find?_cons_of_neg (by simpa using hne)]
      exact ih hnd.2 h

theorem collect_aux {α β} (run : α → β) (done : List (Nat × β)) (hnd : (done.map (·.1)).Nodup) (tasks : List α) (k : Nat)
    (hall : ∀ j (hj : j < tasks.length), (k + j, run tasks[j]) ∈ done) :
    mapO (fun i => (done.find? (fun d => d.1 == i)).map (·.2)) (List.range' k tasks.length) = some (tasks.map run) := by
  induction tasks generalizing k with
  | nil => simp [mapO]
  | cons a t ih =>
    simp only [List.length_cons, List.range'_succ, mapO]
    have h0 := hall 0 (by simp)
    simp only [Nat.add_zero, List.getElem_cons_zero] at h0
    rw [find_unique done hnd k (run a) h0]
    have := ih (k + 1) (fun j hj => by
      have := hall (j + 1) (by simpa using hj)
      simpa [Nat.add_assoc, Nat.add_comm 1 j] using this)
    simp only [Option.map_some, this, List.map_cons]

end HdVerif.SegEncodeLemmas
