import HdVerif.Proofs.Coding
/-! C17: the hand-written dispatch of `Model/Coding.lean` (`objEq`, `objNe`, `fromCode` on concepts) follows exactly
the programs regenerated from the current source of `CodedConcept.__eq__`, `__ne__` and `from_code`
(`Gen.conceptEqPlan`, `Gen.conceptNeOf`, `Gen.fromCodePlan`).  A change of the `isinstance` test, of what `__ne__`
computes from `==`, or of the early return of `from_code` breaks one of these statements. -/
namespace HdVerif.Coding
open HdVerif HdVerif.Gen

def Obj.isCode : Obj → Bool
  | .code _ => true
  | .concept _ => false

/-- `CodedConcept.__eq__`: for both kinds of operand the model knows (pydicom `Code`, `CodedConcept`) the
regenerated program takes branch 0 = `Code.__eq__(Code(<eqThisArgs>), other)`, which is what `objEq` computes -/
theorem objEq_follows_plan (retired : String → String → Option String) (d : DS) (b : Obj) :
    conceptEqPlan b.isCode (!b.isCode) = .ok 0 ∧
    objEq retired (.concept d) b =
      (match conceptEqPlan b.isCode (!b.isCode) with
       | .ok 0 => (match thisOf d with
         | .error e => .error e
         | .ok this => codeEq retired this b)
       | _ => .error .other) := by
  have hp : conceptEqPlan b.isCode (!b.isCode) = .ok 0 := by
    unfold conceptEqPlan
    cases b <;> simp [Obj.isCode]
  refine ⟨hp, ?_⟩
  rw [hp]
  rfl

/-- `CodedConcept.__ne__` is the regenerated expression applied to the result of `==` -/
theorem objNe_follows_expression (retired : String → String → Option String) (d : DS) (b : Obj) :
    objNe retired (.concept d) b =
      (match objEq retired (.concept d) b with
       | .error e => .error e
       | .ok r => conceptNeOf r) := by
  unfold objNe conceptNeOf
  cases objEq retired (.concept d) b with
  | error e => rfl
  | ok r => simp [neNegatesEq]

/-- `CodedConcept.from_code`: a concept takes branch 0 (returned as it is), a `Code` branch 1 (`cls(*code)`),
and `fromCode` on a concept does what branch 0 says -/
theorem fromCode_follows_plan (d : DS) :
    fromCodePlan true = .ok 0 ∧ fromCodePlan false = .ok 1 ∧
    fromCode (.concept d) = (match fromCodePlan true with
      | .ok 0 => .ok (.concept d)
      | _ => .error .other) := by
  refine ⟨rfl, rfl, ?_⟩
  simp [fromCode, fromCodeReturnsSame, fromCodePlan]

end HdVerif.Coding
