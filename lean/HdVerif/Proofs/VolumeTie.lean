import HdVerif.Proofs.Volume
import HdVerif.Generated.T9h
import HdVerif.Generated.T9i
import HdVerif.Generated.T9j
import HdVerif.Generated.T9k
import HdVerif.Generated.T9l
/-! C08: bridges between hand-written definitions of `Model/Volume.lean` and the expressions of the current source
(regenerated targets T9h–T9l).  Existing proofs are untouched; each bridge says that the hand-written definition uses
exactly what the source says now.

* T9h `orientStep` — body of the loop of `to_patient_orientation`        ↔ `planAxis`, `orientPlan`
* T9i `orientOpposites`, `closestPosDirs`, `closestNegDirs`, `closestSign` ↔ `Dir.opp`, `posDir`, `negDir`, `dirOf`
* T9j `padValueTable` — the if-chain of `Volume.pad.pad_array`           ↔ `statOf` (and CONSTANT / EDGE)
* T9k `permGeomShape`, `permArrayAxes`, T9l `permAffineCols` — `permute_spatial_axes` / `_transform_affine_matrix`
  evaluated on label data for the six permutations                        ↔ `Geom.permute`, `permSrc` -/
namespace HdVerif.VolLemmas
open HdVerif HdVerif.Gen HdVerif.Vol

/-! ## orientation tables (T9i) -/

def dirName (d : Dir) : String := String.singleton d.toChar

def dirOfName (s : String) : Option Dir :=
  match s.toList with
  | [c] => Dir.ofChar c
  | _ => none

/-- `PATIENT_ORIENTATION_OPPOSITES[d]` according to the source -/
def srcOpp (d : Dir) : Option Dir := (orientOpposites.lookup (dirName d)).bind dirOfName

theorem opp_is_source_table (d : Dir) : srcOpp d = some d.opp := by cases d <;> decide

theorem posNeg_are_source_tables :
    closestPosDirs = [dirName (posDir .a0), dirName (posDir .a1), dirName (posDir .a2)] ∧
    closestNegDirs = [dirName (negDir .a0), dirName (negDir .a1), dirName (negDir .a2)] := by decide

/-- the sign test of `get_closest_patient_orientation` decides between the two tables exactly as `dirOf` does -/
theorem dirOf_uses_source_sign (v : V3) (r : Ax) :
    (closestSign (v.get r) = .ok 1 ∧ dirOf v r = posDir r) ∨ (closestSign (v.get r) = .ok 0 ∧ dirOf v r = negDir r) := by
  unfold closestSign dirOf
  by_cases h : v.get r > 0
  · left; simp [h]
  · right; simp [h]

/-! ## the loop of `to_patient_orientation` (T9h) -/

/-- one pass of the source's loop for desired direction `d` (the `position`-th): `d in current_orientation`,
`current_orientation.index(d)`, `current_orientation.index(PATIENT_ORIENTATION_OPPOSITES[d])` (ValueError when absent)
fed into the regenerated loop body.  The index not evaluated on a path is passed as 0. -/
def planAxisSrc (cur : Orient) (d : Dir) (position : Int) : Except ErrKind (Int × Bool × Int) :=
  match orientIndex cur d with
  | some k => orientStep true k 0 position
  | none =>
    match (srcOpp d).bind (orientIndex cur) with
    | some k => orientStep false 0 k position
    | none => .error .value

/-- `planAxis` is the source's loop body: same entry of `permute_indices`, same decision to flip — and the axis the
source puts into `flip_axes` is that same entry (the model flips axis `k` of the *input*, before permuting) -/
theorem planAxis_is_source_step (cur : Orient) (d : Dir) (position : Int) :
    planAxis cur d = (planAxisSrc cur d position).map (fun r => (r.1, r.2.1)) ∧
    ∀ p hf fl, planAxisSrc cur d position = .ok (p, hf, fl) → hf = true → fl = p := by
  unfold planAxis planAxisSrc orientStep
  rw [opp_is_source_table]
  cases h1 : orientIndex cur d with
  | some k => simp [Except.map]
  | none =>
    simp only [Option.bind_some]
    cases h2 : orientIndex cur d.opp with
    | some k =>
      refine ⟨by simp [Except.map], ?_⟩
      intro p hf fl h _
      simp only [Bool.false_eq_true, if_false, Except.ok.injEq, Prod.mk.injEq] at h
      obtain ⟨rfl, _, rfl⟩ := h
      rfl
    | none => exact ⟨by simp [Except.map], by intro p hf fl h; cases h⟩

/-- `orientPlan` is the source's loop run over the three desired directions, collecting `permute_indices` and `flip_axes` -/
theorem orientPlan_is_source_loop (cur des : Orient) :
    orientPlan cur des = (do
      let a ← planAxisSrc cur des.1 0
      let b ← planAxisSrc cur des.2.1 1
      let c ← planAxisSrc cur des.2.2 2
      pure ([a.1, b.1, c.1], (if a.2.1 then [a.2.2] else []) ++ (if b.2.1 then [b.2.2] else []) ++ (if c.2.1 then [c.2.2] else []))) := by
  have key : ∀ (d : Dir) (pos : Int), ∀ r, planAxisSrc cur d pos = .ok r → planAxis cur d = .ok (r.1, r.2.1) ∧ (r.2.1 = true → r.2.2 = r.1) := by
    intro d pos r hr
    obtain ⟨h1, h2⟩ := planAxis_is_source_step cur d pos
    rw [hr] at h1
    exact ⟨h1, fun hf => h2 r.1 r.2.1 r.2.2 hr hf⟩
  have kerr : ∀ (d : Dir) (pos : Int) e, planAxisSrc cur d pos = .error e → planAxis cur d = .error e := by
    intro d pos e he
    have := (planAxis_is_source_step cur d pos).1
    rw [he] at this
    exact this
  unfold orientPlan
  cases ha : planAxisSrc cur des.1 0 with
  | error e => simp [kerr _ _ _ ha, bind, Except.bind]
  | ok a =>
    obtain ⟨pa, fa⟩ := key _ _ _ ha
    cases hb : planAxisSrc cur des.2.1 1 with
    | error e => simp [pa, kerr _ _ _ hb, bind, Except.bind]
    | ok b =>
      obtain ⟨pb, fb⟩ := key _ _ _ hb
      cases hc : planAxisSrc cur des.2.2 2 with
      | error e => simp [pa, pb, kerr _ _ _ hc, bind, Except.bind]
      | ok c =>
        obtain ⟨pc, fc⟩ := key _ _ _ hc
        simp only [pa, pb, pc, bind, Except.bind, pure, Except.pure, Except.ok.injEq, Prod.mk.injEq, true_and]
        cases h1 : a.2.1 <;> cases h2 : b.2.1 <;> cases h3 : c.2.1 <;> simp_all

/-! ## padding values (T9j) -/

/-- the statistic the source computes for the mode with this enum name (if-chain of `pad_array`) -/
def srcStat (name : String) (l : List Rat) : Option Rat :=
  match padValueTable.lookup name with
  | some "min" => listMin l
  | some "max" => listMax l
  | some "mean" => listMean l
  | some "median" => listMedian l
  | _ => none

/-- `statOf` dispatches exactly as the if-chain of `pad_array` does now -/
theorem statOf_is_source_dispatch {name : String} {mode : PadMode} (hm : PadMode.parse name = some mode)
    (hs : isStat mode = true) (l : List Rat) : statOf mode l = srcStat name l := by
  unfold PadMode.parse at hm
  split at hm
  · cases hm; simp [isStat] at hs
  · split at hm
    · cases hm; simp [isStat] at hs
    · split at hm
      · rename_i h; subst h; cases hm; rfl
      · split at hm
        · rename_i h; subst h; cases hm; rfl
        · split at hm
          · rename_i h; subst h; cases hm; rfl
          · split at hm
            · rename_i h; subst h; cases hm; rfl
            · cases hm

/-- CONSTANT pads with the caller's value, EDGE hands no constant to numpy.pad -/
theorem constant_edge_source_dispatch :
    padValueTable.lookup "CONSTANT" = some "cval" ∧ padValueTable.lookup "EDGE" = none := by decide

/-! ## axis permutation (T9k, T9l) -/

def axOfNat (k : Nat) : Option Ax := Ax.ofInt (Int.ofNat k)

def permKey (q : Perm) : List Nat := [q.1.toInt.toNat, q.2.1.toInt.toNat, q.2.2.toInt.toNat]

/-- `Geom.permute` and `permSrc` do what the source does for each of the six permutations: the new sizes are the
old sizes picked as `VolumeGeometry.permute_spatial_axes` picks them, the new columns as `_transform_affine_matrix`
picks them, and output axis `k` of the array is the old axis `np.transpose` puts there — all three according to the
tables obtained by evaluating the current source on label data. -/
theorem permute_is_source_tables (g : Geom) (q : Perm) (hq : PermValid q) :
    (permGeomShape.lookup (permKey q)).map (fun rs => rs.filterMap (fun k => (axOfNat k).map g.size))
      = some [(g.permute q).n0, (g.permute q).n1, (g.permute q).n2] ∧
    (permAffineCols.lookup (permKey q)).map (fun rc => rc.filterMap (fun k => (axOfNat k).map g.col))
      = some [(g.permute q).c0, (g.permute q).c1, (g.permute q).c2] ∧
    ∀ j : I3, (permArrayAxes.lookup (permKey q)).map (fun ra => ra.filterMap (fun k => (axOfNat k).map (permSrc q j).get))
      = some [j.i0, j.i1, j.i2] := by
  obtain ⟨a, b, c⟩ := q
  obtain ⟨h1, h2, h3⟩ := hq
  cases a <;> cases b <;> cases c <;> simp at h1 h2 h3 <;> exact ⟨rfl, rfl, fun j => rfl⟩

/-- the three tables agree: geometry shape, affine columns and array axes are permuted alike -/
theorem permute_source_tables_agree : permGeomShape = permAffineCols ∧ permAffineCols = permArrayAxes := by decide

end HdVerif.VolLemmas
